------------------------------- MODULE GoMap -------------------------------
(***************************************************************************)
(* What the Go specification says about a map under any history of        *)
(* insert / update / delete / lookup / comma-ok lookup / len / range.      *)
(* Keys and values are abstract (the harness maps concrete string, int,   *)
(* float and bool keys to key indices; value index 0 is the zero value of *)
(* the element type).                                                      *)
(*                                                                         *)
(* Range bookkeeping uses incarnations: every insertion of a key that is  *)
(* not live creates a new entry <<k, inc[k]>>.  The Go specification:     *)
(*   - an entry removed before it is reached is never produced,           *)
(*   - an entry created during the loop is produced at most once,         *)
(*   - every entry that is live for the whole loop is produced exactly    *)
(*     once.                                                               *)
(* Ranges may nest (rs is a stack of active range statements).            *)
(***************************************************************************)
EXTENDS Integers, Sequences, FiniteSets

CONSTANTS Keys,      \* set of key indices
          Vals,      \* set of non-zero value indices that may be stored
          NoVal      \* marker: key not live

VARIABLES m,   \* [Keys -> Vals \cup {0, NoVal}]
          inc, \* [Keys -> Nat]  incarnation counter
          rs   \* stack of active ranges: [start, del, yld : SUBSET (Keys \X Nat)]

mapVars == <<m, inc, rs>>

Live == {k \in Keys : m[k] # NoVal}
Entry(k) == <<k, inc[k]>>

MapInit == /\ m = [k \in Keys |-> NoVal]
           /\ inc = [k \in Keys |-> 0]
           /\ rs = <<>>

Set(k, v) == /\ m' = [m EXCEPT ![k] = v]
             /\ inc' = IF m[k] = NoVal THEN [inc EXCEPT ![k] = @ + 1] ELSE inc
             /\ UNCHANGED rs

Delete(k) == /\ m' = [m EXCEPT ![k] = NoVal]
             /\ rs' = IF m[k] = NoVal THEN rs
                      ELSE [i \in DOMAIN rs |-> [rs[i] EXCEPT !.del = @ \cup {Entry(k)}]]
             /\ UNCHANGED inc

\* results of the read-only operations
GetVal(k) == IF m[k] = NoVal THEN 0 ELSE m[k]
GetOk(k)  == m[k] # NoVal
LenVal    == Cardinality(Live)

RangeStart == /\ rs' = Append(rs, [start |-> {Entry(k) : k \in Live}, del |-> {}, yld |-> {}])
              /\ UNCHANGED <<m, inc>>

\* the loop produces key k (with its current value m[k])
RangeYield(k) == /\ rs # <<>>
                 /\ m[k] # NoVal
                 /\ Entry(k) \notin rs[Len(rs)].yld
                 /\ rs' = [rs EXCEPT ![Len(rs)].yld = @ \cup {Entry(k)}]
                 /\ UNCHANGED <<m, inc>>

\* the loop terminates normally: nothing that was live throughout was skipped
RangeEnd == /\ rs # <<>>
            /\ (rs[Len(rs)].start \ rs[Len(rs)].del) \subseteq rs[Len(rs)].yld
            /\ rs' = SubSeq(rs, 1, Len(rs) - 1)
            /\ UNCHANGED <<m, inc>>

\* break / return out of the loop
RangeBreak == /\ rs # <<>>
              /\ rs' = SubSeq(rs, 1, Len(rs) - 1)
              /\ UNCHANGED <<m, inc>>

Read == UNCHANGED mapVars

MapNext == \/ \E k \in Keys, v \in Vals \cup {0} : Set(k, v)
           \/ \E k \in Keys : Delete(k)
           \/ Read
           \/ RangeStart
           \/ \E k \in Keys : RangeYield(k)
           \/ RangeEnd
           \/ RangeBreak

-----------------------------------------------------------------------------
(* Properties of the specification itself (checked by TLC in MC_GoMap).    *)

TypeOK == /\ m \in [Keys -> Vals \cup {0, NoVal}]
          /\ \A k \in Keys : inc[k] \in Nat
          /\ \A i \in DOMAIN rs : rs[i].yld \subseteq (Keys \X Nat)

\* Nothing that is not (or no longer) an entry of the map is ever marked produced,
\* and an entry is marked at most once (yld is a set and RangeYield requires absence).
YieldedWereEntries ==
    \A i \in DOMAIN rs : \A e \in rs[i].yld : e[2] <= inc[e[1]] /\ e[2] >= 1

\* An entry deleted during a loop before being produced can never be produced later:
\* its incarnation number is dead.
DeadStaysDead ==
    \A i \in DOMAIN rs : \A e \in rs[i].del :
        (e \notin rs[i].yld) => (inc[e[1]] > e[2] \/ m[e[1]] = NoVal)
=============================================================================
