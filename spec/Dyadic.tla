------------------------------- MODULE Dyadic -------------------------------
(***************************************************************************)
(* float64 arithmetic on values where IEEE-754 is EXACT (C04).             *)
(*                                                                         *)
(* A finite value is m * 2^e with an odd (or zero) integer mantissa m of   *)
(* small magnitude; the other values are the symbols -0, +Inf, -Inf, NaN.  *)
(* For such operands + - * are exact (no rounding can occur while the      *)
(* result's mantissa stays far below 2^53), / is exact when the divisor's  *)
(* mantissa divides the dividend's (in particular for powers of two), and  *)
(* comparisons, negation, conversions to and from integers are exact by    *)
(* definition.  The rules for signed zeros, infinities and NaN are those   *)
(* of IEEE-754 round-to-nearest, which Go's float64 follows.               *)
(* Operations whose result would not be exact return [k |-> "inexact"]:    *)
(* the harness never asks for them (it filters with the same rule).        *)
(* TLC integers are 32-bit: operands are kept below 2^15 and exponents in  *)
(* -6..6 by the harness, so no intermediate exceeds 2^30.                  *)
(***************************************************************************)
EXTENDS Integers

Fin(m, e) == [k |-> "fin", m |-> m, e |-> e]
PZero == Fin(0, 0)
NZero == [k |-> "nzero", m |-> 0, e |-> 0]
PInf  == [k |-> "pinf", m |-> 0, e |-> 0]
NInf  == [k |-> "ninf", m |-> 0, e |-> 0]
NaN   == [k |-> "nan", m |-> 0, e |-> 0]
Inexact == [k |-> "inexact", m |-> 0, e |-> 0]

RECURSIVE Norm(_, _)
Norm(m, e) == IF m = 0 THEN PZero ELSE IF m % 2 = 0 THEN Norm(m \div 2, e + 1) ELSE Fin(m, e)

RECURSIVE Pow2(_)
Pow2(n) == IF n = 0 THEN 1 ELSE 2 * Pow2(n - 1)

IsZero(a) == a.k = "nzero" \/ (a.k = "fin" /\ a.m = 0)
IsInf(a)  == a.k \in {"pinf", "ninf"}
IsNaN(a)  == a.k = "nan"
\* TRUE iff the sign bit is set
Negative(a) == a.k \in {"nzero", "ninf"} \/ (a.k = "fin" /\ a.m < 0)
Zero(neg) == IF neg THEN NZero ELSE PZero
Inf(neg)  == IF neg THEN NInf ELSE PInf

Neg(a) == CASE a.k = "nan"   -> NaN
            [] a.k = "pinf"  -> NInf
            [] a.k = "ninf"  -> PInf
            [] a.k = "nzero" -> PZero
            [] a.m = 0       -> NZero
            [] OTHER         -> Fin(-a.m, a.e)

Min(x, y) == IF x < y THEN x ELSE y
\* both finite (zeros included), aligned to the smaller exponent
Aligned(a, b) == LET e0 == Min(a.e, b.e) IN <<a.m * Pow2(a.e - e0), b.m * Pow2(b.e - e0), e0>>

Add(a, b) ==
    CASE IsNaN(a) \/ IsNaN(b) -> NaN
      [] IsInf(a) /\ IsInf(b) -> IF a.k = b.k THEN a ELSE NaN
      [] IsInf(a) -> a
      [] IsInf(b) -> b
      [] IsZero(a) /\ IsZero(b) -> Zero(Negative(a) /\ Negative(b))      \* -0 + -0 = -0, otherwise +0
      [] IsZero(a) -> b
      [] IsZero(b) -> a
      [] OTHER -> LET al == Aligned(a, b) IN Norm(al[1] + al[2], al[3])   \* x + (-x) = +0
Sub(a, b) == Add(a, Neg(b))

Mul(a, b) ==
    LET neg == (Negative(a) /\ ~Negative(b)) \/ (~Negative(a) /\ Negative(b)) IN
    CASE IsNaN(a) \/ IsNaN(b) -> NaN
      [] (IsInf(a) /\ IsZero(b)) \/ (IsZero(a) /\ IsInf(b)) -> NaN
      [] IsInf(a) \/ IsInf(b) -> Inf(neg)
      [] IsZero(a) \/ IsZero(b) -> Zero(neg)
      [] OTHER -> Norm(a.m * b.m, a.e + b.e)

Abs(x) == IF x < 0 THEN -x ELSE x
Quo(a, b) ==
    LET neg == (Negative(a) /\ ~Negative(b)) \/ (~Negative(a) /\ Negative(b)) IN
    CASE IsNaN(a) \/ IsNaN(b) -> NaN
      [] IsInf(a) /\ IsInf(b) -> NaN
      [] IsZero(a) /\ IsZero(b) -> NaN
      [] IsInf(a) -> Inf(neg)
      [] IsInf(b) -> Zero(neg)
      [] IsZero(b) -> Inf(neg)                                            \* x / 0 = +-Inf, no run-time error
      [] IsZero(a) -> Zero(neg)
      [] Abs(b.m) = 1 -> Norm(a.m * b.m, a.e - b.e)
      [] Abs(a.m) % Abs(b.m) = 0 -> Norm((IF neg THEN -1 ELSE 1) * (Abs(a.m) \div Abs(b.m)), a.e - b.e)
      [] OTHER -> Inexact

\* comparisons: any comparison with NaN is false except !=
Less(a, b) ==
    CASE IsNaN(a) \/ IsNaN(b) -> FALSE
      [] a.k = "ninf" -> b.k # "ninf"
      [] b.k = "pinf" -> a.k # "pinf"
      [] a.k = "pinf" \/ b.k = "ninf" -> FALSE
      [] OTHER -> LET al == Aligned(a, b) IN al[1] < al[2]                 \* zeros of either sign have m = 0
Eq(a, b) ==
    CASE IsNaN(a) \/ IsNaN(b) -> FALSE
      [] IsInf(a) \/ IsInf(b) -> a.k = b.k
      [] OTHER -> LET al == Aligned(a, b) IN al[1] = al[2]
Cmp(op, a, b) ==
    CASE op = "==" -> Eq(a, b)
      [] op = "!=" -> ~Eq(a, b)
      [] op = "<"  -> Less(a, b)
      [] op = "<=" -> Less(a, b) \/ Eq(a, b)
      [] op = ">"  -> Less(b, a)
      [] op = ">=" -> Less(b, a) \/ Eq(a, b)

Bin(op, a, b) == CASE op = "+" -> Add(a, b) [] op = "-" -> Sub(a, b) [] op = "*" -> Mul(a, b) [] op = "/" -> Quo(a, b)

\* conversion to an integer type: truncation toward zero (finite, in range: the harness keeps it so)
TruncInt(a) == IF IsZero(a) THEN 0
               ELSE IF a.e >= 0 THEN a.m * Pow2(a.e)
               ELSE IF a.m >= 0 THEN a.m \div Pow2(-a.e) ELSE -((-a.m) \div Pow2(-a.e))
FromInt(v) == Norm(v, 0)
=============================================================================
