SPECIFICATION Spec
CONSTANTS ValueFile = "values.json"
INVARIANTS SliceLaw Emit
CHECK_DEADLOCK FALSE
