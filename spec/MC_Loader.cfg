SPECIFICATION Spec
CONSTANT N = 4
INVARIANT ImplRefinesSpec
CHECK_DEADLOCK FALSE
