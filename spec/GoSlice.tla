------------------------------ MODULE GoSlice ------------------------------
(***************************************************************************)
(* Go slices (C11): a pool of slice variables over shared backing arrays.  *)
(*   - a sub-slice shares the array of its operand;                        *)
(*   - append within the capacity writes in place (visible through every   *)
(*     alias that covers the index) and beyond it allocates a new array -  *)
(*     with ANY capacity >= the needed length (the growth policy is the    *)
(*     implementation's business: it is the one nondeterministic choice)   *)
(*     and leaves the old array untouched;                                 *)
(*   - copy moves min(len(dst), len(src)) elements, overlap-safe;          *)
(*   - indexing or slicing out of range is a run-time panic;               *)
(*   - a nil slice has length 0 and can be ranged, measured and appended.  *)
(* Element values are integers (the harness maps the element type's zero   *)
(* value to 0).                                                             *)
(***************************************************************************)
EXTENDS Integers, Sequences, FiniteSets

CONSTANTS NV,        \* number of slice variables in the pool
          MaxSlack   \* a growing append allocates a capacity between needed and 2*needed + MaxSlack

\* The capacity of an array is never observed directly; all that matters is whether a later append still
\* fits.  So the model keeps, per array, what is KNOWN about its capacity: lo <= cap < hi.  An append that
\* certainly fits (end <= lo) writes in place, one that certainly does not (end >= hi) reallocates, and
\* only an append in between is a nondeterministic choice - which then sharpens the bounds.
VARIABLES arrays,  \* sequence of [elems: sequence of integers written so far, lo, hi]
          sv       \* [1..NV -> [arr, off, len]]; arr = 0: nil slice
gsVars == <<arrays, sv>>

NilS == [arr |-> 0, off |-> 0, len |-> 0]
GSInit == arrays = <<>> /\ sv = [v \in 1..NV |-> NilS]

Zeros(n) == [i \in 1..n |-> 0]
ContentsOf(s, arrs) == IF s.arr = 0 THEN <<>> ELSE SubSeq(arrs[s.arr].elems, s.off + 1, s.off + s.len)
Contents(v) == ContentsOf(sv[v], arrays)

NewArr(elems, lo, hi) == [elems |-> elems, lo |-> lo, hi |-> hi]

Make(v, n) == /\ arrays' = Append(arrays, NewArr(Zeros(n), n, n + 1))
              /\ sv' = [sv EXCEPT ![v] = [arr |-> Len(arrays) + 1, off |-> 0, len |-> n]]
Lit(v, elems) == /\ arrays' = Append(arrays, NewArr(elems, Len(elems), Len(elems) + 1))
                 /\ sv' = [sv EXCEPT ![v] = [arr |-> Len(arrays) + 1, off |-> 0, len |-> Len(elems)]]
SetNil(v) == sv' = [sv EXCEPT ![v] = NilS] /\ UNCHANGED arrays
Assign(v, src) == sv' = [sv EXCEPT ![v] = sv[src]] /\ UNCHANGED arrays

\* s[i:j] with 0 <= i <= j <= cap(s).  Within the length this always succeeds.  Beyond the length it
\* succeeds iff the backing array is large enough, of which only lo <= cap < hi is known: certain when
\* off + j <= lo, impossible when off + j >= hi, otherwise either outcome is admissible (and a success
\* sharpens lo).  Positions of the array that were never written hold the zero value.
SubOK(src, i, j) == /\ 0 <= i /\ i <= j
                    /\ IF sv[src].arr = 0 THEN j = 0 ELSE sv[src].off + j <= arrays[sv[src].arr].lo
SubPossible(src, i, j) == /\ 0 <= i /\ i <= j
                          /\ IF sv[src].arr = 0 THEN j = 0 ELSE sv[src].off + j < arrays[sv[src].arr].hi
Sub(v, src, i, j) ==
    /\ SubPossible(src, i, j)
    /\ sv' = [sv EXCEPT ![v] = IF sv[src].arr = 0 THEN NilS
                               ELSE [arr |-> sv[src].arr, off |-> sv[src].off + i, len |-> j - i]]
    /\ IF sv[src].arr = 0 THEN UNCHANGED arrays
       ELSE LET a == arrays[sv[src].arr]
                end == sv[src].off + j
            IN arrays' = [arrays EXCEPT ![sv[src].arr] =
                   [elems |-> IF end > Len(a.elems) THEN a.elems \o Zeros(end - Len(a.elems)) ELSE a.elems,
                    lo |-> IF end > a.lo THEN end ELSE a.lo, hi |-> a.hi]]

WriteOK(v, i) == 0 <= i /\ i < sv[v].len
Write(v, i, x) == /\ WriteOK(v, i)
                  /\ arrays' = [arrays EXCEPT ![sv[v].arr].elems[sv[v].off + i + 1] = x]
                  /\ UNCHANGED sv

\* in-place append: the elements land at absolute positions off+len+1 .. end (extending what has been
\* written so far if necessary); every alias covering these positions sees them
InPlace(v, s, items, end) ==
    LET old == arrays[s.arr].elems
        start == s.off + s.len
        newElems == [i \in 1..(IF end > Len(old) THEN end ELSE Len(old)) |->
                        IF i > start /\ i <= end THEN items[i - start] ELSE IF i <= Len(old) THEN old[i] ELSE 0]
    IN /\ arrays' = [arrays EXCEPT ![s.arr] = [elems |-> newElems, lo |-> IF end > @.lo THEN end ELSE @.lo, hi |-> @.hi]]
       /\ sv' = [sv EXCEPT ![v] = [s EXCEPT !.len = s.len + Len(items)]]
Realloc(v, s, items, end) ==
    LET need == s.len + Len(items) IN
    /\ arrays' = Append(IF s.arr = 0 THEN arrays ELSE [arrays EXCEPT ![s.arr].hi = IF end < @ THEN end ELSE @],
                        NewArr(ContentsOf(s, arrays) \o items, need, 2 * need + MaxSlack + 1))
    /\ sv' = [sv EXCEPT ![v] = [arr |-> Len(arrays) + 1, off |-> 0, len |-> need]]

\* v = append(src, items...)
AppendTo(v, src, items) ==
    LET s == sv[src]
        end == s.off + s.len + Len(items)
    IN IF Len(items) = 0 THEN sv' = [sv EXCEPT ![v] = s] /\ UNCHANGED arrays
       ELSE IF s.arr = 0 THEN Realloc(v, s, items, end)
       ELSE IF end <= arrays[s.arr].lo THEN InPlace(v, s, items, end)
       ELSE IF end >= arrays[s.arr].hi THEN Realloc(v, s, items, end)
       ELSE InPlace(v, s, items, end) \/ Realloc(v, s, items, end)

\* copy(dst, src): min(len(dst), len(src)) elements, as if through a temporary (overlap-safe)
CopyTo(dst, src) ==
    LET d == sv[dst]
        elems == Contents(src)
        n == IF Len(elems) < d.len THEN Len(elems) ELSE d.len
    IN /\ IF n = 0 THEN UNCHANGED arrays
          ELSE arrays' = [arrays EXCEPT ![d.arr].elems = [i \in DOMAIN @ |-> IF i > d.off /\ i <= d.off + n THEN elems[i - d.off] ELSE @[i]]]
       /\ UNCHANGED sv

\* ---- invariants of the model itself
TypeOK == \A v \in 1..NV : sv[v].arr = 0 \/
             (sv[v].arr \in 1..Len(arrays) /\ sv[v].off + sv[v].len <= Len(arrays[sv[v].arr].elems)
              /\ arrays[sv[v].arr].lo < arrays[sv[v].arr].hi /\ sv[v].off + sv[v].len <= arrays[sv[v].arr].lo)
=============================================================================
