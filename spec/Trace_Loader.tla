---- MODULE Trace_Loader ----
(* M3 for C15: one trace per real Load of a materialised import graph.                           *)
(*   graph line: imp (record: package -> sequence of imports), root, units (record: package ->   *)
(*               sequence of <<file, kind>>), conflict                                            *)
(*   run line:   a marker printed by package p, file f, kind "var" | "init" (stale = TRUE when the *)
(*               marker saw an uninitialised variable of an imported package)                     *)
(*   end line:   outcome "ok" | "error"                                                           *)
EXTENDS Loader, TLC, Json
CONSTANT TraceFile
Trace == ndJsonDeserialize(TraceFile)
VARIABLES l, nbad
tvars == <<lsVars, l, nbad>>
Ev == Trace[l]
SeqSet(s) == {s[i] : i \in DOMAIN s}
Bad == PrintT(<<"BAD", ToString(l)>>) /\ nbad' = nbad + 1

TGraph == /\ l <= Len(Trace) /\ Ev.ev = "graph"
          /\ imp' = [p \in DOMAIN Ev.imp |-> SeqSet(Ev.imp[p]) \cap DOMAIN Ev.imp]
          /\ root' = Ev.root
          /\ units' = [p \in DOMAIN Ev.units |-> {<<Ev.units[p][i][1], Ev.units[p][i][2]>> : i \in DOMAIN Ev.units[p]}]
          /\ conflict' = Ev.conflict
          /\ ran' = {} /\ result' = "running"
          /\ l' = l + 1 /\ UNCHANGED nbad
TRun == /\ l <= Len(Trace) /\ Ev.ev = "run"
        /\ l' = l + 1
        /\ IF CanRun(Ev.p, Ev.f, Ev.kind) /\ ~Ev.stale
           THEN RunUnit(Ev.p, Ev.f, Ev.kind) /\ UNCHANGED nbad
           ELSE Bad /\ ran' = ran \cup {<<Ev.p, Ev.f, Ev.kind>>} /\ UNCHANGED <<imp, root, units, conflict, result>>
TEnd == /\ l <= Len(Trace) /\ Ev.ev = "end"
        /\ l' = l + 1
        /\ result' = Ev.outcome
        /\ UNCHANGED <<imp, root, units, conflict, ran>>
        /\ IF (Ev.outcome = "ok" /\ CanEndOk) \/ (Ev.outcome = "error" /\ CanEndError)
           THEN UNCHANGED nbad ELSE Bad
TraceInit == /\ imp = [p \in {} |-> {}] /\ root = "" /\ units = [p \in {} |-> {}] /\ conflict = FALSE
             /\ ran = {} /\ result = "ok" /\ l = 1 /\ nbad = 0
TraceSpec == TraceInit /\ [][TGraph \/ TRun \/ TEnd]_tvars
TraceAccepted == LET d == TLCGet("stats").diameter IN
                 /\ PrintT(<<"DIAM", ToString(d)>>)
                 /\ d - 1 = Len(Trace)
====
