-------------------------------- MODULE Embed --------------------------------
(***************************************************************************)
(* The native-call protocol of the embedding API (C19), on an abstract     *)
(* operand stack.                                                          *)
(*                                                                         *)
(* A call site pushes `below` unrelated operands (the rest of an enclosing *)
(* expression), then the arguments in order.  The native registered with   *)
(* NewFunc form `form` and declared arity `argc` SEES exactly the pushed   *)
(* arguments in push order (a variadic native: the fixed ones, then the    *)
(* surplus ones as its variadic tail - or, for a spread call f(a, xs...),  *)
(* the elements of xs).  Its `prod` results are appended in order; the     *)
(* call site keeps the first `req` of them (requested results); asking for *)
(* more than were produced is an error.  Operands below are untouched.     *)
(* A native that raises ends the outermost host call with an error.        *)
(***************************************************************************)
EXTENDS Integers, Sequences, TLC, Json

Forms == {"0to0", "0to1", "Nto0", "Nto1", "NtoM", "NVtoM"}

\* the number of results each form can produce
ProdOK(form, prod) == CASE form \in {"0to0", "Nto0"} -> prod = 0
                        [] form \in {"0to1", "Nto1"} -> prod = 1
                        [] OTHER -> prod \in 0..4
\* the arities each form accepts: argc = declared parameters (for NVtoM: fixed parameters)
ArgcOK(form, argc) == IF form \in {"0to0", "0to1"} THEN argc = 0 ELSE argc \in 0..6

VARIABLES form, argc, nargs, spread, prod, req, below, raise,   \* the case (constant during a behaviour)
          stack, pc, seen, outcome
evars == <<form, argc, nargs, spread, prod, req, below, raise, stack, pc, seen, outcome>>
caseVars == <<form, argc, nargs, spread, prod, req, below, raise>>

Arg(i) == 100 + i          \* distinguishable argument values
Res(i) == 200 + i          \* distinguishable results
Below(i) == 10 + i         \* operands of the enclosing expression

EInit == /\ form \in Forms
         /\ argc \in 0..6 /\ ArgcOK(form, argc)
         /\ prod \in 0..4 /\ ProdOK(form, prod)
         /\ req \in 0..(prod + 1)
         /\ below \in 0..2
         /\ raise \in BOOLEAN
         /\ spread \in BOOLEAN /\ (spread => form = "NVtoM")
         \* number of arguments written at the call site: exactly argc, or argc + 0..3 surplus for variadics
         /\ nargs \in 0..9
         /\ IF form = "NVtoM" THEN nargs \in argc..(argc + 3) ELSE nargs = argc
         /\ stack = <<>> /\ pc = "pushBelow" /\ seen = <<>> /\ outcome = "running"

PushBelow == /\ pc = "pushBelow"
             /\ stack' = [i \in 1..below |-> Below(i)]
             /\ pc' = "pushArgs"
             /\ UNCHANGED <<caseVars, seen, outcome>>

\* arguments are pushed one at a time, in source order
PushArg == /\ pc = "pushArgs" /\ Len(stack) < below + nargs
           /\ stack' = Append(stack, Arg(Len(stack) - below + 1))
           /\ UNCHANGED <<caseVars, pc, seen, outcome>>
ArgsDone == /\ pc = "pushArgs" /\ Len(stack) = below + nargs
            /\ pc' = "invoke"
            /\ UNCHANGED <<caseVars, stack, seen, outcome>>

\* the native is entered: it sees the top nargs operands, which leave the stack
Invoke == /\ pc = "invoke"
          /\ seen' = SubSeq(stack, below + 1, below + nargs)
          /\ stack' = SubSeq(stack, 1, below)
          /\ pc' = IF raise THEN "raised" ELSE "return"
          /\ UNCHANGED <<caseVars, outcome>>

NativeRaises == /\ pc = "raised"
                /\ outcome' = "error" /\ pc' = "done"
                /\ UNCHANGED <<caseVars, stack, seen>>

\* results are appended in order, then the call site keeps the first req
NativeReturns == /\ pc = "return"
                 /\ stack' = stack \o [i \in 1..prod |-> Res(i)]
                 /\ pc' = "trim"
                 /\ UNCHANGED <<caseVars, seen, outcome>>
Trim == /\ pc = "trim"
        /\ IF req > prod
           THEN outcome' = "error" /\ UNCHANGED stack
           ELSE outcome' = "ok" /\ stack' = SubSeq(stack, 1, below + req)
        /\ pc' = "done"
        /\ UNCHANGED <<caseVars, seen>>

ENext == PushBelow \/ PushArg \/ ArgsDone \/ Invoke \/ NativeRaises \/ NativeReturns \/ Trim
ESpec == EInit /\ [][ENext]_evars

\* what the native must have seen: fixed arguments, then the variadic tail
SeenFixed == SubSeq(seen, 1, IF form = "NVtoM" THEN argc ELSE nargs)
SeenTail  == IF form = "NVtoM" THEN SubSeq(seen, argc + 1, nargs) ELSE <<>>

-----------------------------------------------------------------------------
\* invariants of the protocol
BelowUntouched == pc \notin {"pushBelow"} => SubSeq(stack, 1, below) = [i \in 1..below |-> Below(i)]
DoneShape == pc = "done" /\ outcome = "ok" => Len(stack) = below + req
SeenInOrder == pc \in {"return", "raised", "trim", "done"} => seen = [i \in 1..nargs |-> Arg(i)]

\* emission of one record per completed case
Emit == pc = "done" =>
    PrintT(<<"BEH", ToJson([form |-> form, argc |-> argc, nargs |-> nargs, spread |-> spread, prod |-> prod, req |-> req,
                              below |-> below, raise |-> raise, fixed |-> SeenFixed, tail |-> SeenTail,
                              outcome |-> outcome, stack |-> stack])>>)
=============================================================================
