------------------------------- MODULE MiniGo -------------------------------
(***************************************************************************)
(* A small-step (CEK-style) semantics of the Go subset that goatlang       *)
(* claims to run as Go runs it.  It is the oracle of C01, C06, C08, C09,   *)
(* C11, C13, C16, C17, C18 and C20: what a program prints, in which order, *)
(* and whether (and where) it dies with a run-time panic.                  *)
(*                                                                         *)
(* Programs are constants: Progs[p].nodes is a flat table of AST nodes     *)
(* (children are node indices) produced by the harness's typed generator,  *)
(* which also prints the same AST as goatlang source and as real Go for    *)
(* calibration.  The machine state S is a record                           *)
(*    ctl    the continuation: a stack of work items (head = next)         *)
(*    vals   operand values (head = last pushed)                           *)
(*    scopes the scope chain of the running function (head = innermost)    *)
(*    glob   package-level variables                                       *)
(*    heap   backing arrays, maps and struct instances (index = identity)  *)
(*    out    the print events so far                                       *)
(*    status running / done / panic(kind, line, function, call chain)      *)
(*    ch     the test inputs consumed so far (results of choice())         *)
(* Nondeterminism exists only where these programs have it: the value      *)
(* returned by choice(n).  TLC explores every choice path.                 *)
(*                                                                         *)
(* Integers follow FixedWidth (uint32 as bit patterns); strings are byte   *)
(* sequences (GoString).  Constants carry the type the Go type checker     *)
(* gives them: the generator is typed and calibrated against the Go        *)
(* toolchain.                                                              *)
(***************************************************************************)
EXTENDS GoString, GoStrLib, FiniteSets, TLC, Json

CONSTANT ProgFile
Progs == JsonDeserialize(ProgFile)

VARIABLES p, st
mvars == <<p, st>>

Nodes == Progs[p].nodes
N(n) == Progs[p].nodes[n]
Fn(name) == Progs[p].funcs[name]

\* ---------------------------------------------------------------- values
IntV(ty, v) == [t |-> "int", ty |-> ty, v |-> v]
BoolV(b)    == [t |-> "bool", b |-> b]
StrV(s)     == [t |-> "str", s |-> s]
NilV        == [t |-> "nil"]
SliceV(id, off, len, cap) == [t |-> "slice", id |-> id, off |-> off, len |-> len, cap |-> cap]
MapV(id)    == [t |-> "map", id |-> id]
PtrV(id)    == [t |-> "ptr", id |-> id]
FuncV(f)    == [t |-> "func", f |-> f]
BoundV(f, recv) == [t |-> "bound", f |-> f, recv |-> recv]

\* zero value described by a node [k |-> "zero", zt, ty]
ZeroOf(z) ==
    CASE z.zt = "int"   -> IntV(z.ty, 0)
      [] z.zt = "bool"  -> BoolV(FALSE)
      [] z.zt = "str"   -> StrV(<<>>)
      [] z.zt = "slice" -> SliceV(0, 0, 0, 0)
      [] z.zt = "map"   -> MapV(0)
      [] z.zt = "ptr"   -> PtrV(0)
      [] z.zt = "func"  -> FuncV("")
      [] OTHER          -> NilV

IsNilVal(x) == CASE x.t = "nil" -> TRUE
                 [] x.t \in {"slice", "map", "ptr"} -> x.id = 0
                 [] x.t = "func" -> x.f = ""
                 [] OTHER -> FALSE

\* == on comparable values
ValEq(a, b) ==
    IF a.t = "nil" \/ b.t = "nil" THEN IsNilVal(a) /\ IsNilVal(b)
    ELSE IF a.t # b.t THEN FALSE
    ELSE CASE a.t = "int"  -> a.v = b.v
           [] a.t = "bool" -> a.b = b.b
           [] a.t = "str"  -> a.s = b.s
           [] a.t = "ptr"  -> a.id = b.id
           [] a.t = "func" -> a.f = b.f
           [] a.t \in {"slice", "map"} -> IsNilVal(a) /\ IsNilVal(b)    \* only comparable with nil
           [] OTHER -> FALSE

CmpOpsM == {"==", "!=", "<", "<=", ">", ">="}
PanicV(kind) == [t |-> "panic", kind |-> kind]

BinResult(op, a, b) ==
    IF a.t = "str" /\ b.t = "str" THEN
        CASE op = "+"  -> StrV(a.s \o b.s)
          [] op = "==" -> BoolV(a.s = b.s)
          [] op = "!=" -> BoolV(a.s # b.s)
          [] op = "<"  -> BoolV(BytesLess(a.s, b.s))
          [] op = "<=" -> BoolV(a.s = b.s \/ BytesLess(a.s, b.s))
          [] op = ">"  -> BoolV(BytesLess(b.s, a.s))
          [] op = ">=" -> BoolV(a.s = b.s \/ BytesLess(b.s, a.s))
    ELSE IF op \in {"==", "!="} /\ ~(a.t = "int" /\ b.t = "int") THEN
        BoolV(IF op = "==" THEN ValEq(a, b) ELSE ~ValEq(a, b))
    ELSE IF op \in CmpOpsM THEN BoolV(Cmp(a.ty, op, a.v, b.v))
    ELSE IF op \in {"/", "%"} /\ b.v = 0 THEN PanicV("integer divide by zero")
    ELSE IF op \in {"<<", ">>"} /\ b.v < 0 /\ b.ty \in {"int8", "int32"} THEN PanicV("negative shift amount")
    ELSE IntV(a.ty, Bin(a.ty, op, a.v, b.v))

\* ---------------------------------------------------------------- scopes
RECURSIVE FindScope(_, _, _)
FindScope(sc, name, i) ==
    IF i > Len(sc) THEN 0
    ELSE IF name \in DOMAIN sc[i] THEN i
    ELSE FindScope(sc, name, i + 1)
EmptyScope == [x \in {} |-> NilV]
Bind(sc, name, v) == [x \in DOMAIN sc \cup {name} |-> IF x = name THEN v ELSE sc[x]]
Declare(sc, name, v) == IF name = "_" THEN sc ELSE <<Bind(Head(sc), name, v)>> \o Tail(sc)
RECURSIVE DeclareAll(_, _, _)
DeclareAll(sc, names, vs) ==
    IF names = <<>> THEN sc ELSE DeclareAll(Declare(sc, Head(names), Head(vs)), Tail(names), Tail(vs))
\* keep the outermost d scopes (scopes are pushed at the head)
KeepScopes(sc, d) == SubSeq(sc, Len(sc) - d + 1, Len(sc))

Lookup(S, name) == LET i == FindScope(S.scopes, name, 1) IN
                   IF i > 0 THEN S.scopes[i][name] ELSE S.glob[name]
\* assignment to a plain name: nearest enclosing binding, else the package-level variable
SetVar(S, name, v) ==
    IF name = "_" THEN S
    ELSE LET i == FindScope(S.scopes, name, 1) IN
         IF i > 0 THEN [S EXCEPT !.scopes[i] = Bind(@, name, v)]
         ELSE [S EXCEPT !.glob = Bind(@, name, v)]

\* ---------------------------------------------------------------- fmt.Sprint / fmt.Sprintf on scalars
\* %v rendering of a string, boolean or signed / 8-bit integer value (bytes)
RenderV(v) == CASE v.t = "str"  -> v.s
                [] v.t = "bool" -> IF v.b THEN <<116, 114, 117, 101>> ELSE <<102, 97, 108, 115, 101>>
                [] v.t = "int"  -> LibItoa(v.v)
\* a reference to a struct with scalar fields: &{Name:value ...}, fields in the order of the type's declaration
RECURSIVE ShowFrom(_, _, _)
ShowFrom(order, f, i) == IF i > Len(order) THEN <<>>
                         ELSE (IF i > 1 THEN <<32>> ELSE <<>>) \o order[i].b \o <<58>> \o RenderV(f[order[i].n]) \o ShowFrom(order, f, i + 1)
ShowStruct(order, f) == <<38, 123>> \o ShowFrom(order, f, 1) \o <<125>>
\* Sprint: operands are separated by a space when neither neighbour is a string
RECURSIVE SprintFrom(_, _)
SprintFrom(vs, i) == IF i > Len(vs) THEN <<>>
                     ELSE (IF i > 1 /\ vs[i - 1].t # "str" /\ vs[i].t # "str" THEN <<32>> ELSE <<>>) \o RenderV(vs[i]) \o SprintFrom(vs, i + 1)
\* Sprintf with the verbs %d %s %v %t and %%; the k-th verb consumes the k-th operand
RECURSIVE SprintfFrom(_, _, _, _)
SprintfFrom(f, i, vs, k) ==
    IF i > Len(f) THEN <<>>
    ELSE IF f[i] = 37 /\ i < Len(f) THEN
         (IF f[i + 1] = 37 THEN <<37>> \o SprintfFrom(f, i + 2, vs, k)
          ELSE RenderV(vs[k]) \o SprintfFrom(f, i + 2, vs, k + 1))
    ELSE <<f[i]>> \o SprintfFrom(f, i + 1, vs, k)

\* ---------------------------------------------------------------- stack helpers
TopN(vals, n) == [i \in 1..n |-> vals[n + 1 - i]]        \* the top n values, oldest first
DropN(vals, n) == SubSeq(vals, n + 1, Len(vals))
KeepLast(vals, n) == SubSeq(vals, Len(vals) - n + 1, Len(vals))
RECURSIVE PushAll(_, _)
PushAll(vals, vs) == IF vs = <<>> THEN vals ELSE PushAll(<<Head(vs)>> \o vals, Tail(vs))   \* vs oldest first

StmtI(n) == [k |-> "stmt", n |-> n]
ExprI(n) == [k |-> "expr", n |-> n]
StmtItems(ns) == [i \in DOMAIN ns |-> StmtI(ns[i])]
ExprItems(ns) == [i \in DOMAIN ns |-> ExprI(ns[i])]
RECURSIVE DropUntil(_, _)
DropUntil(c, kinds) == IF c = <<>> THEN c ELSE IF Head(c).k \in kinds THEN c ELSE DropUntil(Tail(c), kinds)

CallEnds(c) == SelectSeq(c, LAMBDA it : it.k = "callend")
PanicState(S, kind, line) ==
    LET ces == CallEnds(S.ctl) IN
    [S EXCEPT !.ctl = <<>>,
              !.status = [s |-> "panic", kind |-> kind, line |-> line,
                          fn |-> IF ces = <<>> THEN "" ELSE ces[1].fn,
                          chain |-> [i \in 1..Len(ces) |-> [fn |-> ces[i].caller, line |-> ces[i].line]]]]

\* a block: new scope, statements, scope restored (also the target depth for jumps)
Block(S, ns, rest) == [S EXCEPT !.scopes = <<EmptyScope>> \o S.scopes,
                                !.ctl = StmtItems(ns) \o <<[k |-> "popscope", d |-> Len(S.scopes)]>> \o rest]

\* ---------------------------------------------------------------- heap helpers
RECURSIVE KeyIndex(_, _, _)
KeyIndex(ks, key, i) == IF i > Len(ks) THEN 0 ELSE IF ValEq(ks[i], key) THEN i ELSE KeyIndex(ks, key, i + 1)
RemoveAt(s, i) == SubSeq(s, 1, i - 1) \o SubSeq(s, i + 1, Len(s))
ElemsOf(S, sl) == IF sl.id = 0 THEN <<>> ELSE SubSeq(S.heap[sl.id].elems, sl.off + 1, sl.off + sl.len)
BytesOfSlice(S, sl) == [i \in 1..sl.len |-> S.heap[sl.id].elems[sl.off + i].v]

\* ---------------------------------------------------------------- function entry
\* args oldest first; a variadic callee gets its surplus arguments packed into a fresh slice unless the
\* call site spreads a slice (then that slice is passed through unchanged)
\* want = number of results the call site asks for (-1: exactly what the callee declares).  A wrong number
\* of arguments is an error before the callee runs; asking for more results than the callee yields is an
\* error when it returns (see "callend" / "doreturn")
EnterCallW(S, fname, args, spread, line, rest, want) ==
    LET f == Fn(fname)
        np == Len(f.params)
        pack == f.variadic /\ ~spread
        fixedN == IF f.variadic THEN np - 1 ELSE np
        packed == SubSeq(args, fixedN + 1, Len(args))
        \* no surplus arguments: the variadic parameter is a nil slice
        heap2 == IF pack /\ packed # <<>> THEN Append(S.heap, [k |-> "arr", elems |-> packed]) ELSE S.heap
        args2 == IF pack THEN SubSeq(args, 1, fixedN) \o
                        <<IF packed = <<>> THEN SliceV(0, 0, 0, 0) ELSE SliceV(Len(S.heap) + 1, 0, Len(packed), Len(packed))>>
                 ELSE args
        callerFn == LET ces == CallEnds(rest) IN IF ces = <<>> THEN "" ELSE ces[1].fn
    IN IF (pack /\ Len(args) < fixedN) \/ (~pack /\ Len(args) # np)
       THEN PanicState([S EXCEPT !.ctl = rest], "incorrect args", line)
       ELSE [S EXCEPT !.heap = heap2,
                      !.scopes = <<DeclareAll(<<EmptyScope>>, f.params, args2)[1]>>,
                      !.ctl = StmtItems(f.body) \o
                              <<[k |-> "callend", scopes |-> S.scopes, nres |-> f.nres, fn |-> fname, caller |-> callerFn,
                                 line |-> line, vbase |-> Len(S.vals), want |-> want]>> \o rest]

EnterCall(S, fname, args, spread, line, rest) == EnterCallW(S, fname, args, spread, line, rest, -1)

\* ---------------------------------------------------------------- expressions
\* scheduling of an expression node: what is evaluated first, and the item that combines the operands
EvalExpr(S, n, rest) ==
    LET e == N(n) IN
    CASE e.k = "int"   -> [S EXCEPT !.vals = <<IntV(e.ty, e.v)>> \o @, !.ctl = rest]
      [] e.k = "bool"  -> [S EXCEPT !.vals = <<BoolV(e.b)>> \o @, !.ctl = rest]
      [] e.k = "str"   -> [S EXCEPT !.vals = <<StrV(e.s)>> \o @, !.ctl = rest]
      [] e.k = "zero"  -> [S EXCEPT !.vals = <<ZeroOf(e)>> \o @, !.ctl = rest]
      [] e.k = "var"   -> [S EXCEPT !.vals = <<Lookup(S, e.name)>> \o @, !.ctl = rest]
      [] e.k = "fnval" -> [S EXCEPT !.vals = <<FuncV(e.fn)>> \o @, !.ctl = rest]
      [] e.k = "bin"   -> [S EXCEPT !.ctl = <<ExprI(e.l), ExprI(e.r), [k |-> "bin", op |-> e.op, line |-> e.line]>> \o rest]
      [] e.k = "and"   -> [S EXCEPT !.ctl = <<ExprI(e.l), [k |-> "andr", r |-> e.r]>> \o rest]
      [] e.k = "or"    -> [S EXCEPT !.ctl = <<ExprI(e.l), [k |-> "orr", r |-> e.r]>> \o rest]
      [] e.k \in {"not", "neg", "compl", "len"} -> [S EXCEPT !.ctl = <<ExprI(e.x), [k |-> e.k]>> \o rest]
      [] e.k = "conv"  -> [S EXCEPT !.ctl = <<ExprI(e.x), [k |-> "conv", to |-> e.to]>> \o rest]
      [] e.k = "call"  -> [S EXCEPT !.ctl = ExprItems(e.args) \o <<[k |-> "docall", fn |-> e.fn, nargs |-> Len(e.args), spread |-> e.spread, line |-> e.line, want |-> e.want]>> \o rest]
      [] e.k = "callv" -> [S EXCEPT !.ctl = <<ExprI(e.f)>> \o ExprItems(e.args) \o <<[k |-> "docallv", nargs |-> Len(e.args), spread |-> e.spread, line |-> e.line]>> \o rest]
      [] e.k = "mcall" -> [S EXCEPT !.ctl = <<ExprI(e.x)>> \o ExprItems(e.args) \o <<[k |-> "domcall", m |-> e.m, sty |-> e.sty, nargs |-> Len(e.args), spread |-> e.spread, line |-> e.line]>> \o rest]
      [] e.k = "mval"  -> [S EXCEPT !.ctl = <<ExprI(e.x), [k |-> "domval", m |-> e.m, line |-> e.line]>> \o rest]
      [] e.k = "index" -> [S EXCEPT !.ctl = <<ExprI(e.x), ExprI(e.i), [k |-> "doindex", line |-> e.line]>> \o rest]
      [] e.k = "mapget" -> [S EXCEPT !.ctl = <<ExprI(e.x), ExprI(e.i), [k |-> "domapget", zero |-> e.zero, ok |-> e.ok]>> \o rest]
      [] e.k = "slice" -> [S EXCEPT !.ctl = <<ExprI(e.x)>> \o (IF e.haslo THEN <<ExprI(e.lo)>> ELSE <<>>) \o (IF e.hashi THEN <<ExprI(e.hi)>> ELSE <<>>)
                                            \o <<[k |-> "doslice", haslo |-> e.haslo, hashi |-> e.hashi, line |-> e.line]>> \o rest]
      [] e.k = "field" -> [S EXCEPT !.ctl = <<ExprI(e.x), [k |-> "dofield", f |-> e.f, line |-> e.line]>> \o rest]
      [] e.k = "append" -> [S EXCEPT !.ctl = <<ExprI(e.x)>> \o ExprItems(e.args) \o <<[k |-> "doappend", nargs |-> Len(e.args), spread |-> e.spread]>> \o rest]
      [] e.k = "make"  -> [S EXCEPT !.ctl = <<ExprI(e.n), [k |-> "domake", zero |-> e.zero, line |-> e.line]>> \o rest]
      [] e.k = "makemap" -> [S EXCEPT !.heap = Append(@, [k |-> "map", ks |-> <<>>, vs |-> <<>>]), !.vals = <<MapV(Len(S.heap) + 1)>> \o @, !.ctl = rest]
      [] e.k = "slicelit" -> [S EXCEPT !.ctl = ExprItems(e.elems) \o <<[k |-> "doslicelit", n |-> Len(e.elems)]>> \o rest]
      [] e.k = "maplit" -> [S EXCEPT !.ctl = ExprItems(e.kvs) \o <<[k |-> "domaplit", n |-> Len(e.kvs)]>> \o rest]
      [] e.k = "new"   -> [S EXCEPT !.ctl = ExprItems(e.fvals) \o <<[k |-> "donew", n |-> n]>> \o rest]
      [] e.k = "choice" -> [S EXCEPT !.ctl = <<[k |-> "dochoice", n |-> e.n]>> \o rest]
      [] e.k = "lib"   -> [S EXCEPT !.ctl = ExprItems(e.args) \o <<[k |-> "dolib", fn |-> e.fn, nargs |-> Len(e.args), order |-> e.order]>> \o rest]

\* a value used as slice index / bound
IntOf(v) == v.v

\* ---------------------------------------------------------------- assignment to an lvalue
\* lvalue operands (container, index) are evaluated before the right-hand sides, in order;
\* LvItems gives their evaluation, LvArity how many operand values each lvalue leaves on the stack
LvItems(n) == LET lv == N(n) IN
    CASE lv.k = "index" -> <<ExprI(lv.x), ExprI(lv.i)>>
      [] lv.k = "mapget" -> <<ExprI(lv.x), ExprI(lv.i)>>
      [] lv.k = "field" -> <<ExprI(lv.x)>>
      [] OTHER -> <<>>
LvArity(n) == Len(LvItems(n))
RECURSIVE SumArity(_)
SumArity(ns) == IF ns = <<>> THEN 0 ELSE LvArity(Head(ns)) + SumArity(Tail(ns))
RECURSIVE AllLvItems(_)
AllLvItems(ns) == IF ns = <<>> THEN <<>> ELSE LvItems(Head(ns)) \o AllLvItems(Tail(ns))

\* store value v through lvalue node n whose operands are ops (oldest first); result: new S or a panic state
Store(S, n, ops, v, line) ==
    LET lv == N(n) IN
    CASE lv.k = "var"   -> SetVar(S, lv.name, v)
      [] lv.k = "blank" -> S
      [] lv.k = "index" ->
            LET sl == ops[1]  i == IntOf(ops[2]) IN
            IF i < 0 \/ i >= sl.len THEN PanicState(S, "index out of range", lv.line)
            ELSE [S EXCEPT !.heap[sl.id].elems[sl.off + i + 1] = v]
      [] lv.k = "mapget" ->
            LET m == ops[1]  key == ops[2] IN
            IF m.id = 0 THEN PanicState(S, "assignment to entry in nil map", lv.line)
            ELSE LET o == S.heap[m.id]  ix == KeyIndex(o.ks, key, 1) IN
                 IF ix > 0 THEN [S EXCEPT !.heap[m.id].vs[ix] = v]
                 ELSE [S EXCEPT !.heap[m.id] = [k |-> "map", ks |-> Append(o.ks, key), vs |-> Append(o.vs, v)]]
      [] lv.k = "field" ->
            LET ptr == ops[1] IN
            IF ptr.id = 0 THEN PanicState(S, "nil pointer dereference", lv.line)
            ELSE [S EXCEPT !.heap[ptr.id].f[lv.f] = v]

\* read the current value of an lvalue (for op= and ++/--); result value or PanicV
Load(S, n, ops) ==
    LET lv == N(n) IN
    CASE lv.k = "var" -> Lookup(S, lv.name)
      [] lv.k = "index" ->
            LET sl == ops[1]  i == IntOf(ops[2]) IN
            IF i < 0 \/ i >= sl.len THEN PanicV("index out of range") ELSE S.heap[sl.id].elems[sl.off + i + 1]
      [] lv.k = "mapget" ->
            LET m == ops[1] IN
            IF m.id = 0 THEN ZeroOf(N(lv.zero))
            ELSE LET o == S.heap[m.id]  ix == KeyIndex(o.ks, ops[2], 1) IN IF ix > 0 THEN o.vs[ix] ELSE ZeroOf(N(lv.zero))
      [] lv.k = "field" ->
            LET ptr == ops[1] IN IF ptr.id = 0 THEN PanicV("nil pointer dereference") ELSE S.heap[ptr.id].f[lv.f]

\* perform the assignments lhs[i] := vs[i] left to right; ops = all lvalue operands (oldest first)
RECURSIVE StoreAll(_, _, _, _, _)
StoreAll(S, lhs, ops, vs, line) ==
    IF lhs = <<>> \/ S.status.s # "run" THEN S
    ELSE LET a == LvArity(Head(lhs)) IN
         StoreAll(Store(S, Head(lhs), SubSeq(ops, 1, a), Head(vs), line), Tail(lhs), SubSeq(ops, a + 1, Len(ops)), Tail(vs), line)

\* ---------------------------------------------------------------- statements
ExecStmt(S, n, rest) ==
    LET s == N(n) IN
    CASE s.k = "decl" ->
            [S EXCEPT !.ctl = ExprItems(s.exprs) \o <<[k |-> "dodecl", names |-> s.names]>> \o rest]
      [] s.k = "declzero" ->
            [S EXCEPT !.scopes = Declare(@, s.name, ZeroOf(N(s.zero))), !.ctl = rest]
      [] s.k = "gdecl" ->       \* package-level variable with initialiser
            [S EXCEPT !.ctl = ExprItems(s.exprs) \o <<[k |-> "dogdecl", names |-> s.names]>> \o rest]
      [] s.k = "gdeclzero" ->
            [S EXCEPT !.glob = Bind(@, s.name, ZeroOf(N(s.zero))), !.ctl = rest]
      [] s.k = "assign" ->
            [S EXCEPT !.ctl = AllLvItems(s.lhs) \o ExprItems(s.exprs) \o <<[k |-> "doassign", n |-> n]>> \o rest]
      [] s.k = "opassign" ->
            [S EXCEPT !.ctl = LvItems(s.lhs) \o <<ExprI(s.rhs), [k |-> "doopassign", n |-> n]>> \o rest]
      [] s.k = "incdec" ->
            [S EXCEPT !.ctl = LvItems(s.lhs) \o <<[k |-> "doincdec", n |-> n]>> \o rest]
      [] s.k = "expr" ->
            [S EXCEPT !.ctl = <<ExprI(s.e), [k |-> "dropvals", n |-> s.nres]>> \o rest]
      [] s.k = "yield" ->       \* a top-level expression statement: its value is what Eval returns if it is the last one
            [S EXCEPT !.ctl = <<ExprI(s.e), [k |-> "doyield"]>> \o rest]
      [] s.k = "print" ->
            [S EXCEPT !.ctl = ExprItems(s.args) \o <<[k |-> "doprint", nargs |-> Len(s.args), ln |-> s.ln, fmtp |-> s.fmtp]>> \o rest]
      [] s.k = "block" -> Block(S, s.body, rest)
      [] s.k = "if" ->
            [S EXCEPT !.scopes = <<EmptyScope>> \o S.scopes,
                      !.ctl = (IF s.init # 0 THEN <<StmtI(s.init)>> ELSE <<>>) \o
                              <<ExprI(s.cond), [k |-> "ifbranch", n |-> n], [k |-> "popscope", d |-> Len(S.scopes)]>> \o rest]
      [] s.k = "for" ->
            [S EXCEPT !.scopes = <<EmptyScope>> \o S.scopes,
                      !.ctl = (IF s.init # 0 THEN <<StmtI(s.init)>> ELSE <<>>) \o
                              <<[k |-> "forcheck", n |-> n, d |-> Len(S.scopes) + 1], [k |-> "loopend", d |-> Len(S.scopes)]>> \o rest]
      [] s.k = "range" ->
            [S EXCEPT !.ctl = <<ExprI(s.x), [k |-> "rangestart", n |-> n]>> \o rest]
      [] s.k = "switch" ->
            [S EXCEPT !.scopes = <<EmptyScope>> \o S.scopes,
                      !.ctl = (IF s.init # 0 THEN <<StmtI(s.init)>> ELSE <<>>) \o
                              (IF s.tag # 0 THEN <<ExprI(s.tag)>> ELSE <<>>) \o
                              <<[k |-> "swcase", n |-> n, ci |-> 1, vi |-> 1], [k |-> "switchend", d |-> Len(S.scopes)]>> \o rest]
      [] s.k = "break" -> [S EXCEPT !.ctl = DropUntil(rest, {"loopend", "switchend"})]
      [] s.k = "continue" -> [S EXCEPT !.ctl = DropUntil(rest, {"forpost", "rangenext"})]
      [] s.k = "return" ->
            [S EXCEPT !.ctl = ExprItems(s.exprs) \o <<[k |-> "doreturn", n |-> s.n]>> \o rest]
      [] s.k = "panic" ->
            [S EXCEPT !.ctl = <<ExprI(s.e), [k |-> "dopanic", line |-> s.line]>> \o rest]
      [] s.k = "delete" ->
            [S EXCEPT !.ctl = <<ExprI(s.m), ExprI(s.key), [k |-> "dodelete"]>> \o rest]
      [] s.k = "copy" ->
            [S EXCEPT !.ctl = <<ExprI(s.dst), ExprI(s.src), [k |-> "docopy"]>> \o rest]

\* ---------------------------------------------------------------- one step of the machine
\* returns the SET of successor states (a singleton except for choice())
Steps(S) ==
    LET it == Head(S.ctl)
        rest == Tail(S.ctl)
        v1 == IF S.vals # <<>> THEN S.vals[1] ELSE NilV
        v2 == IF Len(S.vals) >= 2 THEN S.vals[2] ELSE NilV
        v3 == IF Len(S.vals) >= 3 THEN S.vals[3] ELSE NilV
        Ret(S2) == {S2}
    IN
    CASE it.k = "start" ->
            Ret([S EXCEPT !.ctl = StmtItems(Progs[p].globals) \o
                     [i \in DOMAIN Progs[p].inits |-> [k |-> "docall", fn |-> Progs[p].inits[i], nargs |-> 0, spread |-> FALSE, line |-> 0, want |-> -1]] \o
                     <<[k |-> "docall", fn |-> Progs[p].main, nargs |-> 0, spread |-> FALSE, line |-> 0, want |-> -1], [k |-> "halt"]>>])
      [] it.k = "halt" -> Ret([S EXCEPT !.ctl = <<>>, !.status = [s |-> "done"]])
      [] it.k = "stmt" -> Ret(ExecStmt(S, it.n, rest))
      [] it.k = "expr" -> Ret(EvalExpr(S, it.n, rest))
      [] it.k = "popscope" -> Ret([S EXCEPT !.scopes = KeepScopes(@, it.d), !.ctl = rest])
      [] it.k \in {"loopend", "switchend"} -> Ret([S EXCEPT !.scopes = KeepScopes(@, it.d), !.ctl = rest])
      [] it.k = "dropvals" -> Ret([S EXCEPT !.vals = DropN(@, it.n), !.ctl = rest])
      \* ---- operators
      [] it.k = "bin" ->
            LET r == BinResult(it.op, v2, v1) IN
            Ret(IF r.t = "panic" THEN PanicState([S EXCEPT !.ctl = rest], r.kind, it.line)
                ELSE [S EXCEPT !.vals = <<r>> \o DropN(@, 2), !.ctl = rest])
      [] it.k = "andr" -> Ret(IF v1.b THEN [S EXCEPT !.vals = DropN(@, 1), !.ctl = <<ExprI(it.r)>> \o rest] ELSE [S EXCEPT !.ctl = rest])
      [] it.k = "orr"  -> Ret(IF v1.b THEN [S EXCEPT !.ctl = rest] ELSE [S EXCEPT !.vals = DropN(@, 1), !.ctl = <<ExprI(it.r)>> \o rest])
      [] it.k = "not"  -> Ret([S EXCEPT !.vals = <<BoolV(~v1.b)>> \o DropN(@, 1), !.ctl = rest])
      [] it.k = "neg"  -> Ret([S EXCEPT !.vals = <<IntV(v1.ty, Neg(v1.ty, v1.v))>> \o DropN(@, 1), !.ctl = rest])
      [] it.k = "compl" -> Ret([S EXCEPT !.vals = <<IntV(v1.ty, Compl(v1.ty, v1.v))>> \o DropN(@, 1), !.ctl = rest])
      [] it.k = "len" ->
            LET n == CASE v1.t = "str" -> Len(v1.s)
                       [] v1.t = "slice" -> v1.len
                       [] v1.t = "map" -> IF v1.id = 0 THEN 0 ELSE Len(S.heap[v1.id].ks)
                       [] OTHER -> 0
            IN Ret([S EXCEPT !.vals = <<IntV("int32", n)>> \o DropN(@, 1), !.ctl = rest])
      [] it.k = "conv" ->
            LET r == CASE it.to \in Types /\ v1.t = "int" -> IntV(it.to, Conv(v1.ty, it.to, v1.v))
                       [] it.to = "string" /\ v1.t = "str" -> v1
                       [] it.to = "string" /\ v1.t = "int" -> StrV(EncodeRune(IF v1.ty = "uint32" /\ v1.v < 0 THEN 65533 ELSE v1.v))
                       [] it.to = "string" /\ v1.t = "slice" -> StrV(BytesOfSlice(S, v1))
                       [] it.to = "bytes" /\ v1.t = "str" -> NilV   \* handled below (allocates)
                       [] OTHER -> v1
            IN Ret(IF it.to = "bytes" /\ v1.t = "str"
                   THEN [S EXCEPT !.heap = Append(@, [k |-> "arr", elems |-> [i \in 1..Len(v1.s) |-> IntV("uint8", v1.s[i])]]),
                                  !.vals = <<SliceV(Len(S.heap) + 1, 0, Len(v1.s), Len(v1.s))>> \o DropN(@, 1), !.ctl = rest]
                   ELSE [S EXCEPT !.vals = <<r>> \o DropN(@, 1), !.ctl = rest])
      \* ---- calls
      [] it.k = "docall" ->
            Ret(EnterCallW([S EXCEPT !.vals = DropN(@, it.nargs)], it.fn, TopN(S.vals, it.nargs), it.spread, it.line, rest, it.want))
      [] it.k = "docallv" ->
            LET fv == S.vals[it.nargs + 1]
                args == TopN(S.vals, it.nargs)
                S2 == [S EXCEPT !.vals = DropN(@, it.nargs + 1)]
            IN Ret(IF fv.t = "bound" THEN EnterCall(S2, fv.f, <<fv.recv>> \o args, it.spread, it.line, rest)
                   ELSE IF fv.t = "func" /\ fv.f # "" THEN EnterCall(S2, fv.f, args, it.spread, it.line, rest)
                   ELSE PanicState([S2 EXCEPT !.ctl = rest], "nil function call", it.line))
      [] it.k = "domcall" ->
            LET recv == S.vals[it.nargs + 1]
                args == TopN(S.vals, it.nargs)
                S2 == [S EXCEPT !.vals = DropN(@, it.nargs + 1)]
            \* a method of a pointer type may be called on a nil pointer (it.sty = static struct type of the
            \* receiver expression, "" for interface-typed receivers, which panic when nil)
            IN Ret(IF recv.t # "ptr" \/ (recv.id = 0 /\ it.sty = "") THEN PanicState([S2 EXCEPT !.ctl = rest], "nil pointer dereference", it.line)
                   ELSE EnterCall(S2, (IF recv.id = 0 THEN it.sty ELSE S.heap[recv.id].sty) \o "." \o it.m, <<recv>> \o args, it.spread, it.line, rest))
      [] it.k = "domval" ->
            Ret(IF v1.t # "ptr" \/ v1.id = 0 THEN PanicState([S EXCEPT !.ctl = rest], "nil pointer dereference", it.line)
                ELSE [S EXCEPT !.vals = <<BoundV(S.heap[v1.id].sty \o "." \o it.m, v1)>> \o DropN(@, 1), !.ctl = rest])
      [] it.k = "callend" ->      \* the body ended without a return statement
            Ret(IF it.want > 0 THEN PanicState(S, "incorrect returns", it.line)
                ELSE [S EXCEPT !.scopes = it.scopes, !.ctl = rest])
      [] it.k = "doreturn" ->
            LET c2 == DropUntil(rest, {"callend"})
                ce == Head(c2)
                res == TopN(S.vals, it.n)
            IN Ret(IF ce.want > it.n THEN PanicState([S EXCEPT !.ctl = c2], "incorrect returns", ce.line)
                   ELSE [S EXCEPT !.vals = PushAll(KeepLast(S.vals, ce.vbase), res), !.scopes = ce.scopes, !.ctl = Tail(c2)])
      \* ---- containers
      [] it.k = "doindex" ->
            LET i == IntOf(v1) IN
            Ret(IF v2.t = "str" THEN
                    (IF i < 0 \/ i >= Len(v2.s) THEN PanicState([S EXCEPT !.ctl = rest], "index out of range", it.line)
                     ELSE [S EXCEPT !.vals = <<IntV("uint8", v2.s[i + 1])>> \o DropN(@, 2), !.ctl = rest])
                ELSE IF i < 0 \/ i >= v2.len THEN PanicState([S EXCEPT !.ctl = rest], "index out of range", it.line)
                ELSE [S EXCEPT !.vals = <<S.heap[v2.id].elems[v2.off + i + 1]>> \o DropN(@, 2), !.ctl = rest])
      [] it.k = "domapget" ->
            LET m == v2
                ix == IF m.id = 0 THEN 0 ELSE KeyIndex(S.heap[m.id].ks, v1, 1)
                val == IF ix > 0 THEN S.heap[m.id].vs[ix] ELSE ZeroOf(N(it.zero))
            IN Ret(IF it.ok THEN [S EXCEPT !.vals = <<BoolV(ix > 0), val>> \o DropN(@, 2), !.ctl = rest]
                   ELSE [S EXCEPT !.vals = <<val>> \o DropN(@, 2), !.ctl = rest])
      [] it.k = "doslice" ->
            LET nops == (IF it.haslo THEN 1 ELSE 0) + (IF it.hashi THEN 1 ELSE 0)
                x == S.vals[nops + 1]
                lo == IF it.haslo THEN IntOf(S.vals[nops]) ELSE 0
                xl == IF x.t = "str" THEN Len(x.s) ELSE x.len
                xc == IF x.t = "str" THEN Len(x.s) ELSE x.cap
                hi == IF it.hashi THEN IntOf(S.vals[1]) ELSE xl
                S2 == [S EXCEPT !.vals = DropN(@, nops + 1), !.ctl = rest]
            IN Ret(IF lo < 0 \/ hi < lo \/ hi > xc THEN PanicState(S2, "slice bounds out of range", it.line)
                   ELSE IF x.t = "str" THEN [S2 EXCEPT !.vals = <<StrV(SubSeq(x.s, lo + 1, hi))>> \o @]
                   ELSE [S2 EXCEPT !.vals = <<SliceV(x.id, x.off + lo, hi - lo, x.cap - lo)>> \o @])
      [] it.k = "dofield" ->
            Ret(IF v1.t # "ptr" \/ v1.id = 0 THEN PanicState([S EXCEPT !.ctl = rest], "nil pointer dereference", it.line)
                ELSE [S EXCEPT !.vals = <<S.heap[v1.id].f[it.f]>> \o DropN(@, 1), !.ctl = rest])
      [] it.k = "doappend" ->
            LET sl == S.vals[it.nargs + 1]
                raw == TopN(S.vals, it.nargs)
                items == IF it.spread THEN (IF raw[1].t = "str" THEN [i \in 1..Len(raw[1].s) |-> IntV("uint8", raw[1].s[i])] ELSE ElemsOf(S, raw[1])) ELSE raw
                n == Len(items)
                S2 == [S EXCEPT !.vals = DropN(@, it.nargs + 1), !.ctl = rest]
            IN Ret(IF n = 0 THEN [S2 EXCEPT !.vals = <<sl>> \o @]
                   ELSE IF sl.id # 0 /\ sl.len + n <= sl.cap THEN
                        [S2 EXCEPT !.heap[sl.id].elems = [i \in DOMAIN @ |-> IF i > sl.off + sl.len /\ i <= sl.off + sl.len + n THEN items[i - sl.off - sl.len] ELSE @[i]],
                                   !.vals = <<SliceV(sl.id, sl.off, sl.len + n, sl.cap)>> \o @]
                   ELSE \* growth: a fresh array; its capacity is the growth policy's business (here: exact)
                        [S2 EXCEPT !.heap = Append(@, [k |-> "arr", elems |-> ElemsOf(S, sl) \o items]),
                                   !.vals = <<SliceV(Len(S.heap) + 1, 0, sl.len + n, sl.len + n)>> \o @])
      [] it.k = "domake" ->
            LET n == IntOf(v1) IN
            Ret(IF n < 0 THEN PanicState([S EXCEPT !.ctl = rest], "makeslice: len out of range", it.line)
                ELSE [S EXCEPT !.heap = Append(@, [k |-> "arr", elems |-> [i \in 1..n |-> ZeroOf(N(it.zero))]]),
                               !.vals = <<SliceV(Len(S.heap) + 1, 0, n, n)>> \o DropN(@, 1), !.ctl = rest])
      [] it.k = "dolib" ->        \* a bundled library function (GoStrLib): arguments oldest first
            LET a == TopN(S.vals, it.nargs)
                S2 == [S EXCEPT !.vals = DropN(@, it.nargs), !.ctl = rest]
                push(v) == [S2 EXCEPT !.vals = <<v>> \o @]
            IN Ret(CASE it.fn = "strings.Contains"   -> push(BoolV(LibContains(a[1].s, a[2].s)))
                     [] it.fn = "strings.Repeat"     -> push(StrV(LibRepeat(a[1].s, a[2].v)))
                     [] it.fn = "strings.TrimSuffix" -> push(StrV(LibTrimSuffix(a[1].s, a[2].s)))
                     [] it.fn = "strings.TrimSpace"  -> push(StrV(LibTrimSpace(a[1].s)))
                     [] it.fn = "strings.TrimRight"  -> push(StrV(LibTrimRight(a[1].s, a[2].s)))
                     [] it.fn = "strings.ReplaceAll" -> push(StrV(LibReplaceAll(a[1].s, a[2].s, a[3].s)))
                     [] it.fn = "strings.Replace"    -> push(StrV(LibReplace(a[1].s, a[2].s, a[3].s, a[4].v)))
                     [] it.fn = "strings.Join"       -> push(StrV(LibJoin([i \in 1..a[1].len |-> ElemsOf(S, a[1])[i].s], a[2].s)))
                     [] it.fn = "strconv.Itoa"       -> push(StrV(LibItoa(a[1].v)))
                     [] it.fn = "fmt.Sprint"         -> IF Len(a) = 1 /\ a[1].t = "ptr" THEN push(StrV(ShowStruct(it.order, S.heap[a[1].id].f)))
                                                        ELSE push(StrV(SprintFrom(a, 1)))
                     [] it.fn = "fmt.Sprintf"        -> push(StrV(SprintfFrom(a[1].s, 1, Tail(a), 1)))
                     [] it.fn = "strings.Split"      ->
                            LET parts == LibSplit(a[1].s, a[2].s) IN
                            [S2 EXCEPT !.heap = Append(@, [k |-> "arr", elems |-> [i \in 1..Len(parts) |-> StrV(parts[i])]]),
                                       !.vals = <<SliceV(Len(S.heap) + 1, 0, Len(parts), Len(parts))>> \o @])
      [] it.k = "doslicelit" ->
            Ret([S EXCEPT !.heap = Append(@, [k |-> "arr", elems |-> TopN(S.vals, it.n)]),
                          !.vals = <<SliceV(Len(S.heap) + 1, 0, it.n, it.n)>> \o DropN(@, it.n), !.ctl = rest])
      [] it.k = "domaplit" ->
            LET kv == TopN(S.vals, it.n) IN
            Ret([S EXCEPT !.heap = Append(@, [k |-> "map", ks |-> [i \in 1..(it.n \div 2) |-> kv[2 * i - 1]], vs |-> [i \in 1..(it.n \div 2) |-> kv[2 * i]]]),
                          !.vals = <<MapV(Len(S.heap) + 1)>> \o DropN(@, it.n), !.ctl = rest])
      [] it.k = "donew" ->
            LET e == N(it.n)
                given == TopN(S.vals, Len(e.fvals))
                fields == {e.zeros[i][1] : i \in DOMAIN e.zeros}
                zeroOf(fn) == LET i == CHOOSE j \in DOMAIN e.zeros : e.zeros[j][1] = fn IN ZeroOf(N(e.zeros[i][2]))
                givenIx(fn) == {j \in DOMAIN e.fnames : e.fnames[j] = fn}
                f == [fn \in fields |-> IF givenIx(fn) = {} THEN zeroOf(fn) ELSE given[CHOOSE j \in givenIx(fn) : TRUE]]
            IN Ret([S EXCEPT !.heap = Append(@, [k |-> "struct", sty |-> e.sty, f |-> f]),
                             !.vals = <<PtrV(Len(S.heap) + 1)>> \o DropN(@, Len(e.fvals)), !.ctl = rest])
      [] it.k = "dodelete" ->
            LET m == v2
                ix == IF m.id = 0 THEN 0 ELSE KeyIndex(S.heap[m.id].ks, v1, 1)
            IN Ret(IF ix = 0 THEN [S EXCEPT !.vals = DropN(@, 2), !.ctl = rest]
                   ELSE [S EXCEPT !.heap[m.id] = [k |-> "map", ks |-> RemoveAt(@.ks, ix), vs |-> RemoveAt(@.vs, ix)], !.vals = DropN(@, 2), !.ctl = rest])
      [] it.k = "docopy" ->
            LET dst == v2
                src == IF v1.t = "str" THEN [i \in 1..Len(v1.s) |-> IntV("uint8", v1.s[i])] ELSE ElemsOf(S, v1)
                n == IF Len(src) < dst.len THEN Len(src) ELSE dst.len
            IN Ret(IF n = 0 THEN [S EXCEPT !.vals = DropN(@, 2), !.ctl = rest]
                   ELSE [S EXCEPT !.heap[dst.id].elems = [i \in DOMAIN @ |-> IF i > dst.off /\ i <= dst.off + n THEN src[i - dst.off] ELSE @[i]],
                                  !.vals = DropN(@, 2), !.ctl = rest])
      \* ---- declarations and assignments
      [] it.k = "dodecl" ->
            Ret([S EXCEPT !.scopes = DeclareAll(@, it.names, TopN(S.vals, Len(it.names))), !.vals = DropN(@, Len(it.names)), !.ctl = rest])
      [] it.k = "dogdecl" ->
            LET vs == TopN(S.vals, Len(it.names))
                RECURSIVE bindAll(_, _, _)
                bindAll(g, ns, xs) == IF ns = <<>> THEN g ELSE bindAll(IF Head(ns) = "_" THEN g ELSE Bind(g, Head(ns), Head(xs)), Tail(ns), Tail(xs))
            IN Ret([S EXCEPT !.glob = bindAll(@, it.names, vs), !.vals = DropN(@, Len(it.names)), !.ctl = rest])
      [] it.k = "doassign" ->
            LET s == N(it.n)
                nv == Len(s.lhs)
                na == SumArity(s.lhs)
                vs == TopN(S.vals, nv)
                ops == TopN(DropN(S.vals, nv), na)
                S2 == [S EXCEPT !.vals = DropN(@, nv + na), !.ctl = rest]
            IN Ret(StoreAll(S2, s.lhs, ops, vs, s.line))
      [] it.k = "doopassign" ->
            LET s == N(it.n)
                na == LvArity(s.lhs)
                rhs == v1
                ops == TopN(DropN(S.vals, 1), na)
                S2 == [S EXCEPT !.vals = DropN(@, 1 + na), !.ctl = rest]
                cur == Load(S2, s.lhs, ops)
            IN Ret(IF cur.t = "panic" THEN PanicState(S2, cur.kind, s.line)
                   ELSE LET r == BinResult(s.op, cur, rhs) IN
                        IF r.t = "panic" THEN PanicState(S2, r.kind, s.line) ELSE Store(S2, s.lhs, ops, r, s.line))
      [] it.k = "doincdec" ->
            LET s == N(it.n)
                na == LvArity(s.lhs)
                ops == TopN(S.vals, na)
                S2 == [S EXCEPT !.vals = DropN(@, na), !.ctl = rest]
                cur == Load(S2, s.lhs, ops)
            IN Ret(IF cur.t = "panic" THEN PanicState(S2, cur.kind, s.line)
                   ELSE Store(S2, s.lhs, ops, IntV(cur.ty, Bin(cur.ty, IF s.d > 0 THEN "+" ELSE "-", cur.v, 1)), s.line))
      [] it.k = "doprint" ->
            Ret([S EXCEPT !.out = Append(@, [ln |-> it.ln, fmtp |-> it.fmtp, vs |-> TopN(S.vals, it.nargs)]), !.vals = DropN(@, it.nargs), !.ctl = rest])
      [] it.k = "doyield" ->
            Ret([S EXCEPT !.last = <<v1>>, !.vals = DropN(@, 1), !.ctl = rest])
      [] it.k = "dopanic" ->
            Ret(PanicState([S EXCEPT !.vals = DropN(@, 1), !.ctl = rest], "panic", it.line))
      \* ---- control flow
      [] it.k = "ifbranch" ->
            LET s == N(it.n)  S2 == [S EXCEPT !.vals = DropN(@, 1)] IN
            Ret(IF v1.b THEN Block(S2, s.then, rest)
                ELSE IF s.haselse THEN Block(S2, s.els, rest) ELSE [S2 EXCEPT !.ctl = rest])
      [] it.k = "forcheck" ->
            LET s == N(it.n) IN
            Ret(IF s.cond = 0 THEN [S EXCEPT !.vals = <<BoolV(TRUE)>> \o @, !.ctl = <<[k |-> "forbranch", n |-> it.n, d |-> it.d]>> \o rest]
                ELSE [S EXCEPT !.ctl = <<ExprI(s.cond), [k |-> "forbranch", n |-> it.n, d |-> it.d]>> \o rest])
      [] it.k = "forbranch" ->
            LET s == N(it.n)  S2 == [S EXCEPT !.vals = DropN(@, 1)] IN
            Ret(IF v1.b THEN Block(S2, s.body, <<[k |-> "forpost", n |-> it.n, d |-> it.d]>> \o rest)
                ELSE [S2 EXCEPT !.ctl = rest])
      [] it.k = "forpost" ->      \* target of continue: the loop's scope chain is restored, then the post statement runs
            LET s == N(it.n) IN
            Ret([S EXCEPT !.scopes = KeepScopes(@, it.d),
                          !.ctl = (IF s.post # 0 THEN <<StmtI(s.post)>> ELSE <<>>) \o <<[k |-> "forcheck", n |-> it.n, d |-> it.d]>> \o rest])
      [] it.k = "rangestart" ->
            LET s == N(it.n) IN
            Ret([S EXCEPT !.vals = DropN(@, 1),
                          !.ctl = <<[k |-> "rangenext", n |-> it.n, i |-> 0, x |-> v1, d |-> Len(S.scopes),
                                     \* a map is ranged over the keys it has when the loop starts (no key is produced twice, a key deleted before
                                     \* it is reached is not produced); an entry created during the range is not produced, which Go permits: generated programs never depend on it, nor on the order
                                     pend |-> IF v1.t = "map" /\ v1.id # 0 THEN S.heap[v1.id].ks ELSE <<>>],
                                    [k |-> "loopend", d |-> Len(S.scopes)]>> \o rest])
      [] it.k = "rangenext" ->
            LET s == N(it.n)
                x == it.x
                S0 == [S EXCEPT !.scopes = KeepScopes(@, it.d)]
                total == CASE x.t = "slice" -> x.len [] x.t = "str" -> Len(x.s) [] x.t = "int" -> x.v [] OTHER -> 0
                \* map: the next pending key that is still in the map
                mo == S.heap[x.id]
                live == IF x.t = "map" THEN {j \in (it.i + 1)..Len(it.pend) : KeyIndex(mo.ks, it.pend[j], 1) > 0} ELSE {}
                mj == CHOOSE j \in live : \A j2 \in live : j <= j2
            IN Ret(IF x.t = "map" THEN
                     (IF live = {} THEN [S0 EXCEPT !.ctl = rest]
                      ELSE [S0 EXCEPT !.scopes = <<Bind(Bind(EmptyScope, s.kname, it.pend[mj]), s.vname, mo.vs[KeyIndex(mo.ks, it.pend[mj], 1)])>> \o @,
                                      !.ctl = StmtItems(s.body) \o <<[it EXCEPT !.i = mj]>> \o rest])
                   ELSE IF it.i >= total THEN [S0 EXCEPT !.ctl = rest]
                   ELSE LET key == IntV("int32", it.i)
                            dr == IF x.t = "str" THEN DecodeRune(x.s, it.i + 1) ELSE <<0, 1>>
                            val == CASE x.t = "slice" -> S.heap[x.id].elems[x.off + it.i + 1]
                                     [] x.t = "str" -> IntV("int32", dr[1])
                                     [] OTHER -> key
                            width == IF x.t = "str" THEN dr[2] ELSE 1
                        IN [S0 EXCEPT !.scopes = <<Bind(Bind(EmptyScope, s.kname, key), s.vname, val)>> \o @,
                                      !.ctl = StmtItems(s.body) \o <<[it EXCEPT !.i = it.i + width]>> \o rest])
      [] it.k = "swcase" ->
            LET s == N(it.n)
                tagged == s.tag # 0
                popTag(S2) == IF tagged THEN [S2 EXCEPT !.vals = DropN(@, 1)] ELSE S2
            IN Ret(IF it.ci > Len(s.cases) THEN
                       (IF s.hasdef THEN Block(popTag(S), s.defbody, rest) ELSE [popTag(S) EXCEPT !.ctl = rest])
                   ELSE [S EXCEPT !.ctl = <<ExprI(s.cases[it.ci].vals[it.vi]), [k |-> "swtest", n |-> it.n, ci |-> it.ci, vi |-> it.vi]>> \o rest])
      [] it.k = "swtest" ->
            LET s == N(it.n)
                tagged == s.tag # 0
                match == IF tagged THEN ValEq(v2, v1) ELSE v1.b
                S2 == [S EXCEPT !.vals = DropN(@, 1)]                       \* the tested value
                S3 == IF tagged THEN [S2 EXCEPT !.vals = DropN(@, 1)] ELSE S2   \* and the tag, on a match
            IN Ret(IF match THEN Block(S3, s.cases[it.ci].body, rest)
                   ELSE IF it.vi < Len(s.cases[it.ci].vals) THEN [S2 EXCEPT !.ctl = <<[k |-> "swcase", n |-> it.n, ci |-> it.ci, vi |-> it.vi + 1]>> \o rest]
                   ELSE [S2 EXCEPT !.ctl = <<[k |-> "swcase", n |-> it.n, ci |-> it.ci + 1, vi |-> 1]>> \o rest])
      [] it.k = "dochoice" ->
            {[S EXCEPT !.vals = <<IntV("int32", c)>> \o @, !.ch = Append(@, c), !.ctl = rest] : c \in 0..(it.n - 1)}

\* ---------------------------------------------------------------- the specification
InitState == [ctl |-> <<[k |-> "start"]>>, vals |-> <<>>, scopes |-> <<EmptyScope>>, glob |-> [x \in {} |-> NilV],
              heap |-> <<>>, out |-> <<>>, status |-> [s |-> "run"], ch |-> <<>>, steps |-> 0, last |-> <<>>]
MInit == p \in 1..Len(Progs) /\ st = InitState
\* steps counts machine steps (model-checking configurations bound it so that a program that does not
\* terminate cannot keep TLC busy for ever)
MNext == /\ st.status.s = "run" /\ st.ctl # <<>>
         /\ \E n \in Steps(st) : st' = [n EXCEPT !.steps = st.steps + 1]
         /\ UNCHANGED p
MSpec == MInit /\ [][MNext]_mvars

Terminal == st.status.s # "run" \/ st.ctl = <<>>

\* ---------------------------------------------------------------- sanity invariants of the semantics itself
\* at a statement boundary of the outermost function no operand is pending
ScopesNonEmpty == st.scopes # <<>>
HeapRefsDefined ==
    \A i \in DOMAIN st.vals : LET v == st.vals[i] IN (v.t \in {"slice", "map", "ptr"} => v.id <= Len(st.heap))
DoneIsClean == st.status.s = "done" => st.vals = <<>>

\* rendering of values for the behaviour record: scalars only
OutVal(v) == CASE v.t = "int" -> [t |-> "int", ty |-> v.ty, v |-> v.v]
               [] v.t = "bool" -> [t |-> "bool", ty |-> "", v |-> IF v.b THEN 1 ELSE 0]
               [] v.t = "str" -> [t |-> "str", ty |-> "", v |-> 0, s |-> v.s]
               [] OTHER -> [t |-> v.t, ty |-> "", v |-> IF IsNilVal(v) THEN 0 ELSE 1]
OutEvent(e) == [ln |-> e.ln, fmtp |-> e.fmtp, vs |-> [i \in DOMAIN e.vs |-> OutVal(e.vs[i])]]
Behaviour == [prog |-> Progs[p].id, ch |-> st.ch, out |-> [i \in DOMAIN st.out |-> OutEvent(st.out[i])],
              status |-> st.status.s,
              kind |-> IF st.status.s = "panic" THEN st.status.kind ELSE "",
              line |-> IF st.status.s = "panic" THEN st.status.line ELSE 0,
              fn |-> IF st.status.s = "panic" THEN st.status.fn ELSE "",
              chain |-> IF st.status.s = "panic" THEN st.status.chain ELSE <<>>,
              \* package-level variables at the end (name, value) and the value of the last yielded expression
              glob |-> LET names == DOMAIN st.glob IN
                       {[name |-> n, val |-> OutVal(st.glob[n])] : n \in names},
              last |-> [i \in DOMAIN st.last |-> OutVal(st.last[i])]]
Emit == Terminal => PrintT(<<"BEH", ToJson(Behaviour)>>)
=============================================================================
