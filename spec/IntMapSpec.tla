----------------------------- MODULE IntMapSpec -----------------------------
(***************************************************************************)
(* The table behind struct fields and methods (C12), abstractly: a finite  *)
(* function from integer keys (interned names) to values.                  *)
(*   Set     inserts or overwrites.                                        *)
(*   Assign  overwrites an EXISTING key only (a store to a declared field);*)
(*           it is a no-op on absent keys.                                 *)
(*   Get     returns the value and whether the key is present.             *)
(*   Delete  removes.   Copy yields an independent table.                  *)
(* A pool of tables is kept so that independence after Copy is visible.    *)
(***************************************************************************)
EXTENDS Integers, Sequences, FiniteSets

VARIABLE tabs     \* sequence of tables; each table is a function [set of keys -> value]
imVars == <<tabs>>

Empty == [k \in {} |-> 0]
Upd(f, k, v) == [x \in DOMAIN f \cup {k} |-> IF x = k THEN v ELSE f[x]]
Rem(f, k) == [x \in DOMAIN f \ {k} |-> f[x]]

IMInit == tabs = <<Empty>>

\* A value is a record [ty, n]: ty is "i" (int32), "f" (float64), "b" (uint8) or "u" (an untyped integer constant).
\* Assign is the store to a declared field: an untyped constant takes the type of the value it replaces AT THAT KEY
\* (wrapping to 8 bits for a uint8 field); a typed value is stored as it is.
Adopt(v, old) == IF v.ty = "u" THEN [ty |-> old.ty, n |-> IF old.ty = "b" THEN v.n % 256 ELSE v.n] ELSE v
ISet(t, k, v)    == tabs' = [tabs EXCEPT ![t] = Upd(@, k, v)]
IAssign(t, k, v) == tabs' = [tabs EXCEPT ![t] = IF k \in DOMAIN @ THEN Upd(@, k, Adopt(v, @[k])) ELSE @]
IDelete(t, k)    == tabs' = [tabs EXCEPT ![t] = Rem(@, k)]
ICopy(t)         == tabs' = Append(tabs, tabs[t])
IRead            == UNCHANGED tabs

Has(t, k) == k \in DOMAIN tabs[t]
Val(t, k) == tabs[t][k]
Count(t)  == Cardinality(DOMAIN tabs[t])

-----------------------------------------------------------------------------
(* Robin-hood layout invariants, stated on a bucket dump <<[d, k], ...>>    *)
(* (d = 0: empty; d >= 1: the entry sits d-1 buckets after its home bucket  *)
(* k mod size).  They are what makes lookups that stop at the first empty   *)
(* bucket complete.                                                         *)
Home(k, size) == k % size
DumpKeys(dump) == {dump[i][2] : i \in {j \in DOMAIN dump : dump[j][1] > 0}}
Occupied(dump) == {j \in DOMAIN dump : dump[j][1] > 0}

DumpOK(dump, f) ==
    LET size == Len(dump) IN
    /\ DumpKeys(dump) = DOMAIN f
    /\ Cardinality(Occupied(dump)) = Cardinality(DOMAIN f)          \* no key stored twice
    /\ \A i \in Occupied(dump) :
          LET d == dump[i][1]  k == dump[i][2] IN
          /\ (Home(k, size) + d - 1) % size = i - 1                  \* position = home + distance - 1 (0-based)
          /\ \A j \in 0..(d - 2) :                                   \* the probe path from home is fully occupied ...
                LET b == ((Home(k, size) + j) % size) + 1 IN
                /\ dump[b][1] > 0
                /\ dump[b][1] >= j + 1                               \* ... by entries at least as far from home (robin hood)
=============================================================================
