-------------------------------- MODULE Repl --------------------------------
(***************************************************************************)
(* Incremental evaluation equals whole-program evaluation (C18).           *)
(*                                                                         *)
(* A program is a sequence of N top-level statements.  Its meaning after   *)
(* the first i statements - the output printed so far, the package-level   *)
(* variables, the value of the last expression - is Obs[i]; it is computed *)
(* by MiniGo.tla for every prefix and handed to this module as a constant. *)
(* Feed(k) evaluates the next k statements as ONE Eval call on the same    *)
(* VM.  The property: whatever the chunking, after having consumed i       *)
(* statements the observable state is Obs[i] - it depends on the prefix    *)
(* length only.  TLC explores every way of cutting the program into        *)
(* consecutive chunks (2^(N-1) chunkings) and emits each with the          *)
(* observation required after every chunk.                                 *)
(***************************************************************************)
EXTENDS Integers, Sequences, TLC, Json

CONSTANT ObsFile
Programs == JsonDeserialize(ObsFile)     \* sequence of [id, n, obs: sequence of n+1 observation ids (obs[i+1] is the state after i statements)]

VARIABLES p, pos, cuts, seen
replVars == <<p, pos, cuts, seen>>
N == Programs[p].n

ReplInit == p \in 1..Len(Programs) /\ pos = 0 /\ cuts = <<>> /\ seen = <<Programs[p].obs[1]>>
Feed(k) == /\ pos + k <= N
           /\ pos' = pos + k
           /\ cuts' = Append(cuts, k)
           /\ seen' = Append(seen, Programs[p].obs[pos + k + 1])    \* what the VM must show after this chunk
           /\ UNCHANGED p
ReplNext == \E k \in 1..N : Feed(k)
ReplSpec == ReplInit /\ [][ReplNext]_replVars

RECURSIVE SumSeq(_)
SumSeq(s) == IF s = <<>> THEN 0 ELSE Head(s) + SumSeq(Tail(s))
\* the state is a function of the number of statements consumed, not of how they were chunked
PrefixOnly == /\ pos = SumSeq(cuts)
              /\ seen[Len(seen)] = Programs[p].obs[pos + 1]
Emit == pos = N => PrintT(<<"BEH", ToJson([prog |-> Programs[p].id, cuts |-> cuts, seen |-> seen])>>)
=============================================================================
