------------------------------- MODULE GoExpr -------------------------------
(***************************************************************************)
(* Go's expression grouping (C05): five binary precedence levels, left-to- *)
(* right association inside a level, unary operators binding tighter than  *)
(* any binary operator, parentheses overriding.                            *)
(*                                                                         *)
(* The specification works on TREES (the grouping is explicit) and defines *)
(*   Unparse(tree): the token string with exactly the parentheses Go needs *)
(*                  to read it back as that tree, and                      *)
(*   Eval(tree, env): its value with int32 / bool semantics (FixedWidth),  *)
(*                  short-circuit && and ||, run-time panics for division  *)
(*                  by zero and negative shift counts.                     *)
(* TLC enumerates every well-typed tree with up to MaxOps binary operators *)
(* (optionally one unary prefix at any node) and emits tokens + expected   *)
(* values; the harness feeds the token string to the real parser/VM.       *)
(***************************************************************************)
EXTENDS FixedWidth, FiniteSets, TLC, Json

IntOps  == {"+", "-", "*", "/", "%", "&", "&^", "|", "^", "<<", ">>"}
CmpOps  == {"==", "!=", "<", "<=", ">", ">="}
BoolOps == {"&&", "||"}

Prec(op) == CASE op \in {"*", "/", "%", "<<", ">>", "&", "&^"} -> 5
              [] op \in {"+", "-", "|", "^"} -> 4
              [] op \in CmpOps \cup {"==b", "!=b"} -> 3
              [] op = "&&" -> 2
              [] op = "||" -> 1

\* (operator, operand type, result type); "==b"/"!=b" compare booleans and are spelled == / !=
ArgTy(op) == IF op \in IntOps \cup CmpOps THEN "int" ELSE "bool"
ResTy(op) == IF op \in IntOps THEN "int" ELSE "bool"
OpsGiving(ty) == IF ty = "int" THEN IntOps ELSE CmpOps \cup BoolOps \cup {"==b", "!=b"}
Spell(op) == IF op = "==b" THEN "==" ELSE IF op = "!=b" THEN "!=" ELSE op

\* ---------------------------------------------------------------------------
\* enumeration of tree shapes with operator labels (leaves still unnamed)
RECURSIVE Shapes(_, _)
Shapes(k, ty) ==
    IF k = 0 THEN {[k |-> "v", ty |-> ty]}
    ELSE UNION { UNION { {[k |-> "b", op |-> op, l |-> l, r |-> r] :
                              l \in Shapes(i, ArgTy(op)), r \in Shapes(k - 1 - i, ArgTy(op))}
                         : i \in 0..(k - 1) }
                 : op \in OpsGiving(ty) }

TyOf(t) == IF t.k = "v" THEN t.ty ELSE IF t.k = "u" THEN (IF t.op = "!" THEN "bool" ELSE "int") ELSE ResTy(t.op)

RECURSIVE Size(_)
Size(t) == IF t.k = "v" THEN 1 ELSE IF t.k = "u" THEN 1 + Size(t.x) ELSE 1 + Size(t.l) + Size(t.r)

\* all ways of putting ONE unary prefix at the node with preorder index n (1-based); ops by type
UnaryFor(ty) == IF ty = "int" THEN {"-", "^"} ELSE {"!"}
RECURSIVE WrapAt(_, _, _)
WrapAt(t, n, uop) ==
    IF n = 1 THEN [k |-> "u", op |-> uop, x |-> t]
    ELSE IF t.k = "b" THEN
            (IF n - 1 <= Size(t.l) THEN [t EXCEPT !.l = WrapAt(t.l, n - 1, uop)]
             ELSE [t EXCEPT !.r = WrapAt(t.r, n - 1 - Size(t.l), uop)])
    ELSE t
RECURSIVE NodeAt(_, _)
NodeAt(t, n) == IF n = 1 THEN t
                ELSE IF n - 1 <= Size(t.l) THEN NodeAt(t.l, n - 1) ELSE NodeAt(t.r, n - 1 - Size(t.l))
WithUnary(t) == UNION { {WrapAt(t, n, u) : u \in UnaryFor(TyOf(NodeAt(t, n)))} : n \in 1..Size(t) }
\* a second unary directly on top of the first (- -a, ^ -a, ! !p) at the root of every operand
DoubleUnary(t) == UNION { UNION { {WrapAt(WrapAt(t, n, u), n, u2) : u2 \in UnaryFor(TyOf(NodeAt(t, n)))}
                                   : u \in UnaryFor(TyOf(NodeAt(t, n))) } : n \in {m \in 1..Size(t) : NodeAt(t, m).k = "v"} }

\* ---------------------------------------------------------------------------
\* leaves are named in order of appearance: ints a b c d e, bools p q r s t
IntNames  == <<"a", "b", "c", "d", "e">>
BoolNames == <<"p", "q", "r", "s", "t">>
RECURSIVE Named(_, _, _)
\* returns <<tree, nextInt, nextBool>>
Named(t, ni, nb) ==
    IF t.k = "v" THEN
        (IF t.ty = "int" THEN <<[k |-> "v", ty |-> "int", name |-> IntNames[ni]], ni + 1, nb>>
         ELSE <<[k |-> "v", ty |-> "bool", name |-> BoolNames[nb]], ni, nb + 1>>)
    ELSE IF t.k = "u" THEN
        LET x == Named(t.x, ni, nb) IN <<[k |-> "u", op |-> t.op, x |-> x[1]], x[2], x[3]>>
    ELSE LET l == Named(t.l, ni, nb)
             r == Named(t.r, l[2], l[3])
         IN <<[k |-> "b", op |-> t.op, l |-> l[1], r |-> r[1]], r[2], r[3]>>
Name(t) == Named(t, 1, 1)[1]

\* ---------------------------------------------------------------------------
\* token string with the minimal parentheses
RECURSIVE Unparse(_)
Paren(s) == <<"(">> \o s \o <<")">>
Unparse(t) ==
    IF t.k = "v" THEN <<t.name>>
    ELSE IF t.k = "u" THEN <<t.op>> \o (IF t.x.k = "b" THEN Paren(Unparse(t.x)) ELSE Unparse(t.x))
    ELSE LET pl == IF t.l.k = "b" /\ Prec(t.l.op) < Prec(t.op) THEN Paren(Unparse(t.l)) ELSE Unparse(t.l)
             pr == IF t.r.k = "b" /\ Prec(t.r.op) <= Prec(t.op) THEN Paren(Unparse(t.r)) ELSE Unparse(t.r)
         IN pl \o <<Spell(t.op)>> \o pr

\* ---------------------------------------------------------------------------
\* integer literals that may stand where an integer operand stands
LitVal == ("1" :> 1) @@ ("2" :> 2)
\* evaluation: result <<ok, value>>, booleans as 0/1; ok = FALSE is a run-time panic
B2I(b) == IF b THEN 1 ELSE 0
RECURSIVE Eval(_, _)
Eval(t, env) ==
    IF t.k = "v" THEN <<TRUE, IF t.name \in DOMAIN LitVal THEN LitVal[t.name] ELSE env[t.name]>>
    ELSE IF t.k = "u" THEN
        LET x == Eval(t.x, env) IN
        IF ~x[1] THEN x
        ELSE IF t.op = "-" THEN <<TRUE, Neg32(x[2])>>
        ELSE IF t.op = "^" THEN <<TRUE, Not32(x[2])>>
        ELSE <<TRUE, 1 - x[2]>>
    ELSE LET l == Eval(t.l, env) IN
         IF ~l[1] THEN l
         ELSE IF t.op = "&&" /\ l[2] = 0 THEN <<TRUE, 0>>          \* short circuit: right side not evaluated
         ELSE IF t.op = "||" /\ l[2] = 1 THEN <<TRUE, 1>>
         ELSE LET r == Eval(t.r, env) IN
              IF ~r[1] THEN r
              ELSE IF t.op \in {"&&", "||"} THEN <<TRUE, r[2]>>
              ELSE IF t.op \in {"==b", "==" } THEN <<TRUE, B2I(l[2] = r[2])>>
              ELSE IF t.op \in {"!=b", "!="} THEN <<TRUE, B2I(l[2] # r[2])>>
              ELSE IF t.op \in CmpOps THEN <<TRUE, B2I(Cmp("int32", t.op, l[2], r[2]))>>
              ELSE IF t.op \in {"/", "%"} /\ r[2] = 0 THEN <<FALSE, 0>>
              ELSE IF t.op \in {"<<", ">>"} /\ r[2] < 0 THEN <<FALSE, 0>>
              ELSE <<TRUE, Bin("int32", t.op, l[2], r[2])>>

Envs == << [a |-> 7,  b |-> -3, c |-> 2, d |-> 5,  e |-> -6, p |-> 1, q |-> 0, r |-> 1, s |-> 0, t |-> 1],
           [a |-> -8, b |-> 3,  c |-> 1, d |-> -2, e |-> 9,  p |-> 0, q |-> 1, r |-> 1, s |-> 0, t |-> 0],
           [a |-> 1,  b |-> 2,  c |-> 3, d |-> 4,  e |-> 5,  p |-> 0, q |-> 0, r |-> 1, s |-> 1, t |-> 0],
           [a |-> 100, b |-> 0, c |-> -1, d |-> 31, e |-> 2, p |-> 1, q |-> 1, r |-> 0, s |-> 0, t |-> 1],
           \* the ends of the int32 range
           [a |-> 2147483647, b |-> Min32, c |-> 2147483647, d |-> 1, e |-> -1, p |-> 1, q |-> 0, r |-> 0, s |-> 1, t |-> 1] >>

\* ---------------------------------------------------------------------------
\* reference parser: precedence climbing over the token string (what the Go specification's grammar
\* prescribes); MC_GoExpr checks Parse(Unparse(t)) = t for every enumerated tree
NameTy(n) == IF n \in {"a", "b", "c", "d", "e"} \cup DOMAIN LitVal THEN "int" ELSE "bool"
BinPrec(tk) == IF tk \in {"==", "!="} THEN 3 ELSE Prec(tk)
RECURSIVE PUnary(_, _), PBin(_, _, _), PLoop(_, _, _, _)
PUnary(s, i) ==
    IF s[i] = "(" THEN LET r == PBin(s, i + 1, 1) IN <<r[1], r[2] + 1>>
    ELSE IF s[i] \in {"-", "^", "!"} THEN LET r == PUnary(s, i + 1) IN <<[k |-> "u", op |-> s[i], x |-> r[1]], r[2]>>
    ELSE <<[k |-> "v", ty |-> NameTy(s[i]), name |-> s[i]], i + 1>>
PBin(s, i, minp) == LET l == PUnary(s, i) IN PLoop(s, l[1], l[2], minp)
PLoop(s, left, i, minp) ==
    IF i > Len(s) THEN <<left, i>>
    ELSE IF s[i] = ")" THEN <<left, i>>
    ELSE IF BinPrec(s[i]) < minp THEN <<left, i>>
    ELSE LET r == PBin(s, i + 1, BinPrec(s[i]) + 1)
             op == IF s[i] \in {"==", "!="} /\ TyOf(left) = "bool" THEN (IF s[i] = "==" THEN "==b" ELSE "!=b") ELSE s[i]
         IN PLoop(s, [k |-> "b", op |-> op, l |-> left, r |-> r[1]], r[2], minp)
Parse(s) == PBin(s, 1, 1)[1]

Record(t0) == LET t == Name(t0) IN
    [ toks |-> Unparse(t), ty |-> TyOf(t0),
      vals |-> [i \in 1..Len(Envs) |-> Eval(t, Envs[i])[2]],
      oks  |-> [i \in 1..Len(Envs) |-> Eval(t, Envs[i])[1]] ]
=============================================================================
