SPECIFICATION Spec
CONSTANTS
  Keys = {1, 2, 3}
  Vals = {1}
  NoVal = 99
  MaxInc = 2
  MaxDepth = 1
CONSTRAINT Bound
INVARIANTS TypeOK YieldedWereEntries DeadStaysDead
PROPERTY YieldOnlyLive
CHECK_DEADLOCK FALSE
