SPECIFICATION TraceSpec
CONSTANTS TraceFile = "trace.ndjson"
POSTCONDITION TraceAccepted
CHECK_DEADLOCK FALSE
