-------------------------------- MODULE GoFmt --------------------------------
(***************************************************************************)
(* How values print (C14): the %v rendering of Go's fmt for booleans,      *)
(* integers of every width, float64, strings, arbitrarily nested slices    *)
(* and maps (entries in ascending key order, as fmt prints them; keys are  *)
(* booleans, integers or strings when there are several); struct           *)
(* references as &{Field:value ...} in                                     *)
(* declaration order; operands of Println separated by one space.          *)
(* Text is a sequence of bytes.                                            *)
(*                                                                         *)
(* A float64 is described by its shortest decimal representation:          *)
(* sign, significant digits d1..dn (d1 # 0, dn # 0) and the position dp of *)
(* the decimal point (value = 0.d1..dn * 10^dp), or a special (NaN, +Inf,  *)
(* -Inf, 0, -0).  Go prints %v as %g with the shortest digits: exponent    *)
(* form iff the decimal exponent dp-1 is < -4 or >= 6 (strconv uses the    *)
(* precision 6 for this decision when the digits are the shortest ones);   *)
(* FloatText is calibrated against fmt.Sprint on every value of every run. *)
(***************************************************************************)
EXTENDS FixedWidth

Digit(d) == 48 + d                       \* ASCII of a decimal digit
RECURSIVE NatText(_)
NatText(n) == IF n < 10 THEN <<Digit(n)>> ELSE NatText(n \div 10) \o <<Digit(n % 10)>>
\* decimal text of an int32 (Min32 has no positive counterpart)
IntText(x) == IF x >= 0 THEN NatText(x)
              ELSE IF x = Min32 THEN <<45>> \o NatText(214748364) \o <<Digit(8)>>
              ELSE <<45>> \o NatText(-x)
\* decimal text of a uint32 given as bit pattern: divide the unsigned value by 10
RECURSIVE UText(_)
UText(p) == IF p >= 0 /\ p < 10 THEN <<Digit(p)>> ELSE UText(UQuo32(p, 10)) \o <<Digit(URem32(p, 10))>>

Digits(ds) == [i \in 1..Len(ds) |-> Digit(ds[i])]
Zeros0(n) == [i \in 1..n |-> 48]

\* float64 text from the shortest digits ds and decimal point position dp
FloatText(f) ==
    CASE f.special = "nan"  -> <<78, 97, 78>>
      [] f.special = "+inf" -> <<43, 73, 110, 102>>
      [] f.special = "-inf" -> <<45, 73, 110, 102>>
      [] f.special = "0"    -> <<48>>
      [] f.special = "-0"   -> <<45, 48>>
      [] OTHER ->
        LET sign == IF f.neg THEN <<45>> ELSE <<>>
            n == Len(f.digits)
            exp == f.dp - 1
            ds == Digits(f.digits)
        IN IF exp < -4 \/ exp >= 6
           THEN \* d.ddde+XX with at least two exponent digits
                sign \o <<ds[1]>> \o (IF n > 1 THEN <<46>> \o SubSeq(ds, 2, n) ELSE <<>>) \o <<101>> \o
                (IF exp < 0 THEN <<45>> ELSE <<43>>) \o
                (LET a == IF exp < 0 THEN -exp ELSE exp IN IF a < 10 THEN <<48>> \o NatText(a) ELSE NatText(a))
           ELSE IF f.dp <= 0 THEN sign \o <<48, 46>> \o Zeros0(-f.dp) \o ds
           ELSE IF f.dp >= n THEN sign \o ds \o Zeros0(f.dp - n)
           ELSE sign \o SubSeq(ds, 1, f.dp) \o <<46>> \o SubSeq(ds, f.dp + 1, n)

\* order of map keys in the printed text: false < true, integers by value, strings bytewise
RECURSIVE SeqLess(_, _)
SeqLess(a, b) == IF b = <<>> THEN FALSE ELSE IF a = <<>> THEN TRUE
                 ELSE IF Head(a) # Head(b) THEN Head(a) < Head(b) ELSE SeqLess(Tail(a), Tail(b))
KeyLess(a, b) == CASE a.t = "int"  -> IF a.ty = "uint32" THEN U32Lt(a.v, b.v) ELSE a.v < b.v
                   [] a.t = "str"  -> SeqLess(a.s, b.s)
                   [] a.t = "bool" -> ~a.b /\ b.b
                   [] OTHER -> FALSE
RECURSIVE KeyOrder(_, _)
KeyOrder(ks, S) == IF S = {} THEN <<>>
                   ELSE LET m == CHOOSE i \in S : \A j \in S : j = i \/ KeyLess(ks[i], ks[j])
                        IN <<m>> \o KeyOrder(ks, S \ {m})

RECURSIVE Fmt(_)
RECURSIVE JoinFmt(_, _)
RECURSIVE EntriesFmt(_, _, _, _)
JoinFmt(vs, i) == IF i > Len(vs) THEN <<>>
                  ELSE (IF i > 1 THEN <<32>> ELSE <<>>) \o Fmt(vs[i]) \o JoinFmt(vs, i + 1)
RECURSIVE FieldsFmt(_, _, _)
FieldsFmt(names, vals, i) == IF i > Len(names) THEN <<>>
                             ELSE (IF i > 1 THEN <<32>> ELSE <<>>) \o names[i] \o <<58>> \o Fmt(vals[i]) \o FieldsFmt(names, vals, i + 1)
EntriesFmt(ks, vs, order, i) == IF i > Len(order) THEN <<>>
                                ELSE (IF i > 1 THEN <<32>> ELSE <<>>) \o Fmt(ks[order[i]]) \o <<58>> \o Fmt(vs[order[i]]) \o EntriesFmt(ks, vs, order, i + 1)
Fmt(v) ==
    CASE v.t = "bool" -> IF v.b THEN <<116, 114, 117, 101>> ELSE <<102, 97, 108, 115, 101>>
      [] v.t = "int" -> IF v.ty = "uint32" THEN UText(v.v) ELSE IntText(v.v)
      [] v.t = "flt" -> FloatText(v)
      [] v.t = "str" -> v.s
      [] v.t = "slice" -> <<91>> \o JoinFmt(v.elems, 1) \o <<93>>
      [] v.t = "map" -> <<109, 97, 112, 91>> \o Fmt(v.k) \o <<58>> \o Fmt(v.v) \o <<93>>      \* single entry (or none)
      [] v.t = "mmap" -> <<109, 97, 112, 91>> \o EntriesFmt(v.ks, v.vs, KeyOrder(v.ks, DOMAIN v.ks), 1) \o <<93>>   \* several entries: ascending keys
      [] v.t = "emptymap" -> <<109, 97, 112, 91, 93>>
      [] v.t = "struct" -> <<38, 123>> \o FieldsFmt(v.names, v.vals, 1) \o <<125>>
      [] v.t = "println" -> JoinFmt(v.elems, 1) \o <<10>>     \* Println: operands separated by one space, then a newline

Println(vs) == Fmt([t |-> "println", elems |-> vs])
=============================================================================
