----------------------------- MODULE LoaderOrder -----------------------------
(* Pure operators shared by Loader.tla and MC_Loader.tla: reachability, cycles, the ordering loop *)
(* of load.go (LoadImpl) and the topological-order predicate.                                     *)
EXTENDS Integers, Sequences, FiniteSets

\* ------------------------------------------------------------------ graph helpers
RECURSIVE ReachFrom(_, _, _)
ReachFrom(imp, frontier, seen) ==
    IF frontier = {} THEN seen
    ELSE LET next == UNION {imp[p] : p \in frontier} \ seen
         IN ReachFrom(imp, next, seen \cup next)
Reach(imp, root) == ReachFrom(imp, {root}, {root})

\* p lies on a cycle iff it can reach itself in one or more steps
OnCycle(imp, p) == p \in ReachFrom(imp, imp[p], imp[p])
HasCycle(imp, root) == \E p \in Reach(imp, root) : OnCycle(imp, p)

\* ------------------------------------------------------------------ LoadImpl (ordering loop of load.go)
\* state of the algorithm: pending packages with their unresolved imports, the produced order
RECURSIVE MinOf(_)
MinOf(S) == CHOOSE x \in S : \A y \in S : x <= y

ImplStep(pending, deps, order) ==
    \* returns <<pending', deps', order', status>>
    LET ready == {p \in pending : deps[p] = {}} IN
    IF pending = {} THEN <<pending, deps, order, "ok">>
    ELSE IF ready = {} THEN <<pending, deps, order, "error">>
    ELSE LET p == MinOf(ready) IN
         <<pending \ {p}, [q \in DOMAIN deps |-> deps[q] \ {p}], Append(order, p), "running">>

RECURSIVE ImplRun(_, _, _)
ImplRun(pending, deps, order) ==
    LET s == ImplStep(pending, deps, order) IN
    IF s[4] = "running" THEN ImplRun(s[1], s[2], s[3]) ELSE <<s[3], s[4]>>

\* the implementation's answer for a graph: <<order of packages, "ok" | "error">>
ImplAnswer(g, r) == LET R == Reach(g, r) IN ImplRun(R, [p \in R |-> g[p] \cap R], <<>>)

\* what LoadSpec allows as a package-level order: a topological order of the reachable packages
IsTopo(g, r, order) ==
    /\ {order[i] : i \in DOMAIN order} = Reach(g, r)
    /\ Len(order) = Cardinality(Reach(g, r))
    /\ \A i \in DOMAIN order : \A q \in g[order[i]] : \E j \in 1..(i - 1) : order[j] = q
=============================================================================
