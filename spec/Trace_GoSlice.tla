---- MODULE Trace_GoSlice ----
(* M3 for C11: histories of slice operations run on the real implementation (script syntax, host   *)
(* Value API) or on native Go slices (calibration).  Every line carries the operation and, in obs,   *)
(* the contents of EVERY variable of the pool afterwards.  The capacity chosen by a growing append    *)
(* is not logged: TLC finds out whether SOME admissible sequence of capacities explains everything.  *)
EXTENDS GoSlice, TLC, Json
CONSTANT TraceFile
Trace == ndJsonDeserialize(TraceFile)
VARIABLE l
tvars == <<gsVars, l>>
Ev == Trace[l]
IsEvent(op) == l <= Len(Trace) /\ Ev.op = op /\ l' = l + 1
\* the logged contents must hold in the successor state
Obs == \A v \in 1..NV : Ev.obs[v] = ContentsOf(sv'[v], arrays')

TReset  == IsEvent("reset") /\ arrays' = <<>> /\ sv' = [v \in 1..NV |-> NilS]
TMake   == IsEvent("make") /\ Make(Ev.v, Ev.n) /\ Obs
TLit    == IsEvent("lit") /\ Lit(Ev.v, Ev.elems) /\ Obs
TNil    == IsEvent("nil") /\ SetNil(Ev.v) /\ Obs
TAssign == IsEvent("assign") /\ Assign(Ev.v, Ev.src) /\ Obs
TSub    == IsEvent("sub") /\ ~Ev.panic /\ Sub(Ev.v, Ev.src, Ev.i, Ev.j) /\ Obs
\* a failing slice operation is admissible unless success is certain
TSubP   == IsEvent("sub") /\ Ev.panic /\ ~SubOK(Ev.src, Ev.i, Ev.j) /\ UNCHANGED gsVars
TWrite  == IsEvent("write") /\ ~Ev.panic /\ Write(Ev.v, Ev.i, Ev.x) /\ Obs
TWriteP == IsEvent("write") /\ Ev.panic /\ ~WriteOK(Ev.v, Ev.i) /\ UNCHANGED gsVars
TRead   == IsEvent("read") /\ (IF Ev.panic THEN ~WriteOK(Ev.v, Ev.i) ELSE WriteOK(Ev.v, Ev.i) /\ Ev.x = Contents(Ev.v)[Ev.i + 1]) /\ UNCHANGED gsVars
TAppend == IsEvent("append") /\ AppendTo(Ev.v, Ev.src, Ev.elems) /\ Obs
TSpread == IsEvent("appendspread") /\ AppendTo(Ev.v, Ev.src, Contents(Ev.from)) /\ Obs
TCopy   == IsEvent("copy") /\ CopyTo(Ev.dst, Ev.src) /\ Obs
TLen    == IsEvent("len") /\ Ev.n = sv[Ev.v].len /\ UNCHANGED gsVars
TRange  == IsEvent("range") /\ Ev.elems = Contents(Ev.v) /\ UNCHANGED gsVars

TraceInit == GSInit /\ l = 1
TraceNext == TReset \/ TMake \/ TLit \/ TNil \/ TAssign \/ TSub \/ TSubP \/ TWrite \/ TWriteP \/ TRead \/ TAppend \/ TSpread \/ TCopy \/ TLen \/ TRange
TraceSpec == TraceInit /\ [][TraceNext]_tvars
TraceAccepted == LET d == TLCGet("stats").diameter IN
                 /\ PrintT(<<"DIAM", ToString(d)>>)
                 /\ d - 1 = Len(Trace)
====
