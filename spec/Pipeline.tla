------------------------------ MODULE Pipeline ------------------------------
(***************************************************************************)
(* Outcome protocol of the public entry points (C03).                      *)
(*                                                                         *)
(* Eval and Load run a fixed sequence of stages; each stage either         *)
(* succeeds or fails; the call always RETURNS to the host: with values, or *)
(* with an error whose text starts with the prefix of the stage that       *)
(* failed.  Call and Func run the script only.  There is no terminal state *)
(* other than "returned": a Go panic escaping the API or a call that never *)
(* returns is not a behaviour of this specification.                       *)
(***************************************************************************)
EXTENDS Naturals, Sequences, FiniteSets

Entries == {"Eval", "Load", "Call", "Func"}

\* stage names are the error prefixes the implementation promises
Stages(e) ==
    CASE e = "Eval" -> << "error in tokenize", "error in parse", "error in loadImports",
                          "error in compile (imports)", "error in run (imports)",
                          "error in compile", "error in run" >>
      [] e = "Load" -> << "error in load", "error in compile", "error in run", "unexpected returns" >>
      [] e = "Call" -> << "run" >>
      [] e = "Func" -> << "run" >>

\* Call/Func errors carry no stage prefix (the backtrace text is the message)
Prefix(e, i) == IF e \in {"Call", "Func"} THEN "" ELSE Stages(e)[i]

Options == SUBSET {"TreeDump", "CodeDump", "EvalImports"}

VARIABLES entry, opts, stage, state, outcome, prefix
pvars == <<entry, opts, stage, state, outcome, prefix>>

PInit == /\ entry \in Entries
         /\ opts \in Options
         /\ stage = 1
         /\ state = "running"
         /\ outcome = "none"
         /\ prefix = ""

StageOk == /\ state = "running"
           /\ stage < Len(Stages(entry))
           /\ stage' = stage + 1
           /\ UNCHANGED <<entry, opts, state, outcome, prefix>>

LastStageOk == /\ state = "running"
               /\ stage = Len(Stages(entry))
               /\ state' = "returned"
               /\ outcome' = "ok"
               /\ UNCHANGED <<entry, opts, stage, prefix>>

StageErr == /\ state = "running"
            /\ state' = "returned"
            /\ outcome' = "err"
            /\ prefix' = Prefix(entry, stage)
            /\ UNCHANGED <<entry, opts, stage>>

PNext == StageOk \/ LastStageOk \/ StageErr

PSpec == PInit /\ [][PNext]_pvars /\ WF_pvars(PNext)

\* every observable result of a call (used by the trace specification)
Results(e) == {<<"ok", "">>} \cup {<<"err", Prefix(e, i)>> : i \in 1..Len(Stages(e))}

-----------------------------------------------------------------------------
TypeOK == /\ state \in {"running", "returned"}
          /\ outcome \in {"none", "ok", "err"}
          /\ stage \in 1..Len(Stages(entry))

\* the only terminal states are "returned" ones, and they carry a legal result
OnlyReturned == (~ ENABLED PNext) => (state = "returned" /\ <<outcome, prefix>> \in Results(entry))
ReturnedIsLegal == state = "returned" => <<outcome, prefix>> \in Results(entry)
\* every call returns
AlwaysReturns == <>(state = "returned")
=============================================================================
