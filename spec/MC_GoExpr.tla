---- MODULE MC_GoExpr ----
(* Enumerates every well-typed expression tree with MaxOps binary operators; then (Mode "unary")   *)
(* every way of putting one unary prefix on one node; then (Mode "double") a second prefix on the  *)
(* same node.  Every state emits one behaviour record (tokens, type, expected values).             *)
EXTENDS GoExpr
CONSTANTS MaxOps, Mode        \* Mode: "plain" | "unary" | "double"
VARIABLES tree, phase, pos
vars == <<tree, phase, pos>>
Base == Shapes(MaxOps, "int") \cup Shapes(MaxOps, "bool")
Init == tree \in Base /\ phase = 0 /\ pos = 0
AddUnary == /\ phase = 0 /\ Mode \in {"unary", "double"}
            /\ \E n \in 1..Size(tree) : \E u \in UnaryFor(TyOf(NodeAt(tree, n))) :
                   /\ tree' = WrapAt(tree, n, u) /\ pos' = n
            /\ phase' = 1
AddSecond == /\ phase = 1 /\ Mode = "double"
             /\ \E u \in UnaryFor(TyOf(NodeAt(tree, pos))) : tree' = WrapAt(tree, pos, u)
             /\ phase' = 2 /\ pos' = pos
Next == AddUnary \/ AddSecond
Spec == Init /\ [][Next]_vars

\* model-level theorem: the token string determines the tree (the reference parser inverts Unparse)
RoundTrip == Parse(Unparse(Name(tree))) = Name(tree)
Emit == PrintT(<<"BEH", ToJson(Record(tree))>>)
====
