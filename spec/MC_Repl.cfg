SPECIFICATION ReplSpec
CONSTANTS ObsFile = "obs.json"
INVARIANTS PrefixOnly Emit
CHECK_DEADLOCK FALSE
