---- MODULE Trace_Values ----
(* Identity lines of C19: a value built with a constructor and read back through the matching    *)
(* accessor is unchanged.  x and got are sequences of integers (bytes of a string, the two 32-bit  *)
(* halves of a float64 bit pattern, a boolean as 0/1, the elements of a container).               *)
EXTENDS Integers, Sequences, TLC, Json
CONSTANT TraceFile
Trace == ndJsonDeserialize(TraceFile)
VARIABLES l, nbad
tvars == <<l, nbad>>
Ev == Trace[l]
RoundTrip(x) == x                      \* Acc(Con(x)) = x on the constructor's domain
LineOK(e) == e.got = RoundTrip(e.x)
TGood == l <= Len(Trace) /\ LineOK(Ev) /\ l' = l + 1 /\ UNCHANGED nbad
TBad  == l <= Len(Trace) /\ ~LineOK(Ev) /\ PrintT(<<"BAD", ToString(l)>>) /\ l' = l + 1 /\ nbad' = nbad + 1
TraceInit == l = 1 /\ nbad = 0
TraceSpec == TraceInit /\ [][TGood \/ TBad]_tvars
TraceAccepted == LET d == TLCGet("stats").diameter IN
                 /\ PrintT(<<"DIAM", ToString(d)>>)
                 /\ d - 1 = Len(Trace)
====
