SPECIFICATION ASpec
CONSTANTS ProgFile = "progs.json"
INVARIANTS I0_KnownOpcode I1_NoUnderflow I2_JumpsStayInside I3_OwnSlotsOnly I5_ReturnDepth I6_FallOffNeutral L1_NoMissingReturn EmitState
CONSTRAINT DepthWindow
CHECK_DEADLOCK FALSE
