------------------------------ MODULE Backtrace ------------------------------
(***************************************************************************)
(* The call-stack discipline behind run-time error reports (C20).          *)
(*                                                                         *)
(* A program is a set of functions 0..NF (0 is the entry function) that    *)
(* call each other from call SITES; a site is (caller, callee, shape)      *)
(* where the shape is the statement form the call sits in (expression      *)
(* statement, op-assignment, condition, argument of another call, ...,     *)
(* and, last, "return f(...)": when that call returns the caller returns   *)
(* too).  A run is a script of Call / Return / Fault steps.  When a fault  *)
(* of kind k happens the error report must name                            *)
(*   - the function on top of the stack and the line of its fault-k        *)
(*     statement, then                                                     *)
(*   - one line per ACTIVE call, innermost first: the calling function and *)
(*     the call site.                                                      *)
(* Calls that have returned are not active, however many there were.       *)
(*                                                                         *)
(* The stack machine below is the operational form; Replay(script) is the  *)
(* same notion defined from the history alone; TLC checks they agree and   *)
(* that the report has the stated shape, and prints every terminated       *)
(* behaviour: the harness feeds the script to a generated goatlang program *)
(* whose functions interpret it (so every behaviour is a real execution)   *)
(* and compares the error text with the report.                            *)
(***************************************************************************)
EXTENDS Integers, Sequences, TLC, Json

CONSTANTS NF,           \* callable functions 1..NF (0 = entry)
          NShapes,      \* [1..NF -> Nat]: number of call-site shapes for each callee
          TailCallees,  \* callees whose LAST shape is "return callee(...)"
          NoTailCallers,\* callers that cannot contain such a site (no result to return)
          NK,           \* fault kinds 1..NK (every function has one statement per kind)
          MaxDepth, MaxLen,
          MinFaultLen,  \* faults only after that many steps (simulation: lets chains grow)
          RetWeight     \* simulation: weight of Return among the successors

VARIABLES stack,   \* active calls above the entry function, outermost first: [fn, caller, shape, tail]
          script,  \* the steps so far
          status,  \* "run" | "fault" | "done"
          report,  \* the error report required (when status = "fault")
          pad      \* carries no meaning (successor weighting in simulation)
bvars == <<stack, script, status, report, pad>>

Cur == IF stack = <<>> THEN 0 ELSE stack[Len(stack)].fn
IsTail(callee, s) == callee \in TailCallees /\ s = NShapes[callee]
ShapesFor(caller, callee) ==
    IF callee \in TailCallees /\ caller \in NoTailCallers THEN 1..(NShapes[callee] - 1) ELSE 1..NShapes[callee]

\* popping the top frame; a frame called from a "return f()" site takes its caller with it
RECURSIVE Pop(_)
Pop(stk) == IF stk = <<>> THEN <<>>
            ELSE LET t == stk[Len(stk)]  rest == SubSeq(stk, 1, Len(stk) - 1)
                 IN IF t.tail THEN Pop(rest) ELSE rest

Push(stk, f, s) == Append(stk, [fn |-> f, caller |-> IF stk = <<>> THEN 0 ELSE stk[Len(stk)].fn, shape |-> s, tail |-> IsTail(f, s)])

BInit == stack = <<>> /\ script = <<>> /\ status = "run" /\ report = [none |-> TRUE] /\ pad = 0

Call(f, s) == /\ status = "run" /\ Len(stack) < MaxDepth
              /\ s \in ShapesFor(Cur, f)
              /\ stack' = Push(stack, f, s)
              /\ script' = Append(script, [op |-> "call", f |-> f, s |-> s])
              /\ UNCHANGED <<status, report>> /\ pad' = 0

\* the running function returns; returning from the entry function ends the run without error
Return == /\ status = "run"
          /\ script' = Append(script, [op |-> "ret", f |-> 0, s |-> 0])
          /\ IF stack = <<>> THEN status' = "done" /\ stack' = stack
             ELSE /\ stack' = Pop(stack)
                  \* a cascade that empties the stack cannot happen: the entry function has no tail sites
                  /\ status' = status
          /\ UNCHANGED report
          /\ \E w \in 1..RetWeight : pad' = w

ReportOf(stk, k) ==
    [fn |-> IF stk = <<>> THEN 0 ELSE stk[Len(stk)].fn, kind |-> k,
     calls |-> [i \in 1..Len(stk) |-> LET fr == stk[Len(stk) + 1 - i] IN [caller |-> fr.caller, callee |-> fr.fn, shape |-> fr.shape]]]

Fault(k) == /\ status = "run" /\ Len(script) >= MinFaultLen
            /\ status' = "fault"
            /\ script' = Append(script, [op |-> "fault", f |-> k, s |-> 0])
            /\ report' = ReportOf(stack, k)
            /\ UNCHANGED stack /\ pad' = 0

BNext == /\ Len(script) < MaxLen
         /\ \/ \E f \in 1..NF : \E s \in 1..NShapes[f] : Call(f, s)
            \/ Return
            \/ \E k \in 1..NK : Fault(k)
BSpec == BInit /\ [][BNext]_bvars

\* ---- "active call" from the history alone
RECURSIVE Replay(_, _, _)
Replay(ops, i, stk) ==
    IF i > Len(ops) THEN stk
    ELSE LET o == ops[i] IN
         IF o.op = "call" THEN Replay(ops, i + 1, Push(stk, o.f, o.s))
         ELSE IF o.op = "ret" THEN Replay(ops, i + 1, Pop(stk))
         ELSE Replay(ops, i + 1, stk)
StackIsHistory == stack = Replay(script, 1, <<>>)

\* the report lists exactly the active calls, innermost first, each by its CALLER
ReportShape == status = "fault" =>
    /\ report.fn = Cur
    /\ Len(report.calls) = Len(stack)
    /\ \A i \in 1..Len(stack) :
          /\ report.calls[i].callee = (IF i = 1 THEN Cur ELSE report.calls[i - 1].caller)
          /\ report.calls[i].callee = stack[Len(stack) + 1 - i].fn
    /\ (stack # <<>> => report.calls[Len(stack)].caller = 0)
\* a frame entered through a "return f()" site is always directly above a caller that may have one
TailWellFormed == \A i \in 1..Len(stack) : stack[i].tail => stack[i].caller \notin NoTailCallers
DepthBound == Len(stack) <= MaxDepth

Emit == status \in {"fault", "done"} => PrintT(<<"BEH", ToJson([script |-> script, status |-> status, report |-> report, depth |-> Len(stack)])>>)
=============================================================================
