SPECIFICATION TraceSpec
CONSTANTS
  NV = 4
  MaxSlack = 8
  TraceFile = "trace.ndjson"
INVARIANT TypeOK
POSTCONDITION TraceAccepted
CHECK_DEADLOCK FALSE
