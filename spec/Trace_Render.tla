---- MODULE Trace_Render ----
(* Rendering terminates for every value (C14), including self-referential structures: each line     *)
(* reports one rendering of a cyclic object graph run in a child process; it is accepted iff the     *)
(* call returned (some finite text).                                                                 *)
EXTENDS Integers, Sequences, TLC, Json
CONSTANT TraceFile
Trace == ndJsonDeserialize(TraceFile)
VARIABLES l, nbad
tvars == <<l, nbad>>
Ev == Trace[l]
Rendered(e) == e.finished /\ e.length >= 0
TGood == l <= Len(Trace) /\ Rendered(Ev) /\ l' = l + 1 /\ UNCHANGED nbad
TBad  == l <= Len(Trace) /\ ~Rendered(Ev) /\ PrintT(<<"BAD", ToString(l)>>) /\ l' = l + 1 /\ nbad' = nbad + 1
TraceInit == l = 1 /\ nbad = 0
TraceSpec == TraceInit /\ [][TGood \/ TBad]_tvars
TraceAccepted == LET d == TLCGet("stats").diameter IN PrintT(<<"DIAM", ToString(d)>>) /\ d - 1 = Len(Trace)
====
