---- MODULE Trace_Struct ----
(* M3 for C12 at script level: the operations a generated program performs and the text it printed *)
(* for every read / method call; fields are 0-based in the trace.                                  *)
EXTENDS StructSpec, TLC, Json
CONSTANT TraceFile
Trace == ndJsonDeserialize(TraceFile)
VARIABLES l, nbad
tvars == <<ssVars, l, nbad>>
Ev == Trace[l]

Step(e) ==
    CASE e.op = "reset" -> SReset(e.zeros, e.types)
      [] e.op = "new"   -> SNew
      [] e.op = "alias" -> SAlias(e.of)
      [] e.op = "write" -> SWrite(e.var, e.f + 1, e.val)
      [] OTHER          -> SRead
Legal(e) ==
    CASE e.op = "read"    -> e.got = SReadVal(e.var, e.f + 1)
      [] e.op = "method"  -> IF e.f >= 0 THEN e.got = SReadVal(e.var, e.f + 1) ELSE e.got = e.val
      [] e.op = "readnil" -> e.got = "true"
      [] e.op = "type"    -> ftypes[e.f + 1] = "" \/ e.got = ftypes[e.f + 1]
      [] e.op = "new"     -> e.var = Len(vars) + 1 /\ e.nfields = Len(zeros)
      [] e.op = "alias"   -> e.var = Len(vars) + 1
      [] OTHER            -> TRUE
TStep == /\ l <= Len(Trace)
         /\ Step(Ev)
         /\ l' = l + 1
         /\ IF Legal(Ev) THEN UNCHANGED nbad ELSE PrintT(<<"BAD", ToString(l)>>) /\ nbad' = nbad + 1
TraceInit == SInit /\ l = 1 /\ nbad = 0
TraceSpec == TraceInit /\ [][TStep]_tvars
TraceAccepted == LET d == TLCGet("stats").diameter IN
                 /\ PrintT(<<"DIAM", ToString(d)>>)
                 /\ d - 1 = Len(Trace)
====
