----------------------------- MODULE StructSpec -----------------------------
(***************************************************************************)
(* Struct values as the property (C12) describes them: every instance has  *)
(* exactly the fields of its type, each holding the last value stored to   *)
(* it (initially the zero value of its declared type), independently of    *)
(* all other fields; variables are references (aliases see each other's    *)
(* writes); methods are found on every instance of the type and of types   *)
(* defined from it.  Values are their printed text.                        *)
(***************************************************************************)
EXTENDS Integers, Sequences

VARIABLES zeros,  \* zero value text of each declared field, in declaration order
          ftypes, \* declared type of each field ("" where the trace does not observe it): what a field holds has this type
                  \* whatever was stored (an untyped constant adopts it)
          inst,   \* sequence of instances: inst[i][f] = current text of field f
          vars    \* vars[v] = index of the instance variable v refers to
ssVars == <<zeros, ftypes, inst, vars>>

SInit == zeros = <<>> /\ ftypes = <<>> /\ inst = <<>> /\ vars = <<>>
SReset(z, t) == zeros' = z /\ ftypes' = t /\ inst' = <<>> /\ vars' = <<>>
SNew == /\ inst' = Append(inst, zeros)
        /\ vars' = Append(vars, Len(inst) + 1)
        /\ UNCHANGED <<zeros, ftypes>>
SAlias(of) == vars' = Append(vars, vars[of]) /\ UNCHANGED <<zeros, ftypes, inst>>
SWrite(v, f, val) == inst' = [inst EXCEPT ![vars[v]][f] = val] /\ UNCHANGED <<zeros, ftypes, vars>>
SReadVal(v, f) == inst[vars[v]][f]
SRead == UNCHANGED ssVars
=============================================================================
