SPECIFICATION TraceSpec
CONSTANTS
  Keys = {1,2,3,4,5,6,7,8,9,10,11,12,13,14,15,16,17,18,19,20}
  Vals = {1,2,3,4,5,6,7,8,9}
  NoVal = 99
  TraceFile = "trace.ndjson"
INVARIANTS TypeOK YieldedWereEntries
POSTCONDITION TraceAccepted
CHECK_DEADLOCK FALSE
