---- MODULE Trace_IntMap ----
(* M3 for the robin-hood table: every operation performed on the real table (hook VerifIntMap)    *)
(* is one line: [op, t: table index, k, v, ok, n, dump].  Results of Get/Len must equal the        *)
(* abstract table's; when a bucket dump is present it must satisfy the layout invariants and hold  *)
(* exactly the abstract table's keys.                                                              *)
EXTENDS IntMapSpec, TLC, Json
CONSTANT TraceFile
Trace == ndJsonDeserialize(TraceFile)
VARIABLES l, nbad
tvars == <<tabs, l, nbad>>
Ev == Trace[l]

DumpCheck(e, f) == (Len(e.dump) = 0) \/ DumpOK(e.dump, f)

\* effect of the line on the abstract state (tabs') and whether the observation is legal
Step(e) ==
    CASE e.op = "reset"  -> tabs' = <<Empty>>
      [] e.op = "set"    -> ISet(e.t, e.k, [ty |-> e.ty, n |-> e.v])
      [] e.op = "assign" -> IAssign(e.t, e.k, [ty |-> e.ty, n |-> e.v])
      [] e.op = "del"    -> IDelete(e.t, e.k)
      [] e.op = "copy"   -> ICopy(e.t)
      [] OTHER           -> IRead
Legal(e) ==
    CASE e.op = "get" -> /\ e.ok = Has(e.t, e.k)
                         /\ (Has(e.t, e.k) => e.v = Val(e.t, e.k).n /\ e.ty = Val(e.t, e.k).ty)
      [] e.op = "len" -> e.n = Count(e.t)
      [] OTHER        -> TRUE

TStep == /\ l <= Len(Trace)
         /\ Step(Ev)
         /\ l' = l + 1
         /\ IF Legal(Ev) /\ (Ev.op = "reset" \/ DumpCheck(Ev, tabs'[Ev.t]))
            THEN UNCHANGED nbad
            ELSE PrintT(<<"BAD", ToString(l)>>) /\ nbad' = nbad + 1

TraceInit == IMInit /\ l = 1 /\ nbad = 0
TraceSpec == TraceInit /\ [][TStep]_tvars
TraceAccepted == LET d == TLCGet("stats").diameter IN
                 /\ PrintT(<<"DIAM", ToString(d)>>)
                 /\ d - 1 = Len(Trace)
====
