------------------------------- MODULE Reload -------------------------------
(***************************************************************************)
(* Reloading a package into a running VM (C17).                            *)
(*                                                                         *)
(* A package exists in versions 1..NVer that differ in function and method *)
(* bodies (each body reports its version) and in the initial value of the  *)
(* initialised variable.  After Load(k), EVERY way of reaching a function  *)
(* or method runs version k's body: a direct call, a function value        *)
(* captured by the host at any earlier time, a function stored in a struct *)
(* field of an instance created earlier, a bound method captured earlier.  *)
(* A package-level variable declared without initialiser keeps its value   *)
(* across loads; one declared with an initialiser is re-initialised.       *)
(* Loading the same version again changes nothing observable.              *)
(* hist records every step with the observation the implementation must    *)
(* produce; it is what the harness replays on one long-lived VM.           *)
(***************************************************************************)
EXTENDS Integers, Sequences, TLC, Json

CONSTANTS NVer, MaxLen

VARIABLES ver,      \* currently loaded version (0: none)
          counter,  \* variable without initialiser (mutated by Bump)
          base,     \* variable with initialiser 100 + version (mutated by SetBase)
          hasFv,    \* the host holds a function value of Tag captured earlier
          hasInst,  \* an instance (X = 5, H = Tag) created earlier is stored in a variable without initialiser
          hasBM,    \* a bound method of that instance captured earlier
          anyset,   \* variables of type any / of an interface type, declared without initialiser, hold a value
          hist
rvars == <<ver, counter, base, hasFv, hasInst, hasBM, anyset, hist>>

RInit == ver = 0 /\ counter = 0 /\ base = 0 /\ hasFv = FALSE /\ hasInst = FALSE /\ hasBM = FALSE /\ anyset = FALSE /\ hist = <<>>

Log(op, arg, want) == hist' = Append(hist, [op |-> op, arg |-> arg, want |-> want])

Load(k) == /\ ver' = k /\ base' = 100 + k
           /\ Log("load", k, 0)
           /\ UNCHANGED <<counter, hasFv, hasInst, hasBM, anyset>>

Loaded == ver > 0
\* calls: each returns a number that identifies the version of the body that ran
CallDirect   == Loaded /\ Log("call-direct", 0, ver) /\ UNCHANGED <<ver, counter, base, hasFv, hasInst, hasBM, anyset>>
CallFv       == Loaded /\ hasFv /\ Log("call-fv", 0, ver) /\ UNCHANGED <<ver, counter, base, hasFv, hasInst, hasBM, anyset>>
CallField    == Loaded /\ hasInst /\ Log("call-field", 0, ver) /\ UNCHANGED <<ver, counter, base, hasFv, hasInst, hasBM, anyset>>
CallMethod   == Loaded /\ hasInst /\ Log("call-method", 0, ver * 10 + 5) /\ UNCHANGED <<ver, counter, base, hasFv, hasInst, hasBM, anyset>>
CallBM       == Loaded /\ hasBM /\ Log("call-bm", 0, ver * 10 + 5) /\ UNCHANGED <<ver, counter, base, hasFv, hasInst, hasBM, anyset>>
\* a function that exists from version 2 on
CallExtra    == ver >= 2 /\ Log("call-extra", 0, ver * 100) /\ UNCHANGED <<ver, counter, base, hasFv, hasInst, hasBM, anyset>>

CaptureFv   == Loaded /\ ~hasFv /\ hasFv' = TRUE /\ Log("capture-fv", 0, 0) /\ UNCHANGED <<ver, counter, base, hasInst, hasBM, anyset>>
CaptureInst == Loaded /\ ~hasInst /\ hasInst' = TRUE /\ Log("capture-inst", 0, 0) /\ UNCHANGED <<ver, counter, base, hasFv, hasBM, anyset>>
CaptureBM   == Loaded /\ hasInst /\ ~hasBM /\ hasBM' = TRUE /\ Log("capture-bm", 0, 0) /\ UNCHANGED <<ver, counter, base, hasFv, hasInst, anyset>>

Bump    == Loaded /\ counter' = counter + 1 /\ Log("bump", 0, counter + 1) /\ UNCHANGED <<ver, base, hasFv, hasInst, hasBM, anyset>>
SetBase == Loaded /\ base' = 999 /\ Log("setbase", 999, 999) /\ UNCHANGED <<ver, counter, hasFv, hasInst, hasBM, anyset>>
SetAny  == Loaded /\ ~anyset /\ anyset' = TRUE /\ Log("setany", 0, 0) /\ UNCHANGED <<ver, counter, base, hasFv, hasInst, hasBM>>
ReadAny == Loaded /\ Log("readany", 0, IF anyset THEN 1 ELSE 0) /\ UNCHANGED <<ver, counter, base, hasFv, hasInst, hasBM, anyset>>
ReadVars == Loaded /\ Log("read", counter, base) /\ UNCHANGED <<ver, counter, base, hasFv, hasInst, hasBM, anyset>>

RNext == /\ Len(hist) < MaxLen
         /\ \/ \E k \in 1..NVer : Load(k)
            \/ CallDirect \/ CallFv \/ CallField \/ CallMethod \/ CallBM \/ CallExtra
            \/ CaptureFv \/ CaptureInst \/ CaptureBM
            \/ Bump \/ SetBase \/ ReadVars \/ SetAny \/ ReadAny
RSpec == RInit /\ [][RNext]_rvars

\* ---- the property on the specification's own state
\* whatever was captured when, a call reports the loaded version
AlwaysCurrentCode == \A i \in DOMAIN hist :
    hist[i].op \in {"call-direct", "call-fv", "call-field"} =>
        \E j \in 1..(i - 1) : hist[j].op = "load" /\ hist[j].arg = hist[i].want /\ \A m \in (j + 1)..(i - 1) : hist[m].op # "load"
CounterNeverReset == \A i \in DOMAIN hist : hist[i].op = "bump" => hist[i].want = Len(SelectSeq(SubSeq(hist, 1, i), LAMBDA e : e.op = "bump"))
Emit == Len(hist) = MaxLen => PrintT(<<"BEH", ToJson([hist |-> hist])>>)
=============================================================================
