SPECIFICATION Spec
INVARIANTS Laws32 Shifts Conversions
