SPECIFICATION ESpec
INVARIANTS BelowUntouched DoneShape SeenInOrder Emit
CHECK_DEADLOCK FALSE
