---- MODULE MC_GoMap ----
EXTENDS GoMap, TLC
CONSTANTS MaxInc, MaxDepth
Spec == MapInit /\ [][MapNext]_mapVars
Bound == /\ \A k \in Keys : inc[k] <= MaxInc
         /\ Len(rs) <= MaxDepth
\* action property: a produced entry was live when produced; Len never negative
YieldOnlyLive == [][\A k \in Keys : (rs # <<>> /\ Len(rs') = Len(rs) /\ rs'[Len(rs)].yld # rs[Len(rs)].yld)
                      => (rs'[Len(rs)].yld \ rs[Len(rs)].yld) \subseteq {Entry(kk) : kk \in Live}]_mapVars
====
