------------------------------ MODULE PairTrace ------------------------------
(***************************************************************************)
(* Optimizer transparency (C02) as the property states it: the observable  *)
(* trace of a program run with the peephole optimizer off and with it on   *)
(* is the same trace.  An observation is                                    *)
(*   out   - the bytes written to stdout (hex)                              *)
(*   vals  - the returned values, each as text + dynamic type               *)
(*   ok    - success or failure                                             *)
(*   line  - for a failure: the source line the error names                 *)
(* Each trace line carries the two observations of one (program, input);    *)
(* it is accepted iff they are equal component by component.                *)
(***************************************************************************)
EXTENDS Integers, Sequences, TLC, Json
CONSTANT TraceFile
Trace == ndJsonDeserialize(TraceFile)
VARIABLES l, nbad
tvars == <<l, nbad>>
Ev == Trace[l]

SameObservation(a, b) ==
    /\ a.out = b.out
    /\ a.ok = b.ok
    /\ Len(a.vals) = Len(b.vals)
    /\ \A i \in DOMAIN a.vals : a.vals[i] = b.vals[i]
    /\ (~a.ok => a.line = b.line)

LineOK(e) == SameObservation(e.off, e.on)
TGood == l <= Len(Trace) /\ LineOK(Ev) /\ l' = l + 1 /\ UNCHANGED nbad
TBad  == l <= Len(Trace) /\ ~LineOK(Ev) /\ PrintT(<<"BAD", ToString(l)>>) /\ l' = l + 1 /\ nbad' = nbad + 1
TraceInit == l = 1 /\ nbad = 0
TraceSpec == TraceInit /\ [][TGood \/ TBad]_tvars
TraceAccepted == LET d == TLCGet("stats").diameter IN
                 /\ PrintT(<<"DIAM", ToString(d)>>)
                 /\ d - 1 = Len(Trace)
=============================================================================
