---- MODULE MC_GoFmt ----
(* M2: the harness hands TLC a list of value descriptions (ValueFile); TLC emits the expected text   *)
(* of every one (alone, and as operands of one Println).                                            *)
EXTENDS GoFmt, TLC, Json
CONSTANT ValueFile
Values == JsonDeserialize(ValueFile)
VARIABLE i
Init == i \in 1..Len(Values)
Next == UNCHANGED i
Spec == Init /\ [][Next]_i
Emit == PrintT(<<"BEH", ToJson([i |-> i, text |-> Fmt(Values[i])])>>)
\* model-level sanity: the text of a slice is the bracketed, space-separated texts of its elements
SliceLaw == Values[i].t = "slice" /\ Len(Values[i].elems) = 2 =>
              Fmt(Values[i]) = <<91>> \o Fmt(Values[i].elems[1]) \o <<32>> \o Fmt(Values[i].elems[2]) \o <<93>>
====
