---- MODULE Trace_Pipeline ----
(* One line per distinct observed (entry, options, outcome, prefix) class of real calls      *)
(* (field n = how many calls fell into the class).  A line is accepted iff Pipeline allows    *)
(* that result for that entry point.  "panic" and "hung" outcomes match no action.            *)
EXTENDS Pipeline, TLC, Json
CONSTANT TraceFile
Trace == ndJsonDeserialize(TraceFile)
VARIABLES l, nbad
tvars == <<pvars, l, nbad>>
Ev == Trace[l]

OptSet(s) == {s[i] : i \in DOMAIN s}

TCall == /\ l <= Len(Trace)
         /\ Ev.entry \in Entries
         /\ OptSet(Ev.opts) \in Options
         /\ <<Ev.outcome, Ev.prefix>> \in Results(Ev.entry)
         /\ entry' = Ev.entry /\ opts' = OptSet(Ev.opts)
         /\ state' = "returned" /\ outcome' = Ev.outcome /\ prefix' = Ev.prefix
         /\ stage' = 1
         /\ l' = l + 1
         /\ UNCHANGED nbad

\* an observation Pipeline does not allow (escaped panic, hang, error without stage prefix):
\* reported and counted, so that one TLC run classifies every line
TBad == /\ l <= Len(Trace)
        /\ ~ (Ev.entry \in Entries /\ <<Ev.outcome, Ev.prefix>> \in Results(Ev.entry))
        /\ PrintT(<<"BAD", ToString(l)>>)
        /\ nbad' = nbad + 1
        /\ l' = l + 1
        /\ UNCHANGED pvars

TraceInit == PInit /\ entry = "Eval" /\ opts = {} /\ l = 1 /\ nbad = 0
TraceSpec == TraceInit /\ [][TCall \/ TBad]_tvars
NoBad == nbad = 0
TraceAccepted == LET d == TLCGet("stats").diameter IN
                 /\ PrintT(<<"DIAM", ToString(d)>>)
                 /\ d - 1 = Len(Trace)
====
