------------------------------- MODULE Loader -------------------------------
(***************************************************************************)
(* Package loading and initialisation order (C15).                         *)
(*                                                                         *)
(* LoadSpec: what the property demands for an import graph.  The units of  *)
(* execution are the files' package-level variable initialisers ("var")    *)
(* and init functions ("init").  A unit of package p may run only when     *)
(* every package p imports has completely finished; inside a package all   *)
(* "var" units run before any "init" unit; every unit of every package     *)
(* reachable from the root runs exactly once; nothing of an ignored file   *)
(* ever runs.  A load ends with "ok" when everything reachable has run, or *)
(* with "error" - which is allowed (and required) exactly when a cycle is  *)
(* reachable from the root or a package's files disagree on its name.      *)
(*                                                                         *)
(* LoadImpl: the algorithm of load.go (ordering phase): repeatedly take    *)
(* the alphabetically first package none of whose imports is pending;      *)
(* no candidate = import cycle.  MC_Loader checks LoadImpl against         *)
(* LoadSpec on every digraph over a small set of packages.                 *)
(***************************************************************************)
EXTENDS LoaderOrder

\* ------------------------------------------------------------------ LoadSpec
VARIABLES imp,      \* [package -> set of imported packages] (only script packages present in the tree)
          root,
          units,    \* [package -> set of <<file, kind>>], kind in {"var", "init"}: what must run
          conflict, \* TRUE iff some reachable package has files with different package clauses
          ran,      \* set of <<package, file, kind>> already executed
          result    \* "running" | "ok" | "error"
lsVars == <<imp, root, units, conflict, ran, result>>

Pkgs == DOMAIN imp
UnitsOf(p) == {<<p, u[1], u[2]>> : u \in units[p]}
Finished(p) == UnitsOf(p) \subseteq ran
MustFail == conflict \/ HasCycle(imp, root)

CanRun(p, f, kind) ==
    /\ result = "running"
    /\ p \in Pkgs
    /\ p \in Reach(imp, root)
    /\ <<f, kind>> \in units[p]
    /\ <<p, f, kind>> \notin ran
    /\ \A q \in imp[p] : q # p /\ Finished(q)
    /\ (kind = "init") => \A u \in units[p] : u[2] = "var" => <<p, u[1], "var">> \in ran
RunUnit(p, f, kind) ==
    /\ CanRun(p, f, kind)
    /\ ran' = ran \cup {<<p, f, kind>>}
    /\ UNCHANGED <<imp, root, units, conflict, result>>

CanEndOk == /\ result = "running"
            /\ ~MustFail
            /\ \A p \in Reach(imp, root) : Finished(p)
EndOk == /\ CanEndOk
         /\ result' = "ok"
         /\ UNCHANGED <<imp, root, units, conflict, ran>>

CanEndError == result = "running" /\ MustFail
EndError == /\ CanEndError
            /\ result' = "error"
            /\ UNCHANGED <<imp, root, units, conflict, ran>>

LoadNext == (\E p \in Pkgs : \E u \in units[p] : RunUnit(p, u[1], u[2])) \/ EndOk \/ EndError

=============================================================================
