SPECIFICATION Spec
INVARIANTS Range8 Embed Laws32 Shifts Conversions
