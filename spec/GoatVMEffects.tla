--------------------------- MODULE GoatVMEffects ---------------------------
(* Operand-stack effect of every opcode of the goatlang VM (read off the dispatch loop of do.go). *)
(* An instruction is a record [op, a, b, c, x1, x2]; x1/x2 are the unpacked halves of the packed  *)
(* operand of FUNC (A: nargs, nrets), ITER (B: key slot, value slot), FASTCALLATTR (C: args, rets).*)
EXTENDS Integers, Sequences, FiniteSets

Abs(x) == IF x < 0 THEN -x ELSE x
HdrLen(i) == Abs(i.x1) + i.x2

\* ---- opcode effects ------------------------------------------------------------------------------
Push1 == {"PUSH", "GLOBALREF", "ZERO", "GLOBALGET", "CONST", "LOCALGET", "FASTGET", "FASTGETINT", "FASTGETATTR",
          "LOCALADD", "LOCALSUB", "LOCALMUL", "LOCALDIV", "FUNC"}
Pop1 == {"POP", "GLOBALSET", "GLOBALFUNC", "GLOBALSTRUCT", "LOCALSET", "FASTSET", "FASTSETINT", "FASTSETATTR",
         "JUMPFALSE", "JUMPTRUE", "RANGE", "PANIC"}
Bin2to1 == {"ADD", "SUB", "MUL", "DIV", "MOD", "LT", "GT", "LTE", "GTE", "EQ", "NEQ", "BITAND", "BITOR", "BITXOR",
            "BITLSH", "BITRSH", "GET"}
Un1to1 == {"INCDEC", "CONVERT", "CAST", "NEGATE", "BITCOMPLEMENT", "NOT", "LEN", "MAKE", "GETATTR"}
Nop == {"LOCALINCDEC", "LOCALZERO", "GLOBALZERO", "PASS", "JUMP", "ITER", "RETURN"}
KnownOps == Push1 \cup Pop1 \cup Bin2to1 \cup Un1to1 \cup Nop \cup
            {"GETOK", "SET", "DELETE", "COPY", "SETATTR", "SETMETHOD", "SLICE", "APPEND", "NEWSLICE", "NEWMAP",
             "STRUCT", "NEWSTRUCT", "CALL", "CALLVARIADIC", "FASTCALL", "FASTCALLATTR", "AND", "OR"}

\* operands that must be on the stack before the instruction
Pops(i) ==
    CASE i.op \in Push1 \cup Nop -> 0
      [] i.op \in Pop1 \cup Un1to1 \cup {"AND", "OR"} -> 1
      [] i.op \in Bin2to1 \cup {"GETOK", "DELETE", "COPY", "SETATTR", "SETMETHOD"} -> 2
      [] i.op \in {"SET", "SLICE"} -> 3
      [] i.op = "APPEND" -> i.a
      [] i.op = "NEWSLICE" -> i.b
      [] i.op = "NEWMAP" -> i.c
      [] i.op = "STRUCT" -> i.a
      [] i.op = "NEWSTRUCT" -> i.b
      [] i.op \in {"CALL", "CALLVARIADIC"} -> i.a + 1
      [] i.op = "FASTCALL" -> i.b
      [] i.op = "FASTCALLATTR" -> i.x1
      [] OTHER -> 0

\* successors: set of <<pc', depth'>> (pc' = BodyEnd + 1 means "fell off the end")
SuccI(i, pc, d) ==
    CASE i.op \in Push1 \ {"FUNC"} -> {<<pc + 1, d + 1>>}
      [] i.op = "FUNC" -> {<<pc + HdrLen(i) + i.c + 1, d + 1>>}
      [] i.op \in {"POP", "GLOBALSET", "GLOBALFUNC", "GLOBALSTRUCT", "LOCALSET", "FASTSET", "FASTSETINT", "FASTSETATTR"} -> {<<pc + 1, d - 1>>}
      [] i.op \in {"JUMPFALSE", "JUMPTRUE"} -> {<<pc + 1, d - 1>>, <<pc + i.a + 1, d - 1>>}
      [] i.op = "JUMP" -> {<<pc + i.a + 1, d>>}
      [] i.op \in {"AND", "OR"} -> {<<pc + 1, d - 1>>, <<pc + i.a + 1, d>>}
      [] i.op = "RANGE" -> {<<pc + i.b + 1, d - 1>>}
      [] i.op = "ITER" -> {<<pc + 1, d>>, <<pc + i.c + 1, d>>}
      [] i.op \in {"RETURN", "PANIC"} -> {}
      [] i.op \in Bin2to1 -> {<<pc + 1, d - 1>>}
      [] i.op \in Un1to1 \cup {"LOCALINCDEC", "LOCALZERO", "GLOBALZERO", "PASS", "GETOK"} -> {<<pc + 1, d>>}
      [] i.op \in {"DELETE", "SETATTR", "SETMETHOD"} -> {<<pc + 1, d - 2>>}
      [] i.op = "COPY" -> {<<pc + 1, d - 2 + (IF i.c # 0 THEN 1 ELSE 0)>>}   \* C: the count is asked for
      [] i.op = "SET" -> {<<pc + 1, d - 3>>}
      [] i.op = "SLICE" -> {<<pc + 1, d - 2>>}
      [] i.op = "APPEND" -> {<<pc + 1, d - i.a + 1>>}
      [] i.op = "NEWSLICE" -> {<<pc + 1, d - i.b + 1>>}
      [] i.op = "NEWMAP" -> {<<pc + 1, d - i.c + 1>>}
      [] i.op = "STRUCT" -> {<<pc + 1, d - i.a + 1>>}
      [] i.op = "NEWSTRUCT" -> {<<pc + 1, d - i.b + 1>>}
      [] i.op \in {"CALL", "CALLVARIADIC"} -> {<<pc + 1, d - i.a - 1 + i.b>>}
      [] i.op = "FASTCALL" -> {<<pc + 1, d - i.b + i.c>>}
      [] i.op = "FASTCALLATTR" -> {<<pc + 1, d - i.x1 + i.x2>>}
      [] OTHER -> {}
\* local slots the instruction reads or writes
SlotsUsed(i) ==
    CASE i.op \in {"LOCALGET", "LOCALSET", "LOCALZERO", "LOCALINCDEC", "FASTGET", "FASTSET", "FASTGETINT", "FASTSETINT",
                   "FASTGETATTR", "FASTSETATTR", "FASTCALLATTR", "RANGE"} -> {i.a}
      [] i.op \in {"LOCALADD", "LOCALSUB", "LOCALMUL", "LOCALDIV"} -> {i.a, i.b}
      [] i.op = "ITER" -> {i.a, i.x1, i.x2}
      [] OTHER -> {}

=============================================================================
