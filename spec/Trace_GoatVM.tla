---- MODULE Trace_GoatVM ----
(* M3 for C07: every DISTINCT transition the real VM was observed to make inside one frame       *)
(* (opcode with operands, change of the operand-stack height, distance to the next executed       *)
(* instruction of the same frame) must be a transition of the abstract machine GoatVMAbs.         *)
(* A line with kind = "residue" reports how many values a statement-only program left (must be 0).*)
(* A line with kind = "fresh" reports the type tag found in a local slot (parameters excepted) by    *)
(* the first store of a new call frame: it must be 0 (an empty slot) - frames are isolated.          *)
EXTENDS GoatVMEffects, TLC, Json
CONSTANT TraceFile
Trace == ndJsonDeserialize(TraceFile)
VARIABLES l, nbad
tvars == <<l, nbad>>
Ev == Trace[l]
LineOK(e) == IF e.kind \in {"residue", "fresh"} THEN e.n = 0
             ELSE <<1 + e.next, e.delta>> \in SuccI(e, 1, 0)
TGood == l <= Len(Trace) /\ LineOK(Ev) /\ l' = l + 1 /\ UNCHANGED nbad
TBad  == l <= Len(Trace) /\ ~LineOK(Ev) /\ PrintT(<<"BAD", ToString(l)>>) /\ l' = l + 1 /\ nbad' = nbad + 1
TraceInit == l = 1 /\ nbad = 0
TraceSpec == TraceInit /\ [][TGood \/ TBad]_tvars
TraceAccepted == LET dd == TLCGet("stats").diameter IN
                 /\ PrintT(<<"DIAM", ToString(dd)>>)
                 /\ dd - 1 = Len(Trace)
====
