---- MODULE MC_Loader ----
(* M1: for EVERY digraph (self-loops included) on N packages, the implementation's ordering loop *)
(* gives a topological order of the reachable packages when the graph is acyclic from the root,  *)
(* and "error" exactly when a cycle is reachable.                                                *)
EXTENDS LoaderOrder, TLC
CONSTANT N
VARIABLE g
P == 1..N
Init == g \in [P -> SUBSET P]
Next == UNCHANGED g
Spec == Init /\ [][Next]_g
ImplRefinesSpec ==
    LET a == ImplAnswer(g, 1) IN
    IF HasCycle(g, 1) THEN a[2] = "error"
    ELSE a[2] = "ok" /\ IsTopo(g, 1, a[1])
====
