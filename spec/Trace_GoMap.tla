---- MODULE Trace_GoMap ----
(* Trace validation: every line of the NDJSON trace recorded from the real  *)
(* goatlang map (script syntax or host Value API) or from a native Go map   *)
(* (calibration) must be explained by one GoMap action whose result equals  *)
(* the logged result.  Many traces are concatenated; a "reset" line starts  *)
(* a new one.                                                                *)
EXTENDS GoMap, TLC, Json
CONSTANT TraceFile
Trace == ndJsonDeserialize(TraceFile)
VARIABLE l
tvars == <<m, inc, rs, l>>

Ev == Trace[l]
IsEvent(e) == l <= Len(Trace) /\ Ev.ev = e /\ l' = l + 1

TReset  == IsEvent("reset") /\ m' = [k \in Keys |-> NoVal] /\ inc' = [k \in Keys |-> 0] /\ rs' = <<>>
TSet    == IsEvent("set") /\ Set(Ev.k, Ev.v)
TDel    == IsEvent("del") /\ Delete(Ev.k)
TGet    == IsEvent("get") /\ Ev.v = GetVal(Ev.k) /\ Read
TGetOk  == IsEvent("getok") /\ Ev.v = GetVal(Ev.k) /\ Ev.ok = GetOk(Ev.k) /\ Read
TLen    == IsEvent("len") /\ Ev.n = LenVal /\ Read
TRStart == IsEvent("rstart") /\ RangeStart
TYield  == IsEvent("yield") /\ Ev.v = m[Ev.k] /\ RangeYield(Ev.k)
TREnd   == IsEvent("rend") /\ RangeEnd
TRBreak == IsEvent("rbreak") /\ RangeBreak

TraceInit == MapInit /\ l = 1
TraceNext == TReset \/ TSet \/ TDel \/ TGet \/ TGetOk \/ TLen \/ TRStart \/ TYield \/ TREnd \/ TRBreak
TraceSpec == TraceInit /\ [][TraceNext]_tvars

TraceAccepted == LET d == TLCGet("stats").diameter IN
                 /\ PrintT(<<"DIAM", ToString(d)>>)
                 /\ d - 1 = Len(Trace)
====
