------------------------------ MODULE GoString ------------------------------
(***************************************************************************)
(* Go strings: immutable byte sequences; UTF-8 only matters to range and   *)
(* to conversions from runes (C13).  Bytes are integers 0..255.            *)
(***************************************************************************)
EXTENDS FixedWidth

RECURSIVE BytesLess(_, _)
BytesLess(a, b) ==                      \* bytewise lexicographic order
    IF b = <<>> THEN FALSE
    ELSE IF a = <<>> THEN TRUE
    ELSE IF Head(a) < Head(b) THEN TRUE
    ELSE IF Head(a) > Head(b) THEN FALSE
    ELSE BytesLess(Tail(a), Tail(b))

RuneError == 65533

Cont(b) == b >= 128 /\ b <= 191          \* 10xxxxxx

\* DecodeRune(s, i): the rune starting at position i (1-based) of s and its width in bytes, as Go's
\* utf8.DecodeRuneInString: invalid or truncated encodings give (RuneError, 1)
DecodeRune(s, i) ==
    LET n  == Len(s) - i + 1
        b0 == s[i]
        b1 == IF n >= 2 THEN s[i + 1] ELSE 0
        b2 == IF n >= 3 THEN s[i + 2] ELSE 0
        b3 == IF n >= 4 THEN s[i + 3] ELSE 0
        bad == <<RuneError, 1>>
    IN IF b0 < 128 THEN <<b0, 1>>
       ELSE IF b0 >= 194 /\ b0 <= 223 THEN
            (IF n >= 2 /\ Cont(b1) THEN <<(b0 - 192) * 64 + (b1 - 128), 2>> ELSE bad)
       ELSE IF b0 >= 224 /\ b0 <= 239 THEN
            (LET lo == IF b0 = 224 THEN 160 ELSE 128
                 hi == IF b0 = 237 THEN 159 ELSE 191
             IN IF n >= 3 /\ b1 >= lo /\ b1 <= hi /\ Cont(b2)
                THEN <<(b0 - 224) * 4096 + (b1 - 128) * 64 + (b2 - 128), 3>> ELSE bad)
       ELSE IF b0 >= 240 /\ b0 <= 244 THEN
            (LET lo == IF b0 = 240 THEN 144 ELSE 128
                 hi == IF b0 = 244 THEN 143 ELSE 191
             IN IF n >= 4 /\ b1 >= lo /\ b1 <= hi /\ Cont(b2) /\ Cont(b3)
                THEN <<(b0 - 240) * 262144 + (b1 - 128) * 4096 + (b2 - 128) * 64 + (b3 - 128), 4>> ELSE bad)
       ELSE bad

\* EncodeRune(r): UTF-8 of a rune; surrogates and out-of-range values encode RuneError
EncodeRune(r0) ==
    LET r == IF r0 < 0 \/ r0 > 1114111 \/ (r0 >= 55296 /\ r0 <= 57343) THEN RuneError ELSE r0 IN
    IF r < 128 THEN <<r>>
    ELSE IF r < 2048 THEN <<192 + (r \div 64), 128 + (r % 64)>>
    ELSE IF r < 65536 THEN <<224 + (r \div 4096), 128 + ((r \div 64) % 64), 128 + (r % 64)>>
    ELSE <<240 + (r \div 262144), 128 + ((r \div 4096) % 64), 128 + ((r \div 64) % 64), 128 + (r % 64)>>

\* the (offset, rune) pairs a range loop over s produces; offsets are 0-based byte offsets
RECURSIVE RangeFrom(_, _)
RangeFrom(s, i) == IF i > Len(s) THEN <<>>
                   ELSE LET d == DecodeRune(s, i) IN <<<<i - 1, d[1]>>>> \o RangeFrom(s, i + d[2])
RangeStr(s) == RangeFrom(s, 1)
=============================================================================
