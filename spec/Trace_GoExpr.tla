---- MODULE Trace_GoExpr ----
(* M3 for C05: each line is one expression evaluated by the real parser + VM:                     *)
(*   [toks: token sequence (may contain redundant parentheses and nested unary prefixes),          *)
(*    env: index of the environment, ok: evaluated without run-time error, val: result, ty: type]  *)
(* accepted iff Eval(Parse(toks), Envs[env]) agrees.                                               *)
EXTENDS GoExpr
CONSTANT TraceFile
Trace == ndJsonDeserialize(TraceFile)
VARIABLES l, nbad
tvars == <<l, nbad>>
Ev == Trace[l]
LineOK(e) == LET t == Parse(e.toks)
                 r == Eval(t, Envs[e.env])
             IN /\ e.ty = TyOf(t)
                /\ e.ok = r[1]
                /\ (r[1] => e.val = r[2])
TGood == l <= Len(Trace) /\ LineOK(Ev) /\ l' = l + 1 /\ UNCHANGED nbad
TBad  == l <= Len(Trace) /\ ~LineOK(Ev) /\ PrintT(<<"BAD", ToString(l)>>) /\ l' = l + 1 /\ nbad' = nbad + 1
TraceInit == l = 1 /\ nbad = 0
TraceSpec == TraceInit /\ [][TGood \/ TBad]_tvars
TraceAccepted == LET d == TLCGet("stats").diameter IN
                 /\ PrintT(<<"DIAM", ToString(d)>>)
                 /\ d - 1 = Len(Trace)
====
