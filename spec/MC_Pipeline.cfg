SPECIFICATION PSpec
INVARIANTS TypeOK OnlyReturned ReturnedIsLegal
PROPERTY AlwaysReturns
CHECK_DEADLOCK FALSE
