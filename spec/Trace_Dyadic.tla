---- MODULE Trace_Dyadic ----
(* Table-shaped trace validation for the float64 part of C04.  Each line reports what the real VM  *)
(* computed for one (operator, syntactic position) with one operand fixed and the other running    *)
(* over a list.  Values are Dyadic records [k, m, e]; integers (conversion results) and booleans    *)
(* (comparison results) are carried as [k |-> "int", m |-> v, e |-> 0].                             *)
(*   [op, pos, to, from, fixed: "a"|"b", x, ys, res, rt, op1, op2, z]                               *)
EXTENDS Dyadic, Sequences, TLC, Json
CONSTANT TraceFile
Trace == ndJsonDeserialize(TraceFile)
VARIABLES l, nbad
tvars == <<l, nbad>>
Ev == Trace[l]

CmpOps == {"==", "!=", "<", "<=", ">", ">="}
IntV(v) == [k |-> "int", m |-> v, e |-> 0]
B2I(b) == IF b THEN 1 ELSE 0
One == Fin(1, 0)

Expected(op, a, b) ==
    CASE op \in CmpOps -> IntV(B2I(Cmp(op, a, b)))
      [] op = "chain"  -> Bin(Ev.op2, Bin(Ev.op1, a, b), Ev.z)
      [] op = "neg"    -> Neg(a)
      [] op = "++"     -> Add(a, One)
      [] op = "--"     -> Sub(a, One)
      [] op = "id"     -> a
      [] op = "toint"  -> IntV(TruncInt(a))            \* float64 -> integer type Ev.to
      [] op = "fromint" -> FromInt(a.m)                \* integer type Ev.from -> float64
      [] OTHER         -> Bin(op, a, b)

ExpType(op, to) == IF op \in CmpOps THEN "bool" ELSE IF op = "toint" THEN to ELSE "float64"

LineOK(e) ==
    /\ e.rt = ExpType(e.op, e.to)
    /\ Len(e.res) = Len(e.ys)
    /\ \A i \in DOMAIN e.ys :
          LET a == IF e.fixed = "a" THEN e.x ELSE e.ys[i]
              b == IF e.fixed = "a" THEN e.ys[i] ELSE e.x
          IN e.res[i] = Expected(e.op, a, b)

TGood == l <= Len(Trace) /\ LineOK(Ev) /\ l' = l + 1 /\ UNCHANGED nbad
TBad  == l <= Len(Trace) /\ ~LineOK(Ev) /\ PrintT(<<"BAD", ToString(l)>>) /\ l' = l + 1 /\ nbad' = nbad + 1

TraceInit == l = 1 /\ nbad = 0
TraceSpec == TraceInit /\ [][TGood \/ TBad]_tvars
TraceAccepted == LET d == TLCGet("stats").diameter IN
                 /\ PrintT(<<"DIAM", ToString(d)>>)
                 /\ d - 1 = Len(Trace)
====
