SPECIFICATION RSpec
CONSTANTS
  NVer = 3
  MaxLen = 5
INVARIANTS AlwaysCurrentCode CounterNeverReset Emit
CHECK_DEADLOCK FALSE
