------------------------------ MODULE GoStrLib ------------------------------
(***************************************************************************)
(* The string library functions goatlang bundles (strings.Contains,        *)
(* Repeat, TrimSuffix, TrimSpace, TrimRight, Replace, ReplaceAll, Split,   *)
(* Join; strconv.Itoa), on strings as sequences of bytes (C01).            *)
(*                                                                         *)
(* Substring search is byte-wise, as in Go.  The definitions cover the     *)
(* argument ranges the generator uses: `old` / `sep` non-empty (an empty   *)
(* one splits at UTF-8 boundaries), cut sets made of ASCII bytes (then     *)
(* trimming runes and trimming bytes coincide), strings without non-ASCII  *)
(* white space, repeat counts >= 0.                                        *)
(***************************************************************************)
EXTENDS Integers, Sequences

LibAt(s, sub, i) == i + Len(sub) - 1 <= Len(s) /\ SubSeq(s, i, i + Len(sub) - 1) = sub
\* smallest position >= from where sub occurs in s, 0 if none
RECURSIVE LibIndex(_, _, _)
LibIndex(s, sub, from) == IF from + Len(sub) - 1 > Len(s) THEN 0
                          ELSE IF LibAt(s, sub, from) THEN from ELSE LibIndex(s, sub, from + 1)
LibContains(s, sub) == sub = <<>> \/ LibIndex(s, sub, 1) # 0

RECURSIVE LibRepeat(_, _)
LibRepeat(s, n) == IF n <= 0 THEN <<>> ELSE s \o LibRepeat(s, n - 1)

LibHasSuffix(s, suf) == Len(suf) <= Len(s) /\ SubSeq(s, Len(s) - Len(suf) + 1, Len(s)) = suf
LibTrimSuffix(s, suf) == IF LibHasSuffix(s, suf) THEN SubSeq(s, 1, Len(s) - Len(suf)) ELSE s

AsciiSpace == {9, 10, 11, 12, 13, 32}
RECURSIVE LibTrimLeftSet(_, _)
LibTrimLeftSet(s, set) == IF s # <<>> /\ Head(s) \in set THEN LibTrimLeftSet(Tail(s), set) ELSE s
RECURSIVE LibTrimRightSet(_, _)
LibTrimRightSet(s, set) == IF s # <<>> /\ s[Len(s)] \in set THEN LibTrimRightSet(SubSeq(s, 1, Len(s) - 1), set) ELSE s
LibTrimSpace(s) == LibTrimRightSet(LibTrimLeftSet(s, AsciiSpace), AsciiSpace)
LibTrimRight(s, cut) == LibTrimRightSet(s, {cut[i] : i \in DOMAIN cut})

\* Replace(s, old, new, n): the first n non-overlapping occurrences (all when n < 0); old # <<>>
RECURSIVE LibReplaceFrom(_, _, _, _)
LibReplaceFrom(s, old, new, n) ==
    LET i == LibIndex(s, old, 1) IN
    IF n = 0 \/ i = 0 THEN s
    ELSE SubSeq(s, 1, i - 1) \o new \o LibReplaceFrom(SubSeq(s, i + Len(old), Len(s)), old, new, n - 1)
LibReplace(s, old, new, n) == LibReplaceFrom(s, old, new, n)
LibReplaceAll(s, old, new) == LibReplaceFrom(s, old, new, -1)

\* Split(s, sep), sep # <<>>: a sequence of strings (one more than the number of separators)
RECURSIVE LibSplit(_, _)
LibSplit(s, sep) == LET i == LibIndex(s, sep, 1) IN
                    IF i = 0 THEN <<s>> ELSE <<SubSeq(s, 1, i - 1)>> \o LibSplit(SubSeq(s, i + Len(sep), Len(s)), sep)
RECURSIVE LibJoin(_, _)
LibJoin(elems, sep) == IF elems = <<>> THEN <<>>
                       ELSE IF Len(elems) = 1 THEN elems[1] ELSE elems[1] \o sep \o LibJoin(Tail(elems), sep)

\* strconv.Itoa on an int32 value
RECURSIVE LibDigits(_)
LibDigits(n) == IF n < 10 THEN <<48 + n>> ELSE LibDigits(n \div 10) \o <<48 + (n % 10)>>
LibItoa(v) == IF v >= 0 THEN LibDigits(v)
              ELSE IF v = -2147483647 - 1 THEN <<45, 50, 49, 52, 55, 52, 56, 51, 54, 52, 56>>
              ELSE <<45>> \o LibDigits(-v)
=============================================================================
