SPECIFICATION Spec
CONSTANTS
  MaxOps = 2
  Mode = "plain"
INVARIANTS RoundTrip Emit
CHECK_DEADLOCK FALSE
