----------------------------- MODULE FixedWidth -----------------------------
(***************************************************************************)
(* Go's fixed-width integer semantics for int8, uint8, int32 and uint32,   *)
(* written for TLC, whose integers are 32-bit and TRAP on overflow.        *)
(*                                                                         *)
(* Representation.  A value of an 8-bit type and of int32 is its           *)
(* mathematical value.  A uint32 value is represented by the int32 with    *)
(* the same bit pattern (u >= 2^31 is u - 2^32); U32Lt/U32Quo/... give the *)
(* unsigned readings.  All 32-bit arithmetic goes through 16-bit and 8-bit *)
(* limbs so that no intermediate result leaves the 32-bit range.           *)
(*                                                                         *)
(* TLA+ \div and % are floor division and non-negative remainder.          *)
(***************************************************************************)
EXTENDS Integers, Sequences, Bitwise

Min32 == -2147483647 - 1
Max32 == 2147483647

Types == {"int8", "uint8", "int32", "uint32"}
Signed(t) == t \in {"int8", "int32"}
Width(t) == IF t \in {"int8", "uint8"} THEN 8 ELSE 32

----------------------------------------------------------------------------
(* limbs *)
Lo16(x) == x % 65536                      \* 0..65535
Hi16(x) == (x \div 65536) % 65536         \* 0..65535 (unsigned reading of the top half)
From16(h, l) == IF h >= 32768 THEN (h - 65536) * 65536 + l ELSE h * 65536 + l

B0(x) == x % 256
B1(x) == (x \div 256) % 256
B2(x) == (x \div 65536) % 256
B3(x) == (x \div 16777216) % 256
From8(b3, b2, b1, b0) == From16(b3 * 256 + b2, b1 * 256 + b0)

Pow2(n) == CASE n = 0 -> 1 [] n = 1 -> 2 [] n = 2 -> 4 [] n = 3 -> 8 [] n = 4 -> 16 [] n = 5 -> 32
             [] n = 6 -> 64 [] n = 7 -> 128 [] n = 8 -> 256 [] n = 9 -> 512 [] n = 10 -> 1024
             [] n = 11 -> 2048 [] n = 12 -> 4096 [] n = 13 -> 8192 [] n = 14 -> 16384 [] n = 15 -> 32768
             [] n = 16 -> 65536 [] n = 17 -> 131072 [] n = 18 -> 262144 [] n = 19 -> 524288
             [] n = 20 -> 1048576 [] n = 21 -> 2097152 [] n = 22 -> 4194304 [] n = 23 -> 8388608
             [] n = 24 -> 16777216 [] n = 25 -> 33554432 [] n = 26 -> 67108864 [] n = 27 -> 134217728
             [] n = 28 -> 268435456 [] n = 29 -> 536870912 [] n = 30 -> 1073741824 [] n = 31 -> Min32

----------------------------------------------------------------------------
(* 32-bit two's complement arithmetic on bit patterns (same for int32 and uint32) *)

Add32(x, y) == LET lo == Lo16(x) + Lo16(y)
                   hi == (Hi16(x) + Hi16(y) + (lo \div 65536)) % 65536
               IN From16(hi, lo % 65536)

Not32(x) == -1 - x                         \* ^x, never overflows
Neg32(x) == Add32(Not32(x), 1)
Sub32(x, y) == Add32(x, Neg32(y))

\* schoolbook multiplication on 8-bit limbs, result modulo 2^32
Mul32(x, y) ==
    LET a0 == B0(x) a1 == B1(x) a2 == B2(x) a3 == B3(x)
        b0 == B0(y) b1 == B1(y) b2 == B2(y) b3 == B3(y)
        c0 == a0 * b0
        c1 == a0 * b1 + a1 * b0 + (c0 \div 256)
        c2 == a0 * b2 + a1 * b1 + a2 * b0 + (c1 \div 256)
        c3 == a0 * b3 + a1 * b2 + a2 * b1 + a3 * b0 + (c2 \div 256)
    IN From8(c3 % 256, c2 % 256, c1 % 256, c0 % 256)

And32(x, y) == From16(Hi16(x) & Hi16(y), Lo16(x) & Lo16(y))
Or32(x, y)  == From16(Hi16(x) | Hi16(y), Lo16(x) | Lo16(y))
Xor32(x, y) == From16(Hi16(x) ^^ Hi16(y), Lo16(x) ^^ Lo16(y))

\* shift counts are taken as given (non-negative); counts >= 32 shift everything out
Shl32(x, n) == IF n >= 32 THEN 0 ELSE Mul32(x, Pow2(n))
SarS32(x, n) == IF n >= 31 THEN (IF x < 0 THEN -1 ELSE 0) ELSE x \div Pow2(n)        \* arithmetic (int32)
Lsr1(x) == IF x >= 0 THEN x \div 2 ELSE ((x \div 2) + 1073741824) + 1073741824      \* logical by one
ShrU32(x, n) == IF n >= 32 THEN 0 ELSE IF n = 0 THEN x ELSE SarS32(Lsr1(x), n - 1)  \* logical (uint32)

\* signed truncated division (Go: quotient rounds toward zero; MinInt32 / -1 wraps to MinInt32)
TQpos(a, b) == IF a >= 0 THEN a \div b
               ELSE LET q == a \div b IN IF a % b = 0 THEN q ELSE q + 1              \* b > 0
Quo32(a, b) == IF b > 0 THEN TQpos(a, b)
               ELSE IF b = Min32 THEN (IF a = Min32 THEN 1 ELSE 0)
               ELSE IF a = Min32 /\ b = -1 THEN Min32
               ELSE -TQpos(a, -b)
Rem32(a, b) == IF a = Min32 /\ b = -1 THEN 0 ELSE a - b * Quo32(a, b)

\* unsigned order on bit patterns
U32Lt(x, y) == IF (x >= 0) = (y >= 0) THEN x < y ELSE y < 0
U32Le(x, y) == x = y \/ U32Lt(x, y)

\* unsigned division, reference definition: restoring long division, one bit per step
RECURSIVE UDivStep(_, _, _, _, _)
UDivStep(i, x, y, q, r) ==
    IF i < 0 THEN <<q, r>>
    ELSE LET bit == IF i = 31 THEN (IF x < 0 THEN 1 ELSE 0) ELSE (x \div Pow2(i)) % 2
             ovf == r < 0                               \* the shifted remainder needs 33 bits
             r2  == Add32(Add32(r, r), bit)
         IN IF ovf \/ U32Le(y, r2)
            THEN UDivStep(i - 1, x, y, Add32(Add32(q, q), 1), Sub32(r2, y))
            ELSE UDivStep(i - 1, x, y, Add32(q, q), r2)
UQuoRef(x, y) == UDivStep(31, x, y, 0, 0)[1]
URemRef(x, y) == UDivStep(31, x, y, 0, 0)[2]

\* unsigned division, fast definition (halve, divide, double, correct by one); MC_FixedWidth checks
\* that it equals the reference definition
UQuo32(x, y) ==
    IF y < 0 THEN (IF U32Le(y, x) THEN 1 ELSE 0)
    ELSE IF x >= 0 THEN x \div y
    ELSE LET q0 == Shl32(Lsr1(x) \div y, 1)
             r0 == Sub32(x, Mul32(q0, y))
         IN IF U32Le(y, r0) THEN Add32(q0, 1) ELSE q0
URem32(x, y) == Sub32(x, Mul32(UQuo32(x, y), y))

----------------------------------------------------------------------------
(* 8-bit types: plain integer arithmetic followed by wrapping *)
Wrap(t, x) == CASE t = "uint8" -> x % 256
                [] t = "int8"  -> (LET b == x % 256 IN IF b >= 128 THEN b - 256 ELSE b)
                [] OTHER -> x
TQsmall(a, b) == IF b > 0 THEN TQpos(a, b) ELSE -TQpos(a, -b)

\* reading of a stored value as a non-negative number where that is meaningful (8-bit)
U8(x) == x % 256

----------------------------------------------------------------------------
(* The operators of the language.  Shift counts (b) are non-negative values of the same type. *)
\* "panic" marks integer division by zero
Panic == "panic"

Bin(t, op, a, b) ==
    IF t \in {"int8", "uint8"} THEN
        CASE op = "+"  -> Wrap(t, a + b)
          [] op = "-"  -> Wrap(t, a - b)
          [] op = "*"  -> Wrap(t, a * b)
          [] op = "/"  -> IF b = 0 THEN Panic ELSE Wrap(t, TQsmall(a, b))
          [] op = "%"  -> IF b = 0 THEN Panic ELSE Wrap(t, a - b * TQsmall(a, b))
          [] op = "&"  -> Wrap(t, U8(a) & U8(b))
          [] op = "&^" -> Wrap(t, U8(a) & (255 - U8(b)))
          [] op = "|"  -> Wrap(t, U8(a) | U8(b))
          [] op = "^"  -> Wrap(t, U8(a) ^^ U8(b))
          [] op = "<<" -> IF b >= 8 THEN 0 ELSE Wrap(t, U8(a) * Pow2(b))
          [] op = ">>" -> IF t = "uint8" THEN (IF b >= 8 THEN 0 ELSE a \div Pow2(b))
                          ELSE (IF b >= 8 THEN (IF a < 0 THEN -1 ELSE 0) ELSE a \div Pow2(b))
    ELSE
        CASE op = "+"  -> Add32(a, b)
          [] op = "-"  -> Sub32(a, b)
          [] op = "*"  -> Mul32(a, b)
          [] op = "/"  -> IF b = 0 THEN Panic ELSE IF t = "int32" THEN Quo32(a, b) ELSE UQuo32(a, b)
          [] op = "%"  -> IF b = 0 THEN Panic ELSE IF t = "int32" THEN Rem32(a, b) ELSE URem32(a, b)
          [] op = "&"  -> And32(a, b)
          [] op = "&^" -> And32(a, Xor32(b, -1))
          [] op = "|"  -> Or32(a, b)
          [] op = "^"  -> Xor32(a, b)
          [] op = "<<" -> IF t = "uint32" /\ b < 0 THEN 0 ELSE Shl32(a, b)
          [] op = ">>" -> IF t = "int32" THEN SarS32(a, b)
                          ELSE IF b < 0 THEN 0 ELSE ShrU32(a, b)

\* comparisons give booleans
Lt(t, a, b) == IF t = "uint32" THEN U32Lt(a, b) ELSE a < b
Cmp(t, op, a, b) ==
    CASE op = "==" -> a = b
      [] op = "!=" -> a # b
      [] op = "<"  -> Lt(t, a, b)
      [] op = "<=" -> a = b \/ Lt(t, a, b)
      [] op = ">"  -> Lt(t, b, a)
      [] op = ">=" -> a = b \/ Lt(t, b, a)

Neg(t, a) == IF Width(t) = 8 THEN Wrap(t, 0 - a) ELSE Neg32(a)
Compl(t, a) == IF Width(t) = 8 THEN Wrap(t, -1 - a) ELSE Not32(a)

\* conversion between integer types (value a of type from)
Conv(from, to, a) ==
    CASE to = "int32" \/ to = "uint32" ->
            \* widening an 8-bit value keeps its mathematical value; int32 <-> uint32 keeps the pattern
            a
      [] to = "uint8" -> a % 256          \* low 8 bits of the (pattern of the) source
      [] to = "int8"  -> (LET b == a % 256 IN IF b >= 128 THEN b - 256 ELSE b)

\* an untyped integer constant c adopts type t (only constants representable in t are Go programs;
\* for uint32 the harness passes the bit pattern)
Adopt(t, c) == c

InRange(t, x) == CASE t = "int8" -> x \in -128..127
                   [] t = "uint8" -> x \in 0..255
                   [] OTHER -> x \in Min32..Max32
=============================================================================
