------------------------------ MODULE DeclOrder ------------------------------
(***************************************************************************)
(* Declaration order and file layout inside a package (C16).               *)
(*                                                                         *)
(* A package is a set of top-level declarations.  HOISTABLE declarations   *)
(* (functions, methods, struct types) may appear anywhere: in any order    *)
(* and in any file.  FIXED items (constants, variable initialisers,        *)
(* statements) keep their relative source order, where source order is     *)
(* file order (files sorted by name) and then position in the file.        *)
(* The meaning of a layout is the meaning of its canonical form:           *)
(*     Canon(layout) = << set of hoistable declarations,                   *)
(*                        sequence of fixed items in source order >>       *)
(* The shuffle machine below generates exactly the admissible layouts      *)
(* (every step preserves Canon); TLC's reachable state set is the set of   *)
(* layouts that the harness materialises and loads.                        *)
(***************************************************************************)
EXTENDS Integers, Sequences, FiniteSets, TLC, Json

CONSTANTS Kinds,     \* sequence: Kinds[d] = "hoist" | "fixed" for declaration d
          MaxFiles

Decls == 1..Len(Kinds)
VARIABLE layout      \* sequence of files; each file is a sequence of declaration ids
Hoist(d) == Kinds[d] = "hoist"

RECURSIVE FlattenR(_)
FlattenR(l) == IF l = <<>> THEN <<>> ELSE Head(l) \o FlattenR(Tail(l))
Flat == FlattenR(layout)
Canon(l) == << {d \in Decls : Hoist(d)}, SelectSeq(FlattenR(l), LAMBDA d : ~Hoist(d)) >>

Init0 == << [d \in Decls |-> d] >>          \* everything in one file, in declaration order
DInit == layout = Init0

\* swap two neighbours of one file unless both are fixed items
SwapAdjacent(f, i) ==
    /\ f \in DOMAIN layout /\ i \in 1..(Len(layout[f]) - 1)
    /\ Hoist(layout[f][i]) \/ Hoist(layout[f][i + 1])
    /\ layout' = [layout EXCEPT ![f] = [j \in DOMAIN @ |-> IF j = i THEN @[i + 1] ELSE IF j = i + 1 THEN @[i] ELSE @[j]]]

\* move the file boundary: the last declaration of file f becomes the first of file f+1, or back
ShiftRight(f) ==
    /\ f \in DOMAIN layout /\ layout[f] # <<>>
    /\ IF f = Len(layout)
       THEN Len(layout) < MaxFiles /\ layout' = [layout EXCEPT ![f] = SubSeq(@, 1, Len(@) - 1)] \o << <<layout[f][Len(layout[f])]>> >>
       ELSE layout' = [layout EXCEPT ![f] = SubSeq(@, 1, Len(@) - 1), ![f + 1] = <<layout[f][Len(layout[f])]>> \o @]
ShiftLeft(f) ==
    /\ f \in DOMAIN layout /\ f > 1 /\ layout[f] # <<>>
    /\ layout' = [layout EXCEPT ![f - 1] = Append(@, layout[f][1]), ![f] = Tail(@)]

DNext == \/ \E f \in DOMAIN layout : \E i \in 1..Len(layout[f]) : SwapAdjacent(f, i)
         \/ \E f \in DOMAIN layout : ShiftRight(f) \/ ShiftLeft(f)
DSpec == DInit /\ [][DNext]_layout

\* ---- what the shuffle machine must preserve
CanonPreserved == Canon(layout) = Canon(Init0)
EachDeclOnce == /\ Len(Flat) = Len(Kinds)
                /\ {Flat[i] : i \in DOMAIN Flat} = Decls
Emit == PrintT(<<"LAY", ToJson([files |-> layout])>>)
=============================================================================
