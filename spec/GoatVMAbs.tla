----------------------------- MODULE GoatVMAbs -----------------------------
(***************************************************************************)
(* Stack discipline of compiled code (C07), model-checked on the REAL      *)
(* compiler's output.                                                      *)
(*                                                                         *)
(* The constant Progs is the instruction list of each compiled program as  *)
(* exported by the verif hook (opcode name, operands; packed operand pairs *)
(* unpacked into x1/x2).  A region is the top-level code or the body of    *)
(* one FUNC.  The abstract machine state is (program, region, pc, depth):  *)
(* depth = number of operands above the region's local slots.  Every       *)
(* conditional jump, short circuit and ITER is taken both ways, so paths   *)
(* that no input takes are explored as well.                               *)
(*                                                                         *)
(* Effect(i) is the operand-stack effect of every opcode, read off the     *)
(* dispatch loop; CALL A B pops its A arguments and the callee and pushes  *)
(* the B requested results - which is exactly the property's "calls consume*)
(* exactly their arguments and leave exactly the requested results".       *)
(***************************************************************************)
EXTENDS GoatVMEffects, TLC, Json

CONSTANT ProgFile
Progs == JsonDeserialize(ProgFile)          \* sequence of [id, slots, code: sequence of [op, a, b, c, x1, x2]]

Code(p) == Progs[p].code
Ins(p, pc) == Code(p)[pc]


\* ---- regions -----------------------------------------------------------------------------------
\* FUNC at index f: x1 = nargs (negative: variadic), x2 = nrets, b = slots, c = body length
FuncPcs(p) == {f \in 1..Len(Code(p)) : Code(p)[f].op = "FUNC"}
\* a FUNC instruction that itself lies inside the header/body of another FUNC belongs to that body
BodyStart(p, r) == IF r = 0 THEN 1 ELSE r + 1 + HdrLen(Ins(p, r))
BodyEnd(p, r)   == IF r = 0 THEN Len(Code(p)) ELSE r + HdrLen(Ins(p, r)) + Ins(p, r).c
Slots(p, r)     == IF r = 0 THEN Progs[p].slots ELSE Ins(p, r).b
Rets(p, r)      == IF r = 0 THEN 0 ELSE Ins(p, r).x2
\* FUNC instructions directly or indirectly nested in region r
Nested(p, r) == {f \in FuncPcs(p) : f >= BodyStart(p, r) /\ f <= BodyEnd(p, r)}
InsideNested(p, r, pc) == \E f \in Nested(p, r) : pc > f /\ pc <= BodyEnd(p, f)

Succ(p, pc, d) == SuccI(Ins(p, pc), pc, d)

\* ---- the machine -----------------------------------------------------------------------------------
VARIABLES p, r, pc, d
avars == <<p, r, pc, d>>

AInit == /\ p \in 1..Len(Progs)
         /\ r \in {0} \cup FuncPcs(p)
         /\ pc = BodyStart(p, r)
         /\ d = 0

Running == pc >= BodyStart(p, r) /\ pc <= BodyEnd(p, r)

AStep == /\ Running
         /\ \E s \in Succ(p, pc, d) : pc' = s[1] /\ d' = s[2]
         /\ UNCHANGED <<p, r>>
ASpec == AInit /\ [][AStep]_avars

\* ---- the property, on every path --------------------------------------------------------------------
I0_KnownOpcode == Running => Ins(p, pc).op \in KnownOps
I1_NoUnderflow == Running => d >= Pops(Ins(p, pc))
I2_JumpsStayInside ==
    Running => \A s \in Succ(p, pc, d) :
        /\ s[1] >= BodyStart(p, r) /\ s[1] <= BodyEnd(p, r) + 1
        /\ ~InsideNested(p, r, s[1])
I3_OwnSlotsOnly == Running => \A s \in SlotsUsed(Ins(p, pc)) : s >= 0 /\ s < Slots(p, r)
I5_ReturnDepth == (Running /\ Ins(p, pc).op = "RETURN") => (d = Ins(p, pc).a /\ (r # 0 => Ins(p, pc).a = Rets(p, r)))
I6_FallOffNeutral == (pc = BodyEnd(p, r) + 1) => d = 0
\* a function that declares results must not fall off its end (Go rejects such programs)
L1_NoMissingReturn == (pc = BodyEnd(p, r) + 1 /\ r # 0) => Rets(p, r) = 0

\* exploration stops where the depth has left any plausible range (a mis-compiled loop would otherwise
\* make the state space infinite once a violation has been found and the search continues)
DepthWindow == d >= -8 /\ d <= 200

\* every reachable state is reported so that the harness can compare depths per pc (I4: depth is a
\* function of pc) and bind the concrete step traces to the same table
EmitState == PrintT(<<"ST", ToJson([p |-> p, r |-> r, pc |-> pc, d |-> d])>>)
=============================================================================
