---- MODULE MC_FixedWidth ----
(* Model-level lemmas about FixedWidth, checked exhaustively by TLC (one state, big conjunctions). *)
EXTENDS FixedWidth, TLC
VARIABLE dummy
Init == dummy = 0
Next == UNCHANGED dummy
Spec == Init /\ [][Next]_dummy

S32 == {0, 1, -1, 2, -2, 3, 7, 10, 127, 128, 255, 256, 1000, 32767, 32768, 65535, 65536, 65537, 46340, 46341,
        -128, -129, -32768, -32769, -65536, 16777215, 16777216, 1073741823, 1073741824, Max32, Max32 - 1,
        Min32, Min32 + 1, -1073741824, 123456789, -987654321, 305419896, -1412567295}
I8 == -128..127
U8s == 0..255
Sh == 0..33

\* 8-bit results stay in range, keep their type, and satisfy Go's division law
Range8 == \A t \in {"int8", "uint8"} : \A a \in (IF t = "int8" THEN I8 ELSE U8s) : \A b \in (IF t = "int8" THEN I8 ELSE U8s) :
            /\ \A op \in {"+", "-", "*", "&", "|", "^"} : InRange(t, Bin(t, op, a, b))
            /\ (b # 0) => /\ InRange(t, Bin(t, "/", a, b)) /\ InRange(t, Bin(t, "%", a, b))
                          /\ (~(t = "int8" /\ a = -128 /\ b = -1)) =>
                                /\ a = Bin(t, "/", a, b) * b + Bin(t, "%", a, b)
                                /\ (Bin(t, "%", a, b) = 0 \/ (Bin(t, "%", a, b) < 0) = (a < 0))
            /\ (b = 0) => Bin(t, "/", a, b) = Panic /\ Bin(t, "%", a, b) = Panic
            /\ (b >= 0) => InRange(t, Bin(t, "<<", a, b)) /\ InRange(t, Bin(t, ">>", a, b))

\* the limb implementation of the 32-bit operators agrees with plain integer arithmetic wherever the
\* latter does not overflow (here: all 8-bit operands), i.e. the 8-bit semantics embed into the 32-bit ones
Embed == \A a \in I8 : \A b \in I8 :
            /\ Add32(a, b) = a + b /\ Sub32(a, b) = a - b /\ Mul32(a, b) = a * b
            /\ (b # 0) => Quo32(a, b) = TQsmall(a, b) /\ Rem32(a, b) = a - b * TQsmall(a, b)
            /\ (a >= 0 /\ b >= 0) => /\ And32(a, b) = (a & b) /\ Or32(a, b) = (a | b) /\ Xor32(a, b) = (a ^^ b)
                                     /\ (b > 0 => UQuo32(a, b) = a \div b /\ URem32(a, b) = a % b)

\* algebraic laws on boundary values of the full 32-bit range
Laws32 == \A x \in S32 : \A y \in S32 :
            /\ Add32(x, y) = Add32(y, x) /\ Mul32(x, y) = Mul32(y, x)
            /\ Sub32(Add32(x, y), y) = x
            /\ Add32(x, Neg32(x)) = 0
            /\ Mul32(x, 2) = Add32(x, x) /\ Mul32(x, -1) = Neg32(x) /\ Mul32(x, 1) = x /\ Mul32(x, 0) = 0
            /\ Mul32(x, Add32(y, 1)) = Add32(Mul32(x, y), x)
            /\ Not32(And32(x, y)) = Or32(Not32(x), Not32(y))
            /\ Xor32(x, y) = And32(Or32(x, y), Not32(And32(x, y)))
            /\ Xor32(x, x) = 0 /\ And32(x, x) = x /\ Or32(x, 0) = x /\ And32(x, -1) = x
            /\ (y # 0) => /\ x = Add32(Mul32(Quo32(x, y), y), Rem32(x, y))
                          /\ (Rem32(x, y) = 0 \/ (Rem32(x, y) < 0) = (x < 0))
                          /\ x = Add32(Mul32(UQuo32(x, y), y), URem32(x, y))
                          /\ U32Lt(URem32(x, y), y)
                          /\ UQuo32(x, y) = UQuoRef(x, y) /\ URem32(x, y) = URemRef(x, y)
            /\ U32Lt(x, y) = ~U32Le(y, x)

Shifts == \A x \in S32 : \A n \in Sh :
            /\ Shl32(x, n + 1) = IF n + 1 >= 33 THEN 0 ELSE Add32(Shl32(x, n), Shl32(x, n))
            /\ (n <= 31) => /\ SarS32(Shl32(SarS32(x, n), n), 0) = And32(x, Shl32(-1, n))
                            /\ ShrU32(Shl32(ShrU32(x, n), n), 0) = And32(x, Shl32(-1, n))
            /\ (x >= 0) => SarS32(x, n) = ShrU32(x, n)
            /\ (x < 0 /\ n >= 1) => ShrU32(x, n) >= 0
            /\ SarS32(x, 32) = (IF x < 0 THEN -1 ELSE 0) /\ ShrU32(x, 32) = 0

Conversions == \A a \in I8 : \A u \in U8s :
            /\ Conv("int32", "int8", Conv("int8", "int32", a)) = a
            /\ Conv("uint32", "uint8", Conv("uint8", "uint32", u)) = u
            /\ Conv("int8", "uint8", a) = a % 256
            /\ Conv("uint8", "int8", u) = (IF u >= 128 THEN u - 256 ELSE u)
            /\ \A x \in S32 : InRange("int8", Conv("int32", "int8", x)) /\ InRange("uint8", Conv("uint32", "uint8", x))
                              /\ Conv("int32", "uint8", x) = And32(x, 255)
====
