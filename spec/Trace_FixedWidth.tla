---- MODULE Trace_FixedWidth ----
(* Table-shaped trace validation for C04.  Each line reports what the real VM computed for one    *)
(* (type, operator, syntactic position) with one operand fixed and the other running over a list: *)
(*   [t, op, pos, fixed: "a"|"b", x: fixed operand, ys: <<other operands>>, res: <<results>>,      *)
(*    pan: <<indices that failed with an error>>, rt: result type name reported by the VM]         *)
(* 32-bit values are int32 bit patterns.  Booleans are 0/1.  A line is accepted iff every result   *)
(* equals FixedWidth's and the result keeps the operand type (bool for comparisons).              *)
EXTENDS FixedWidth, TLC, Json
CONSTANT TraceFile
Trace == ndJsonDeserialize(TraceFile)
VARIABLES l, nbad
tvars == <<l, nbad>>
Ev == Trace[l]

CmpOps == {"==", "!=", "<", "<=", ">", ">="}
B2I(b) == IF b THEN 1 ELSE 0

\* "chain": (a op1 b) op2 z  -- the line carries op1, op2 and z
Expected(t, op, to, a, b) ==
    CASE op \in CmpOps -> B2I(Cmp(t, op, a, b))
      [] op = "chain"  -> Bin(t, Ev.op2, Bin(t, Ev.op1, a, b), Ev.z)
      [] op = "neg"    -> Neg(t, a)
      [] op = "compl"  -> Compl(t, a)
      [] op = "++"     -> Bin(t, "+", a, 1)
      [] op = "--"     -> Bin(t, "-", a, 1)
      [] op = "id"     -> a                                \* typed declaration / assignment of a constant
      [] op = "conv"   -> Conv(t, to, a)
      [] OTHER         -> Bin(t, op, a, b)

ExpType(t, op, to) == IF op \in CmpOps THEN "bool" ELSE IF op = "conv" THEN to ELSE t

PanSet(e) == {e.pan[i] : i \in DOMAIN e.pan}

LineOK(e) ==
    /\ e.rt = ExpType(e.t, e.op, e.to)
    /\ Len(e.res) = Len(e.ys)
    /\ \A i \in DOMAIN e.ys :
          LET a == IF e.fixed = "a" THEN e.x ELSE e.ys[i]
              b == IF e.fixed = "a" THEN e.ys[i] ELSE e.x
              want == Expected(e.t, e.op, e.to, a, b)
          IN IF e.op \in {"/", "%"} /\ b = 0 THEN i \in PanSet(e)      \* integer division by zero: run-time error
             ELSE i \notin PanSet(e) /\ e.res[i] = want

TGood == l <= Len(Trace) /\ LineOK(Ev) /\ l' = l + 1 /\ UNCHANGED nbad
TBad  == l <= Len(Trace) /\ ~LineOK(Ev) /\ PrintT(<<"BAD", ToString(l)>>) /\ l' = l + 1 /\ nbad' = nbad + 1

TraceInit == l = 1 /\ nbad = 0
TraceSpec == TraceInit /\ [][TGood \/ TBad]_tvars
TraceAccepted == LET d == TLCGet("stats").diameter IN
                 /\ PrintT(<<"DIAM", ToString(d)>>)
                 /\ d - 1 = Len(Trace)
====
