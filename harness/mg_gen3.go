package main

import (
	"fmt"
	"math/rand"
	"strings"
)

// Program-level feature blocks appended to generated programs: interface values (dynamic dispatch
// through variables, parameters, results, slices, maps and struct fields of an interface type) and
// named / alias types. In MiniGo.tla an interface value is the reference it holds (method lookup is by
// the struct type recorded in the heap object); a named type is its underlying type.

func sS(k string, args ...*E) *E { return &E{K: "str", Ty: TString, S: k} }
func pr(es ...*E) *S             { return &S{K: "print", Ln: true, Exprs: es} }
func bin(op string, t *Ty, l, r *E) *E {
	return &E{K: "bin", Ty: t, Op: op, L: l, R: r}
}
func fld(x *E, f string, t *Ty) *E { return &E{K: "field", Ty: t, X: x, F: f} }
func newS(sty string, fv ...any) *E {
	e := &E{K: "new", Ty: PtrTo(sty), Sty: sty}
	for i := 0; i+1 < len(fv); i += 2 {
		e.Fields = append(e.Fields, fv[i].(string))
		e.Args = append(e.Args, fv[i+1].(*E))
	}
	return e
}
func mc(x *E, m string, t *Ty, args ...*E) *E {
	n := 0
	if t != nil {
		n = 1
	}
	return &E{K: "mcall", X: x, M: m, Ty: t, NRes: n, Args: args}
}
func dcl(name string, e *E) *S { return &S{K: "decl", Names: []string{name}, Exprs: []*E{e}} }
func vdecl(name string, t *Ty, e *E) *S {
	return &S{K: "decl", Names: []string{name}, DeclTy: t, VarForm: true, Exprs: []*E{e}}
}
func asg(l, r *E) *S { return &S{K: "assign", Lhs: []*E{l}, Exprs: []*E{r}} }
func ret(es ...*E) *S {
	return &S{K: "return", NRes: len(es), Exprs: es}
}

// addIfaceDemo appends the interface block and returns the statement that calls it.
func (g *Gen) addIfaceDemo() *S {
	r := g.r
	p := g.prog
	tag := fmt.Sprintf("%d", len(p.Ifaces))
	sq, rc, box, shape := "Sq"+tag, "Rc"+tag, "Bx"+tag, "Shape"+tag
	tShape := &Ty{K: "iface", Name: shape}
	p.Structs = append(p.Structs,
		&StructDef{Name: sq, Fields: []string{"W"}, FTypes: []*Ty{TInt}},
		&StructDef{Name: rc, Fields: []string{"W", "H"}, FTypes: []*Ty{TInt, TInt}},
		&StructDef{Name: box, Fields: []string{"S", "N"}, FTypes: []*Ty{tShape, TInt}})
	p.Ifaces = append(p.Ifaces, &Iface{Name: shape, Methods: []string{"Area", "Grow", "Self", "Show"},
		Sigs: []*FuncSig{{Results: []*Ty{TInt}}, {Params: []*Ty{TInt}}, {Results: []*Ty{tShape}}, {Results: []*Ty{TInt}}}})
	q := v("q", PtrTo(sq))
	rr := v("r", PtrTo(rc))
	k := v("k", TInt)
	p.Funcs = append([]*Func{
		{Name: sq + ".Area", Recv: "q", RecvTy: sq, Results: []*Ty{TInt}, Body: []*S{ret(bin("*", TInt, fld(q, "W", TInt), fld(q, "W", TInt)))}},
		{Name: sq + ".Grow", Recv: "q", RecvTy: sq, Params: []string{"k"}, PTypes: []*Ty{TInt}, Body: []*S{{K: "opassign", Lhs: []*E{fld(q, "W", TInt)}, Op: "+", E: k}}},
		{Name: rc + ".Area", Recv: "r", RecvTy: rc, Results: []*Ty{TInt}, Body: []*S{ret(bin("*", TInt, fld(rr, "W", TInt), fld(rr, "H", TInt)))}},
		{Name: rc + ".Grow", Recv: "r", RecvTy: rc, Params: []string{"k"}, PTypes: []*Ty{TInt}, Body: []*S{{K: "opassign", Lhs: []*E{fld(rr, "H", TInt)}, Op: "+", E: k}, {K: "incdec", Lhs: []*E{fld(rr, "W", TInt)}, D: 1}}},
		// methods that hand their own receiver on: as an interface result, and to a function taking the interface
		{Name: sq + ".Self", Recv: "q", RecvTy: sq, Results: []*Ty{tShape}, Body: []*S{ret(q)}},
		{Name: rc + ".Self", Recv: "r", RecvTy: rc, Results: []*Ty{tShape}, Body: []*S{ret(rr)}},
		{Name: sq + ".Show", Recv: "q", RecvTy: sq, Results: []*Ty{TInt}, Body: []*S{ret(&E{K: "call", Fn: "grow" + tag, Ty: TInt, NRes: 1, Args: []*E{q, lit(TInt, 1)}})}},
		{Name: rc + ".Show", Recv: "r", RecvTy: rc, Results: []*Ty{TInt}, Body: []*S{ret(&E{K: "call", Fn: "grow" + tag, Ty: TInt, NRes: 1, Args: []*E{rr, lit(TInt, 2)}})}},
		{Name: "pick" + tag, Params: []string{"k"}, PTypes: []*Ty{TInt}, Results: []*Ty{tShape}, Body: []*S{
			{K: "if", Cond: bin("==", TBool, bin("%", TInt, k, lit(TInt, 2)), lit(TInt, 0)), Then: []*S{ret(newS(sq, "W", k))}},
			ret(newS(rc, "W", k, "H", lit(TInt, int64(2+r.Intn(3)))))}},
		{Name: "total" + tag, Params: []string{"ss"}, PTypes: []*Ty{SliceOf(tShape)}, Results: []*Ty{TInt}, Body: []*S{
			dcl("t", lit(TInt, 0)),
			{K: "range", X: v("ss", SliceOf(tShape)), KName: "_", VName: "s", Body: []*S{{K: "opassign", Lhs: []*E{v("t", TInt)}, Op: "+", E: mc(v("s", tShape), "Area", TInt)}}},
			ret(v("t", TInt))}},
		{Name: "grow" + tag, Params: []string{"s", "k"}, PTypes: []*Ty{tShape, TInt}, Results: []*Ty{TInt}, Body: []*S{
			{K: "expr", E: mc(v("s", tShape), "Grow", nil, k), NRes: 0},
			ret(bin("+", TInt, mc(v("s", tShape), "Area", TInt), lit(TInt, 1)))}},
	}, p.Funcs...)
	s := v("s", tShape)
	ss := v("ss", SliceOf(tShape))
	bx := v("bx", PtrTo(box))
	mt := MapOf(TString, tShape)
	m := v("m", mt)
	pick := func(e *E) *E { return &E{K: "call", Fn: "pick" + tag, Ty: tShape, NRes: 1, Args: []*E{e}} }
	a, b := int64(1+r.Intn(5)), int64(1+r.Intn(4))
	body := []*S{
		vdecl("s", tShape, newS(sq, "W", lit(TInt, a))),
		pr(sS("iface"), mc(s, "Area", TInt)),
		{K: "expr", E: mc(s, "Grow", nil, lit(TInt, b)), NRes: 0},
		pr(sS("grown"), mc(s, "Area", TInt), bin("==", TBool, s, &E{K: "zero", Ty: tShape})),
	}
	blocks := [][]*S{
		{asg(s, pick(k)), pr(sS("picked"), mc(s, "Area", TInt))},
		{{K: "declzero", Names: []string{"z"}, DeclTy: tShape}, pr(sS("zero"), bin("==", TBool, v("z", tShape), &E{K: "zero", Ty: tShape}), bin("!=", TBool, v("z", tShape), &E{K: "zero", Ty: tShape}))},
		{dcl("ss", &E{K: "slicelit", Ty: SliceOf(tShape), Args: []*E{newS(sq, "W", lit(TInt, 2)), pick(lit(TInt, 3)), s}}),
			{K: "expr", E: mc(&E{K: "index", Ty: tShape, X: ss, I: lit(TInt, 1)}, "Grow", nil, lit(TInt, 1)), NRes: 0},
			pr(sS("total"), &E{K: "call", Fn: "total" + tag, Ty: TInt, NRes: 1, Args: []*E{ss}}, lenOf(ss)),
			dcl("bx", newS(box, "S", &E{K: "index", Ty: tShape, X: ss, I: lit(TInt, 0)}, "N", lit(TInt, 1))),
			{K: "expr", E: mc(fld(bx, "S", tShape), "Grow", nil, lit(TInt, 2)), NRes: 0},
			pr(sS("shared"), mc(fld(bx, "S", tShape), "Area", TInt), mc(&E{K: "index", Ty: tShape, X: ss, I: lit(TInt, 0)}, "Area", TInt), bin("==", TBool, fld(bx, "S", tShape), &E{K: "index", Ty: tShape, X: ss, I: lit(TInt, 0)}))},
		{dcl("m", &E{K: "maplit", Ty: mt, Keys: []*E{sS("a")}, Args: []*E{pick(lit(TInt, 4))}}),
			asg(&E{K: "mapget", Ty: tShape, X: m, I: sS("b")}, s),
			pr(sS("map"), mc(&E{K: "mapget", Ty: tShape, X: m, I: sS("a")}, "Area", TInt), mc(&E{K: "mapget", Ty: tShape, X: m, I: sS("b")}, "Area", TInt), lenOf(m))},
		{pr(sS("param"), &E{K: "call", Fn: "grow" + tag, Ty: TInt, NRes: 1, Args: []*E{s, lit(TInt, 2)}}, mc(s, "Area", TInt))},
		{dcl("mv", &E{K: "mval", Ty: FuncTy(&FuncSig{Results: []*Ty{TInt}}), X: s, M: "Area"}),
			{K: "expr", E: mc(s, "Grow", nil, lit(TInt, 1)), NRes: 0},
			pr(sS("mval"), &E{K: "callv", X: v("mv", FuncTy(&FuncSig{Results: []*Ty{TInt}})), Ty: TInt, NRes: 1}, mc(s, "Area", TInt))},
	}
	// one call site, consecutive receivers of different struct types that come from method receivers
	tSq, tRc := PtrTo(sq), PtrTo(rc)
	blocks = append(blocks,
		[]*S{dcl("a1", newS(sq, "W", lit(TInt, 2))), dcl("b1", newS(rc, "W", lit(TInt, 2), "H", lit(TInt, 3))),
			{K: "range", X: &E{K: "slicelit", Ty: SliceOf(tShape), Args: []*E{mc(v("a1", tSq), "Self", tShape), mc(v("b1", tRc), "Self", tShape), mc(v("a1", tSq), "Self", tShape), pick(lit(TInt, 5))}},
				KName: "_", VName: "e", Body: []*S{pr(sS("self"), mc(v("e", tShape), "Area", TInt))}},
			pr(sS("show"), mc(v("a1", tSq), "Show", TInt), mc(v("b1", tRc), "Show", TInt), mc(v("a1", tSq), "Show", TInt), mc(mc(v("b1", tRc), "Self", tShape), "Show", TInt))})
	r.Shuffle(len(blocks), func(i, j int) { blocks[i], blocks[j] = blocks[j], blocks[i] })
	for _, bl := range blocks[:3+r.Intn(len(blocks)-2)] {
		body = append(body, bl...)
	}
	if g.o.Panics && r.Intn(3) == 0 {
		body = append(body, &S{K: "declzero", Names: []string{"zz"}, DeclTy: tShape}, pr(sS("nil iface"), mc(v("zz", tShape), "Area", TInt)))
	}
	body = append(body, ret(bin("+", TInt, mc(s, "Area", TInt), k)))
	name := "ifaceDemo" + tag
	p.Funcs = append([]*Func{{Name: name, Params: []string{"k"}, PTypes: []*Ty{TInt}, Results: []*Ty{TInt}, Body: body}}, p.Funcs...)
	// the functions above were prepended in reverse dependency order; declaration order does not matter (C16)
	return pr(sS("demo"), &E{K: "call", Fn: name, Ty: TInt, NRes: 1, Args: []*E{lit(TInt, int64(r.Intn(6)))}})
}

// addNamedTypesDemo: named slice / map types, an alias of a struct type and a named slice of references.
func (g *Gen) addNamedTypesDemo() *S {
	r := g.r
	p := g.prog
	tag := fmt.Sprintf("%d", len(p.TypeDefs))
	el := "El" + tag
	p.Structs = append(p.Structs, &StructDef{Name: el, Fields: []string{"V"}, FTypes: []*Ty{TInt}})
	tL := &Ty{K: "slice", Elem: TInt, Alias: "List" + tag}
	tM := &Ty{K: "map", Key: TString, Elem: TInt, Alias: "Dict" + tag}
	tA := &Ty{K: "ptr", Name: el, Alias: "*Al" + tag}
	tR := &Ty{K: "slice", Elem: PtrTo(el), Alias: "Refs" + tag}
	p.TypeDefs = append(p.TypeDefs,
		&TypeDef{Name: "List" + tag, Under: SliceOf(TInt)}, &TypeDef{Name: "Dict" + tag, Under: MapOf(TString, TInt)},
		&TypeDef{Name: "Al" + tag, Struct: el, IsAlias: true}, &TypeDef{Name: "Refs" + tag, Under: SliceOf(PtrTo(el))})
	l, m, a, rs := v("l", tL), v("m", tM), v("a", tA), v("rs", tR)
	sum := &Func{Name: "sumList" + tag, Params: []string{"l"}, PTypes: []*Ty{tL}, Results: []*Ty{TInt}, Body: []*S{
		dcl("t", lit(TInt, 0)),
		{K: "range", X: l, KName: "_", VName: "x", Body: []*S{{K: "opassign", Lhs: []*E{v("t", TInt)}, Op: "+", E: v("x", TInt)}}},
		ret(v("t", TInt))}}
	mk := &Func{Name: "mkList" + tag, Params: []string{"n"}, PTypes: []*Ty{TInt}, Results: []*Ty{tL}, Body: []*S{
		{K: "declzero", Names: []string{"l"}, DeclTy: tL},
		{K: "for", Init: dcl("i", lit(TInt, 0)), Cond: bin("<", TBool, v("i", TInt), v("n", TInt)), Post: &S{K: "incdec", Lhs: []*E{v("i", TInt)}, D: 1},
			Body: []*S{asg(l, &E{K: "append", Ty: tL, X: l, Args: []*E{bin("*", TInt, v("i", TInt), v("i", TInt))}})}},
		ret(l)}}
	n := int64(2 + r.Intn(4))
	body := []*S{
		dcl("l", &E{K: "slicelit", Ty: tL, Args: []*E{lit(TInt, 1), lit(TInt, int64(r.Intn(9)))}}),
		asg(l, &E{K: "append", Ty: tL, X: l, Args: []*E{v("k", TInt)}}),
		pr(sS("list"), &E{K: "call", Fn: sum.Name, Ty: TInt, NRes: 1, Args: []*E{l}}, lenOf(l), &E{K: "index", Ty: TInt, X: l, I: lit(TInt, 2)}),
		dcl("m", &E{K: "maplit", Ty: tM, Keys: []*E{sS("x")}, Args: []*E{lit(TInt, 5)}}),
		asg(&E{K: "mapget", Ty: TInt, X: m, I: sS("y")}, lenOf(l)),
		pr(sS("dict"), &E{K: "mapget", Ty: TInt, X: m, I: sS("x")}, &E{K: "mapget", Ty: TInt, X: m, I: sS("y")}, &E{K: "mapget", Ty: TInt, X: m, I: sS("nope")}, lenOf(m)),
		vdecl("a", tA, newS(el, "V", v("k", TInt))),
		dcl("rs", &E{K: "slicelit", Ty: tR, Args: []*E{a, newS(el, "V", lit(TInt, 7))}}),
		{K: "incdec", Lhs: []*E{fld(&E{K: "index", Ty: PtrTo(el), X: rs, I: lit(TInt, 0)}, "V", TInt)}, D: 1},
		pr(sS("refs"), fld(a, "V", TInt), fld(&E{K: "index", Ty: PtrTo(el), X: rs, I: lit(TInt, 1)}, "V", TInt), lenOf(rs)),
		dcl("l2", &E{K: "call", Fn: mk.Name, Ty: tL, NRes: 1, Args: []*E{lit(TInt, n)}}),
		pr(sS("made"), &E{K: "call", Fn: sum.Name, Ty: TInt, NRes: 1, Args: []*E{v("l2", tL)}}, lenOf(v("l2", tL))),
		ret(bin("+", TInt, lenOf(l), fld(a, "V", TInt))),
	}
	name := "typesDemo" + tag
	p.Funcs = append([]*Func{{Name: name, Params: []string{"k"}, PTypes: []*Ty{TInt}, Results: []*Ty{TInt}, Body: body}, sum, mk}, p.Funcs...)
	return pr(sS("types"), &E{K: "call", Fn: name, Ty: TInt, NRes: 1, Args: []*E{lit(TInt, int64(r.Intn(9)))}})
}

// ---- bundled string library (GoStrLib.tla)

var libAsciiLits = []string{" ", "a", "b", "ab", "go", "l", "q", "Z", "x", " y"}
var libPadded = []string{" q ", "\ta b\n", "  go", "ab \t", "a,b,,c", "x y x y"}

func (g *Gen) libLit(ss []string) *E { return &E{K: "str", Ty: TString, S: ss[g.r.Intn(len(ss))]} }

// libSubject: a string expression to work on (often one of the padded / separator-rich literals)
func (g *Gen) libSubject(depth int) *E {
	if g.r.Intn(3) == 0 {
		return g.libLit(libPadded)
	}
	return g.expr(TString, depth-1)
}

// fmtOperands: 1..3 scalar operands of mixed types for fmt.Sprint / fmt.Print / fmt.Sprintf
func (g *Gen) fmtOperands(depth int) []*E {
	ts := []*Ty{TInt, TString, TBool, TString, TInt}
	if g.o.SmallInts {
		ts = append(ts, TUint8, TInt8)
	}
	n := 1 + g.r.Intn(3)
	var out []*E
	for i := 0; i < n; i++ {
		out = append(out, g.expr(ts[g.r.Intn(len(ts))], depth-1))
	}
	return out
}

func (g *Gen) sprintfExpr(depth int) *E {
	ops := g.fmtOperands(depth)
	texts := []string{"", "x=", " ", ",", "[", "]", "100%%", "-"}
	f := texts[g.r.Intn(len(texts))]
	for _, o := range ops {
		verb := "%v"
		if g.r.Intn(2) == 0 {
			switch {
			case o.Ty.IsInt():
				verb = "%d"
			case o.Ty.K == "string":
				verb = "%s"
			default:
				verb = "%t"
			}
		}
		f += verb + texts[g.r.Intn(len(texts))]
	}
	return &E{K: "lib", Ty: TString, Fn: "fmt.Sprintf", Args: append([]*E{{K: "str", Ty: TString, S: f}}, ops...)}
}

// fmtPrintStmt: fmt.Print with several operands (Go separates operands by a space only when neither
// is a string), closed by a line end
func (g *Gen) fmtPrintStmt(depth int) []*S {
	return []*S{{K: "print", Fmt: true, Ln: false, Exprs: g.fmtOperands(depth)}, {K: "print", Fmt: true, Ln: true, Exprs: []*E{sS("|")}}}
}

func (g *Gen) libStrExpr(depth int) *E {
	lib := func(fn string, args ...*E) *E { return &E{K: "lib", Ty: TString, Fn: fn, Args: args} }
	switch g.r.Intn(12) {
	case 9:
		return lib("fmt.Sprint", g.fmtOperands(depth)...)
	case 10, 11:
		return g.sprintfExpr(depth)
	case 0:
		return lib("strings.Repeat", g.libSubject(depth), lit(TInt, int64(g.r.Intn(4))))
	case 1:
		return lib("strings.TrimSuffix", g.libSubject(depth), g.libLit(libAsciiLits))
	case 2:
		return lib("strings.TrimSpace", g.libSubject(depth))
	case 3:
		return lib("strings.TrimRight", g.libSubject(depth), g.libLit(libAsciiLits))
	case 4:
		return lib("strings.ReplaceAll", g.libSubject(depth), g.libLit(libAsciiLits), g.expr(TString, 0))
	case 5:
		return lib("strings.Replace", g.libSubject(depth), g.libLit(libAsciiLits), g.expr(TString, 0), lit(TInt, int64(g.r.Intn(4)-1)))
	case 6:
		return lib("strconv.Itoa", g.expr(TInt, depth-1))
	case 7:
		sp := &E{K: "lib", Ty: SliceOf(TString), Fn: "strings.Split", Args: []*E{g.libSubject(depth), g.libLit(libAsciiLits)}}
		return lib("strings.Join", sp, g.expr(TString, 0))
	default:
		// an element of a split (index 0 always exists)
		sp := &E{K: "lib", Ty: SliceOf(TString), Fn: "strings.Split", Args: []*E{g.libSubject(depth), g.libLit(libAsciiLits)}}
		return &E{K: "index", Ty: TString, X: sp, I: lit(TInt, 0)}
	}
}

// addAppendDemo: builtins and conversions as the sole operand of return (return append(s, x),
// return append(s, t...), return len(s), return uint8(x)), called in statement, argument and
// nested positions.
func (g *Gen) addAppendDemo() *S {
	r := g.r
	p := g.prog
	tag := fmt.Sprintf("%d", len(p.Funcs))
	ts := SliceOf(TInt)
	sv, tv, xv := v("s", ts), v("t", ts), v("x", TInt)
	app := func(x *E, spread bool, args ...*E) *E { return &E{K: "append", Ty: ts, X: x, Args: args, Spread: spread} }
	fns := []*Func{
		{Name: "app1_" + tag, Params: []string{"s", "x"}, PTypes: []*Ty{ts, TInt}, Results: []*Ty{ts}, Body: []*S{ret(app(sv, false, xv))}},
		{Name: "app2_" + tag, Params: []string{"s"}, PTypes: []*Ty{ts}, Results: []*Ty{ts}, Body: []*S{ret(app(sv, false, lit(TInt, 4), lit(TInt, 5)))}},
		{Name: "appS_" + tag, Params: []string{"s", "t"}, PTypes: []*Ty{ts, ts}, Results: []*Ty{ts}, Body: []*S{ret(app(sv, true, tv))}},
		{Name: "cnt_" + tag, Params: []string{"s"}, PTypes: []*Ty{ts}, Results: []*Ty{TInt}, Body: []*S{ret(lenOf(sv))}},
		{Name: "low_" + tag, Params: []string{"x"}, PTypes: []*Ty{TInt}, Results: []*Ty{TUint8}, Body: []*S{ret(&E{K: "conv", Ty: TUint8, X: xv})}},
	}
	call := func(i int, t *Ty, args ...*E) *E { return &E{K: "call", Fn: fns[i].Name, Ty: t, NRes: 1, Args: args} }
	l := func(xs ...int64) *E {
		e := &E{K: "slicelit", Ty: ts}
		for _, x := range xs {
			e.Args = append(e.Args, lit(TInt, x))
		}
		return e
	}
	a, b := int64(1+r.Intn(8)), int64(10+r.Intn(80))
	body := []*S{
		dcl("u", call(0, ts, l(a), lit(TInt, b))),
		pr(sS("app1"), lenOf(v("u", ts)), &E{K: "index", Ty: TInt, X: v("u", ts), I: lit(TInt, 1)}),
		dcl("w", call(1, ts, l(a, a+1))),
		pr(sS("app2"), lenOf(v("w", ts)), &E{K: "index", Ty: TInt, X: v("w", ts), I: lit(TInt, 2)}, &E{K: "index", Ty: TInt, X: v("w", ts), I: lit(TInt, 3)}),
		dcl("y", call(2, ts, l(), l(b, b+1, b+2))),
		pr(sS("appS"), lenOf(v("y", ts)), &E{K: "index", Ty: TInt, X: v("y", ts), I: lit(TInt, 2)}, call(3, TInt, call(2, ts, l(1), call(1, ts, l(2))))),
		pr(sS("low"), call(4, TUint8, lit(TInt, 300+a)), call(3, TInt, call(0, ts, call(0, ts, l(), lit(TInt, 1)), lit(TInt, 2)))),
		ret(bin("+", TInt, lenOf(v("u", ts)), lenOf(v("y", ts)))),
	}
	name := "appendDemo" + tag
	p.Funcs = append(append([]*Func{{Name: name, Results: []*Ty{TInt}, Body: body}}, fns...), p.Funcs...)
	return pr(sS("append"), &E{K: "call", Fn: name, Ty: TInt, NRes: 1})
}

// addMapRangeDemo: range over maps. Go leaves the order unspecified, so every loop body is
// order-insensitive (commutative accumulation; writes only to the current key or to one fixed key that the
// accumulation excludes; a key created while a range runs is likewise excluded); what remains observable is
// what Go does specify: every entry present at the start and not deleted before it is reached is
// produced exactly once, with its current value.
func (g *Gen) addMapRangeDemo() *S {
	r := g.r
	p := g.prog
	tag := fmt.Sprintf("%d", len(p.Funcs))
	strKeys := r.Intn(2) == 0
	kt := TInt
	if strKeys {
		kt = TString
	}
	mt := MapOf(kt, TInt)
	n := 3 + r.Intn(3)
	keyE := func(i int) *E {
		if strKeys {
			return sS([]string{"a", "bb", "c", "dd", "eee", "f"}[i])
		}
		return lit(TInt, int64(i*3+1))
	}
	mkLit := func() *E {
		e := &E{K: "maplit", Ty: mt}
		for i := 0; i < n; i++ {
			e.Keys = append(e.Keys, keyE(i))
			e.Args = append(e.Args, lit(TInt, int64(r.Intn(9))))
		}
		return e
	}
	kv, vv := v("k", kt), v("x", TInt)
	add := func(name string, e *E) *S { return &S{K: "opassign", Lhs: []*E{v(name, TInt)}, Op: "+", E: e} }
	kAcc := func() *S {
		if strKeys {
			return add("ka", lenOf(kv))
		}
		return add("ka", kv)
	}
	mget := func(m string, k *E) *E { return &E{K: "mapget", Ty: TInt, X: v(m, mt), I: k} }
	del := func(m string, k *E) *S { return &S{K: "delete", M: v(m, mt), Key: k} }
	rng := func(m, k, x string, body ...*S) *S { return &S{K: "range", X: v(m, mt), KName: k, VName: x, Body: body} }
	iff := func(c *E, then ...*S) *S { return &S{K: "if", Cond: c, Then: then} }
	k0 := r.Intn(n)
	body := []*S{
		dcl("m", mkLit()), dcl("s", lit(TInt, 0)), dcl("c", lit(TInt, 0)), dcl("ka", lit(TInt, 0)),
		rng("m", "k", "x", add("s", vv), add("c", lit(TInt, 1)), kAcc()),
		pr(sS("mr1"), v("s", TInt), v("c", TInt), v("ka", TInt)),
	}
	blocks := [][]*S{
		{ // delete the current entry when its value is even
			rng("m", "k", "x", iff(bin("==", TBool, bin("%", TInt, vv, lit(TInt, 2)), lit(TInt, 0)), del("m", kv))),
			pr(sS("mr2"), lenOf(v("m", mt)), mget("m", keyE(0)), mget("m", keyE(1)), mget("m", keyE(n-1))),
		},
		{ // delete one fixed entry from inside the loop; it is excluded from what is accumulated
			dcl("t", lit(TInt, 0)),
			rng("m", "k", "x", iff(bin("!=", TBool, kv, keyE(k0)), add("t", vv)), del("m", keyE(k0))),
			pr(sS("mr3"), v("t", TInt), lenOf(v("m", mt)), mget("m", keyE(k0))),
		},
		{ // update the current entry
			rng("m", "k", "x", asg(mget("m", kv), bin("+", TInt, bin("*", TInt, vv, lit(TInt, 2)), lit(TInt, 1)))),
			pr(sS("mr4"), mget("m", keyE(0)), mget("m", keyE(n-1)), lenOf(v("m", mt))),
		},
		{ // delete and put back before ranging: still one visit per key
			del("m", keyE(k0)), asg(mget("m", keyE(k0)), lit(TInt, int64(20+r.Intn(9)))), del("m", keyE((k0+1)%n)),
			dcl("u", lit(TInt, 0)), dcl("uc", lit(TInt, 0)),
			rng("m", "_", "x", add("u", vv), add("uc", lit(TInt, 1))),
			pr(sS("mr5"), v("u", TInt), v("uc", TInt)),
		},
		{ // nested ranges over the same map
			dcl("w", lit(TInt, 0)),
			rng("m", "k", "x", rng("m", "k2", "x2", iff(bin("!=", TBool, kv, v("k2", kt)), add("w", bin("+", TInt, vv, v("x2", TInt)))))),
			pr(sS("mr6"), v("w", TInt)),
		},
		{ // leave after two rounds; continue
			dcl("q", lit(TInt, 0)),
			rng("m", "_", "x", add("q", lit(TInt, 1)), iff(bin("==", TBool, v("q", TInt), lit(TInt, 2)), &S{K: "break"}), iff(bin(">", TBool, vv, lit(TInt, 100)), &S{K: "continue"})),
			pr(sS("mr7"), v("q", TInt)),
		},
		{ // delete every entry from inside the loop
			rng("m", "k", "", del("m", kv)),
			pr(sS("mr8"), lenOf(v("m", mt))),
			rng("m", "k", "x", add("s", bin("+", TInt, vv, lit(TInt, 1000)))),
		},
		{ // an entry (deleted before, or never present) is created while the range runs: Go may or may not produce it, so it is
			// left out of what is accumulated; every other entry is still produced exactly once
			del("m", keyE(k0)),
			dcl("t2", lit(TInt, 0)), dcl("c2", lit(TInt, 0)),
			rng("m", "k", "x",
				iff(&E{K: "and", Ty: TBool, L: bin("!=", TBool, kv, keyE(k0)), R: bin("!=", TBool, kv, keyE(5))}, add("t2", vv), add("c2", lit(TInt, 1))),
				iff(bin("==", TBool, v("c2", TInt), lit(TInt, 1)), asg(mget("m", keyE([]int{k0, 5}[r.Intn(2)])), lit(TInt, 0)))),
			pr(sS("mr10"), v("t2", TInt), v("c2", TInt)),
			del("m", keyE(5)),
		},
		{ // nil and empty maps
			&S{K: "declzero", Names: []string{"z"}, DeclTy: mt},
			rng("z", "k", "x", add("s", bin("+", TInt, vv, lit(TInt, 500))), kAcc()),
			dcl("e", &E{K: "makemap", Ty: mt}),
			rng("e", "k", "x", add("s", bin("+", TInt, vv, lit(TInt, 700))), kAcc()),
			pr(sS("mr9"), v("s", TInt), lenOf(v("z", mt)), lenOf(v("e", mt))),
		},
	}
	for _, i := range r.Perm(len(blocks))[:3+r.Intn(4)] {
		body = append(body, blocks[i]...)
	}
	body = append(body, ret(bin("+", TInt, v("s", TInt), lenOf(v("m", mt)))))
	name := "mapRange" + tag
	p.Funcs = append([]*Func{{Name: name, Results: []*Ty{TInt}, Body: body}}, p.Funcs...)
	return pr(sS("maprange"), &E{K: "call", Fn: name, Ty: TInt, NRes: 1})
}

// addTypedStoresDemo: an untyped constant stored into a field / map entry / slice element / package-level variable of a
// narrow integer type takes that type whatever route stores it (local variable, parameter, method receiver, alias, nested
// selector): operating on it afterwards wraps like the declared type.
func (g *Gen) addTypedStoresDemo() *S {
	r := g.r
	p := g.prog
	tag := fmt.Sprintf("%d", len(p.Funcs))
	et := []*Ty{TUint8, TInt8, TUint32}[r.Intn(3)]
	big := map[string]int64{"uint8": 200, "int8": 100, "uint32": 4000000000}[et.K]
	step := map[string]int64{"uint8": 100, "int8": 100, "uint32": 500000000}[et.K]
	sn := "TS" + tag
	pt := PtrTo(sn)
	p.Structs = append(p.Structs, &StructDef{Name: sn, Fields: []string{"N", "V", "Next"}, FTypes: []*Ty{TInt, et, pt}})
	gv := "GTS" + tag
	p.Globals = append(p.Globals, &S{K: "declzero", Names: []string{gv}, DeclTy: et, Global: true})
	f := func(x *E) *E { return fld(x, "V", et) }
	bump := func(l *E) *S { return &S{K: "opassign", Lhs: []*E{l}, Op: "+", E: lit(et, step)} }
	setFn := &Func{Name: "setV" + tag, Params: []string{"q"}, PTypes: []*Ty{pt}, Body: []*S{asg(f(v("q", pt)), lit(et, big))}}
	setM := &Func{Name: sn + ".Set", Recv: "t", RecvTy: sn, Body: []*S{asg(f(v("t", pt)), lit(et, big)), bump(f(v("t", pt)))}}
	mt := MapOf(TString, et)
	mg := func(m string) *E { return &E{K: "mapget", Ty: et, X: v(m, mt), I: sS("k")} }
	blocks := [][]*S{
		{dcl("a", newS(sn)), asg(f(v("a", pt)), lit(et, big)), bump(f(v("a", pt))), pr(sS("local"), f(v("a", pt)))},
		{dcl("b", newS(sn)), {K: "expr", E: &E{K: "call", Fn: setFn.Name, NRes: 0, Args: []*E{v("b", pt)}}}, bump(f(v("b", pt))), pr(sS("param"), f(v("b", pt)))},
		{dcl("c", newS(sn)), {K: "expr", E: mc(v("c", pt), "Set", nil)}, pr(sS("method"), f(v("c", pt)))},
		{dcl("d", newS(sn)), dcl("d2", v("d", pt)), asg(f(v("d2", pt)), lit(et, big)), bump(f(v("d", pt))), pr(sS("alias"), f(v("d", pt)), f(v("d2", pt)))},
		{dcl("e", newS(sn, "Next", newS(sn))), asg(f(fld(v("e", pt), "Next", pt)), lit(et, big)), bump(f(fld(v("e", pt), "Next", pt))), pr(sS("nested"), f(fld(v("e", pt), "Next", pt)))},
		{dcl("m", &E{K: "makemap", Ty: mt}), asg(mg("m"), lit(et, big)), bump(mg("m")), pr(sS("map"), mg("m"))},
		{asg(&E{K: "var", Ty: et, Name: gv, Global: true}, lit(et, big)), bump(&E{K: "var", Ty: et, Name: gv, Global: true}), pr(sS("global"), &E{K: "var", Ty: et, Name: gv, Global: true})},
		{dcl("h", newS(sn)), {K: "assign", Lhs: []*E{fld(v("h", pt), "N", TInt), f(v("h", pt))}, Exprs: []*E{lit(TInt, 3), lit(et, big)}}, bump(f(v("h", pt))), pr(sS("tuple"), fld(v("h", pt), "N", TInt), f(v("h", pt)))},
	}
	var body []*S
	for _, k := range r.Perm(len(blocks))[:3+r.Intn(4)] {
		body = append(body, blocks[k]...)
	}
	name := "typedStores" + tag
	p.Funcs = append([]*Func{{Name: name, Body: body}, setFn, setM}, p.Funcs...)
	return &S{K: "expr", E: &E{K: "call", Fn: name, NRes: 0}}
}

// addShowDemo: struct references rendered as a whole (&{Name:value ...}): fields appear in the order of the type's own
// declaration, also when another type declares the same field names in another order.
func (g *Gen) addShowDemo() *S {
	r := g.r
	p := g.prog
	tag := fmt.Sprintf("%d", len(p.Funcs))
	size, rect := "Size"+tag, "Rect"+tag
	a, b := &StructDef{Name: size, Fields: []string{"H", "W"}, FTypes: []*Ty{TInt, TInt}},
		&StructDef{Name: rect, Fields: []string{"W", "H", "Name", "Ok"}, FTypes: []*Ty{TInt, TUint8, TString, TBool}}
	if r.Intn(2) == 0 {
		p.Structs = append(p.Structs, a, b)
	} else {
		p.Structs = append(p.Structs, b, a)
	}
	show := func(x *E) *E { return &E{K: "lib", Ty: TString, Fn: "fmt.Sprint", Args: []*E{x}} }
	ps, prc := PtrTo(size), PtrTo(rect)
	body := []*S{
		dcl("s", newS(size, "W", lit(TInt, int64(r.Intn(9))), "H", lit(TInt, int64(r.Intn(9))))),
		dcl("q", newS(rect, "Name", sS([]string{"r", "", "a b"}[r.Intn(3)]), "H", lit(TUint8, int64(r.Intn(200))), "W", lit(TInt, int64(r.Intn(9))))),
		pr(sS("show"), show(v("s", ps)), show(v("q", prc))),
		asg(fld(v("q", prc), "Ok", TBool), &E{K: "bool", Ty: TBool, B: true}),
		asg(fld(v("s", ps), "H", TInt), lit(TInt, int64(10+r.Intn(9)))),
		pr(sS("show2"), show(v("q", prc)), show(v("s", ps)), show(newS(size))),
	}
	name := "showDemo" + tag
	p.Funcs = append([]*Func{{Name: name, Body: body}}, p.Funcs...)
	return &S{K: "expr", E: &E{K: "call", Fn: name, NRes: 0}}
}

// pkgVarProgram: every form of assignment whose targets include variables of an IMPORTED package (lib.Level, lib.Name), at
// every position of the target list, next to locals, fields and elements; inside functions and at statement level of
// blocks. The variables and their accessor functions live in the imported package (forced split).
func pkgVarProgram(r *rand.Rand, id string) *Prog {
	p := &Prog{ID: id, Pkg: "main", Main: "Main"}
	gl := func(n string, t *Ty) *E { return &E{K: "var", Ty: t, Name: n, Global: true} }
	level, count, name := gl("Level", TInt), gl("Count", TInt), gl("Name", TString)
	p.Globals = []*S{
		{K: "decl", Names: []string{"Level"}, DeclTy: TInt, VarForm: true, Exprs: []*E{lit(TInt, 1)}, Global: true},
		{K: "decl", Names: []string{"Count"}, DeclTy: TInt, VarForm: true, Exprs: []*E{lit(TInt, 10)}, Global: true},
		{K: "decl", Names: []string{"Name"}, DeclTy: TString, VarForm: true, Exprs: []*E{sS("n")}, Global: true},
	}
	p.Structs = []*StructDef{{Name: "Box", Fields: []string{"N"}, FTypes: []*Ty{TInt}}}
	pb := PtrTo("Box")
	p.Funcs = append(p.Funcs,
		&Func{Name: "GetLevel", Results: []*Ty{TInt}, Body: []*S{ret(level)}},
		&Func{Name: "Bump", Body: []*S{{K: "incdec", Lhs: []*E{count}, D: 1}}})
	multi := func(lhs []*E, rhs []*E) *S { return &S{K: "assign", Lhs: lhs, Exprs: rhs} }
	k := func() *E { return lit(TInt, int64(2+r.Intn(50))) }
	show := func(tag string) *S {
		return pr(sS(tag), level, count, name, v("a", TInt), v("b", TInt), fld(v("bx", pb), "N", TInt), &E{K: "index", Ty: TInt, X: v("xs", SliceOf(TInt)), I: lit(TInt, 1)})
	}
	stmts := [][]*S{
		{multi([]*E{v("a", TInt), level}, []*E{level, k()})},
		{multi([]*E{level, v("a", TInt)}, []*E{k(), level})},
		{multi([]*E{v("a", TInt), level, v("b", TInt)}, []*E{k(), k(), k()})},
		{multi([]*E{level, count}, []*E{count, level})},
		{multi([]*E{fld(v("bx", pb), "N", TInt), level, &E{K: "index", Ty: TInt, X: v("xs", SliceOf(TInt)), I: lit(TInt, 1)}}, []*E{level, fld(v("bx", pb), "N", TInt), k()})},
		{multi([]*E{v("a", TInt), name}, []*E{lenOf(name), bin("+", TString, name, sS("!"))})},
		{asg(level, k()), {K: "opassign", Lhs: []*E{level}, Op: "+", E: k()}, {K: "incdec", Lhs: []*E{count}, D: 1}},
		{{K: "opassign", Lhs: []*E{name}, Op: "+", E: sS("x")}, {K: "incdec", Lhs: []*E{level}, D: -1}},
		{multi([]*E{v("a", TInt), v("b", TInt)}, []*E{&E{K: "call", Fn: "GetLevel", Ty: TInt, NRes: 1}, count}), {K: "expr", E: &E{K: "call", Fn: "Bump", NRes: 0}}},
	}
	body := []*S{dcl("a", lit(TInt, 0)), dcl("b", lit(TInt, 0)), dcl("bx", newS("Box", "N", lit(TInt, 5))), dcl("xs", &E{K: "slicelit", Ty: SliceOf(TInt), Args: []*E{lit(TInt, 1), lit(TInt, 2)}}), show("start")}
	for i, idx := range r.Perm(len(stmts)) {
		ss := stmts[idx]
		switch i % 3 {
		case 1:
			ss = []*S{{K: "if", Cond: bin(">", TBool, level, lit(TInt, -1000)), Then: ss}}
		case 2:
			ss = []*S{{K: "for", Init: dcl("i", lit(TInt, 0)), Cond: bin("<", TBool, v("i", TInt), lit(TInt, 2)), Post: &S{K: "incdec", Lhs: []*E{v("i", TInt)}, D: 1}, Body: ss}}
		}
		body = append(body, ss...)
		body = append(body, show(fmt.Sprintf("s%d", idx)))
	}
	p.Funcs = append(p.Funcs, &Func{Name: "Main", Body: body})
	p.Split = &pkgSplit{lib: map[string]bool{"GetLevel": true, "Bump": true}, vars: map[string]bool{"Level": true, "Count": true, "Name": true}, path: []string{"lib", "app/lib"}[r.Intn(2)]}
	return p
}

func init() {
	// C07 corpus: assignments to variables of an imported package (both code versions are explored)
	extraCorpus = append(extraCorpus, func(c *Ctx, r *rand.Rand) []map[string]string {
		var out []map[string]string
		for i := 0; i < c.pick(6, 60); i++ {
			out = append(out, pkgVarProgram(r, fmt.Sprintf("c07-pkgvar-%d", i)).Files(false, nil))
		}
		return out
	})
}

// staleSlotProgram: calls in sequence (statements, operands of one expression, arguments) whose frames occupy the same
// stack cells: first functions with locals of narrow integer / string / bool types, then functions whose locals are
// declared from untyped constants (x := 200) and then operated on. A local starts fresh in every activation, so its
// type is the constant's default type (int) whatever an earlier call left in that cell.
func staleSlotProgram(r *rand.Rand, id string) *Prog {
	p := &Prog{ID: id, Pkg: "main", Main: "Main"}
	nslots := 2 + r.Intn(4)
	narrowTys := []*Ty{TUint8, TInt8, TUint32, TString, TBool}
	var nb, wb []*S
	var sum *E
	for i := 0; i < nslots; i++ {
		t := narrowTys[r.Intn(len(narrowTys))]
		name := fmt.Sprintf("n%d", i)
		var init *E
		switch t.K {
		case "string":
			init = sS("zz")
		case "bool":
			init = &E{K: "bool", Ty: TBool, B: true}
		default:
			init = lit(t, map[string]int64{"uint8": 250, "int8": 100, "uint32": 4000000000}[t.K])
		}
		nb = append(nb, &S{K: "decl", Names: []string{name}, DeclTy: t, VarForm: true, Exprs: []*E{init}})
		wname := fmt.Sprintf("w%d", i)
		k := []int64{200, 100, 2000000000, 127, 255}[r.Intn(5)]
		wb = append(wb, dcl(wname, lit(TInt, k)), &S{K: "opassign", Lhs: []*E{v(wname, TInt)}, Op: "+", E: lit(TInt, k)})
		if sum == nil {
			sum = v(wname, TInt)
		} else {
			sum = bin("+", TInt, sum, v(wname, TInt))
		}
	}
	nb = append(nb, ret(bin("+", TInt, v("k", TInt), lit(TInt, 1))))
	wb = append(wb, pr(sS("wide"), sum), ret(bin("+", TInt, sum, v("k", TInt))))
	p.Funcs = append(p.Funcs,
		&Func{Name: "narrow", Params: []string{"k"}, PTypes: []*Ty{TInt}, Results: []*Ty{TInt}, Body: nb},
		&Func{Name: "wide", Params: []string{"k"}, PTypes: []*Ty{TInt}, Results: []*Ty{TInt}, Body: wb})
	call := func(fn string, k int64) *E { return &E{K: "call", Fn: fn, Ty: TInt, NRes: 1, Args: []*E{lit(TInt, k)}} }
	body := []*S{
		pr(sS("a"), call("wide", 1)),
		pr(sS("b"), call("narrow", 2), call("wide", 3)),
		pr(sS("c"), bin("+", TInt, call("narrow", 4), call("wide", 5))),
		{K: "for", Init: dcl("i", lit(TInt, 0)), Cond: bin("<", TBool, v("i", TInt), lit(TInt, 2)), Post: &S{K: "incdec", Lhs: []*E{v("i", TInt)}, D: 1}, Body: []*S{
			{K: "assign", Lhs: []*E{{K: "blank", Ty: TInt}}, Exprs: []*E{call("narrow", 6)}}, pr(sS("d"), call("wide", 7))}},
	}
	p.Funcs = append(p.Funcs, &Func{Name: "Main", Body: body})
	return p
}

// addConstGroupDemo: package-level constant groups with iota: explicit lines, implicit repetition of the previous
// expression, iota nested inside operators and parentheses, skipped values. The meaning is the list of values.
func (g *Gen) addConstGroupDemo() *S {
	r := g.r
	p := g.prog
	tag := fmt.Sprintf("%d", len(p.Globals))
	type form struct {
		expr string
		val  func(i int64) int64
	}
	forms := []form{
		{"iota", func(i int64) int64 { return i }},
		{"iota + 5", func(i int64) int64 { return i + 5 }},
		{"1 << iota", func(i int64) int64 { return 1 << uint(i) }},
		{"1 << (10 * iota)", func(i int64) int64 { return 1 << uint(10*i) }},
		{"(iota + 1) * 10", func(i int64) int64 { return (i + 1) * 10 }},
		{"100 - (iota*iota + 1)", func(i int64) int64 { return 100 - (i*i + 1) }},
		{"(2 + iota) * (3 - iota)", func(i int64) int64 { return (2 + i) * (3 - i) }},
	}
	f := forms[r.Intn(len(forms))]
	n := 3 + r.Intn(2)
	if f.expr == "1 << (10 * iota)" {
		n = 3
	}
	var names []string
	var lines []string
	var out []*S
	for i := 0; i < n; i++ {
		name := fmt.Sprintf("K%s_%d", tag, i)
		names = append(names, name)
		switch {
		case i == 0:
			lines = append(lines, "\t"+name+" = "+f.expr)
		case i == 2 && r.Intn(2) == 0: // the expression written out again in the middle of the group
			lines = append(lines, "\t"+name+" = "+f.expr)
		default:
			lines = append(lines, "\t"+name)
		}
		st := &S{K: "decl", Names: []string{name}, Const: true, Exprs: []*E{lit(TInt, f.val(int64(i)))}, Global: true, Raw: "-"}
		out = append(out, st)
	}
	out[0].Raw = "const (\n" + strings.Join(lines, "\n") + "\n)"
	p.Globals = append(p.Globals, out...)
	var es []*E
	es = append(es, sS("consts"))
	for _, nme := range names {
		es = append(es, &E{K: "var", Ty: TInt, Name: nme, Global: true})
	}
	return pr(es...)
}

// bigFrameProgram: a function with n locals before a range loop with key and value variables, a call of a method on a local
// receiver and a function literal call: local slot numbers around and beyond 128 and 256 (operands that are packed into
// one instruction field have to hold them)
func bigFrameProgram(n int) *Prog {
	p := &Prog{ID: fmt.Sprintf("bigframe-%d", n), Pkg: "main", Main: "Main"}
	p.Structs = []*StructDef{{Name: "Acc", Fields: []string{"T"}, FTypes: []*Ty{TInt}}}
	pa := PtrTo("Acc")
	p.Funcs = append(p.Funcs, &Func{Name: "Acc.Add", Recv: "a", RecvTy: "Acc", Params: []string{"x", "y"}, PTypes: []*Ty{TInt, TInt}, Results: []*Ty{TInt},
		Body: []*S{{K: "opassign", Lhs: []*E{fld(v("a", pa), "T", TInt)}, Op: "+", E: bin("+", TInt, v("x", TInt), v("y", TInt))}, ret(fld(v("a", pa), "T", TInt))}})
	ts := SliceOf(TInt)
	var body []*S
	for i := 0; i < n; i++ {
		body = append(body, dcl(fmt.Sprintf("v%d", i), lit(TInt, int64(i%50))))
	}
	last := fmt.Sprintf("v%d", n-1)
	body = append(body,
		dcl("xs", &E{K: "slicelit", Ty: ts, Args: []*E{lit(TInt, 4), lit(TInt, 5), lit(TInt, 6)}}),
		dcl("t", lit(TInt, 0)),
		&S{K: "range", X: v("xs", ts), KName: "k", VName: "e", Body: []*S{{K: "opassign", Lhs: []*E{v("t", TInt)}, Op: "+", E: bin("+", TInt, bin("*", TInt, v("k", TInt), lit(TInt, 10)), bin("+", TInt, v("e", TInt), v(last, TInt)))}}},
		dcl("acc", newS("Acc", "T", lit(TInt, 1))),
		&S{K: "opassign", Lhs: []*E{v("t", TInt)}, Op: "+", E: mc(v("acc", pa), "Add", TInt, v("t", TInt), v("v0", TInt))},
		&S{K: "range", X: v("xs", ts), KName: "k2", VName: "", Body: []*S{{K: "opassign", Lhs: []*E{v("t", TInt)}, Op: "+", E: v("k2", TInt)}}},
		pr(sS("big"), v("t", TInt), v(last, TInt), fld(v("acc", pa), "T", TInt)),
		ret(v("t", TInt)))
	p.Funcs = append(p.Funcs, &Func{Name: "big", Results: []*Ty{TInt}, Body: body},
		&Func{Name: "Main", Body: []*S{dcl("keep", lit(TInt, 77)), pr(sS("r"), &E{K: "call", Fn: "big", Ty: TInt, NRes: 1}, v("keep", TInt))}})
	return p
}

var bigFrameSizes = []int{60, 118, 122, 124, 126, 127, 128, 130, 200, 252, 256, 260}

func init() {
	extraCorpus = append(extraCorpus, func(c *Ctx, r *rand.Rand) []map[string]string {
		var out []map[string]string
		for _, n := range bigFrameSizes {
			out = append(out, bigFrameProgram(n).Files(false, nil))
		}
		return out
	})
}
