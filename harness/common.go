package main

import (
	"bufio"
	"bytes"
	"context"
	"crypto/sha1"
	"encoding/hex"
	"encoding/json"
	"fmt"
	"io"
	"os"
	"os/exec"
	"path/filepath"
	"regexp"
	"runtime"
	"sort"
	"strconv"
	"strings"
	"sync"
	"time"
)

// ---------------------------------------------------------------------------------------------
// Exit protocol: 0 = held, 1 = VIOLATION (real code broke the property), 2 = machinery failure.

// specDir: the TLA+ modules; VERIF_SPEC_DIR points developer sweeps at a snapshot so that edits made
// while they run do not interfere
var specDir = func() string {
	if d := os.Getenv("VERIF_SPEC_DIR"); d != "" {
		return d
	}
	return "/verif/spec"
}()

const (
	verifRoot = "/verif"
	tlaJars   = "/opt/veriftools/tla/tla2tools.jar:/opt/veriftools/tla/CommunityModules-deps.jar"
)

type machineryError struct{ msg string }

func (e machineryError) Error() string { return e.msg }

// fatalf aborts the check with exit 2 (machinery failure, never a violation).
func fatalf(format string, args ...any) {
	panic(machineryError{fmt.Sprintf(format, args...)})
}

func must(err error) {
	if err != nil {
		fatalf("%v", err)
	}
}

// ---------------------------------------------------------------------------------------------
// Run context of one check.

type Violation struct {
	Key    string         // stable identity of the failing input (matched against KNOWN_FINDINGS)
	What   string         // one line description
	Replay map[string]any // written to the replay file
}

type Ctx struct {
	ID      string
	Tier    string // quick | thorough
	Seed    int64
	Work    string
	Start   time.Time
	Level   string
	Workers int

	// evidence accumulators
	States        int64
	Transitions   int64
	TracesVsImpl  int64
	Evaluations   int64
	Distinct      map[string]struct{}
	DistinctCount int64 // used when the distinct set is counted elsewhere
	Samples       []any
	Rule          string
	Extra         map[string]any
	Assumptions   []string
	Exhaustive    bool
	Programs      int64
	Disagreements int64

	Violations []Violation
	knownHit   map[string]bool
	findings   []Finding
}

func newCtx(id, tier string) *Ctx {
	seed := int64(1)
	if s := os.Getenv("VERIF_SEED"); s != "" {
		if v, err := strconv.ParseInt(s, 10, 64); err == nil {
			seed = v
		}
	}
	work := filepath.Join(verifRoot, "work", fmt.Sprintf("%s-%d", id, os.Getpid()))
	must(os.MkdirAll(work, 0o755))
	c := &Ctx{ID: id, Tier: tier, Seed: seed, Work: work, Start: time.Now(), Level: "model_checking",
		Distinct: map[string]struct{}{}, Extra: map[string]any{}, knownHit: map[string]bool{}}
	c.Workers = runtime.NumCPU()
	if c.Workers > 16 {
		c.Workers = 16
	}
	c.findings = loadFindings()
	return c
}

func (c *Ctx) quick() bool { return c.Tier != "thorough" }

// pick returns q for the quick tier and t for the thorough tier.
func (c *Ctx) pick(q, t int) int {
	if c.quick() {
		return q
	}
	return t
}

func (c *Ctx) sample(v any) {
	if len(c.Samples) < 6 {
		c.Samples = append(c.Samples, v)
	}
}

func (c *Ctx) distinct(key string) {
	c.Distinct[key] = struct{}{}
}

func (c *Ctx) cleanup() {
	if os.Getenv("VERIF_KEEP_WORK") == "" {
		os.RemoveAll(c.Work)
	}
}

func hashKey(s string) string {
	h := sha1.Sum([]byte(s))
	return hex.EncodeToString(h[:])[:12]
}

// violate records a violation of the property by the real code. key identifies the failing input.
func (c *Ctx) violate(key, what string, replay map[string]any) {
	for _, v := range c.Violations {
		if v.Key == key {
			return
		}
	}
	c.Violations = append(c.Violations, Violation{Key: key, What: what, Replay: replay})
}

// ---------------------------------------------------------------------------------------------
// Known findings.

type Finding struct {
	Kind     string // finding | fixed
	Property string
	Key      string
	Text     string
}

func loadFindings() []Finding {
	f, err := os.Open(filepath.Join(verifRoot, "KNOWN_FINDINGS.txt"))
	if err != nil {
		return nil
	}
	defer f.Close()
	var res []Finding
	sc := bufio.NewScanner(f)
	sc.Buffer(make([]byte, 1<<20), 1<<20)
	for sc.Scan() {
		line := strings.TrimSpace(sc.Text())
		if line == "" || strings.HasPrefix(line, "#") {
			continue
		}
		var fd Finding
		switch {
		case strings.HasPrefix(line, "finding:"):
			fd.Kind = "finding"
			line = strings.TrimSpace(strings.TrimPrefix(line, "finding:"))
		case strings.HasPrefix(line, "fixed:"):
			fd.Kind = "fixed"
			line = strings.TrimSpace(strings.TrimPrefix(line, "fixed:"))
		default:
			continue
		}
		fd.Text = line
		for _, fld := range strings.Fields(line) {
			if strings.HasPrefix(fld, "property=") {
				fd.Property = strings.TrimPrefix(fld, "property=")
			}
			if strings.HasPrefix(fld, "key=") {
				fd.Key = strings.TrimPrefix(fld, "key=")
			}
		}
		res = append(res, fd)
	}
	return res
}

func (c *Ctx) knownFinding(key string) *Finding {
	for i := range c.findings {
		f := &c.findings[i]
		if f.Kind == "finding" && f.Property == c.ID && f.Key == key {
			return f
		}
	}
	return nil
}

// ---------------------------------------------------------------------------------------------
// Finish: write evidence, print verdict lines, exit.

func (c *Ctx) finish() {
	wall := time.Since(c.Start).Seconds()
	nviol := 0
	var out []string
	for _, v := range c.Violations {
		if f := c.knownFinding(v.Key); f != nil {
			out = append(out, fmt.Sprintf("KNOWN-FINDING: property=%s key=%s %s", c.ID, v.Key, v.What))
			continue
		}
		nviol++
		if nviol > 200 {
			continue // counted, not listed: one changed line can break tens of thousands of generated inputs
		}
		dir := filepath.Join(verifRoot, "replays", c.ID)
		os.MkdirAll(dir, 0o755)
		path := filepath.Join(dir, v.Key+".json")
		rp := map[string]any{"property": c.ID, "key": v.Key, "what": v.What, "seed": c.Seed, "tier": c.Tier}
		for k, val := range v.Replay {
			rp[k] = val
		}
		b, _ := json.MarshalIndent(rp, "", " ")
		os.WriteFile(path, b, 0o644)
		out = append(out, fmt.Sprintf("VIOLATION property=%s replay=%s", c.ID, path))
		out = append(out, "  what: "+v.What)
	}
	cov := map[string]any{}
	for k, v := range c.Extra {
		cov[k] = v
	}
	dn := int64(len(c.Distinct)) + c.DistinctCount
	cov["evaluations"] = c.Evaluations
	cov["distinct_nontrivial"] = dn
	cov["rule"] = c.Rule
	if len(c.Samples) == 0 {
		c.Samples = []any{"(no sample recorded)"}
	}
	cov["samples"] = c.Samples
	cov["states"] = c.States
	cov["transitions"] = c.Transitions
	cov["traces_validated_against_impl"] = c.TracesVsImpl
	if c.Exhaustive {
		cov["exhaustive"] = true
	}
	if c.Level == "translation_validation" {
		cov["programs"] = c.Programs
		cov["disagreements_checked"] = c.Disagreements
	}
	ev := map[string]any{
		"property_id": c.ID,
		"tier":        c.Tier,
		"seed":        c.Seed,
		"level":       c.Level,
		"coverage":    cov,
		"assumptions": c.Assumptions,
		"wall_s":      float64(int(wall*100)) / 100,
		"violations":  nviol,
	}
	b, _ := json.MarshalIndent(ev, "", " ")
	os.MkdirAll(filepath.Join(verifRoot, "evidence"), 0o755)
	must(os.WriteFile(filepath.Join(verifRoot, "evidence", c.ID+".json"), b, 0o644))
	for _, l := range out {
		fmt.Println(l)
	}
	if nviol > 200 {
		fmt.Printf("(%d further violations are counted but not listed)\n", nviol-200)
	}
	fmt.Printf("%s %s: evaluations=%d distinct=%d states=%d traces_vs_impl=%d violations=%d wall=%.1fs\n",
		c.ID, c.Tier, c.Evaluations, dn, c.States, c.TracesVsImpl, nviol, wall)
	c.cleanup()
	if nviol > 0 {
		os.Exit(1)
	}
	os.Exit(0)
}

// ---------------------------------------------------------------------------------------------
// TLC runner.

type TLCOpts struct {
	Module     string   // module name (file Module.tla must be in the run dir)
	Cfg        string   // cfg file name
	Workers    int      // 0 => ctx.Workers
	Simulate   string   // e.g. "num=1000" => -simulate num=1000
	Depth      int      // -depth for simulation
	Timeout    time.Duration
	HeapMB     int
	DFS        bool // StateDeque queue
	ExtraArgs  []string
	AllowError bool // do not abort when TLC reports an error (caller inspects Result)
	// PartialOnTimeout: when the time limit is reached after TLC has already reported a violated invariant, return the
	// output so far (TLC reconstructs a trace per violation under -continue, which takes minutes when thousands of states
	// violate); a timeout without any reported violation stays a machinery failure
	PartialOnTimeout bool
	Coverage   bool
}

// lockedBuffer: a bytes.Buffer that may be read while the command writes to it
type lockedBuffer struct {
	mu sync.Mutex
	b  bytes.Buffer
}

func (l *lockedBuffer) Write(p []byte) (int, error) {
	l.mu.Lock()
	defer l.mu.Unlock()
	return l.b.Write(p)
}
func (l *lockedBuffer) String() string {
	l.mu.Lock()
	defer l.mu.Unlock()
	return l.b.String()
}

type TLCResult struct {
	Output      string
	Generated   int64
	DistinctSt  int64
	ExitCode    int
	Records     map[string][]string // tag -> JSON strings printed by PrintT(<<tag, json>>)
	ErrorText   string
	ZeroCovered []string
}

var reStates = regexp.MustCompile(`(\d+) states generated, (\d+) distinct states found`)
var reRecord = regexp.MustCompile(`^<<"([A-Z]+)", (".*")>>$`)

// prepareSpecDir copies the named files (and all *.tla of /verif/spec) into a fresh directory.
func (c *Ctx) specWorkDir(name string) string {
	dir := filepath.Join(c.Work, name)
	must(os.MkdirAll(dir, 0o755))
	ents, err := os.ReadDir(specDir)
	must(err)
	for _, e := range ents {
		if e.IsDir() {
			continue
		}
		if strings.HasSuffix(e.Name(), ".tla") || strings.HasSuffix(e.Name(), ".cfg") {
			b, err := os.ReadFile(filepath.Join(specDir, e.Name()))
			must(err)
			must(os.WriteFile(filepath.Join(dir, e.Name()), b, 0o644))
		}
	}
	return dir
}

func (c *Ctx) runTLC(dir string, o TLCOpts) *TLCResult {
	if o.Workers == 0 {
		o.Workers = c.Workers
	}
	if o.Timeout == 0 {
		o.Timeout = 10 * time.Minute
	}
	if o.HeapMB == 0 {
		o.HeapMB = 4096
	}
	meta := filepath.Join(dir, "meta-"+o.Module+"-"+strconv.FormatInt(time.Now().UnixNano(), 36))
	// TLC unpacks its standard modules into java.io.tmpdir on every run: keep that inside the run's work directory
	jtmp := filepath.Join(dir, "jtmp")
	os.MkdirAll(jtmp, 0o755)
	args := []string{"-XX:+UseParallelGC", fmt.Sprintf("-Xmx%dm", o.HeapMB), "-Xss64m", "-Djava.io.tmpdir=" + jtmp}
	if o.Workers == 1 {
		args = append(args, "-XX:ParallelGCThreads=2", "-XX:CICompilerCount=2")
	}
	if o.DFS {
		args = append(args, "-Dtlc2.tool.queue.IStateQueue=StateDeque")
	}
	args = append(args, "-cp", tlaJars, "tlc2.TLC", "-workers", strconv.Itoa(o.Workers), "-metadir", meta,
		"-config", o.Cfg)
	if o.Simulate != "" {
		args = append(args, "-simulate", o.Simulate)
		if o.Depth > 0 {
			args = append(args, "-depth", strconv.Itoa(o.Depth))
		}
		args = append(args, "-seed", strconv.FormatInt(c.Seed, 10))
	}
	if o.Coverage {
		args = append(args, "-coverage", "1")
	}
	args = append(args, o.ExtraArgs...)
	args = append(args, o.Module+".tla")
	ctx, cancel := context.WithTimeout(context.Background(), o.Timeout)
	defer cancel()
	cmd := exec.CommandContext(ctx, "java", args...)
	cmd.Dir = dir
	var buf lockedBuffer
	cmd.Stdout = &buf
	cmd.Stderr = &buf
	t0 := time.Now()
	if o.PartialOnTimeout {
		// once a violation has been reported, give TLC a short while to report more, then stop it
		go func() {
			for ctx.Err() == nil {
				time.Sleep(time.Second)
				if strings.Contains(buf.String(), "is violated") {
					time.Sleep(15 * time.Second)
					cancel()
					return
				}
			}
		}()
	}
	err := cmd.Run()
	if os.Getenv("VERIF_DEBUG") != "" {
		fmt.Printf("DEBUG tlc %s/%s in %s: %.1fs\n", o.Module, o.Cfg, filepath.Base(filepath.Dir(dir)), time.Since(t0).Seconds())
	}
	res := &TLCResult{Output: buf.String(), Records: map[string][]string{}}
	os.RemoveAll(meta)
	if ctx.Err() != nil {
		if !(o.PartialOnTimeout && strings.Contains(buf.String(), "is violated")) {
			fatalf("TLC timeout after %v on %s/%s", o.Timeout, o.Module, o.Cfg)
		}
		res.ExitCode = 12
		err = nil
	}
	if err != nil {
		if ee, ok := err.(*exec.ExitError); ok {
			res.ExitCode = ee.ExitCode()
		} else {
			fatalf("cannot run TLC: %v", err)
		}
	}
	sc := bufio.NewScanner(strings.NewReader(res.Output))
	sc.Buffer(make([]byte, 1<<24), 1<<26)
	for sc.Scan() {
		line := sc.Text()
		if m := reRecord.FindStringSubmatch(line); m != nil {
			s, err := strconv.Unquote(m[2])
			if err == nil {
				res.Records[m[1]] = append(res.Records[m[1]], s)
				continue
			}
		}
		if m := reStates.FindStringSubmatch(line); m != nil {
			res.Generated, _ = strconv.ParseInt(m[1], 10, 64)
			res.DistinctSt, _ = strconv.ParseInt(m[2], 10, 64)
		}
	}
	if res.ExitCode != 0 {
		res.ErrorText = tlcErrorText(res.Output)
		if !o.AllowError {
			fatalf("TLC failed (exit %d) on %s/%s:\n%s", res.ExitCode, o.Module, o.Cfg, res.ErrorText)
		}
	}
	c.States += res.DistinctSt
	c.Transitions += res.Generated
	return res
}

func tlcErrorText(out string) string {
	var keep []string
	for _, l := range strings.Split(out, "\n") {
		if strings.HasPrefix(l, "<<\"") {
			continue
		}
		keep = append(keep, l)
	}
	if len(keep) > 60 {
		keep = keep[len(keep)-60:]
	}
	return strings.Join(keep, "\n")
}

// ---------------------------------------------------------------------------------------------
// Small helpers.

func writeJSON(path string, v any) {
	b, err := json.Marshal(v)
	must(err)
	must(os.WriteFile(path, b, 0o644))
}

func writeNDJSON(path string, items []any) {
	f, err := os.Create(path)
	must(err)
	w := bufio.NewWriter(f)
	for _, it := range items {
		b, err := json.Marshal(it)
		must(err)
		w.Write(b)
		w.WriteByte('\n')
	}
	must(w.Flush())
	must(f.Close())
}

func sortedKeys[V any](m map[string]V) []string {
	ks := make([]string, 0, len(m))
	for k := range m {
		ks = append(ks, k)
	}
	sort.Strings(ks)
	return ks
}

// runWithWatchdog runs f in a goroutine and reports whether it finished in time and whether it panicked.
func runWithWatchdog(d time.Duration, f func()) (finished bool, panicked any) {
	done := make(chan any, 1)
	go func() {
		defer func() { done <- recover() }()
		f()
	}()
	select {
	case p := <-done:
		return true, p
	case <-time.After(d):
		return false, nil
	}
}

// goRun compiles and runs a native Go program (calibration oracle). Returns stdout, stderr, exit ok.
func (c *Ctx) goRun(name, src string) (string, string, bool) {
	dir := filepath.Join(c.Work, "gocal-"+name)
	must(os.MkdirAll(dir, 0o755))
	must(os.WriteFile(filepath.Join(dir, "main.go"), []byte(src), 0o644))
	must(os.WriteFile(filepath.Join(dir, "go.mod"), []byte("module cal\n\ngo 1.20\n"), 0o644))
	ctx, cancel := context.WithTimeout(context.Background(), 5*time.Minute)
	defer cancel()
	cmd := exec.CommandContext(ctx, "go", "run", ".")
	cmd.Dir = dir
	cmd.Env = append(os.Environ(), "GOFLAGS=-mod=mod", "GOPROXY=off", "GOSUMDB=off", "GOTOOLCHAIN=local", "GOCACHE="+calGoCache())
	var so, se bytes.Buffer
	cmd.Stdout, cmd.Stderr = &so, &se
	err := cmd.Run()
	return so.String(), se.String(), err == nil
}

func readAll(r io.Reader) string { b, _ := io.ReadAll(r); return string(b) }

func (c *Ctx) pickDur(qMin, tMin int) time.Duration {
	return time.Duration(c.pick(qMin, tMin)) * time.Minute
}

func jsonMarshal(v any) ([]byte, error) { return json.Marshal(v) }

// validateFlatTrace validates a flat list of trace lines (one spec step per line, no reset lines)
// and returns the indices of lines that TLC could not explain. Acceptance is by the diameter
// postcondition; after a rejection the offending line is removed and validation continues.
func validateFlatTrace(c *Ctx, module, cfg string, lines []map[string]any) []int {
	dir := c.specWorkDir("flat-" + module)
	idx := make([]int, len(lines))
	for i := range idx {
		idx[i] = i
	}
	var rejected []int
	cur := lines
	for round := 0; round < 200; round++ {
		if len(cur) == 0 {
			return rejected
		}
		items := make([]any, len(cur))
		for i, l := range cur {
			items[i] = l
		}
		writeNDJSON(filepath.Join(dir, "trace.ndjson"), items)
		res := c.runTLC(dir, TLCOpts{Module: module, Cfg: cfg, Workers: 1, AllowError: true})
		diam := -1
		if d := res.Records["DIAM"]; len(d) > 0 {
			diam, _ = strconv.Atoi(d[len(d)-1])
		}
		if res.ExitCode == 0 {
			if diam-1 != len(cur) {
				fatalf("flat trace validation inconsistent: exit 0, diameter %d, %d lines", diam, len(cur))
			}
			return rejected
		}
		if diam < 1 || diam > len(cur) {
			fatalf("flat trace validation failed without usable diameter (exit %d):\n%s", res.ExitCode, res.ErrorText)
		}
		rejected = append(rejected, idx[diam-1])
		cur = cur[diam:]
		idx = idx[diam:]
	}
	fatalf("more than 200 rejected trace lines")
	return nil
}

// classifyFlatTrace runs a trace specification that has an explicit "bad observation" action
// (printing <<"BAD", line>>) over all lines in ONE TLC run; every line must be consumed.
func classifyFlatTrace(c *Ctx, module, cfg string, lines []map[string]any) []int {
	if len(lines) == 0 {
		return nil
	}
	dir := c.specWorkDir("cls-" + module)
	items := make([]any, len(lines))
	for i, l := range lines {
		items[i] = l
	}
	writeNDJSON(filepath.Join(dir, "trace.ndjson"), items)
	res := c.runTLC(dir, TLCOpts{Module: module, Cfg: cfg, Workers: 1, AllowError: true, HeapMB: 2000})
	diam := -1
	if d := res.Records["DIAM"]; len(d) > 0 {
		diam, _ = strconv.Atoi(d[len(d)-1])
	}
	if res.ExitCode != 0 || diam-1 != len(lines) {
		fatalf("trace classification did not consume all %d lines (exit %d, diameter %d):\n%s", len(lines), res.ExitCode, diam, res.ErrorText)
	}
	var bad []int
	for _, b := range res.Records["BAD"] {
		n, err := strconv.Atoi(b)
		if err != nil || n < 1 || n > len(lines) {
			fatalf("bad BAD record %q", b)
		}
		bad = append(bad, n-1)
	}
	sort.Ints(bad)
	return bad
}

// classifySharded splits the lines over several TLC processes run in parallel (each shard is an
// independent trace of the same trace specification) and returns the indices of the bad lines.
func classifySharded(c *Ctx, module, cfg string, lines []map[string]any, shards int) []int {
	if shards < 1 {
		shards = 1
	}
	if shards > len(lines) {
		shards = len(lines)
	}
	if shards <= 1 {
		return classifyFlatTrace(c, module, cfg, lines)
	}
	type result struct {
		bad []int
		err any
		st  [2]int64
	}
	per := (len(lines) + shards - 1) / shards
	results := make([]result, shards)
	done := make(chan int, shards)
	for s := 0; s < shards; s++ {
		go func(s int) {
			defer func() {
				if r := recover(); r != nil {
					results[s].err = r
				}
				done <- s
			}()
			lo, hi := s*per, (s+1)*per
			if hi > len(lines) {
				hi = len(lines)
			}
			if lo >= hi {
				return
			}
			sub := &Ctx{ID: c.ID, Tier: c.Tier, Seed: c.Seed, Work: filepath.Join(c.Work, fmt.Sprintf("shard%d", s)), Workers: 1}
			must(os.MkdirAll(sub.Work, 0o755))
			bad := classifyFlatTrace(sub, module, cfg, lines[lo:hi])
			for _, b := range bad {
				results[s].bad = append(results[s].bad, lo+b)
			}
			results[s].st = [2]int64{sub.States, sub.Transitions}
		}(s)
	}
	for i := 0; i < shards; i++ {
		<-done
	}
	var bad []int
	for _, r := range results {
		if r.err != nil {
			panic(r.err)
		}
		bad = append(bad, r.bad...)
		c.States += r.st[0]
		c.Transitions += r.st[1]
	}
	sort.Ints(bad)
	return bad
}

func writeFileReplace(path, old, new string) error {
	b, err := os.ReadFile(path)
	if err != nil {
		return err
	}
	if !strings.Contains(string(b), old) {
		return fmt.Errorf("%s does not contain %q", path, old)
	}
	return os.WriteFile(path, []byte(strings.Replace(string(b), old, new, 1)), 0o644)
}

// runGoDir builds and runs the Go module in dir with the local toolchain (calibration only).
func runGoDir(dir string) (string, string, bool) {
	ctx, cancel := context.WithTimeout(context.Background(), 10*time.Minute)
	defer cancel()
	cmd := exec.CommandContext(ctx, "go", "run", "-gcflags=cal/...=-N -l", ".") // no inlining / dead-load elimination: the optimising compiler drops nil checks of unused operands of inlined calls
	cmd.Dir = dir
	cmd.Env = append(os.Environ(), "GOFLAGS=-mod=mod", "GOPROXY=off", "GOSUMDB=off", "GOTOOLCHAIN=local", "GOCACHE="+calGoCache())
	var so, se bytes.Buffer
	cmd.Stdout, cmd.Stderr = &so, &se
	err := cmd.Run()
	return so.String(), se.String(), err == nil
}

// calGoCache: the thousands of one-off packages of the calibration programs are compiled into a build cache of their own
// (under /verif/.build), which is emptied when it has grown beyond about 4 GB: the user's Go build cache does not grow
// with every run.
func calGoCache() string {
	dir := filepath.Join(verifRoot, ".build", "gocache-cal")
	os.MkdirAll(dir, 0o755)
	calCacheOnce.Do(func() {
		var size int64
		filepath.Walk(dir, func(_ string, info os.FileInfo, err error) error {
			if err == nil && !info.IsDir() {
				size += info.Size()
			}
			return nil
		})
		if size > 4<<30 {
			os.RemoveAll(dir)
			os.MkdirAll(dir, 0o755)
		}
	})
	return dir
}

var calCacheOnce sync.Once
