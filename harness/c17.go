package main

import (
	"bytes"
	"encoding/json"
	"fmt"
	"os"
	"path/filepath"
	"strings"

	goat "github.com/philhassey/goatlang"
)

// C17 — reloading swaps code in place and keeps state.
//
// Reload.tla: TLC explores every history of length <= 5 (quick) / 6 (thorough) over Load(1..3), six
// ways of calling (direct, host-held function value, function stored in a struct field, method,
// bound method, a function that exists from version 2 on), three captures and three state
// operations, checks the model-level invariants (a call reports the version loaded last; the
// uninitialised variable is never reset) and emits every complete history with the observation each
// step must produce; longer histories come from TLC simulation. Every history is replayed on ONE
// long-lived VM with versions of a package whose function and method bodies differ.

func init() { register("C17", checkC17) }

type reloadStep struct {
	Op   string `json:"op"`
	Arg  int    `json:"arg"`
	Want int    `json:"want"`
}

// c17Source returns version k of the package in layout variant lv.
func c17Source(k int, lv int) map[string]string {
	filler := strings.Repeat("\tz++\n", k) // bodies of different versions have different lengths
	tag := fmt.Sprintf("func Tag() int {\n\tz := 0\n%s\t_ = z\n\treturn %d\n}\n\n", filler, k)
	meth := fmt.Sprintf("func (t *T) M() int {\n\tz := %d\n%s\treturn z - z + %d*10 + t.X\n}\n\n", k, filler, k) +
		fmt.Sprintf("func (t *T) M1(a int) int {\n\tz := %d\n%s\treturn z - z + %d*10 + t.X + a - a\n}\n\n", k, filler, k) +
		fmt.Sprintf("func (t *T) MV(a int, more ...int) int {\n\tz := %d\n%s\treturn z - z + %d*10 + t.X + len(more) - len(more)\n}\n\n", k, filler, k)
	// a function whose PARAMETER LIST differs between the versions (one parameter, two, variadic)
	sig := map[int]string{
		1: "func Sig(a int) int {\n\treturn 1000 + a\n}\n\nfunc CallSig() int { return Sig(1) }\n\n",
		2: "func Sig(a int, b int) int {\n\treturn 2000 + a + b\n}\n\nfunc CallSig() int { return Sig(1, 2) }\n\n",
		3: "func Sig(xs ...int) int {\n\treturn 3000 + len(xs)\n}\n\nfunc CallSig() int { return Sig(1, 2, 3) }\n\n",
	}[k]
	// a function that is EMPTY in version 1 and has a body from version 2 on (HookB, in the common part, is empty in every
	// version: what HookA gains is HookA's alone)
	if k == 1 {
		sig += "func HookA() {\n}\n\n"
	} else {
		sig += fmt.Sprintf("func HookA() {\n\tHooked += %d\n}\n\n", k)
	}
	tag += sig
	typ := "type T struct {\n\tX int\n\tH func() int\n}\n\n"
	vars := fmt.Sprintf("var Counter int\nvar Base int = %d\nvar Zeroed int = 0\nvar ZeroedF float64 = 0\nvar Inst *T\nvar BM func() int\nvar BM1 func(int) int\nvar BMV func(int, ...int) int\nvar Any any\nvar Sh Shape\nvar Err error\nvar Reg map[string]int\nvar Names []string\nvar Hooked int\nvar CapHook func()\nvar Banner = Tag() * 1000\n\ntype Shape interface {\n\tM() int\n}\n\n", 100+k)
	rest := `func Bump() int {
	Counter++
	return Counter
}

func SetBase(v int) int {
	Base = v
	Zeroed = 7
	ZeroedF = 2.5
	return Base
}

func ReadZeroed() int {
	if ZeroedF == 2.5 {
		return Zeroed + 1000
	}
	return Zeroed
}

func ReadCounter() int { return Counter }
func ReadBase() int    { return Base }

func SetAny() {
	Any = "kept"
	Sh = &T{X: 7}
	Err = errors.New("e")
	Reg = map[string]int{}
	Names = []string{}
}

// the map and the slice are made but EMPTY: they are kept like any other value of a variable without initialiser
func ReadAny() int {
	n := 0
	if Any != nil && Sh != nil && Err != nil && Reg != nil && Names != nil {
		n = 1
	}
	return n
}

func HookB() {
}

// HookB, called directly and through a value captured at the first opportunity, never does anything
func RunHooks() int {
	if CapHook == nil {
		CapHook = HookB
	}
	before := Hooked
	HookB()
	CapHook()
	HookB()
	return Hooked - before
}

// the initialiser of Banner calls Tag: it is evaluated again by every load, with the body that load brings
func ReadBanner() int { return Banner }

// an instance made after a load shows its fields as before (the type is the same in every version)
type Pt struct {
	X, Y int
}

func Fresh() int {
	if fmt.Sprint(&Pt{X: 3, Y: 4}) == "&{X:3 Y:4}" {
		return 1
	}
	return 0
}

// Around: the host function it calls loads a version of this package while this frame is active; afterwards the frame
// still sees and updates the package-level state (0 is returned when no update was lost)
func Around() int {
	before := Counter
	Counter += 5
	hostReload()
	Counter++
	Counter++
	Counter -= 7
	return Counter - before
}

func CaptureInst() { Inst = &T{X: 5, H: Tag} }
func CaptureBM() {
	BM = Inst.M
	BM1 = Inst.M1
	BMV = Inst.MV
}
func CallField() int  { return Inst.H() }
func CallMethod() int { return Inst.M() }
func CallBM() int     { return BM() }
func CallBM1() int    { return BM1(3) }
func CallBMV() int    { return BMV(1, 2, 3) }
func CallMethod1() int { return Inst.M1(4) + Inst.MV(5, 6) - Inst.MV(7) }
`
	extra := ""
	if k >= 2 {
		extra = fmt.Sprintf("\nfunc Extra() int { return %d * 100 }\n", k)
	}
	switch lv % 4 {
	case 3: // the version-dependent function lives in an IMPORTED package; reloads go through the importer
		// the imported package has a function of its own named println, declared AFTER the function that calls it: the
		// call means the package's function on every load (Tag is off by 1000 when the builtin was called instead);
		// every second variant has the package at an import path of two elements
		utag := fmt.Sprintf("package u\n\nvar Loads int = %d\n\nvar Log int\n\nfunc Tag() int {\n\tz := 0\n%s\t_ = z\n\tbefore := Log\n\tprintln(\"tag\")\n\treturn %d + (Log-before-1)*1000\n}\n\nfunc println(s string) {\n\tLog++\n}\n", k, filler, k)
		mainTag := "func Tag() int {\n\treturn u.Tag() + u.Loads - u.Loads\n}\n\n" + sig
		upath := "u"
		if (lv/4)%2 == 1 {
			upath = "lib/u"
		}
		return map[string]string{upath + "/u.go": utag, "main/main.go": "package main\n\nimport (\n\t\"errors\"\n\t\"fmt\"\n\t\"" + upath + "\"\n)\n\n" + vars + typ + mainTag + meth + rest + extra}
	case 0:
		return map[string]string{"main/main.go": "package main\n\nimport (\n\t\"errors\"\n\t\"fmt\"\n)\n\n" + vars + typ + tag + meth + rest + extra}
	case 1: // different declaration order
		return map[string]string{"main/main.go": "package main\n\nimport (\n\t\"errors\"\n\t\"fmt\"\n)\n\n" + rest + extra + "\n" + meth + tag + typ + vars}
	default: // two files
		return map[string]string{"main/a.go": "package main\n\nimport (\n\t\"errors\"\n\t\"fmt\"\n)\n\n" + tag + rest, "main/b.go": "package main\n\n" + vars + typ + meth + extra}
	}
}

var c17Fresh int

func c17Replay(c *Ctx, hist []reloadStep, lv int) {
	var out bytes.Buffer
	vm := goat.New(goat.WithStdout(&out))
	var fv, hostBM goat.Value
	haveHostBM := false
	loaded := false
	fail := func(i int, what string) {
		c.violate(hashKey(fmt.Sprint(hist, lv%8)), fmt.Sprintf("reload history %v (layout %d): step %d %s: %s", histText(hist), lv%8, i+1, hist[i].Op, what),
			map[string]any{"history": hist, "layout": lv % 4, "failed_step": i + 1, "sources": map[string]any{"v1": c17Source(1, lv), "v2": c17Source(2, lv), "v3": c17Source(3, lv)}})
	}
	call1 := func(name string, args ...goat.Value) (int, error) {
		goat.VerifSetBudget(100000)
		defer goat.VerifSetBudget(-1)
		rets, err := vm.Call(name, 1, args...)
		if err != nil {
			return 0, err
		}
		return rets[0].Int(), nil
	}
	for i, st := range hist {
		c.Evaluations++
		var got int
		var err error
		check := true
		switch st.Op {
		case "load":
			check = false
			if loaded && (i+lv)%8 == 1 {
				// the same load, made by a host function while a script function of the package is running; the source
				// carries a few hundred names and literals never seen before, so the VM's tables grow during the load
				src := c17Source(st.Arg, lv)
				c17Fresh++
				var fb strings.Builder
				fmt.Fprintf(&fb, "package main\n\nfunc Fill%d() int {\n\tn := 0\n", c17Fresh)
				for k := 0; k < 300; k++ {
					fmt.Fprintf(&fb, "\tn += len(\"fresh_%d_%d\")\n", c17Fresh, k)
				}
				fb.WriteString("\treturn n\n}\n")
				src["main/zz_fill.go"] = fb.String()
				var lerr error
				vm.Set("main.hostReload", goat.NewFunc(0, 0, func(vm *goat.VM, args []goat.Value) {
					lerr = vm.Load(mapFS(src), "main")
				}))
				got, err = call1("main.Around")
				if err == nil && lerr != nil {
					err = lerr
				}
				if err == nil && got != 0 {
					fail(i, fmt.Sprintf("a function that was running while version %d was loaded lost %d of its updates to a package-level variable", st.Arg, got))
					return
				}
				break
			}
			if lv%4 <= 1 && (lv/8)%2 == 1 {
				err = vm.Load(mapFS(c17Source(st.Arg, lv)), "main/main.go") // the same package, addressed by its file
			} else {
				err = vm.Load(mapFS(c17Source(st.Arg, lv)), "main")
			}
			loaded = true
		case "call-direct":
			got, err = call1("main.Tag")
			if err == nil && got == st.Want {
				// the function whose parameter list changes with the version: through script code and from the host
				want := map[int]int{1: 1001, 2: 2003, 3: 3003}[st.Want]
				var g2 int
				g2, err = call1("main.CallSig")
				if err == nil && g2 != want {
					fail(i, fmt.Sprintf("CallSig() returned %d, version %d gives %d", g2, st.Want, want))
					return
				}
				if err == nil {
					g2, err = call1("main.RunHooks")
					if err == nil && g2 != 0 {
						fail(i, fmt.Sprintf("a function that is empty in every version did something (the counter another function's new body updates moved by %d)", g2))
						return
					}
				}
				if err == nil {
					_, err = vm.Call("main.HookA", 0)
				}
				if err == nil {
					g2, err = call1("main.ReadBanner")
					if err == nil && g2 != st.Want*1000 {
						fail(i, fmt.Sprintf("the variable initialised with Tag()*1000 holds %d after version %d was loaded", g2, st.Want))
						return
					}
				}
				if err == nil {
					g2, err = call1("main.Fresh")
					if err == nil && g2 != 1 {
						fail(i, "an instance created after the load does not show its fields (fmt.Sprint(&Pt{X: 3, Y: 4}))")
						return
					}
				}
				if err == nil {
					args := map[int][]goat.Value{1: {goat.Int(1)}, 2: {goat.Int(1), goat.Int(2)}, 3: {goat.Int(1), goat.Int(2), goat.Int(3)}}[st.Want]
					g2, err = call1("main.Sig", args...)
					if err == nil && g2 != want {
						fail(i, fmt.Sprintf("host Call of Sig returned %d, version %d gives %d", g2, st.Want, want))
						return
					}
				}
			}
		case "capture-fv":
			fv = vm.Get("main.Tag")
			check = false
		case "call-fv":
			var rets []goat.Value
			rets, err = vm.Func(fv, 1)
			if err == nil {
				got = rets[0].Int()
			}
		case "capture-inst":
			_, err = vm.Call("main.CaptureInst", 0)
			check = false
		case "capture-bm":
			_, err = vm.Call("main.CaptureBM", 0)
			if err == nil {
				// the host takes a bound method (with a parameter) of the same instance at the same time
				hostBM = vm.Get("main.Inst").GetAttr("M1")
				haveHostBM = true
			}
			check = false
		case "call-field":
			got, err = call1("main.CallField")
		case "call-method":
			got, err = call1("main.CallMethod")
			if err == nil && got == st.Want {
				got, err = call1("main.CallMethod1")
			}
			if err == nil && got == st.Want {
				// the same method reached from the host through the instance
				inst := vm.Get("main.Inst")
				var rets []goat.Value
				rets, err = vm.Func(inst.GetAttr("M"), 1)
				if err == nil {
					got = rets[0].Int()
				}
			}
		case "call-bm":
			got, err = call1("main.CallBM")
			// bound methods that take arguments (fixed and variadic), captured at the same time
			for _, fn := range []string{"main.CallBM1", "main.CallBMV"} {
				if err == nil && got == st.Want {
					got, err = call1(fn)
				}
			}
			if err == nil && got == st.Want && haveHostBM {
				var rets []goat.Value
				rets, err = vm.Func(hostBM, 1, goat.Int(2))
				if err == nil {
					got = rets[0].Int()
				}
			}
		case "call-extra":
			got, err = call1("main.Extra")
		case "setany":
			_, err = vm.Call("main.SetAny", 0)
			check = false
		case "readany":
			got, err = call1("main.ReadAny")
		case "bump":
			got, err = call1("main.Bump")
		case "setbase":
			got, err = call1("main.SetBase", goat.Int(st.Arg))
		case "read":
			var cnt int
			cnt, err = call1("main.ReadCounter")
			if err == nil && cnt != st.Arg {
				fail(i, fmt.Sprintf("the variable without initialiser is %d, want %d", cnt, st.Arg))
				return
			}
			if err == nil {
				// the variables initialised with the literal 0 are re-initialised by a load like any other:
				// they hold 7 / 2.5 only while Base still holds the value SetBase gave it
				var z int
				z, err = call1("main.ReadZeroed")
				wantZ := 0
				if st.Want == 999 {
					wantZ = 1007
				}
				if err == nil && z != wantZ {
					fail(i, fmt.Sprintf("the variables declared with initialiser 0 read %d, want %d", z, wantZ))
					return
				}
			}
			if err == nil {
				got, err = call1("main.ReadBase")
			}
		}
		if err != nil {
			fail(i, "error: "+firstLine(err.Error()))
			return
		}
		if check && got != st.Want {
			fail(i, fmt.Sprintf("observed %d, want %d", got, st.Want))
			return
		}
	}
	c.TracesVsImpl++
}

func histText(h []reloadStep) string {
	var ss []string
	for _, s := range h {
		if s.Op == "load" {
			ss = append(ss, fmt.Sprintf("load(%d)", s.Arg))
		} else {
			ss = append(ss, s.Op)
		}
	}
	return strings.Join(ss, " ")
}

func checkC17(c *Ctx) {
	c.Rule = "histories = every sequence of <= L steps (L = 5 quick, 6 thorough) that Reload.tla allows over load(1..3), call direct / through a host-held function value / through a struct field / method / bound method / version>=2 function, the three captures, bump, setbase, read - each replayed on one long-lived VM (four source layouts in turn, one of them with the version-dependent function in an imported package); plus TLC-simulated histories of length 40; distinct_nontrivial = histories with at least two loads and one captured call path"
	c.Assumptions = []string{"versions differ in function and method bodies (different lengths), in the initial value of the initialised variable, and version >= 2 adds a function", "TLC evaluates Reload.tla as written"}
	dir := c.specWorkDir("mc")
	if !c.quick() {
		must(writeFileReplace(filepath.Join(dir, "MC_Reload.cfg"), "MaxLen = 5", "MaxLen = 6"))
	}
	res := c.runTLC(dir, TLCOpts{Module: "Reload", Cfg: "MC_Reload.cfg", Workers: 8, HeapMB: 6000, Timeout: c.pickDur(5, 30)})
	var hists [][]reloadStep
	parse := func(recs []string) {
		for _, s := range recs {
			var rec struct {
				Hist []reloadStep `json:"hist"`
			}
			if err := json.Unmarshal([]byte(s), &rec); err != nil {
				fatalf("bad Reload record: %v", err)
			}
			hists = append(hists, rec.Hist)
		}
	}
	parse(res.Records["BEH"])
	nExh := len(hists)
	// long histories by simulation
	dir2 := c.specWorkDir("sim")
	must(os.WriteFile(filepath.Join(dir2, "MC_Reload.cfg"), []byte("SPECIFICATION RSpec\nCONSTANTS\n  NVer = 3\n  MaxLen = 40\nINVARIANTS Emit\nCHECK_DEADLOCK FALSE\n"), 0o644))
	res2 := c.runTLC(dir2, TLCOpts{Module: "Reload", Cfg: "MC_Reload.cfg", Workers: 1, Simulate: fmt.Sprintf("num=%d", c.pick(300, 5000)), Depth: 41})
	parse(res2.Records["BEH"])
	c.Extra["exhaustive_histories"] = nExh
	c.Extra["simulated_histories"] = len(hists) - nExh
	if nExh < 1000 {
		fatalf("Reload.tla emitted only %d histories", nExh)
	}
	for i, h := range hists {
		loads, captured := 0, false
		for _, s := range h {
			if s.Op == "load" {
				loads++
			}
			if s.Op == "call-fv" || s.Op == "call-field" || s.Op == "call-bm" {
				captured = true
			}
		}
		if loads >= 2 && captured {
			c.DistinctCount++
		}
		c17Replay(c, h, i)
	}
	c.sample(map[string]any{"history": hists[nExh/2]})
	c.sample(map[string]any{"history_simulated": hists[len(hists)-1][:minInt(12, len(hists[len(hists)-1]))]})
	c.sample(map[string]any{"version_2_source": c17Source(2, 0)["main/main.go"]})
}
