package main

import (
	"regexp"
	"encoding/json"
	"fmt"
	"os"
	"path/filepath"
	"runtime/debug"
	"strings"

	goat "github.com/philhassey/goatlang"
)

// Running MiniGo programs three ways: through MiniGo.tla (TLC), through goatlang, through the Go
// toolchain (calibration).

type MGOutVal struct {
	T  string `json:"t"`
	Ty string `json:"ty"`
	V  int64  `json:"v"`
	S  []int  `json:"s"`
}

type MGOutEvent struct {
	Fmtp bool      `json:"fmtp"` // fmt.Print: operands are separated by a space only when neither is a string
	Ln bool       `json:"ln"`
	Vs []MGOutVal `json:"vs"`
}

type MGFrame struct {
	Fn   string `json:"fn"`
	Line int    `json:"line"`
}

type MGBehaviour struct {
	Prog   string       `json:"prog"`
	Ch     []int        `json:"ch"`
	Out    []MGOutEvent `json:"out"`
	Status string       `json:"status"`
	Kind   string       `json:"kind"`
	Line   int          `json:"line"`
	Fn     string       `json:"fn"`
	Chain  []MGFrame    `json:"chain"`
}

func (v MGOutVal) render() string {
	switch v.T {
	case "int":
		if v.Ty == "uint32" {
			return fmt.Sprint(uint32(int32(v.V)))
		}
		return fmt.Sprint(v.V)
	case "bool":
		return fmt.Sprint(v.V == 1)
	case "str":
		b := make([]byte, len(v.S))
		for i, x := range v.S {
			b[i] = byte(x)
		}
		return string(b)
	}
	if v.V == 0 {
		return "nil"
	}
	return "<" + v.T + ">"
}

// Render gives the text Go's fmt.Println/Print produce for the print events (operands separated by
// one space; generators use print with a single operand only).
func (b MGBehaviour) Render() string {
	var sb strings.Builder
	for _, e := range b.Out {
		for i, v := range e.Vs {
			if i > 0 && (!e.Fmtp || (v.T != "str" && e.Vs[i-1].T != "str")) {
				sb.WriteString(" ")
			}
			sb.WriteString(v.render())
		}
		if e.Ln {
			sb.WriteString("\n")
		}
	}
	return sb.String()
}

type mgBatch struct {
	Progs   []*Prog
	Sources map[string]string // goat source per program id
	Behs    map[string][]MGBehaviour
	States  int64
}

// runMiniGoSpec lets TLC interpret every program on every choice path (bounded by maxCh consumed
// choices) and returns the emitted behaviours per program.
func runMiniGoSpec(c *Ctx, progs []*Prog, maxCh int, tag string) *mgBatch {
	b := &mgBatch{Progs: progs, Sources: map[string]string{}, Behs: map[string][]MGBehaviour{}}
	chunk := 40
	type res struct {
		behs []MGBehaviour
		st   [2]int64
		err  any
	}
	n := (len(progs) + chunk - 1) / chunk
	results := make([]res, n)
	done := make(chan int, n)
	sem := make(chan struct{}, 4)
	for _, p := range progs {
		if p.Split != nil {
			fs := p.Files(false, nil)
			lp := p.Split.path + "/lib.go"
			b.Sources[p.ID] = "// ---- " + lp + "\n" + fs[lp] + "// ---- main/main.go\n" + fs["main/main.go"]
		} else {
			b.Sources[p.ID] = p.Source(false, nil)
		}
		if os.Getenv("VERIF_KEEP_WORK") != "" {
			os.MkdirAll(filepath.Join(c.Work, "sources"), 0o755)
			os.WriteFile(filepath.Join(c.Work, "sources", p.ID+".go"), []byte(b.Sources[p.ID]), 0o644)
		}
	}
	for ci := 0; ci < n; ci++ {
		go func(ci int) {
			sem <- struct{}{}
			defer func() {
				if r := recover(); r != nil {
					if _, ok := r.(machineryError); ok {
						results[ci].err = r
					} else {
						results[ci].err = machineryError{fmt.Sprintf("panic in harness: %v\n%s", r, debug.Stack())}
					}
				}
				<-sem
				done <- ci
			}()
			lo, hi := ci*chunk, (ci+1)*chunk
			if hi > len(progs) {
				hi = len(progs)
			}
			var recs []map[string]any
			for _, p := range progs[lo:hi] {
				recs = append(recs, p.Flatten())
			}
			sub := &Ctx{ID: c.ID, Tier: c.Tier, Seed: c.Seed, Work: filepath.Join(c.Work, fmt.Sprintf("%s-mg%d", tag, ci)), Workers: 4}
			must(os.MkdirAll(sub.Work, 0o755))
			dir := sub.specWorkDir("minigo")
			writeJSON(filepath.Join(dir, "progs.json"), recs)
			cfg := fmt.Sprintf("SPECIFICATION MSpec\nCONSTANTS ProgFile = \"progs.json\"\nCONSTRAINT ChBound\nINVARIANTS ScopesNonEmpty HeapRefsDefined DoneIsClean Emit\nCHECK_DEADLOCK FALSE\n")
			must(os.WriteFile(filepath.Join(dir, "MC_MiniGo.cfg"), []byte(cfg), 0o644))
			mc := fmt.Sprintf("---- MODULE MC_MiniGo ----\nEXTENDS MiniGo\nChBound == Len(st.ch) <= %d /\\ Len(st.out) <= 400 /\\ st.steps <= 30000\n====\n", maxCh)
			must(os.WriteFile(filepath.Join(dir, "MC_MiniGo.tla"), []byte(mc), 0o644))
			r := sub.runTLC(dir, TLCOpts{Module: "MC_MiniGo", Cfg: "MC_MiniGo.cfg", Workers: 4, HeapMB: 6000, Timeout: c.pickDur(8, 40), AllowError: true})
			if r.ExitCode != 0 {
				// the semantics got stuck on a program: show which one (a generator or specification problem)
				var pi int
				for _, ln := range strings.Split(r.Output, "\n") {
					fmt.Sscanf(strings.TrimSpace(ln), "/\\ p = %d", &pi)
				}
				src := ""
				if pi >= 1 && lo+pi-1 < len(progs) {
					src = progs[lo+pi-1].Source(false, nil)
				}
				fatalf("MiniGo.tla failed (exit %d) on a program of batch %d:\n%s\n--- program %d source\n%s", r.ExitCode, ci, clip(r.ErrorText, 2500), pi, src)
			}
			for _, s := range r.Records["BEH"] {
				var bh MGBehaviour
				if err := json.Unmarshal([]byte(s), &bh); err != nil {
					fatalf("bad BEH record: %v: %s", err, clip(s, 300))
				}
				results[ci].behs = append(results[ci].behs, bh)
			}
			results[ci].st = [2]int64{sub.States, sub.Transitions}
		}(ci)
	}
	for i := 0; i < n; i++ {
		<-done
	}
	for _, r := range results {
		if r.err != nil {
			panic(r.err)
		}
		c.States += r.st[0]
		c.Transitions += r.st[1]
		b.States += r.st[0]
		for _, bh := range r.behs {
			b.Behs[bh.Prog] = append(b.Behs[bh.Prog], bh)
		}
	}
	return b
}

// goatRun runs one behaviour (choice vector) of a program on the real package.
func goatRun(p *Prog, src string, ch []int, optimize bool) RunResult {
	pkg := p.Pkg
	if pkg == "" {
		pkg = "main"
	}
	files := map[string]string{pkg + "/" + pkg + ".go": src}
	if p.Split != nil {
		files = p.Files(false, nil)
	}
	if p.NeedChoice {
		vals := make([]goat.Value, len(ch))
		for i, c := range ch {
			vals[i] = goat.Int(c)
		}
		return runProgram(files, pkg, pkg+".Run", 0, optimize, 400000, goat.NewSlice(goat.TypeInt32, vals))
	}
	return runProgram(files, pkg, pkg+"."+p.Main, 0, optimize, 400000)
}

// calibrateGo compiles all programs (as packages of one module) with the Go toolchain, runs every
// behaviour's choice vector and requires the Go output to equal the specification's. A mismatch is
// an oracle failure (exit 2), never a violation.
func calibrateGo(c *Ctx, b *mgBatch, tag string) {
	dir := filepath.Join(c.Work, "gocal-"+tag)
	must(os.MkdirAll(dir, 0o755))
	var main strings.Builder
	main.WriteString("package main\n\nimport (\n\t\"fmt\"\n")
	type ent struct {
		p    *Prog
		behs []MGBehaviour
	}
	var ents []ent
	for i, p := range b.Progs {
		behs := b.Behs[p.ID]
		if len(behs) == 0 {
			continue
		}
		var cvs [][]int
		for _, bh := range behs {
			cvs = append(cvs, bh.Ch)
		}
		src := ""
		if p.Split != nil {
			// the split layout is what the Go toolchain compiles: it checks the layout as well as the meaning
			fs := p.Files(true, cvs)
			src = strings.Replace(fs["main/main.go"], "LIBPATH", fmt.Sprintf("cal/p%d/%s", i, p.Split.path), 1)
			must(os.MkdirAll(filepath.Join(dir, fmt.Sprintf("p%d", i), p.Split.path), 0o755))
			must(os.WriteFile(filepath.Join(dir, fmt.Sprintf("p%d", i), p.Split.path, "lib.go"), []byte(fs[p.Split.path+"/lib.go"]), 0o644))
		} else {
			src = p.Source(true, cvs)
		}
		src = strings.Replace(src, "package main\n", fmt.Sprintf("package p%d\n", i), 1)
		src = strings.Replace(src, "func main() {", "func RunAll() {", 1)
		must(os.MkdirAll(filepath.Join(dir, fmt.Sprintf("p%d", i)), 0o755))
		must(os.WriteFile(filepath.Join(dir, fmt.Sprintf("p%d", i), "p.go"), []byte(src), 0o644))
		fmt.Fprintf(&main, "\t\"cal/p%d\"\n", i)
		ents = append(ents, ent{p, behs})
	}
	// (one function per 400 programs: a single function with tens of thousands of statements is more than the compiler takes)
	main.WriteString(")\n\n")
	nfn, inFn := 0, 0
	for i, p := range b.Progs {
		if len(b.Behs[p.ID]) == 0 {
			continue
		}
		if inFn == 0 {
			fmt.Fprintf(&main, "func run%d() {\n", nfn)
		}
		fmt.Fprintf(&main, "\tfmt.Println(\"##### %d\")\n\tp%d.RunAll()\n", i, i)
		inFn++
		if inFn == 400 {
			main.WriteString("}\n\n")
			inFn = 0
			nfn++
		}
	}
	if inFn > 0 {
		main.WriteString("}\n\n")
		nfn++
	}
	main.WriteString("func main() {\n")
	for k := 0; k < nfn; k++ {
		fmt.Fprintf(&main, "\trun%d()\n", k)
	}
	main.WriteString("}\n")
	must(os.WriteFile(filepath.Join(dir, "main.go"), []byte(main.String()), 0o644))
	must(os.WriteFile(filepath.Join(dir, "go.mod"), []byte("module cal\n\ngo 1.20\n"), 0o644))
	out, errOut, ok := runGoDir(dir)
	if !ok {
		// a crash of the Go compiler itself ("internal compiler error", met once: go1.26 on `k / 7 * -2147483648`) says
		// nothing about the program: the programs it names leave the batch (they are not compared with goatlang either,
		// as their expected behaviour would be uncalibrated) and the rest is compiled again
		dropped := 0
		for _, m := range regexp.MustCompile(`(?m)^p(\d+)/[^\n]*internal compiler error`).FindAllStringSubmatch(errOut, -1) {
			var i int
			fmt.Sscan(m[1], &i)
			if i >= 0 && i < len(b.Progs) && len(b.Behs[b.Progs[i].ID]) > 0 {
				b.Behs[b.Progs[i].ID] = nil
				dropped++
			}
		}
		n, _ := c.Extra["go_compiler_crashes_"+tag].(int)
		if dropped > 0 && n < 20 {
			c.Extra["go_compiler_crashes_"+tag] = n + dropped
			must(os.RemoveAll(dir))
			calibrateGo(c, b, tag)
			return
		}
		fatalf("calibration module does not build/run with the Go toolchain:\n%s", clip(errOut, 3000))
	}
	parts := strings.Split(out, "##### ")
	if len(parts)-1 != len(ents) {
		fatalf("calibration output has %d program sections, want %d", len(parts)-1, len(ents))
	}
	for k, e := range ents {
		sec := parts[k+1]
		sec = sec[strings.Index(sec, "\n")+1:]
		runs := strings.Split(sec, "=====\n")
		if len(runs)-1 != len(e.behs) {
			fatalf("calibration: program %s produced %d runs, want %d", e.p.ID, len(runs)-1, len(e.behs))
		}
		for j, bh := range e.behs {
			want := bh.Render()
			if bh.Status == "panic" {
				want += "PANIC\n"
			}
			if runs[j] != want {
				fatalf("calibration failure: MiniGo.tla and the Go toolchain disagree on program %s (choices %v)\n--- spec\n%s--- go\n%s--- source\n%s", e.p.ID, bh.Ch, want, runs[j], b.Sources[e.p.ID])
			}
		}
	}
	c.Extra["calibrated_behaviours_"+tag] = func() int {
		n := 0
		for _, e := range ents {
			n += len(e.behs)
		}
		return n
	}()
}
