package main

import (
	"bytes"
	"encoding/json"
	"fmt"
	"math/rand"
	"os"
	"path/filepath"
	"strings"
	"testing/fstest"

	goat "github.com/philhassey/goatlang"
)

// C05 — expressions group by Go's operator precedence and associativity.
//
// M1: MC_GoExpr invariant RoundTrip: the reference precedence-climbing parser inverts Unparse for
//     every enumerated tree (the token string determines the grouping).
// M2: TLC enumerates every well-typed tree with <= 3 binary operators (plus one / two unary
//     prefixes on any node) and emits the minimal-parenthesis token string with the expected values
//     under four environments; each string is evaluated by the real parser + VM.
// M3: seeded random expressions with 4-6 operators (alternating between the two settings) and the family p OUTER a ARITH b CMP c INNER q (OUTER, INNER in && ||; 10 arithmetic x 6 comparison operators; 4 nesting / negation shapes; all environments; both settings), nested unary prefixes and redundant
//     parentheses are evaluated by the real code and the results validated by Trace_GoExpr
//     (Eval(Parse(tokens)) in the specification).

func init() { register("C05", checkC05) }

type exprRec struct {
	Toks []string `json:"toks"`
	Ty   string   `json:"ty"`
	Vals []int64  `json:"vals"`
	Oks  []bool   `json:"oks"`
}

var c05Envs = []map[string]int64{
	{"a": 7, "b": -3, "c": 2, "d": 5, "e": -6, "p": 1, "q": 0, "r": 1, "s": 0, "t": 1},
	{"a": -8, "b": 3, "c": 1, "d": -2, "e": 9, "p": 0, "q": 1, "r": 1, "s": 0, "t": 0},
	{"a": 1, "b": 2, "c": 3, "d": 4, "e": 5, "p": 0, "q": 0, "r": 1, "s": 1, "t": 0},
	{"a": 100, "b": 0, "c": -1, "d": 31, "e": 2, "p": 1, "q": 1, "r": 0, "s": 0, "t": 1},
	{"a": 2147483647, "b": -2147483648, "c": 2147483647, "d": 1, "e": -1, "p": 1, "q": 0, "r": 0, "s": 1, "t": 1},
}

func c05VM(env map[string]int64) *goat.VM {
	vm := goat.New(goat.WithStdout(&bytes.Buffer{}))
	for k, v := range env {
		if strings.Contains("abcde", k) {
			vm.Set("main."+k, goat.Int(int(v)))
		} else {
			vm.Set("main."+k, goat.Bool(v == 1))
		}
	}
	return vm
}

// evalGoat evaluates src; returns (ok, value as int64 (bool 0/1), type name, error text)
func evalGoat(vm *goat.VM, src string) (bool, int64, string, string) {
	goat.VerifSetBudget(10000)
	var rets []goat.Value
	var err error
	finished, p := runWithWatchdogFast(func() { rets, err = vm.Eval(fstest.MapFS{}, "e.go", src) })
	goat.VerifSetBudget(-1)
	if !finished || p != nil {
		return false, 0, "", fmt.Sprintf("PANIC escaped: %v", p)
	}
	if err != nil {
		return false, 0, "", err.Error()
	}
	if len(rets) != 1 {
		return false, 0, "", fmt.Sprintf("returned %d values", len(rets))
	}
	ty := vm.VerifTypeOf(rets[0])
	switch ty {
	case "bool":
		if rets[0].Bool() {
			return true, 1, "bool", ""
		}
		return true, 0, "bool", ""
	case "int32":
		return true, int64(rets[0].Int32()), "int", ""
	}
	return true, int64(rets[0].Int()), ty, ""
}

// evalGoatLocals evaluates the expression inside a function whose parameters are the operands (so
// that they are locals and the code around the expression is what a function body gets): the value is
// first assigned, then returned.
var c05LocalsN int

func evalGoatLocals(env map[string]int64, src string) (bool, int64, string, string) {
	vm := goat.New(goat.WithStdout(&bytes.Buffer{}))
	goat.VerifSetBudget(10000)
	defer goat.VerifSetBudget(-1)
	var rets []goat.Value
	var err error
	finished, p := runWithWatchdogFast(func() {
		// every second time the expression comes after statements that spell every operator in its other roles (compound
		// assignment, unary, in comparisons): grouping does not depend on what was parsed before in the same text
		pre := ""
		c05LocalsN++
		if c05LocalsN%2 == 0 {
			pre = "\tz := 1\n\tz <<= 1\n\tz >>= 1\n\tz += 1\n\tz -= 1\n\tz *= 1\n\tz /= 1\n\tz %= 7\n\tz &= 7\n\tz |= 0\n\tz ^= 0\n\tz++\n\tz--\n\tw := -z<<1 == -2 && ^z>>1 != 5 || !(z <= 0) && z >= 1\n\t_ = w\n"
		}
		// every third time the expression is the operand of the return statement itself
		body := "\tx := " + src + "\n\treturn x\n"
		if c05LocalsN%3 == 0 {
			body = "\treturn " + src + "\n"
		}
		_, err = vm.Eval(fstest.MapFS{}, "e.go", "func F(a, b, c, d, e int, p, q, r, s, t bool) any {\n"+pre+body+"}\n")
		if err != nil {
			return
		}
		args := make([]goat.Value, 0, 10)
		for _, k := range "abcde" {
			args = append(args, goat.Int(int(env[string(k)])))
		}
		for _, k := range "pqrst" {
			args = append(args, goat.Bool(env[string(k)] == 1))
		}
		rets, err = vm.Call("main.F", 1, args...)
	})
	if !finished || p != nil {
		return false, 0, "", fmt.Sprintf("PANIC escaped: %v", p)
	}
	if err != nil {
		return false, 0, "", "error in run: " + err.Error()
	}
	ty := vm.VerifTypeOf(rets[0])
	switch ty {
	case "bool":
		if rets[0].Bool() {
			return true, 1, "bool", ""
		}
		return true, 0, "bool", ""
	case "int32":
		return true, int64(rets[0].Int32()), "int", ""
	}
	return true, int64(rets[0].Int()), ty, ""
}

// runWithWatchdogFast runs f inline and recovers panics (no goroutine: the budget bounds execution)
func runWithWatchdogFast(f func()) (finished bool, panicked any) {
	defer func() {
		if r := recover(); r != nil {
			finished, panicked = true, r
		}
	}()
	f()
	return true, nil
}

type c05Tree struct {
	Op   string // "" leaf
	Name string
	L, R *c05Tree
	Un   []string // unary prefixes applied to this node (outermost first)
	Par  int      // redundant parentheses around the node
}

var c05IntOps = []string{"+", "-", "*", "/", "%", "&", "&^", "|", "^", "<<", ">>"}
var c05CmpOps = []string{"==", "!=", "<", "<=", ">", ">="}

func c05Prec(op string) int {
	switch op {
	case "*", "/", "%", "<<", ">>", "&", "&^":
		return 5
	case "+", "-", "|", "^":
		return 4
	case "==", "!=", "<", "<=", ">", ">=":
		return 3
	case "&&":
		return 2
	}
	return 1
}

func c05Rand(r *rand.Rand, ty string, ops int, ni, nb *int) *c05Tree {
	t := &c05Tree{}
	if ops == 0 {
		if ty == "int" {
			t.Name = string("abcde"[*ni%5])
			*ni++
		} else {
			t.Name = string("pqrst"[*nb%5])
			*nb++
		}
	} else {
		lops := r.Intn(ops)
		rops := ops - 1 - lops
		if ty == "int" {
			t.Op = c05IntOps[r.Intn(len(c05IntOps))]
			t.L = c05Rand(r, "int", lops, ni, nb)
			t.R = c05Rand(r, "int", rops, ni, nb)
			c05MaybeLiteral(r, t)
		} else {
			switch r.Intn(3) {
			case 0:
				t.Op = c05CmpOps[r.Intn(len(c05CmpOps))]
				t.L = c05Rand(r, "int", lops, ni, nb)
				t.R = c05Rand(r, "int", rops, ni, nb)
				c05MaybeLiteral(r, t)
			case 1:
				t.Op = []string{"&&", "||"}[r.Intn(2)]
				t.L = c05Rand(r, "bool", lops, ni, nb)
				t.R = c05Rand(r, "bool", rops, ni, nb)
			default:
				t.Op = []string{"==", "!="}[r.Intn(2)]
				t.L = c05Rand(r, "bool", lops, ni, nb)
				t.R = c05Rand(r, "bool", rops, ni, nb)
			}
		}
	}
	for r.Intn(4) == 0 && len(t.Un) < 3 {
		if ty == "int" {
			t.Un = append(t.Un, []string{"-", "^"}[r.Intn(2)])
		} else {
			t.Un = append(t.Un, "!")
		}
	}
	if r.Intn(6) == 0 {
		t.Par = 1 + r.Intn(2)
	}
	return t
}

func (t *c05Tree) toks(parentPrec int, right bool) []string {
	var core []string
	if t.Op == "" {
		core = []string{t.Name}
	} else {
		p := c05Prec(t.Op)
		core = append(core, t.L.toks(p, false)...)
		core = append(core, t.Op)
		core = append(core, t.R.toks(p, true)...)
	}
	needPar := false
	if t.Op != "" {
		p := c05Prec(t.Op)
		if len(t.Un) > 0 || p < parentPrec || (right && p <= parentPrec) {
			needPar = true
		}
	}
	par := t.Par
	if needPar && par == 0 {
		par = 1
	}
	// parentheses directly around the operand of the unary prefixes (or around the node if none)
	for i := 0; i < par; i++ {
		core = append(append([]string{"("}, core...), ")")
	}
	if len(t.Un) > 0 {
		core = append(append([]string{}, t.Un...), core...)
		// a unary-prefixed node never needs further parentheses as an operand
	}
	return core
}

func checkC05(c *Ctx) {
	c.Rule = "M2: every well-typed expression tree over int32 operands a..e and bool operands p..t with <=MaxOps binary operators (10 arithmetic/bit, 6 comparison, && || == != on bools), printed with minimal parentheses, plus every placement of one unary prefix (- ^ !) on any node (and a second prefix on the same node), evaluated under 4 environments with the operands as package-level variables, and (every expression in one environment; quick: every second expression) as parameters of a function that assigns the value before returning it; M3: seeded random expressions with 4-6 operators (alternating between the two settings) and the family p OUTER a ARITH b CMP c INNER q (OUTER, INNER in && ||; 10 arithmetic x 6 comparison operators; 4 nesting / negation shapes; all environments; both settings), nested prefixes and redundant parentheses; distinct_nontrivial = distinct token strings with >=2 binary operators or a unary prefix"
	c.Assumptions = []string{"&^ is not a token of goatlang and is outside the enumerated operator set", "environments avoid nothing: division by zero and negative shift counts are expected run-time errors", "TLC evaluates GoExpr.tla/FixedWidth.tla as written; the Go toolchain calibrates a sample of the enumerated expressions"}

	type job struct {
		ops  int
		mode string
	}
	var jobs []job
	if c.quick() {
		jobs = []job{{1, "double"}, {2, "double"}, {3, "plain"}}
	} else {
		jobs = []job{{1, "double"}, {2, "double"}, {3, "unary"}}
	}
	type jobRes struct {
		recs []exprRec
		st   [2]int64
		err  any
	}
	results := make([]jobRes, len(jobs))
	done := make(chan int, len(jobs))
	for ji, j := range jobs {
		go func(ji int, j job) {
			defer func() {
				if r := recover(); r != nil {
					results[ji].err = r
				}
				done <- ji
			}()
			sub := &Ctx{ID: c.ID, Tier: c.Tier, Seed: c.Seed, Work: filepath.Join(c.Work, fmt.Sprintf("job%d", ji)), Workers: 8}
			must(os.MkdirAll(sub.Work, 0o755))
			dir := sub.specWorkDir("mc")
			cfg := fmt.Sprintf("SPECIFICATION Spec\nCONSTANTS\n  MaxOps = %d\n  Mode = \"%s\"\nINVARIANTS RoundTrip Emit\nCHECK_DEADLOCK FALSE\n", j.ops, j.mode)
			must(os.WriteFile(filepath.Join(dir, "job.cfg"), []byte(cfg), 0o644))
			res := sub.runTLC(dir, TLCOpts{Module: "MC_GoExpr", Cfg: "job.cfg", Workers: 8, HeapMB: 8000, Timeout: c.pickDur(5, 20)})
			for _, s := range res.Records["BEH"] {
				var e exprRec
				if err := json.Unmarshal([]byte(s), &e); err != nil {
					fatalf("bad BEH record: %v", err)
				}
				results[ji].recs = append(results[ji].recs, e)
			}
			results[ji].st = [2]int64{sub.States, sub.Transitions}
		}(ji, j)
	}
	for range jobs {
		<-done
	}
	var recs []exprRec
	seen := map[string]bool{}
	for _, jr := range results {
		if jr.err != nil {
			panic(jr.err)
		}
		c.States += jr.st[0]
		c.Transitions += jr.st[1]
		for _, e := range jr.recs {
			k := strings.Join(e.Toks, " ")
			if !seen[k] {
				seen[k] = true
				recs = append(recs, e)
			}
		}
	}
	if len(recs) < 1000 {
		fatalf("TLC emitted only %d expressions", len(recs))
	}
	c.Extra["enumerated_expressions"] = len(recs)

	// M2 replay on the real parser + VM
	vms := make([]*goat.VM, len(c05Envs))
	for i, env := range c05Envs {
		vms[i] = c05VM(env)
	}
	replayed := int64(0)
	for _, e := range recs {
		src := strings.Join(e.Toks, " ")
		nontrivial := false
		nb := 0
		for _, t := range e.Toks {
			switch t {
			case "(", ")", "a", "b", "c", "d", "e", "p", "q", "r", "s", "t":
			default:
				nb++
			}
		}
		if nb >= 2 {
			nontrivial = true
		}
		if nontrivial {
			c.DistinctCount++
		}
		for i := range c05Envs {
			ok, v, ty, errText := evalGoat(vms[i], src)
			route := "operands are package-level variables"
			if replayed%int64(c.pick(2, 1)) == 0 && i == int(replayed/2)%len(c05Envs) {
				// the same expression with its operands as locals of a function (one environment per expression)
				ok2, v2, ty2, err2 := evalGoatLocals(c05Envs[i], src)
				c.Evaluations++
				if ok2 != ok || v2 != v || ty2 != ty {
					ok, v, ty, errText = ok2, v2, ty2, err2
					route = "operands are parameters of a function"
				}
			}
			c.Evaluations++
			bad := ""
			switch {
			case strings.HasPrefix(errText, "PANIC"):
				bad = errText
			case ok != e.Oks[i]:
				bad = fmt.Sprintf("run-time error expected=%v observed=%v (%s)", !e.Oks[i], !ok, firstLine(errText))
			case ok && (v != e.Vals[i] || ty != e.Ty):
				bad = fmt.Sprintf("value %d (%s), Go gives %d (%s)", v, ty, e.Vals[i], e.Ty)
			case !ok && !strings.HasPrefix(errText, "error in run"):
				bad = "expected a run-time error, got: " + firstLine(errText)
			}
			if bad != "" {
				c.violate(hashKey(src), fmt.Sprintf("expression `%s` under env %d (%s): %s", src, i+1, route, bad),
					map[string]any{"expression": src, "env": c05Envs[i], "expected_value": e.Vals[i], "expected_ok": e.Oks[i], "observed_value": v, "observed_type": ty, "observed_error": errText})
				break
			}
		}
		replayed++
	}
	c.TracesVsImpl = replayed
	for i := 0; i < 3; i++ {
		e := recs[(len(recs)/3)*i]
		c.sample(map[string]any{"tokens": strings.Join(e.Toks, " "), "type": e.Ty, "expected_values": e.Vals, "ok": e.Oks})
	}

	// calibration against the Go toolchain on a sample of the enumerated expressions
	r := rand.New(rand.NewSource(c.Seed))
	nCal := c.pick(1500, 8000)
	var cal []exprRec
	for _, i := range r.Perm(len(recs)) {
		if len(cal) >= nCal {
			break
		}
		cal = append(cal, recs[i])
	}
	c05Calibrate(c, cal)
	c.Extra["calibrated_with_go_toolchain"] = len(cal)

	// M3: random larger expressions, validated by TLC (Eval(Parse(tokens)))
	nRand := c.pick(3000, 60000)
	var lines []map[string]any
	for i := 0; i < nRand; i++ {
		ni, nb := 0, 0
		ty := []string{"int", "bool"}[r.Intn(2)]
		t := c05Rand(r, ty, 3+r.Intn(3), &ni, &nb)
		toks := t.toks(0, false)
		src := strings.Join(toks, " ")
		env := r.Intn(len(c05Envs))
		ok, v, oty, errText := evalGoat(vms[env], src)
		if i%2 == 1 {
			ok, v, oty, errText = evalGoatLocals(c05Envs[env], src)
		}
		c.Evaluations++
		if strings.HasPrefix(errText, "PANIC") || (!ok && !strings.HasPrefix(errText, "error in run")) {
			c.violate(hashKey(src), fmt.Sprintf("expression `%s`: %s", src, firstLine(errText)), map[string]any{"expression": src, "error": errText})
			continue
		}
		if oty == "" {
			oty = ty
		}
		lines = append(lines, map[string]any{"toks": toks, "env": env + 1, "ok": ok, "val": v, "ty": oty, "src": src})
		c.DistinctCount++
	}
	// a systematic family inside M3: short-circuit operators around comparisons of arithmetic, every
	// nesting side, with and without a negation in front, both settings, every environment
	nfam := 0
	for _, outer := range []string{"||", "&&"} {
		for _, inner := range []string{"&&", "||"} {
			for ai, arith := range c05IntOps {
				for ci, cmpOp := range c05CmpOps {
					if (ai+ci)%c.pick(3, 1) != 0 {
						continue
					}
					for _, shape := range []int{0, 1, 2, 3} {
						cmpT := []string{"a", arith, "b", cmpOp, "c"}
						var toks []string
						switch shape {
						case 0: // p OUTER a+b<c INNER q   (grouping by precedence)
							toks = append(append([]string{"p", outer}, cmpT...), inner, "q")
						case 1: // a+b<c INNER q OUTER p
							toks = append(append(append([]string{}, cmpT...), inner, "q"), outer, "p")
						case 2: // p OUTER ( a+b<c INNER q )
							toks = append(append(append([]string{"p", outer, "("}, cmpT...), inner, "q"), ")")
						default: // ! ( p OUTER a+b<c INNER q )
							toks = append(append(append([]string{"!", "(", "p", outer}, cmpT...), inner, "q"), ")")
						}
						src := strings.Join(toks, " ")
						for env := range c05Envs {
							ok, v, oty, errText := evalGoat(vms[env], src)
							if (nfam+env)%2 == 1 {
								ok, v, oty, errText = evalGoatLocals(c05Envs[env], src)
							}
							c.Evaluations++
							if strings.HasPrefix(errText, "PANIC") || (!ok && !strings.HasPrefix(errText, "error in run")) {
								c.violate(hashKey(src), fmt.Sprintf("expression `%s`: %s", src, firstLine(errText)), map[string]any{"expression": src, "error": errText})
								continue
							}
							if oty == "" {
								oty = "bool"
							}
							lines = append(lines, map[string]any{"toks": toks, "env": env + 1, "ok": ok, "val": v, "ty": oty, "src": src})
						}
						nfam++
					}
				}
			}
		}
	}
	// a second systematic family: comparisons one of whose sides is an operand plus or minus a small literal, over every
	// pair of operands, in every environment (one of them holds both ends of the int32 range): a comparison sees the
	// wrapped sum
	nlit := 0
	for _, x := range []string{"a", "b", "c", "d", "e"} {
		for _, y := range []string{"a", "b", "c", "d", "e"} {
			for _, cmpOp := range c05CmpOps {
				for li, lit := range [][]string{{"+", "1"}, {"-", "1"}, {"+", "2"}, {"-", "2"}} {
					if (nlit+li)%c.pick(2, 1) != 0 {
						continue
					}
					for side := 0; side < 2; side++ {
						toks := []string{x, cmpOp, y, lit[0], lit[1]}
						if side == 1 {
							toks = []string{x, lit[0], lit[1], cmpOp, y}
						}
						src := strings.Join(toks, " ")
						for env := range c05Envs {
							ok, v, oty, errText := evalGoat(vms[env], src)
							if (nlit+env)%2 == 1 {
								ok, v, oty, errText = evalGoatLocals(c05Envs[env], src)
							}
							c.Evaluations++
							if strings.HasPrefix(errText, "PANIC") || (!ok && !strings.HasPrefix(errText, "error in run")) {
								c.violate(hashKey(src), fmt.Sprintf("expression `%s`: %s", src, firstLine(errText)), map[string]any{"expression": src, "error": errText})
								continue
							}
							if oty == "" {
								oty = "bool"
							}
							lines = append(lines, map[string]any{"toks": toks, "env": env + 1, "ok": ok, "val": v, "ty": oty, "src": src})
						}
						nlit++
					}
				}
			}
		}
	}
	c.Extra["literal_offset_comparisons"] = nlit
	c.Extra["short_circuit_family_expressions"] = nfam
	bad := classifySharded(c, "Trace_GoExpr", "Trace_GoExpr.cfg", lines, c.Workers)
	for _, idx := range bad {
		l := lines[idx]
		c.violate(hashKey(l["src"].(string)), fmt.Sprintf("expression `%s` under env %v evaluated to %v (%v, ok=%v): not what Go's grouping gives", l["src"], l["env"], l["val"], l["ty"], l["ok"]),
			map[string]any{"line": l})
	}
	c.TracesVsImpl += int64(len(lines) - len(bad))
	if len(lines) > 0 {
		c.sample(map[string]any{"random_expression": lines[0]["src"], "env": lines[0]["env"], "observed": lines[0]["val"]})
		// negative control
		nc := map[string]any{}
		for k, v := range lines[0] {
			nc[k] = v
		}
		nc["val"] = lines[0]["val"].(int64) + 1
		nc["ok"] = true
		nb := classifyFlatTrace(c, "Trace_GoExpr", "Trace_GoExpr.cfg", []map[string]any{lines[0], nc})
		found := false
		for _, b := range nb {
			if b == 1 {
				found = true
			}
		}
		if !found {
			fatalf("negative control (value off by one) not flagged: %v", nb)
		}
		c.Extra["negative_control"] = "a trace line with the value off by one was flagged by Trace_GoExpr as expected"
	}
}

func c05Calibrate(c *Ctx, recs []exprRec) {
	var b strings.Builder
	b.WriteString("package main\n\nimport \"fmt\"\n\nfunc pr(f func() any) {\n\tdefer func() {\n\t\tif r := recover(); r != nil {\n\t\t\tfmt.Println(\"panic\")\n\t\t}\n\t}()\n\tfmt.Println(f())\n}\n\n")
	b.WriteString("func run(a, b, c, d, e int32, p, q, r, s, t bool) {\n\t_, _, _, _, _, _, _, _, _, _ = a, b, c, d, e, p, q, r, s, t\n")
	for _, e := range recs {
		fmt.Fprintf(&b, "\tpr(func() any { return %s })\n", strings.Join(e.Toks, " "))
	}
	b.WriteString("}\n\nfunc main() {\n")
	for _, env := range c05Envs {
		fmt.Fprintf(&b, "\trun(%d, %d, %d, %d, %d, %v, %v, %v, %v, %v)\n", env["a"], env["b"], env["c"], env["d"], env["e"], env["p"] == 1, env["q"] == 1, env["r"] == 1, env["s"] == 1, env["t"] == 1)
	}
	b.WriteString("}\n")
	out, errOut, ok := c.goRun("c05", b.String())
	if !ok {
		fatalf("calibration program does not build/run: %s", clip(errOut, 2000))
	}
	lines := strings.Split(strings.TrimSpace(out), "\n")
	if len(lines) != len(recs)*len(c05Envs) {
		fatalf("calibration produced %d lines, want %d", len(lines), len(recs)*len(c05Envs))
	}
	for ei := range c05Envs {
		for i, e := range recs {
			got := lines[ei*len(recs)+i]
			want := "panic"
			if e.Oks[ei] {
				if e.Ty == "bool" {
					want = fmt.Sprint(e.Vals[ei] == 1)
				} else {
					want = fmt.Sprint(e.Vals[ei])
				}
			}
			if got != want {
				fatalf("calibration failure: GoExpr.tla says `%s` = %s under env %d, the Go toolchain says %s", strings.Join(e.Toks, " "), want, ei+1, got)
			}
		}
	}
}

// c05MaybeLiteral: every fourth time the right operand of an integer operator or comparison, when it is a plain
// variable and the left operand is not a literal, is the literal 1 or 2 (x < y + 1, a - 2 * b): constants stand
// where variables stand; no expression becomes a constant expression
func c05MaybeLiteral(r *rand.Rand, t *c05Tree) {
	if t.R == nil || t.R.Op != "" || len(t.R.Un) > 0 || t.Op == "<<" || t.Op == ">>" || r.Intn(4) != 0 {
		return
	}
	if t.L.Op == "" && (t.L.Name == "1" || t.L.Name == "2") {
		return
	}
	t.R.Name = []string{"1", "2"}[r.Intn(2)]
}
