package main

import (
	"bytes"
	"fmt"
	"math"
	"math/rand"
	"strconv"
	"strings"

	goat "github.com/philhassey/goatlang"
)

// C04, float64 part: operators, compound assignment, ++/--, negation, comparisons, conversions to and
// from the integer types and constant adoption, at every syntactic position of the integer table, on
// operands where IEEE-754 arithmetic is exact (Dyadic.tla: m * 2^e with small odd m, plus -0, +-Inf,
// NaN). Every table line is classified by Trace_Dyadic; native Go float64 calibrates the spec.

type dy struct {
	K string `json:"k"`
	M int64  `json:"m"`
	E int64  `json:"e"`
}

func dyOf(x float64) dy {
	switch {
	case math.IsNaN(x):
		return dy{K: "nan"}
	case math.IsInf(x, 1):
		return dy{K: "pinf"}
	case math.IsInf(x, -1):
		return dy{K: "ninf"}
	case x == 0 && math.Signbit(x):
		return dy{K: "nzero"}
	case x == 0:
		return dy{K: "fin"}
	}
	fr, exp := math.Frexp(x) // x = fr * 2^exp, 0.5 <= |fr| < 1
	m := int64(fr * (1 << 53))
	e := int64(exp) - 53
	for m%2 == 0 {
		m /= 2
		e++
	}
	if m >= 1<<31 || m <= -(1<<31) || e < -200 || e > 200 {
		return dy{K: "big"} // not a value the specification can produce from the operand domain
	}
	return dy{K: "fin", M: m, E: e}
}

func dyInt(v int64) dy { return dy{K: "int", M: v} }

func (d dy) float() float64 {
	switch d.K {
	case "nan":
		return math.NaN()
	case "pinf":
		return math.Inf(1)
	case "ninf":
		return math.Inf(-1)
	case "nzero":
		return math.Copysign(0, -1)
	}
	return math.Ldexp(float64(d.M), int(d.E))
}

// quoExact mirrors Dyadic!Quo's exactness rule.
func quoExact(a, b float64) bool {
	da, db := dyOf(a), dyOf(b)
	if da.K != "fin" || db.K != "fin" || da.M == 0 || db.M == 0 {
		return true
	}
	am, bm := da.M, db.M
	if am < 0 {
		am = -am
	}
	if bm < 0 {
		bm = -bm
	}
	return bm == 1 || am%bm == 0
}

type c04fFn struct {
	Name  string
	Op    string
	Pos   string
	To    string
	From  string
	Arity int
	Fixed string
	X     float64
	Y     float64
	HasY  bool
	Op1   string
	Op2   string
	Z     float64
	Src   string
}

func fLit(x float64) string {
	s := strconv.FormatFloat(x, 'g', -1, 64)
	if x < 0 {
		return "(" + s + ")"
	}
	return s
}

var c04fArith = []string{"+", "-", "*", "/"}

func c04fFunctions(c *Ctx, r *rand.Rand) []*c04fFn {
	var fns []*c04fFn
	add := func(f *c04fFn, src string) {
		f.Name = fmt.Sprintf("D%d", len(fns))
		f.Src = strings.ReplaceAll(src, "FN", f.Name)
		fns = append(fns, f)
	}
	t := "float64"
	consts := []float64{0, 1, 2, 3, 0.5, 2.5, -1, -0.25, 100, 7, 0.125, -3, 1024, 0.015625}
	for _, op := range append(append([]string{}, c04fArith...), c04Cmp...) {
		rt := t
		if isCmp(op) {
			rt = "bool"
		}
		add(&c04fFn{Op: op, Pos: "vv", Arity: 2}, fmt.Sprintf("func FN(a, b %s) %s { return a %s b }", t, rt, op))
		add(&c04fFn{Op: op, Pos: "vv-assign", Arity: 2}, fmt.Sprintf("func FN(a, b %s) %s {\n\tc := a %s b\n\treturn c\n}", t, rt, op))
		add(&c04fFn{Op: op, Pos: "vv-any", Arity: 2}, fmt.Sprintf("func FN(a, b %s) any { return a %s b }", t, op))
		if !isCmp(op) {
			add(&c04fFn{Op: op, Pos: "opassign-local", Arity: 2}, fmt.Sprintf("func FN(a, b %s) %s {\n\ta %s= b\n\treturn a\n}", t, t, op))
			add(&c04fFn{Op: op, Pos: "opassign-global", Arity: 2}, fmt.Sprintf("func FN(a, b %s) %s {\n\tG_f = a\n\tG_f %s= b\n\treturn G_f\n}", t, t, op))
			add(&c04fFn{Op: op, Pos: "opassign-field", Arity: 2}, fmt.Sprintf("func FN(a, b %s) %s {\n\ts := &S_f{F: a}\n\ts.F %s= b\n\treturn s.F\n}", t, t, op))
			add(&c04fFn{Op: op, Pos: "opassign-elem", Arity: 2}, fmt.Sprintf("func FN(a, b %s) %s {\n\ts := []%s{0, a}\n\ts[1] %s= b\n\treturn s[1]\n}", t, t, t, op))
			add(&c04fFn{Op: op, Pos: "opassign-mapelem", Arity: 2}, fmt.Sprintf("func FN(a, b %s) %s {\n\tm := map[string]%s{\"k\": a}\n\tm[\"k\"] %s= b\n\treturn m[\"k\"]\n}", t, t, t, op))
			add(&c04fFn{Op: op, Pos: "field-field", Arity: 2}, fmt.Sprintf("func FN(a, b %s) %s {\n\ts := &S_f{F: a}\n\tu := &S_f{F: b}\n\treturn s.F %s u.F\n}", t, t, op))
		}
		for _, k := range consts {
			if op == "/" && k == 0 {
				continue // division by the constant zero is a compile-time error in Go
			}
			add(&c04fFn{Op: op, Pos: "var-const", Arity: 1, Fixed: "b", X: k}, fmt.Sprintf("func FN(a %s) %s { return a %s %s }", t, rt, op, fLit(k)))
			add(&c04fFn{Op: op, Pos: "var-const-any", Arity: 1, Fixed: "b", X: k}, fmt.Sprintf("func FN(a %s) any { return a %s %s }", t, op, fLit(k)))
			if !isCmp(op) {
				add(&c04fFn{Op: op, Pos: "opassign-const", Arity: 1, Fixed: "b", X: k}, fmt.Sprintf("func FN(a %s) %s {\n\ta %s= %s\n\treturn a\n}", t, t, op, fLit(k)))
			}
			add(&c04fFn{Op: op, Pos: "const-var", Arity: 1, Fixed: "a", X: k}, fmt.Sprintf("func FN(b %s) %s { return %s %s b }", t, rt, fLit(k), op))
			add(&c04fFn{Op: op, Pos: "const-var-any", Arity: 1, Fixed: "a", X: k}, fmt.Sprintf("func FN(b %s) any { return %s %s b }", t, fLit(k), op))
		}
		for i := 0; i+1 < len(consts); i += 2 {
			k1, k2 := consts[i], consts[i+1]
			if op == "/" && (k2 == 0 || !quoExact(k1, k2)) {
				k2 = 2
			}
			add(&c04fFn{Op: op, Pos: "variadic-param-consts", Arity: 0, Fixed: "a", X: k1, Y: k2, HasY: true},
				fmt.Sprintf("func FN_v(xs ...%s) any { return xs[0] %s xs[1] }\nfunc FN() any { return FN_v(%s, %s) }", t, op, fLit(k1), fLit(k2)))
			add(&c04fFn{Op: op, Pos: "param-consts", Arity: 0, Fixed: "a", X: k1, Y: k2, HasY: true},
				fmt.Sprintf("func FN_p(x, y %s) any { return x %s y }\nfunc FN() any { return FN_p(%s, %s) }", t, op, fLit(k1), fLit(k2)))
		}
		if op == "+" || op == "-" || op == "*" {
			for _, op2 := range []string{"+", "-", "*"} {
				for i := 0; i+1 < len(consts) && i < 8; i += 2 {
					k1, k2 := consts[i], consts[i+1]
					add(&c04fFn{Op: "chain", Op1: op, Op2: op2, Z: k2, Pos: "chain-const-const", Arity: 1, Fixed: "b", X: k1},
						fmt.Sprintf("func FN(a %s) any { return (a %s %s) %s %s }", t, op, fLit(k1), op2, fLit(k2)))
					add(&c04fFn{Op: "chain", Op1: op, Op2: op2, Z: k2, Pos: "chain-var-const", Arity: 2},
						fmt.Sprintf("func FN(a, b %s) any { return (a %s b) %s %s }", t, op, op2, fLit(k2)))
				}
			}
		}
	}
	// integer constant expressions adopt the type only after they have been evaluated as integers
	add(&c04fFn{Op: "+", Pos: "var-plus-intconst-quotient", Arity: 1, Fixed: "b", X: 0}, "func FN(a float64) float64 { return a + 1/2 }")
	add(&c04fFn{Op: "*", Pos: "var-times-intconst-quotient", Arity: 1, Fixed: "b", X: 1}, "func FN(a float64) float64 { return a * (3 / 2) }")
	add(&c04fFn{Op: "+", Pos: "var-plus-floatconst-quotient", Arity: 1, Fixed: "b", X: 0.5}, "func FN(a float64) float64 { return a + 1.0/2 }")
	add(&c04fFn{Op: "++", Pos: "incdec-local", Arity: 1}, "func FN(a float64) float64 {\n\ta++\n\treturn a\n}")
	add(&c04fFn{Op: "--", Pos: "incdec-local", Arity: 1}, "func FN(a float64) float64 {\n\ta--\n\treturn a\n}")
	add(&c04fFn{Op: "++", Pos: "incdec-global", Arity: 1}, "func FN(a float64) float64 {\n\tG_f = a\n\tG_f++\n\treturn G_f\n}")
	add(&c04fFn{Op: "--", Pos: "incdec-field", Arity: 1}, "func FN(a float64) float64 {\n\ts := &S_f{F: a}\n\ts.F--\n\treturn s.F\n}")
	add(&c04fFn{Op: "++", Pos: "incdec-elem", Arity: 1}, "func FN(a float64) float64 {\n\ts := []float64{a}\n\ts[0]++\n\treturn s[0]\n}")
	add(&c04fFn{Op: "--", Pos: "incdec-mapelem", Arity: 1}, "func FN(a float64) float64 {\n\tm := map[int]float64{3: a}\n\tm[3]--\n\treturn m[3]\n}")
	add(&c04fFn{Op: "++", Pos: "incdec-loop", Arity: 1}, "func FN(a float64) float64 {\n\tfor i := 0; i < 3; i++ {\n\t\ta++\n\t\ta--\n\t}\n\ta++\n\treturn a\n}")
	add(&c04fFn{Op: "neg", Pos: "unary", Arity: 1}, "func FN(a float64) float64 { return -a }")
	add(&c04fFn{Op: "neg", Pos: "unary-any", Arity: 1}, "func FN(a float64) any { return -a }")
	add(&c04fFn{Op: "id", Pos: "conv-self", Arity: 1}, "func FN(a float64) float64 { return float64(a) }")
	for _, it := range c04Types {
		add(&c04fFn{Op: "toint", To: it, Pos: "conv", Arity: 1}, fmt.Sprintf("func FN(a float64) %s { return %s(a) }", it, it))
		add(&c04fFn{Op: "toint", To: it, Pos: "conv-assign-any", Arity: 1}, fmt.Sprintf("func FN(a float64) any {\n\tx := %s(a)\n\treturn x\n}", it))
		add(&c04fFn{Op: "fromint", From: it, Pos: "conv", Arity: 1}, fmt.Sprintf("func FN(a %s) float64 { return float64(a) }", it))
		add(&c04fFn{Op: "fromint", From: it, Pos: "conv-any", Arity: 1}, fmt.Sprintf("func FN(a %s) any { return float64(a) }", it))
		// mixed expression: the integer is converted, the constant adopts float64
		add(&c04fFn{Op: "fromint-half", From: it, Pos: "conv-then-divide", Arity: 1}, fmt.Sprintf("func FN(a %s) float64 { return float64(a) / 2 }", it))
	}
	for _, k := range consts {
		lit := fLit(k)
		add(&c04fFn{Op: "id", Pos: "decl-var", Arity: 0, Fixed: "a", X: k}, fmt.Sprintf("func FN() float64 {\n\tvar x float64 = %s\n\treturn x\n}", lit))
		add(&c04fFn{Op: "id", Pos: "decl-var-any", Arity: 0, Fixed: "a", X: k}, fmt.Sprintf("func FN() any {\n\tvar x float64 = %s\n\treturn x\n}", lit))
		add(&c04fFn{Op: "id", Pos: "param-any", Arity: 0, Fixed: "a", X: k}, fmt.Sprintf("func FN_q(x float64) any { return x }\nfunc FN() any { return FN_q(%s) }", lit))
		add(&c04fFn{Op: "id", Pos: "variadic-param-any", Arity: 0, Fixed: "a", X: k}, fmt.Sprintf("func FN_w(xs ...float64) any { return xs[0] }\nfunc FN() any { return FN_w(%s) }", lit))
		add(&c04fFn{Op: "id", Pos: "field-any", Arity: 0, Fixed: "a", X: k}, fmt.Sprintf("func FN() any {\n\ts := &S_f{F: %s}\n\treturn s.F\n}", lit))
		add(&c04fFn{Op: "id", Pos: "slice-elem-any", Arity: 0, Fixed: "a", X: k}, fmt.Sprintf("func FN() any {\n\ts := []float64{%s}\n\treturn s[0]\n}", lit))
		add(&c04fFn{Op: "id", Pos: "map-elem-any", Arity: 0, Fixed: "a", X: k}, fmt.Sprintf("func FN() any {\n\tm := map[string]float64{\"k\": %s}\n\treturn m[\"k\"]\n}", lit))
		add(&c04fFn{Op: "id", Pos: "result-any", Arity: 0, Fixed: "a", X: k}, fmt.Sprintf("func FN_r() float64 { return %s }\nfunc FN() any { return FN_r() }", lit))
		add(&c04fFn{Op: "id", Pos: "result-after-int-param-any", Arity: 0, Fixed: "a", X: k}, fmt.Sprintf("func FN_rp(x int, s string) float64 { return %s }\nfunc FN() any { return FN_rp(3, \"s\") }", lit))
		add(&c04fFn{Op: "id", Pos: "method-result-any", Arity: 0, Fixed: "a", X: k}, fmt.Sprintf("func (s *S_f) FN_m(x uint8) float64 { return %s }\nfunc FN() any { return (&S_f{}).FN_m(1) }", lit))
		add(&c04fFn{Op: "id", Pos: "decl-then-assign-any", Arity: 0, Fixed: "a", X: k}, fmt.Sprintf("func FN() any {\n\tvar x float64\n\tx = %s\n\treturn x\n}", lit))
		add(&c04fFn{Op: "id", Pos: "field-assign-any", Arity: 0, Fixed: "a", X: k}, fmt.Sprintf("func FN() any {\n\ts := &S_f{}\n\ts.F = %s\n\treturn s.F\n}", lit))
		add(&c04fFn{Op: "id", Pos: "slice-assign-any", Arity: 0, Fixed: "a", X: k}, fmt.Sprintf("func FN() any {\n\ts := make([]float64, 2)\n\ts[1] = %s\n\treturn s[1]\n}", lit))
		add(&c04fFn{Op: "id", Pos: "append-any", Arity: 0, Fixed: "a", X: k}, fmt.Sprintf("func FN() any {\n\tvar s []float64\n\ts = append(s, %s)\n\treturn s[0]\n}", lit))
		add(&c04fFn{Op: "id", Pos: "map-assign-any", Arity: 0, Fixed: "a", X: k}, fmt.Sprintf("func FN() any {\n\tm := map[string]float64{}\n\tm[\"k\"] = %s\n\treturn m[\"k\"]\n}", lit))
		add(&c04fFn{Op: "id", Pos: "global-assign-any", Arity: 0, Fixed: "a", X: k}, fmt.Sprintf("func FN() any {\n\tG_f = %s\n\treturn G_f\n}", lit))
		add(&c04fFn{Op: "id", Pos: "convert-const-any", Arity: 0, Fixed: "a", X: k}, fmt.Sprintf("func FN() any {\n\tx := float64(%s)\n\treturn x\n}", lit))
	}
	return fns
}

func c04fOperands(r *rand.Rand, quick bool) []float64 {
	ms := []int64{1, 3, 5, 7, 15, 255, 1023, 12345, 32767}
	es := []int{-6, -3, -1, 0, 1, 2, 5}
	vals := []float64{0, math.Copysign(0, -1), math.Inf(1), math.Inf(-1), math.NaN(), 1, -1, 2, 0.5, -0.5}
	n := 30
	if !quick {
		n = 90
	}
	for i := 0; i < n; i++ {
		x := math.Ldexp(float64(ms[r.Intn(len(ms))]), es[r.Intn(len(es))])
		if r.Intn(2) == 0 {
			x = -x
		}
		vals = append(vals, x)
	}
	return vals
}

func nativeF(op string, a, b float64) (dy, bool) {
	switch op {
	case "+":
		return dyOf(a + b), true
	case "-":
		return dyOf(a - b), true
	case "*":
		return dyOf(a * b), true
	case "/":
		return dyOf(a / b), true
	case "==":
		return dyInt(b2i(a == b)), true
	case "!=":
		return dyInt(b2i(a != b)), true
	case "<":
		return dyInt(b2i(a < b)), true
	case "<=":
		return dyInt(b2i(a <= b)), true
	case ">":
		return dyInt(b2i(a > b)), true
	case ">=":
		return dyInt(b2i(a >= b)), true
	}
	return dy{}, false
}

func c04fSource(fns []*c04fFn) string {
	var sb strings.Builder
	sb.WriteString("package main\n\ntype S_f struct {\n\tPad int\n\tF float64\n}\n\nvar G_f float64\n\n")
	for _, f := range fns {
		sb.WriteString(f.Src + "\n\n")
	}
	return sb.String()
}

func checkC04Float(c *Ctx, r *rand.Rand) {
	fns := c04fFunctions(c, r)
	src := c04fSource(fns)
	var out bytes.Buffer
	vm := goat.New(goat.WithStdout(&out))
	if err := vm.Load(mapFS(map[string]string{"main/main.go": src}), "main"); err != nil {
		c.violate(hashKey("loadf"), "the C04 float64 table package does not load: "+firstLine(err.Error()), map[string]any{"source": src, "error": err.Error()})
		return
	}
	c.Extra["float64_functions"] = len(fns)
	ops := c04fOperands(r, c.quick())
	var lines []map[string]any
	var lineFn []*c04fFn
	intRange := func(t string, x float64) bool {
		lo, hi := typeRange(t)
		tr := math.Trunc(x)
		return !math.IsNaN(x) && !math.IsInf(x, 0) && tr >= float64(lo) && tr <= float64(hi)
	}
	call := func(f *c04fFn, args ...goat.Value) (dy, string) {
		goat.VerifSetBudget(100000)
		rets, err := vm.Call("main."+f.Name, 1, args...)
		goat.VerifSetBudget(-1)
		if err != nil {
			return dy{K: "error"}, "error"
		}
		rt := vm.VerifTypeOf(rets[0])
		switch rt {
		case "float64":
			return dyOf(rets[0].Float64()), rt
		case "number": // an untyped constant leaked as a value
			return dyOf(rets[0].Float64()), rt
		default:
			v, ok := readValue(rets[0], rt)
			if !ok {
				return dy{K: "unknown"}, rt
			}
			if rt == "uint32" {
				v = int64(rets[0].Uint32())
			}
			return dyInt(v), rt
		}
	}
	mk := func(f *c04fFn, fixed string, x float64, ys []float64, srcKind string) {
		var res, ysD []dy
		rtAll := ""
		for _, y := range ys {
			var d dy
			var rt string
			if srcKind == "go" {
				a, b := x, y
				if fixed == "b" {
					a, b = y, x
				}
				d, _ = nativeF(f.Op, a, b)
				rt = "float64"
				if isCmp(f.Op) {
					rt = "bool"
				}
			} else {
				switch {
				case f.Arity == 0:
					d, rt = call(f)
				case f.Arity == 1 && f.From != "":
					d, rt = call(f, mkValue(f.From, int64(y)))
				case f.Arity == 1:
					d, rt = call(f, goat.Float64(y))
				case fixed == "a":
					d, rt = call(f, goat.Float64(x), goat.Float64(y))
				default:
					d, rt = call(f, goat.Float64(y), goat.Float64(x))
				}
			}
			if rtAll == "" {
				rtAll = rt
			} else if rtAll != rt {
				rtAll = "mixed:" + rtAll + "/" + rt
			}
			res = append(res, d)
			if f.From != "" {
				ysD = append(ysD, dyInt(int64(y)))
			} else {
				ysD = append(ysD, dyOf(y))
			}
			c.Evaluations++
			c.DistinctCount++
		}
		to := f.To
		if to == "" {
			to = "float64"
		}
		op1, op2 := f.Op1, f.Op2
		if op1 == "" {
			op1, op2 = "+", "+"
		}
		op := f.Op
		l := map[string]any{"op": op, "pos": f.Pos, "to": to, "from": f.From, "fixed": fixed, "x": dyOf(x), "ys": ysD, "res": res, "rt": rtAll, "src": srcKind, "fn": f.Name, "op1": op1, "op2": op2, "z": dyOf(f.Z)}
		if op == "fromint-half" {
			// float64(a) / 2: expected = FromInt(a) / 2 -- expressed as a chain on the converted operand
			l["op"] = "chain"
			l["op1"], l["op2"] = "+", "/"
			l["fixed"] = "b"
			l["x"] = dyOf(0)
			l["z"] = dyOf(2)
			var conv []dy
			for _, y := range ys {
				conv = append(conv, dyOf(float64(int64(y))))
			}
			l["ys"] = conv
		}
		lines = append(lines, l)
		lineFn = append(lineFn, f)
	}
	// chains compose two operations: operands are kept small so that no intermediate of the
	// specification's 32-bit evaluation overflows (the float64 results stay exact a fortiori)
	small := func(x float64) bool {
		d := dyOf(x)
		return d.K != "fin" || (d.M >= -15 && d.M <= 15 && d.E >= -3 && d.E <= 2)
	}
	var opsSmall []float64
	for _, x := range ops {
		if small(x) {
			opsSmall = append(opsSmall, x)
		}
	}
	for _, x := range []float64{3, -5, 7.5, 0.375, 12, -1.25, 60} {
		opsSmall = append(opsSmall, x)
	}
	allOps := ops
	for _, f := range fns {
		ops := allOps
		if f.Op == "chain" {
			ops = opsSmall
		}
		switch {
		case f.Arity == 2:
			for _, a := range ops {
				var bs []float64
				for _, b := range ops {
					if f.Op == "/" && !quoExact(a, b) {
						continue
					}
					if f.Op == "chain" {
						if f.Op1 == "/" {
							continue
						}
					}
					bs = append(bs, b)
				}
				mk(f, "a", a, bs, "goat")
				if f.Pos == "vv" {
					mk(f, "a", a, bs, "go")
					lineFn[len(lineFn)-1] = nil
				}
			}
		case f.Arity == 1 && f.Op == "toint":
			var ys []float64
			for _, y := range ops {
				if intRange(f.To, y) {
					ys = append(ys, y)
				}
			}
			mk(f, "b", 0, ys, "goat")
		case f.Arity == 1 && f.From != "":
			lo, hi := typeRange(f.From)
			var ys []float64
			for _, v := range []int64{0, 1, 2, 3, 7, 100, 127, 255, 1000, 32767, -1, -2, -128, -1000, -32767} {
				if v >= lo && v <= hi {
					ys = append(ys, float64(v))
				}
			}
			mk(f, "b", 0, ys, "goat")
		case f.Arity == 1 && f.Fixed != "":
			var ys []float64
			for _, y := range ops {
				a, b := y, f.X
				if f.Fixed == "a" {
					a, b = f.X, y
				}
				if f.Op == "/" && !quoExact(a, b) {
					continue
				}
				ys = append(ys, y)
			}
			mk(f, f.Fixed, f.X, ys, "goat")
		case f.Arity == 1:
			mk(f, "b", 0, ops, "goat")
		case f.Arity == 0 && f.HasY:
			mk(f, "a", f.X, []float64{f.Y}, "goat")
		case f.Arity == 0:
			mk(f, "b", 0, []float64{f.X}, "goat")
		}
	}
	c.Extra["float64_trace_lines"] = len(lines)
	bad := classifySharded(c, "Trace_Dyadic", "Trace_Dyadic.cfg", lines, c.Workers)
	reported := map[string]bool{}
	for _, idx := range bad {
		l := lines[idx]
		if l["src"] == "go" {
			fatalf("calibration failure: Dyadic.tla disagrees with native Go float64 on %v x=%v", l["op"], l["x"])
		}
		f := lineFn[idx]
		key := fmt.Sprintf("float64|%s|%s|%s%s", f.Op, f.Pos, f.To, f.From)
		if reported[key] {
			continue
		}
		reported[key] = true
		// find the first differing entry for the message
		detail := ""
		ys, res := l["ys"].([]dy), l["res"].([]dy)
		for i := range ys {
			a, b := l["x"].(dy).float(), ys[i].float()
			if l["fixed"] == "b" {
				a, b = b, a
			}
			if want, ok := nativeF(f.Op, a, b); ok && want != res[i] {
				detail = fmt.Sprintf(" e.g. %v %s %v gave %+v (type %v), Go: %+v", a, f.Op, b, res[i], l["rt"], want)
				break
			}
		}
		c.violate(hashKey(key), fmt.Sprintf("float64 %s at position %s: results differ from Go (result type %v)%s; function: %s", f.Op, f.Pos, l["rt"], detail, strings.ReplaceAll(f.Src, "\n", " ")),
			map[string]any{"function": f.Src, "line": l})
	}
	c.TracesVsImpl += int64(len(lines) - len(bad))
	for i := 0; i < len(lines) && i < 2; i++ {
		l := lines[(len(lines)/2)*i]
		c.sample(map[string]any{"float64_line": map[string]any{"op": l["op"], "pos": l["pos"], "x": l["x"], "ys_head": l["ys"].([]dy)[:minInt(4, len(l["ys"].([]dy)))], "res_head": l["res"].([]dy)[:minInt(4, len(l["res"].([]dy)))], "rt": l["rt"], "src": l["src"]}})
	}
	// negative control: one altered result must be flagged
	if len(lines) > 0 {
		nc := map[string]any{}
		for k, v := range lines[0] {
			nc[k] = v
		}
		res := append([]dy{}, lines[0]["res"].([]dy)...)
		res[len(res)/2] = dy{K: "fin", M: 12347, E: -9}
		nc["res"] = res
		nb := classifyFlatTrace(c, "Trace_Dyadic", "Trace_Dyadic.cfg", []map[string]any{lines[0], nc})
		if len(nb) != 1 || nb[0] != 1 {
			fatalf("negative control (one altered float64 result) not flagged: %v", nb)
		}
	}
}
