package main

import (
	"go/ast"
	"go/parser"
	"go/token"
	"path/filepath"
	"sort"
	"strconv"
)

// repoTestInputs extracts, from /repo's own *_test.go files (current working tree), every string
// given as the `In` field of a table-driven test row. The corpus follows the working tree.
func repoTestInputs() []string {
	files, _ := filepath.Glob("/repo/*_test.go")
	sort.Strings(files)
	seen := map[string]bool{}
	var out []string
	fset := token.NewFileSet()
	for _, fn := range files {
		f, err := parser.ParseFile(fset, fn, nil, 0)
		if err != nil {
			continue
		}
		ast.Inspect(f, func(n ast.Node) bool {
			cl, ok := n.(*ast.CompositeLit)
			if !ok {
				return true
			}
			at, ok := cl.Type.(*ast.ArrayType)
			if !ok {
				return true
			}
			st, ok := at.Elt.(*ast.StructType)
			if !ok {
				return true
			}
			idx := -1
			pos := 0
			for _, fld := range st.Fields.List {
				for _, nm := range fld.Names {
					if nm.Name == "In" {
						if id, ok := fld.Type.(*ast.Ident); ok && id.Name == "string" {
							idx = pos
						}
					}
					pos++
				}
			}
			if idx < 0 {
				return true
			}
			for _, el := range cl.Elts {
				row, ok := el.(*ast.CompositeLit)
				if !ok {
					continue
				}
				var e ast.Expr
				if len(row.Elts) > 0 {
					if _, isKV := row.Elts[0].(*ast.KeyValueExpr); isKV {
						for _, kv := range row.Elts {
							if k, ok := kv.(*ast.KeyValueExpr); ok {
								if id, ok := k.Key.(*ast.Ident); ok && id.Name == "In" {
									e = k.Value
								}
							}
						}
					} else if idx < len(row.Elts) {
						e = row.Elts[idx]
					}
				}
				if bl, ok := e.(*ast.BasicLit); ok && bl.Kind == token.STRING {
					if s, err := strconv.Unquote(bl.Value); err == nil && !seen[s] {
						seen[s] = true
						out = append(out, s)
					}
				}
			}
			return true
		})
	}
	return out
}
