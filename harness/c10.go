package main

import (
	"fmt"
	"math"
	"math/rand"
	"os"
	"path/filepath"
	"strconv"
	"strings"

	goat "github.com/philhassey/goatlang"
)

// C10 — script maps behave like Go maps under any history of operations.
//
// M1: MC_GoMap (bounded exhaustive model check of GoMap.tla).
// M3: histories (exhaustive small + seeded random, with mutation inside range loops) are run
//     (a) through generated script source, (b) through the host Value API, (c) on a native Go map
//     (calibration); every run is recorded as an event trace and TLC validates all traces against
//     Trace_GoMap.tla.

func init() { register("C10", checkC10) }

type MapOp struct {
	Op      string  // set del get getok len range
	K       int     // key index 1..; 0 = key produced by the innermost enclosing loop
	V       int     // value index
	Iter    int     // body ops: run only in this iteration (0-based); -1 = every iteration
	Body    []MapOp // range
	BreakAt int     // range: break after the body of this iteration; -1 never
}

type MapEvent map[string]any

type mapKinds struct {
	Key string // string int byte float bool
	Val string // int string
}

func (mk mapKinds) keyLit(k int) string {
	switch mk.Key {
	case "string":
		return fmt.Sprintf("%q", fmt.Sprintf("k%02d", k))
	case "int", "byte":
		if k == 2 {
			return "0" // the zero value of the key type is an ordinary key
		}
		return strconv.Itoa(k)
	case "float":
		if k == 2 {
			return "0.0"
		}
		return fmt.Sprintf("%d.5", k-1)
	case "uint32": // keys beyond the int32 range (and the zero key)
		if k == 2 {
			return "0"
		}
		return strconv.Itoa(4000000000 + k)
	case "bool":
		if k == 1 {
			return "true"
		}
		return "false"
	}
	panic("kind")
}
// keyShow: how a key expression is handed to println (a constant beyond int32 has to be given its type there)
func (mk mapKinds) keyShow(key string) string {
	if mk.Key == "uint32" && len(key) > 0 && key[0] >= '0' && key[0] <= '9' {
		return "uint32(" + key + ")"
	}
	return key
}

func (mk mapKinds) keyPrinted(k int) string {
	switch mk.Key {
	case "string":
		return fmt.Sprintf("k%02d", k)
	case "int", "byte":
		if k == 2 {
			return "0"
		}
		return strconv.Itoa(k)
	case "float":
		if k == 2 {
			return "0"
		}
		return fmt.Sprintf("%d.5", k-1)
	case "uint32":
		if k == 2 {
			return "0"
		}
		return strconv.Itoa(4000000000 + k)
	case "bool":
		if k == 1 {
			return "true"
		}
		return "false"
	}
	panic("kind")
}
func (mk mapKinds) keyType() string {
	switch mk.Key {
	case "float":
		return "float64"
	}
	return mk.Key
}
func (mk mapKinds) valType() string { return mk.Val }
func (mk mapKinds) valLit(v int) string {
	if mk.Val == "string" {
		if v == 0 {
			return `""`
		}
		return fmt.Sprintf("%q", fmt.Sprintf("v%d", v))
	}
	return strconv.Itoa(v)
}
func (mk mapKinds) valPrinted(v int) string {
	if mk.Val == "string" {
		if v == 0 {
			return ""
		}
		return fmt.Sprintf("v%d", v)
	}
	return strconv.Itoa(v)
}
func (mk mapKinds) keyValue(k int) goat.Value {
	switch mk.Key {
	case "string":
		return goat.String(fmt.Sprintf("k%02d", k))
	case "int":
		if k == 2 {
			return goat.Int(0)
		}
		return goat.Int(k)
	case "byte":
		if k == 2 {
			return goat.Byte(0)
		}
		return goat.Byte(byte(k))
	case "uint32":
		if k == 2 {
			return goat.Uint32(0)
		}
		return goat.Uint32(uint32(4000000000 + k))
	case "float":
		if k == 2 {
			return goat.Float64(0)
		}
		return goat.Float64(float64(k-1) + 0.5)
	case "bool":
		return goat.Bool(k == 1)
	}
	panic("kind")
}
func (mk mapKinds) goatKeyType() goat.Type {
	switch mk.Key {
	case "string":
		return goat.TypeString
	case "int":
		return goat.TypeInt32
	case "byte":
		return goat.TypeUint8
	case "uint32":
		return goat.TypeUint32
	case "float":
		return goat.TypeFloat64
	case "bool":
		return goat.TypeBool
	}
	panic("kind")
}
func (mk mapKinds) valValue(v int) goat.Value {
	if mk.Val == "string" {
		return goat.String(mk.valPrinted(v))
	}
	return goat.Int(v)
}
func (mk mapKinds) goatValType() goat.Type {
	if mk.Val == "string" {
		return goat.TypeString
	}
	return goat.TypeInt32
}
func (mk mapKinds) keyIndexOfValue(v goat.Value, nk int) int {
	for k := 1; k <= nk; k++ {
		kv := mk.keyValue(k)
		if kv.String() == v.String() {
			return k
		}
	}
	return -1
}
func (mk mapKinds) valIndexOfValue(v goat.Value) int {
	s := v.String()
	for i := 0; i <= 9; i++ {
		if mk.valPrinted(i) == s {
			return i
		}
	}
	return -1
}

// ---- abstract map implementations driven by the same interpreter ---------------------------

type mapImpl interface {
	Set(k, v int)
	Del(k int)
	Get(k int) int
	GetOk(k int) (int, bool)
	Len() int
	// Iter returns a pull iterator: next() -> (k, v, ok)
	Iter() func() (int, int, bool)
}

// native Go map (calibration oracle)
type goMap struct{ m map[int]int }

func (g *goMap) Set(k, v int) { g.m[k] = v }
func (g *goMap) Del(k int)    { delete(g.m, k) }
func (g *goMap) Get(k int) int {
	return g.m[k]
}
func (g *goMap) GetOk(k int) (int, bool) { v, ok := g.m[k]; return v, ok }
func (g *goMap) Len() int                { return len(g.m) }

// Go's range over a map cannot be suspended, so emulate it with a goroutine-free approach:
// we run the loop body as a callback inside a real `for range` via runRange below.
func (g *goMap) Iter() func() (int, int, bool) { panic("native map uses runRange") }

// host Value API
type hostMap struct {
	mk mapKinds
	nk int
	m  goat.Value
}

func (h *hostMap) Set(k, v int) { h.m.Set(h.mk.keyValue(k), h.mk.valValue(v)) }
func (h *hostMap) Del(k int)    { h.m.Delete(h.mk.keyValue(k)) }
func (h *hostMap) Get(k int) int {
	v, _ := h.m.Get(h.mk.keyValue(k))
	return h.mk.valIndexOfValue(v)
}
func (h *hostMap) GetOk(k int) (int, bool) {
	v, ok := h.m.Get(h.mk.keyValue(k))
	return h.mk.valIndexOfValue(v), ok
}
func (h *hostMap) Len() int { return h.m.Len() }
func (h *hostMap) Iter() func() (int, int, bool) {
	next := h.m.Range()
	return func() (int, int, bool) {
		k, v, ok := next()
		if !ok {
			return 0, 0, false
		}
		return h.mk.keyIndexOfValue(k, h.nk), h.mk.valIndexOfValue(v), true
	}
}

// interpret runs ops against impl and appends events.
func interpretMapOps(impl mapImpl, ops []MapOp, cur int, iter int, ev *[]MapEvent) {
	for _, op := range ops {
		if op.Iter >= 0 && op.Iter != iter {
			continue
		}
		k := op.K
		if k == 0 {
			k = cur
		}
		switch op.Op {
		case "set":
			impl.Set(k, op.V)
			*ev = append(*ev, MapEvent{"ev": "set", "k": k, "v": op.V})
		case "del":
			impl.Del(k)
			*ev = append(*ev, MapEvent{"ev": "del", "k": k})
		case "get":
			*ev = append(*ev, MapEvent{"ev": "get", "k": k, "v": impl.Get(k)})
		case "getok":
			v, ok := impl.GetOk(k)
			*ev = append(*ev, MapEvent{"ev": "getok", "k": k, "v": v, "ok": ok})
		case "len":
			*ev = append(*ev, MapEvent{"ev": "len", "n": impl.Len()})
		case "range":
			*ev = append(*ev, MapEvent{"ev": "rstart"})
			broke := false
			body := func(it, kk, vv int) bool {
				*ev = append(*ev, MapEvent{"ev": "yield", "k": kk, "v": vv})
				interpretMapOps(impl, op.Body, kk, it, ev)
				if op.BreakAt == it {
					broke = true
					return false
				}
				return true
			}
			if g, ok := impl.(*goMap); ok {
				it := 0
				for kk, vv := range g.m {
					if !body(it, kk, vv) {
						break
					}
					it++
				}
			} else {
				next := impl.Iter()
				for it := 0; ; it++ {
					kk, vv, ok := next()
					if !ok {
						break
					}
					if !body(it, kk, vv) {
						break
					}
				}
			}
			if broke {
				*ev = append(*ev, MapEvent{"ev": "rbreak"})
			} else {
				*ev = append(*ev, MapEvent{"ev": "rend"})
			}
		}
	}
}

// ---- script generation ------------------------------------------------------------------------

func mapOpsToScript(mk mapKinds, ops []MapOp) string { return mapOpsToScriptLit(mk, ops, 0) }

// mapOpsToScriptLit: the first lit operations become the entries of the map literal
func mapOpsToScriptLit(mk mapKinds, ops []MapOp, lit int) string {
	var b strings.Builder
	b.WriteString("package main\n\nimport \"golang.org/x/exp/maps\"\n\nfunc Main() {\n\t_ = maps.Clone(map[int]int{})\n")
	// lit < 0: the variable starts as a nil map (reading, len, range and delete are defined on it; it is made just before
	// the first assignment to an entry)
	nilStart := lit < 0
	if nilStart {
		lit = 0
	}
	var ents []string
	dup := false
	seenK := map[int]bool{}
	for _, op := range ops[:lit] {
		if seenK[op.K] {
			dup = true
		}
		seenK[op.K] = true
	}
	for i, op := range ops[:lit] {
		if dup {
			fmt.Fprintf(&b, "\tvar kv%d %s = %s\n", i, mk.keyType(), mk.keyLit(op.K)) // typed: a key variable has the map's key type
			ents = append(ents, fmt.Sprintf("kv%d: %s", i, mk.valLit(op.V)))
			continue
		}
		ents = append(ents, mk.keyLit(op.K)+": "+mk.valLit(op.V))
	}
	if nilStart {
		fmt.Fprintf(&b, "\tvar m map[%s]%s\n", mk.keyType(), mk.valType())
	} else {
		fmt.Fprintf(&b, "\tm := map[%s]%s{%s}\n", mk.keyType(), mk.valType(), strings.Join(ents, ", "))
	}
	for _, op := range ops[:lit] {
		fmt.Fprintf(&b, "\tprintln(\"E\", \"set\", %s, %s)\n", mk.keyShow(mk.keyLit(op.K)), mk.valLit(op.V))
	}
	ops = ops[lit:]
	depth := 0
	nset := 0
	var emit func(ops []MapOp, ind string, curVar, itVar string)
	emit = func(ops []MapOp, ind string, curVar, itVar string) {
		for _, op := range ops {
			pre := ind
			closeIf := false
			if op.Iter >= 0 && itVar != "" {
				fmt.Fprintf(&b, "%sif %s == %d {\n", ind, itVar, op.Iter)
				pre = ind + "\t"
				closeIf = true
			}
			key := curVar
			if op.K != 0 {
				key = mk.keyLit(op.K)
			}
			switch op.Op {
			case "set":
				// every third top-level insertion happens next to a clone of the map that gets a key of its own right after:
				// the two maps are independent from the moment of the clone on
				clone := ""
				if itVar == "" && mk.Key != "bool" {
					nset++
					if nset%3 == 0 {
						clone = fmt.Sprintf("cl%d", nset)
						fmt.Fprintf(&b, "%s%s := maps.Clone(m)\n", pre, clone)
					}
				}
				if nilStart {
					fmt.Fprintf(&b, "%sif m == nil {\n%s\tm = make(map[%s]%s)\n%s}\n", pre, pre, mk.keyType(), mk.valType(), pre)
				}
				fmt.Fprintf(&b, "%sm[%s] = %s\n", pre, key, mk.valLit(op.V))
				fmt.Fprintf(&b, "%sprintln(\"E\", \"set\", %s, %s)\n", pre, mk.keyShow(key), mk.valLit(op.V))
				if clone != "" {
					fmt.Fprintf(&b, "%s%s[%s] = %s\n%s_ = len(%s)\n", pre, clone, mk.keyLit(99), mk.valLit(op.V), pre, clone)
				}
			case "del":
				fmt.Fprintf(&b, "%sdelete(m, %s)\n", pre, key)
				fmt.Fprintf(&b, "%sprintln(\"E\", \"del\", %s)\n", pre, mk.keyShow(key))
			case "get":
				fmt.Fprintf(&b, "%sprintln(\"E\", \"get\", %s, m[%s])\n", pre, mk.keyShow(key), key)
			case "getok":
				depth++
				if depth%2 == 0 {
					fmt.Fprintf(&b, "%svar g%d, ok%d = m[%s]\n", pre, depth, depth, key)
				} else {
					fmt.Fprintf(&b, "%sg%d, ok%d := m[%s]\n", pre, depth, depth, key)
				}
				fmt.Fprintf(&b, "%sprintln(\"E\", \"getok\", %s, ok%d, g%d)\n", pre, mk.keyShow(key), depth, depth)
			case "len":
				fmt.Fprintf(&b, "%sprintln(\"E\", \"len\", len(m))\n", pre)
			case "range":
				depth++
				d := depth
				fmt.Fprintf(&b, "%sprintln(\"E\", \"rstart\")\n", pre)
				fmt.Fprintf(&b, "%sit%d := 0\n", pre, d)
				fmt.Fprintf(&b, "%sbr%d := false\n", pre, d)
				fmt.Fprintf(&b, "%sfor k%d, v%d := range m {\n", pre, d, d)
				fmt.Fprintf(&b, "%s\tprintln(\"E\", \"yield\", k%d, v%d)\n", pre, d, d)
				emit(op.Body, pre+"\t", fmt.Sprintf("k%d", d), fmt.Sprintf("it%d", d))
				if op.BreakAt >= 0 {
					fmt.Fprintf(&b, "%s\tif it%d == %d {\n%s\t\tbr%d = true\n%s\t\tbreak\n%s\t}\n", pre, d, op.BreakAt, pre, d, pre, pre)
				}
				fmt.Fprintf(&b, "%s\tit%d++\n", pre, d)
				fmt.Fprintf(&b, "%s}\n", pre)
				fmt.Fprintf(&b, "%sif br%d {\n%s\tprintln(\"E\", \"rbreak\")\n%s} else {\n%s\tprintln(\"E\", \"rend\")\n%s}\n", pre, d, pre, pre, pre, pre)
			}
			if closeIf {
				fmt.Fprintf(&b, "%s}\n", ind)
			}
		}
	}
	emit(ops, "\t", "", "")
	b.WriteString("}\n")
	return b.String()
}

func parseScriptMapEvents(mk mapKinds, nk int, out string) ([]MapEvent, error) {
	keyIdx := map[string]int{}
	for k := 1; k <= nk; k++ {
		keyIdx[mk.keyPrinted(k)] = k
	}
	valIdx := map[string]int{}
	for v := 0; v <= 9; v++ {
		valIdx[mk.valPrinted(v)] = v
	}
	var evs []MapEvent
	for _, line := range strings.Split(out, "\n") {
		if line == "" {
			continue
		}
		// the zero value of a string element prints as an empty field at the end of the line
		f := strings.Split(line, " ")
		if len(f) < 2 || f[0] != "E" {
			return nil, fmt.Errorf("unexpected output line %q", line)
		}
		key := func(i int) (int, error) {
			if i >= len(f) {
				return 0, fmt.Errorf("missing key in %q", line)
			}
			k, ok := keyIdx[f[i]]
			if !ok {
				return 0, fmt.Errorf("unknown key %q in %q", f[i], line)
			}
			return k, nil
		}
		val := func(i int) (int, error) {
			s := ""
			if i < len(f) {
				s = f[i]
			}
			v, ok := valIdx[s]
			if !ok {
				return 0, fmt.Errorf("unknown value %q in %q", s, line)
			}
			return v, nil
		}
		var e MapEvent
		var err error
		var k, v int
		switch f[1] {
		case "set", "yield", "get":
			if k, err = key(2); err == nil {
				if v, err = val(3); err == nil {
					e = MapEvent{"ev": f[1], "k": k, "v": v}
				}
			}
		case "del":
			if k, err = key(2); err == nil {
				e = MapEvent{"ev": "del", "k": k}
			}
		case "getok":
			if k, err = key(2); err == nil {
				if len(f) < 4 || (f[3] != "true" && f[3] != "false") {
					err = fmt.Errorf("bad ok in %q", line)
				} else if v, err = val(4); err == nil {
					e = MapEvent{"ev": "getok", "k": k, "v": v, "ok": f[3] == "true"}
				}
			}
		case "len":
			n, err2 := strconv.Atoi(f[2])
			err = err2
			e = MapEvent{"ev": "len", "n": n}
		case "rstart", "rend", "rbreak":
			e = MapEvent{"ev": f[1]}
		default:
			err = fmt.Errorf("unknown event %q", line)
		}
		if err != nil {
			return nil, err
		}
		evs = append(evs, e)
	}
	return evs, nil
}

// ---- history generators -------------------------------------------------------------------------

func observeAll(nk int) []MapOp {
	ops := []MapOp{{Op: "len", Iter: -1}}
	for k := 1; k <= nk; k++ {
		ops = append(ops, MapOp{Op: "getok", K: k, Iter: -1})
	}
	ops = append(ops, MapOp{Op: "range", Iter: -1, BreakAt: -1})
	return ops
}

// exhaustive small histories over 2 keys: alphabet of 7 symbols, all sequences up to length n,
// each followed by a full observation.
func smallMapHistories(n int) [][]MapOp {
	alpha := []MapOp{
		{Op: "set", K: 1, V: 1, Iter: -1}, {Op: "set", K: 2, V: 2, Iter: -1}, {Op: "set", K: 1, V: 3, Iter: -1},
		{Op: "del", K: 1, Iter: -1}, {Op: "del", K: 2, Iter: -1},
		{Op: "range", Iter: -1, BreakAt: -1},
		{Op: "range", Iter: -1, BreakAt: -1, Body: []MapOp{{Op: "del", K: 1, Iter: 0}, {Op: "set", K: 1, V: 4, Iter: 1}}},
		{Op: "range", Iter: -1, BreakAt: -1, Body: []MapOp{{Op: "del", K: 0, Iter: -1}, {Op: "set", K: 0, V: 5, Iter: -1}}},
	}
	var res [][]MapOp
	var rec func(prefix []MapOp, depth int)
	rec = func(prefix []MapOp, depth int) {
		if len(prefix) > 0 {
			h := append(append([]MapOp{}, prefix...), observeAll(2)...)
			res = append(res, h)
		}
		if depth == n {
			return
		}
		for _, a := range alpha {
			rec(append(append([]MapOp{}, prefix...), a), depth+1)
		}
	}
	rec(nil, 0)
	return res
}

func randMapHistory(r *rand.Rand, nk, length int, depth int) []MapOp {
	var ops []MapOp
	inLoop := depth > 0
	pickKey := func() int {
		if inLoop && r.Intn(3) == 0 {
			return 0
		}
		return 1 + r.Intn(nk)
	}
	iter := func() int {
		if !inLoop || r.Intn(2) == 0 {
			return -1
		}
		return r.Intn(4)
	}
	mode := r.Intn(4) // 0 mixed, 1 grow, 2 shrink (cross the compaction threshold), 3 churn one key
	churn := 1 + r.Intn(nk)
	for i := 0; i < length; i++ {
		x := r.Intn(100)
		switch mode {
		case 1:
			if x < 60 {
				x = 0
			}
		case 2:
			if x < 60 {
				x = 30
			}
		}
		k := pickKey()
		if mode == 3 && r.Intn(2) == 0 {
			k = churn
		}
		switch {
		case x < 30:
			ops = append(ops, MapOp{Op: "set", K: k, V: 1 + r.Intn(9), Iter: iter()})
		case x < 52:
			ops = append(ops, MapOp{Op: "del", K: k, Iter: iter()})
			if r.Intn(3) == 0 { // delete-then-reinsert of the same key
				ops = append(ops, MapOp{Op: "set", K: k, V: 1 + r.Intn(9), Iter: ops[len(ops)-1].Iter})
			}
		case x < 62:
			ops = append(ops, MapOp{Op: "get", K: k, Iter: iter()})
		case x < 72:
			ops = append(ops, MapOp{Op: "getok", K: k, Iter: iter()})
		case x < 80:
			ops = append(ops, MapOp{Op: "len", Iter: iter()})
		default:
			if depth >= 2 {
				ops = append(ops, MapOp{Op: "len", Iter: iter()})
				continue
			}
			body := []MapOp{}
			if r.Intn(3) > 0 {
				body = randMapHistory(r, nk, 1+r.Intn(4), depth+1)
			}
			br := -1
			if r.Intn(5) == 0 {
				br = r.Intn(3)
			}
			ops = append(ops, MapOp{Op: "range", Iter: iter(), Body: body, BreakAt: br})
		}
	}
	return ops
}

func countEvents(ops []MapOp) int {
	n := 0
	for _, o := range ops {
		n++
		n += countEvents(o.Body)
	}
	return n
}

// ---- the check ------------------------------------------------------------------------------------

type mapTrace struct {
	Lit    int // the first Lit operations (sets of distinct keys) are the entries of the map's literal / of NewMap
	ID     string
	Source string // script | host | go
	Kinds  mapKinds
	NK     int
	Ops    []MapOp
	Script string
	Events []MapEvent
}

// litPrefix: how many leading operations are plain sets of distinct keys (they can form a literal)
// litPrefixDup: the same, but a key may come again (the later entry wins; in source text such keys are written as
// variables, since Go rejects equal CONSTANT keys)
var c10DupKeys = false

func litPrefix(ops []MapOp) int {
	seen := map[int]bool{}
	n := 0
	for _, op := range ops {
		if op.Op != "set" || op.K == 0 || op.Iter >= 0 || (seen[op.K] && !c10DupKeys) {
			break
		}
		seen[op.K] = true
		n++
	}
	return n
}

func runMapHistory(source string, mk mapKinds, nk int, ops []MapOp, lit int) (*mapTrace, error) {
	tr := &mapTrace{Source: source, Kinds: mk, NK: nk, Ops: ops, Lit: lit}
	switch source {
	case "go":
		interpretMapOps(&goMap{m: map[int]int{}}, ops, 0, 0, &tr.Events)
	case "host":
		var perr any
		func() {
			defer func() { perr = recover() }()
			var entries []goat.Value
			for _, op := range ops[:maxInt(lit, 0)] {
				entries = append(entries, mk.keyValue(op.K), mk.valValue(op.V))
				tr.Events = append(tr.Events, MapEvent{"ev": "set", "k": op.K, "v": op.V})
			}
			h := &hostMap{mk: mk, nk: nk, m: goat.NewMap(mk.goatKeyType(), mk.goatValType(), entries)}
			if lit < 0 {
				// a nil map declared by a script, handed to the host: the operations before the first set run on it
				vm := goat.New()
				rets, err := vm.Eval(nil, "n.go", fmt.Sprintf("var m map[%s]%s; m", mk.keyType(), mk.valType()))
				if err != nil || len(rets) != 1 {
					panic(fmt.Sprintf("cannot obtain a nil map: %v", err))
				}
				k := 0
				for k < len(ops) && ops[k].Op != "set" && ops[k].Op != "range" {
					k++
				}
				interpretMapOps(&hostMap{mk: mk, nk: nk, m: rets[0]}, ops[:k], 0, 0, &tr.Events)
				interpretMapOps(h, ops[k:], 0, 0, &tr.Events)
				return
			}
			interpretMapOps(h, ops[lit:], 0, 0, &tr.Events)
		}()
		if perr != nil {
			tr.Events = append(tr.Events, MapEvent{"ev": "panic", "msg": fmt.Sprint(perr)})
		}
	case "script":
		tr.Script = mapOpsToScriptLit(mk, ops, lit)
		res := runMain(tr.Script, true)
		evs, err := parseScriptMapEvents(mk, nk, res.Stdout)
		if err != nil {
			return tr, fmt.Errorf("script output not parseable: %v (err=%v)", err, res.ErrString())
		}
		tr.Events = evs
		if res.Failed() {
			tr.Events = append(tr.Events, MapEvent{"ev": "error", "msg": res.ErrString()})
		}
	}
	return tr, nil
}

// validateMapTraces runs Trace_GoMap over all traces; returns indices of rejected traces with the
// index of the first unexplained event.
func validateTraceBatch(c *Ctx, module, cfg string, traces [][]MapEvent, ids []string) map[int]int {
	rejected := map[int]int{}
	alive := make([]bool, len(traces))
	for i := range alive {
		alive[i] = true
	}
	dir := c.specWorkDir("trace-" + module)
	for round := 0; round < 40; round++ {
		var lines []any
		var owner []int
		var pos []int
		for i, tr := range traces {
			if !alive[i] {
				continue
			}
			lines = append(lines, MapEvent{"ev": "reset", "op": "reset", "id": ids[i]})
			owner = append(owner, i)
			pos = append(pos, -1)
			for j, e := range tr {
				lines = append(lines, e)
				owner = append(owner, i)
				pos = append(pos, j)
			}
		}
		if len(lines) == 0 {
			return rejected
		}
		writeNDJSON(filepath.Join(dir, "trace.ndjson"), lines)
		res := c.runTLC(dir, TLCOpts{Module: module, Cfg: cfg, Workers: 1, AllowError: true, HeapMB: 6000})
		diam := -1
		if d := res.Records["DIAM"]; len(d) > 0 {
			diam, _ = strconv.Atoi(d[len(d)-1])
		}
		if res.ExitCode == 0 {
			if diam-1 != len(lines) {
				fatalf("trace validation inconsistent: exit 0 but diameter %d for %d lines", diam, len(lines))
			}
			return rejected
		}
		if diam < 1 || diam > len(lines) {
			fatalf("trace validation failed without usable diameter (exit %d):\n%s", res.ExitCode, res.ErrorText)
		}
		// lines[0..diam-2] were matched; line index diam-1 (0-based) is the first unexplained event.
		bad := owner[diam-1]
		rejected[bad] = pos[diam-1]
		if os.Getenv("VERIF_DEBUG") != "" {
			fmt.Printf("DEBUG rejected %s at event %d: %v\n", ids[bad], pos[diam-1], lines[diam-1])
		}
		alive[bad] = false
		// everything before the bad trace is accepted: drop it from the next round
		for i := 0; i < bad; i++ {
			alive[i] = false
		}
	}
	// many rejected traces: the ones found are reported; the remaining traces stay unvalidated
	c.Extra["validation_stopped_after_rejections"] = len(rejected)
	return rejected
}

// validateTraceBatchSharded splits the traces over parallel TLC runs.
func validateTraceBatchSharded(c *Ctx, module, cfg string, traces [][]MapEvent, ids []string) map[int]int {
	shards := c.Workers
	if shards > len(traces) {
		shards = len(traces)
	}
	if shards <= 1 {
		return validateTraceBatch(c, module, cfg, traces, ids)
	}
	per := (len(traces) + shards - 1) / shards
	type res struct {
		rej map[int]int
		err any
		st  [2]int64
	}
	results := make([]res, shards)
	done := make(chan int, shards)
	for s := 0; s < shards; s++ {
		go func(s int) {
			defer func() {
				if r := recover(); r != nil {
					results[s].err = r
				}
				done <- s
			}()
			lo, hi := s*per, (s+1)*per
			if hi > len(traces) {
				hi = len(traces)
			}
			if lo >= hi {
				return
			}
			sub := &Ctx{ID: c.ID, Tier: c.Tier, Seed: c.Seed, Work: filepath.Join(c.Work, fmt.Sprintf("vshard%d", s)), Workers: 1, Extra: map[string]any{}}
			must(os.MkdirAll(sub.Work, 0o755))
			rej := validateTraceBatch(sub, module, cfg, traces[lo:hi], ids[lo:hi])
			results[s].rej = map[int]int{}
			for k, v := range rej {
				results[s].rej[lo+k] = v
			}
			results[s].st = [2]int64{sub.States, sub.Transitions}
		}(s)
	}
	for i := 0; i < shards; i++ {
		<-done
	}
	out := map[int]int{}
	for _, r := range results {
		if r.err != nil {
			panic(r.err)
		}
		for k, v := range r.rej {
			out[k] = v
		}
		c.States += r.st[0]
		c.Transitions += r.st[1]
	}
	return out
}

func checkC10(c *Ctx) {
	c.Rule = "histories = all sequences of <=N symbols over an 8-symbol alphabet on 2 keys (each followed by full observation) + seeded random histories with mutation inside (nested) range loops, run via script syntax, host Value API and a native Go map; distinct = distinct (key kind, value kind, source, operation history); non-trivial = history contains a delete or a range"
	c.Assumptions = []string{"TLC 1.8.0 evaluates GoMap.tla as written", "native Go map (calibration) is the reference for what Go does", "key/value universes are finite (<=20 keys, 9 values) and mapped to indices by the harness"}

	// M1: bounded exhaustive model check of the specification.
	dir := c.specWorkDir("mc")
	cfg := "MC_GoMap.cfg"
	if !c.quick() {
		b, _ := os.ReadFile(filepath.Join(dir, cfg))
		s := strings.Replace(string(b), "Vals = {1}", "Vals = {1, 2}", 1)
		must(os.WriteFile(filepath.Join(dir, cfg), []byte(s), 0o644))
	}
	mc := c.runTLC(dir, TLCOpts{Module: "MC_GoMap", Cfg: cfg, Timeout: c.pickDur(5, 30)})
	c.Extra["mc_states"] = mc.DistinctSt

	// M3: traces.
	r := rand.New(rand.NewSource(c.Seed))
	var traces []*mapTrace
	add := func(source string, mk mapKinds, nk int, ops []MapOp, tag string) {
		// every second history starts from a map literal / NewMap with initial entries holding its leading sets
		lit := 0
		if len(traces)%2 == 1 && source != "go" {
			c10DupKeys = len(traces)%4 == 3
			lit = litPrefix(ops)
			c10DupKeys = false
		}
		if len(traces)%3 == 0 && source != "go" && lit == 0 {
			lit = -1 // start from a nil map
		}
		tr, err := runMapHistory(source, mk, nk, ops, lit)
		tr.ID = fmt.Sprintf("%s/%s-%s/%s/%d/lit%d", source, mk.Key, mk.Val, tag, len(traces), lit)
		if err != nil {
			c.violate(hashKey(tr.Script), "script run produced unparseable output: "+err.Error(),
				map[string]any{"source": tr.Script, "ops": ops})
			return
		}
		traces = append(traces, tr)
	}
	kinds := []mapKinds{{"string", "int"}, {"int", "int"}, {"byte", "string"}, {"float", "int"}, {"bool", "int"}, {"string", "string"}, {"int", "string"}, {"uint32", "int"}}
	small := smallMapHistories(c.pick(3, 4))
	for i, h := range small {
		mk := kinds[i%len(kinds)]
		add("script", mk, 2, h, "small")
		add("host", mk, 2, h, "small")
		if i%4 == 0 {
			add("go", mk, 2, h, "small")
		}
	}
	nrand := c.pick(400, 6000)
	for i := 0; i < nrand; i++ {
		mk := kinds[r.Intn(len(kinds))]
		nk := 2 + r.Intn(15)
		if mk.Key == "bool" {
			nk = 2
		}
		length := 5 + r.Intn(c.pick(40, 120))
		h := randMapHistory(r, nk, length, 0)
		if r.Intn(2) == 0 {
			h = append(h, observeAll(nk)...)
		}
		add("script", mk, nk, h, "rand")
		add("host", mk, nk, h, "rand")
		if i%3 == 0 {
			add("go", mk, nk, h, "rand")
		}
	}
	// -0 and +0 are the same float64 key (host API only; the script has no way to spell -0 as a key)
	{
		mk := mapKinds{"float", "int"}
		m := goat.NewMap(goat.TypeFloat64, goat.TypeInt32, nil)
		m.Set(goat.Float64(0), goat.Int(1))
		m.Set(goat.Float64(math.Copysign(0, -1)), goat.Int(2))
		v, ok := m.Get(goat.Float64(0))
		tr := &mapTrace{ID: "host/float-int/negzero", Source: "host", Kinds: mk, NK: 1}
		tr.Events = []MapEvent{{"ev": "set", "k": 1, "v": 1}, {"ev": "set", "k": 1, "v": 2},
			{"ev": "getok", "k": 1, "v": int(v.Int()), "ok": ok}, {"ev": "len", "n": m.Len()}}
		traces = append(traces, tr)
	}

	evs := make([][]MapEvent, len(traces))
	ids := make([]string, len(traces))
	nontrivial := 0
	for i, tr := range traces {
		evs[i] = tr.Events
		ids[i] = tr.ID
		c.Evaluations += int64(len(tr.Events))
		key := fmt.Sprintf("%s|%s|%s|%v", tr.Source, tr.Kinds.Key, tr.Kinds.Val, tr.Ops)
		hasMut := false
		for _, e := range tr.Events {
			if e["ev"] == "del" || e["ev"] == "rstart" {
				hasMut = true
			}
		}
		if hasMut {
			c.distinct(hashKey(key))
			nontrivial++
		}
	}
	for i := 0; i < len(traces) && i < 3; i++ {
		tr := traces[len(traces)/3*i]
		c.sample(map[string]any{"id": tr.ID, "events": tr.Events})
	}
	rejected := validateTraceBatch(c, "Trace_GoMap", "Trace_GoMap.cfg", evs, ids)
	for idx, evpos := range rejected {
		tr := traces[idx]
		if tr.Source == "go" {
			fatalf("calibration failure: GoMap.tla rejects a trace of a native Go map at event %d: %v", evpos, tr.Events)
		}
		var bad any
		if evpos >= 0 && evpos < len(tr.Events) {
			bad = tr.Events[evpos]
		}
		c.violate(hashKey(fmt.Sprintf("%s|%v|%v", tr.Source, tr.Kinds, tr.Ops)),
			fmt.Sprintf("map trace %s not explained by GoMap.tla at event %d: %v", tr.ID, evpos, bad),
			map[string]any{"trace_id": tr.ID, "source": tr.Source, "kinds": tr.Kinds, "ops": tr.Ops, "script": tr.Script,
				"events": tr.Events, "first_unexplained_event": evpos})
	}
	c.TracesVsImpl = int64(len(traces) - len(rejected))

	// negative control: corrupt one event of one accepted trace; TLC must reject it at that event.
	nc := negControlMapTrace(traces, rejected)
	if nc != nil {
		bad := validateTraceBatch(c, "Trace_GoMap", "Trace_GoMap.cfg", [][]MapEvent{nc.events}, []string{"negative-control"})
		if p, ok := bad[0]; !ok || p != nc.pos {
			fatalf("negative control not rejected where expected (got %v, want event %d)", bad, nc.pos)
		}
		c.Extra["negative_control"] = fmt.Sprintf("corrupted event %d of %s rejected as expected", nc.pos, nc.id)
	} else {
		fatalf("no trace available for the negative control")
	}
	c.Extra["traces"] = len(traces)
	c.Extra["nontrivial_traces"] = nontrivial
}

type negCtl struct {
	id     string
	events []MapEvent
	pos    int
}

func negControlMapTrace(traces []*mapTrace, rejected map[int]int) *negCtl {
	for i, tr := range traces {
		if _, bad := rejected[i]; bad || tr.Source == "go" {
			continue
		}
		for j, e := range tr.Events {
			if e["ev"] == "yield" && j > 3 {
				evs := make([]MapEvent, 0, len(tr.Events)+1)
				evs = append(evs, tr.Events[:j+1]...)
				evs = append(evs, e) // the same entry produced twice
				evs = append(evs, tr.Events[j+1:]...)
				return &negCtl{id: tr.ID, events: evs, pos: j + 1}
			}
		}
	}
	return nil
}
