package main

import (
	"fmt"
	"os"
	"runtime/debug"
	"sort"
)

type checkFunc func(c *Ctx)

var checks = map[string]checkFunc{}

func register(id string, f checkFunc) { checks[id] = f }

func main() {
	if len(os.Args) < 2 {
		ids := make([]string, 0, len(checks))
		for k := range checks {
			ids = append(ids, k)
		}
		sort.Strings(ids)
		fmt.Println("usage: vcheck <property> [quick|thorough] [--replay path]; properties:", ids)
		os.Exit(2)
	}
	id := os.Args[1]
	tier := "quick"
	if t := os.Getenv("VERIF_TIER"); t == "quick" || t == "thorough" {
		tier = t
	}
	replay := ""
	for i := 2; i < len(os.Args); i++ {
		switch os.Args[i] {
		case "quick", "thorough":
			tier = os.Args[i]
		case "--replay":
			if i+1 < len(os.Args) {
				replay = os.Args[i+1]
				i++
			}
		}
	}
	f, ok := checks[id]
	if !ok {
		fmt.Println("unknown property", id)
		os.Exit(2)
	}
	c := newCtx(id, tier)
	if replay != "" {
		c.Extra["replay_of"] = replay
		os.Setenv("VERIF_REPLAY", replay)
	}
	defer func() {
		if r := recover(); r != nil {
			c.cleanup()
			if me, ok := r.(machineryError); ok {
				fmt.Printf("MACHINERY-FAILURE property=%s: %s\n", id, me.msg)
				os.Exit(2)
			}
			fmt.Printf("MACHINERY-FAILURE property=%s: panic in harness: %v\n%s\n", id, r, debug.Stack())
			os.Exit(2)
		}
	}()
	f(c)
	c.finish()
}
