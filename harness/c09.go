package main

import (
	"bytes"
	"fmt"
	goat "github.com/philhassey/goatlang"
	"math/rand"
	"strings"
	"testing/fstest"
)

// C09 — calls deliver arguments and results in order and with their declared types.
//
// The signature space (0..P parameters over 7 types, optional variadic tail, 0..3 results) is
// enumerated; for every signature a callee prints what it received (value and a type-revealing
// derived value) and returns distinguishable results, and the caller exercises every call form:
// statement, single value, multi-assign, return f() through a wrapper, argument of another call,
// method call, method value, function-typed variable / struct field / parameter, spread of a slice
// (which must stay the same backing array). Untyped constants and nil are passed for every
// parameter type. Deep linear and tree recursion check argument delivery at every level.
// Calls with the wrong number of arguments, or asking for more results than the callee yields,
// must end in an error (MiniGo.tla: "incorrect args" / "incorrect returns").
// Expected output: MiniGo.tla under TLC; the Go toolchain calibrates the valid programs.

func init() {
	register("C09", checkC09)
	extraCorpus = append(extraCorpus, func(c *Ctx, r *rand.Rand) []map[string]string {
		var out []map[string]string
		progs := c09Programs(1, 12)
		progs = append(progs, c09TypedDecls(), c09VariadicTypes(), c09NamedTypes(false), c09NamedTypes(true))
		for _, p := range progs {
			out = append(out, map[string]string{"main/main.go": p.Source(false, nil)})
		}
		return out
	})
}

var c09Types = []*Ty{TInt, TUint8, TString, TBool, SliceOf(TInt), PtrTo("T"), FuncTy(&FuncSig{Params: []*Ty{TInt}, Results: []*Ty{TInt}})}

// an argument expression of type t: alternates between a constant (untyped in the source: it must be
// converted to the parameter type), nil for nillable types, and a typed variable
func c09Arg(t *Ty, k int) *E {
	switch t.K {
	case "int":
		return lit(TInt, int64(40+k))
	case "uint8":
		return lit(TUint8, int64(200+k%50)) // + 100 inside the callee wraps around for a real uint8
	case "string":
		return &E{K: "str", Ty: TString, S: fmt.Sprintf("s%d", k)}
	case "bool":
		return &E{K: "bool", Ty: TBool, B: k%2 == 0}
	case "slice":
		if k%2 == 0 {
			return &E{K: "zero", Ty: t}
		}
		return &E{K: "slicelit", Ty: t, Args: []*E{lit(TInt, int64(k)), lit(TInt, int64(k+1))}}
	case "ptr":
		if k%2 == 0 {
			return &E{K: "zero", Ty: t}
		}
		return &E{K: "new", Ty: t, Sty: "T", Fields: []string{"X"}, Args: []*E{lit(TInt, int64(k))}}
	case "func":
		if k%2 == 0 {
			return &E{K: "zero", Ty: t}
		}
		return &E{K: "fnval", Ty: t, Fn: "inc"}
	}
	panic("c09Arg")
}

// what the callee prints for a parameter p of type t (reveals value and type)
func c09Show(t *Ty, p *E) []*E {
	switch t.K {
	case "int":
		return []*E{p}
	case "uint8":
		return []*E{p, {K: "bin", Ty: TUint8, Op: "+", L: p, R: lit(TUint8, 100)}}
	case "string":
		return []*E{{K: "bin", Ty: TString, Op: "+", L: p, R: &E{K: "str", Ty: TString, S: "!"}}}
	case "bool":
		return []*E{p}
	case "slice":
		return []*E{cmp("==", p, &E{K: "zero", Ty: t}), lenOf(p)}
	case "ptr", "func":
		return []*E{cmp("==", p, &E{K: "zero", Ty: t})}
	}
	panic("c09Show")
}

func c09Result(t *Ty, k int) *E {
	switch t.K {
	case "int":
		return lit(TInt, int64(700+k))
	case "uint8":
		return lit(TUint8, int64(250+k))
	case "string":
		return &E{K: "str", Ty: TString, S: fmt.Sprintf("r%d", k)}
	}
	return &E{K: "bool", Ty: TBool, B: true}
}

var c09Forms int

var c09ResTypes = []*Ty{TInt, TString, TUint8}

type c09Sig struct {
	params   []*Ty
	variadic bool
	nres     int
}

func c09Signatures(maxP int) []c09Sig {
	var out []c09Sig
	var rec func(prefix []*Ty)
	rec = func(prefix []*Ty) {
		for nres := 0; nres <= 3; nres++ {
			out = append(out, c09Sig{params: append([]*Ty{}, prefix...), nres: nres})
			out = append(out, c09Sig{params: append([]*Ty{}, prefix...), variadic: true, nres: nres})
		}
		if len(prefix) == maxP {
			return
		}
		for _, t := range c09Types {
			rec(append(prefix, t))
		}
	}
	rec(nil)
	return out
}

// c09Programs builds programs with `per` signatures each.
func c09Programs(maxP int, per int) []*Prog {
	sigs := c09Signatures(maxP)
	var progs []*Prog
	for start := 0; start < len(sigs); start += per {
		end := start + per
		if end > len(sigs) {
			end = len(sigs)
		}
		p := &Prog{ID: fmt.Sprintf("c09/sigs%d-%d", start, end), Pkg: "main", Main: "Main"}
		p.Structs = []*StructDef{{Name: "T", Fields: []string{"X", "H"}, FTypes: []*Ty{TInt, FuncTy(&FuncSig{Params: []*Ty{TInt}, Results: []*Ty{TInt}})}}}
		p.Funcs = append(p.Funcs, &Func{Name: "inc", Params: []string{"a"}, PTypes: []*Ty{TInt}, Results: []*Ty{TInt},
			Body: []*S{{K: "return", NRes: 1, Exprs: []*E{{K: "bin", Ty: TInt, Op: "+", L: v("a", TInt), R: lit(TInt, 1)}}}}})
		var mainBody []*S
		for si := start; si < end; si++ {
			mainBody = append(mainBody, c09ForSig(p, sigs[si], si)...)
		}
		p.Funcs = append(p.Funcs, &Func{Name: "Main", Body: mainBody})
		progs = append(progs, p)
	}
	return progs
}

func c09ForSig(p *Prog, sg c09Sig, si int) []*S {
	name := fmt.Sprintf("f%d", si)
	var results []*Ty
	for k := 0; k < sg.nres; k++ {
		results = append(results, c09ResTypes[(si+k)%len(c09ResTypes)])
	}
	mkCallee := func(fname, recv string) *Func {
		fn := &Func{Name: fname, Results: results}
		if recv != "" {
			fn.Recv, fn.RecvTy = "t", "T"
		}
		pr := &S{K: "print", Ln: true, Exprs: []*E{{K: "str", Ty: TString, S: "in " + fname}}}
		if recv != "" {
			pr.Exprs = append(pr.Exprs, &E{K: "field", Ty: TInt, X: v("t", PtrTo("T")), F: "X"})
		}
		for j, t := range sg.params {
			pn := fmt.Sprintf("p%d", j)
			fn.Params = append(fn.Params, pn)
			fn.PTypes = append(fn.PTypes, t)
			pr.Exprs = append(pr.Exprs, c09Show(t, v(pn, t))...)
		}
		body := []*S{}
		if sg.variadic {
			vt := SliceOf(TInt)
			fn.Params = append(fn.Params, "va")
			fn.PTypes = append(fn.PTypes, vt)
			fn.Variadic = true
			pr.Exprs = append(pr.Exprs, lenOf(v("va", vt)), cmp("==", v("va", vt), &E{K: "zero", Ty: vt}))
			body = append(body, pr)
			i, e := "i", "e"
			body = append(body, &S{K: "range", X: v("va", vt), KName: i, VName: e, Body: []*S{{K: "print", Ln: true, Exprs: []*E{{K: "str", Ty: TString, S: "va"}, v(i, TInt), v(e, TInt)}}}})
			// a spread slice is the caller's slice: the write must be visible to the caller
			body = append(body, &S{K: "if", Cond: cmp(">", lenOf(v("va", vt)), lit(TInt, 0)), Then: []*S{{K: "assign", Lhs: []*E{{K: "index", Ty: TInt, X: v("va", vt), I: lit(TInt, 0)}}, Exprs: []*E{lit(TInt, 99)}}}})
		} else {
			body = append(body, pr)
		}
		ret := &S{K: "return", NRes: sg.nres}
		for k, t := range results {
			ret.Exprs = append(ret.Exprs, c09Result(t, k))
		}
		if sg.nres > 0 {
			body = append(body, ret)
		}
		fn.Body = body
		return fn
	}
	p.Funcs = append(p.Funcs, mkCallee(name, ""), mkCallee("T.m"+fmt.Sprint(si), "t"))
	args := func(extra int) []*E {
		var as []*E
		for j, t := range sg.params {
			as = append(as, c09Arg(t, si+j+extra))
		}
		return as
	}
	vargs := func(n int) []*E {
		var as []*E
		for k := 0; k < n; k++ {
			as = append(as, lit(TInt, int64(10+k)))
		}
		return as
	}
	var out []*S
	use := func(call *E, tag string) []*S {
		c09Forms++
		call.NRes = sg.nres
		switch sg.nres {
		case 0:
			return []*S{{K: "expr", E: call, NRes: 0}}
		case 1:
			call.Ty = results[0]
			x := fmt.Sprintf("x%d%s", si, tag)
			return []*S{{K: "decl", Names: []string{x}, Exprs: []*E{call}}, {K: "print", Ln: true, Exprs: []*E{{K: "str", Ty: TString, S: "r " + tag}, v(x, results[0])}}}
		}
		s := &S{K: "decl", Exprs: []*E{call}}
		pr := &S{K: "print", Ln: true, Exprs: []*E{{K: "str", Ty: TString, S: "r " + tag}}}
		for k, t := range results {
			n := fmt.Sprintf("y%d%s%d", si, tag, k)
			s.Names = append(s.Names, n)
			pr.Exprs = append(pr.Exprs, v(n, t))
		}
		return []*S{s, pr}
	}
	plain := func(extraV int, k int) *E {
		a := args(k)
		if sg.variadic {
			a = append(a, vargs(extraV)...)
		}
		return &E{K: "call", Fn: name, Args: a}
	}
	// direct call forms
	out = append(out, use(plain(0, 0), "a")...)
	if sg.variadic {
		out = append(out, use(plain(1, 1), "b")...)
		out = append(out, use(plain(3, 0), "c")...)
		// spread: the callee sees the caller's slice itself
		xs := fmt.Sprintf("xs%d", si)
		vt := SliceOf(TInt)
		out = append(out, &S{K: "decl", Names: []string{xs}, Exprs: []*E{{K: "slicelit", Ty: vt, Args: []*E{lit(TInt, 5), lit(TInt, 6)}}}})
		sp := &E{K: "call", Fn: name, Args: append(args(1), v(xs, vt)), Spread: true}
		out = append(out, use(sp, "s")...)
		out = append(out, &S{K: "print", Ln: true, Exprs: []*E{{K: "str", Ty: TString, S: "after spread"}, {K: "index", Ty: TInt, X: v(xs, vt), I: lit(TInt, 0)}, lenOf(v(xs, vt))}})
	}
	// statement form discarding the results
	out = append(out, &S{K: "expr", E: func() *E { c := plain(0, 1); c.NRes = sg.nres; return c }(), NRes: sg.nres})
	// return f(...) through a wrapper
	wname := fmt.Sprintf("w%d", si)
	inner := plain(2, 0)
	inner.NRes = sg.nres
	wbody := []*S{{K: "return", NRes: sg.nres, Exprs: []*E{inner}}}
	if sg.nres == 0 {
		wbody = []*S{{K: "expr", E: inner, NRes: 0}}
	}
	p.Funcs = append(p.Funcs, &Func{Name: wname, Results: results, Body: wbody})
	out = append(out, use(&E{K: "call", Fn: wname}, "w")...)
	// return f(..., q...): a spread call as the sole operand of return
	if sg.variadic {
		wsname := fmt.Sprintf("ws%d", si)
		vt := SliceOf(TInt)
		innerS := &E{K: "call", Fn: name, Args: append(args(3), v("q", vt)), Spread: true, NRes: sg.nres}
		wsbody := []*S{{K: "return", NRes: sg.nres, Exprs: []*E{innerS}}}
		if sg.nres == 0 {
			wsbody = []*S{{K: "expr", E: innerS, NRes: 0}}
		}
		p.Funcs = append(p.Funcs, &Func{Name: wsname, Params: []string{"q"}, PTypes: []*Ty{vt}, Results: results, Body: wsbody})
		out = append(out, use(&E{K: "call", Fn: wsname, Args: []*E{{K: "slicelit", Ty: vt, Args: []*E{lit(TInt, 8), lit(TInt, 9)}}}}, "ws")...)
	}
	// as the argument of another call (single int result)
	if sg.nres == 1 && results[0].K == "int" {
		c := plain(0, 1)
		c.NRes, c.Ty = 1, TInt
		out = append(out, &S{K: "print", Ln: true, Exprs: []*E{{K: "str", Ty: TString, S: "arg"}, {K: "call", Fn: "inc", Ty: TInt, NRes: 1, Args: []*E{c}}}})
	}
	// method call and method value on a local instance
	tv := fmt.Sprintf("t%d", si)
	pt := PtrTo("T")
	out = append(out, &S{K: "decl", Names: []string{tv}, Exprs: []*E{{K: "new", Ty: pt, Sty: "T", Fields: []string{"X"}, Args: []*E{lit(TInt, int64(si))}}}})
	ma := args(0)
	if sg.variadic {
		ma = append(ma, vargs(2)...)
	}
	out = append(out, use(&E{K: "mcall", X: v(tv, pt), M: "m" + fmt.Sprint(si), Args: ma}, "m")...)
	if sg.variadic {
		// method call with a spread slice on a local receiver
		xm := fmt.Sprintf("xm%d", si)
		vt := SliceOf(TInt)
		out = append(out, &S{K: "decl", Names: []string{xm}, Exprs: []*E{{K: "slicelit", Ty: vt, Args: []*E{lit(TInt, 3), lit(TInt, 4), lit(TInt, 5)}}}})
		out = append(out, use(&E{K: "mcall", X: v(tv, pt), M: "m" + fmt.Sprint(si), Args: append(args(2), v(xm, vt)), Spread: true}, "ms")...)
		out = append(out, &S{K: "print", Ln: true, Exprs: []*E{{K: "str", Ty: TString, S: "after method spread"}, {K: "index", Ty: TInt, X: v(xm, vt), I: lit(TInt, 0)}, lenOf(v(xm, vt))}})
	}
	if !sg.variadic {
		sig := &FuncSig{Params: sg.params, Results: results}
		ft := FuncTy(sig)
		mv := fmt.Sprintf("mv%d", si)
		out = append(out, &S{K: "decl", Names: []string{mv}, Exprs: []*E{{K: "mval", Ty: ft, X: v(tv, pt), M: "m" + fmt.Sprint(si)}}})
		// the receiver is bound when the method value is taken: a later change of the variable does not matter
		out = append(out, &S{K: "assign", Lhs: []*E{v(tv, pt)}, Exprs: []*E{{K: "new", Ty: pt, Sty: "T", Fields: []string{"X"}, Args: []*E{lit(TInt, -1)}}}})
		out = append(out, use(&E{K: "callv", X: v(mv, ft), Args: args(1)}, "v")...)
		// function-typed variable
		hv := fmt.Sprintf("h%d", si)
		out = append(out, &S{K: "decl", Names: []string{hv}, Exprs: []*E{{K: "fnval", Ty: ft, Fn: name}}})
		out = append(out, use(&E{K: "callv", X: v(hv, ft), Args: args(2)}, "h")...)
		// function-typed parameter
		an := fmt.Sprintf("ap%d", si)
		ac := &E{K: "callv", X: v("h", ft), Args: args(3), NRes: sg.nres}
		abody := []*S{{K: "return", NRes: sg.nres, Exprs: []*E{ac}}}
		if sg.nres == 0 {
			abody = []*S{{K: "expr", E: ac, NRes: 0}}
		}
		p.Funcs = append(p.Funcs, &Func{Name: an, Params: []string{"h"}, PTypes: []*Ty{ft}, Results: results, Body: abody})
		out = append(out, use(&E{K: "call", Fn: an, Args: []*E{{K: "fnval", Ty: ft, Fn: name}}}, "p")...)
	}
	return out
}

// recursion: arguments and results are right at every level
func c09Recursion(depth int) *Prog {
	p := &Prog{ID: fmt.Sprintf("c09/recursion-%d", depth), Pkg: "main", Main: "Main"}
	// down(n, acc, tag): linear recursion carrying three differently typed arguments
	n, acc, tag := v("n", TInt), v("acc", TInt), v("tag", TString)
	p.Funcs = append(p.Funcs, &Func{Name: "down", Params: []string{"n", "acc", "tag"}, PTypes: []*Ty{TInt, TInt, TString}, Results: []*Ty{TInt, TString},
		Body: []*S{
			{K: "if", Cond: cmp("==", n, lit(TInt, 0)), Then: []*S{{K: "return", NRes: 2, Exprs: []*E{acc, tag}}}},
			{K: "decl", Names: []string{"a", "b"}, Exprs: []*E{{K: "call", Fn: "down", NRes: 2, Args: []*E{
				{K: "bin", Ty: TInt, Op: "-", L: n, R: lit(TInt, 1)}, {K: "bin", Ty: TInt, Op: "+", L: acc, R: n}, tag}}}},
			{K: "return", NRes: 2, Exprs: []*E{{K: "bin", Ty: TInt, Op: "+", L: v("a", TInt), R: lit(TInt, 1)}, v("b", TString)}},
		}})
	p.Funcs = append(p.Funcs, &Func{Name: "fib", Params: []string{"n"}, PTypes: []*Ty{TInt}, Results: []*Ty{TInt},
		Body: []*S{
			{K: "if", Cond: cmp("<", n, lit(TInt, 2)), Then: []*S{{K: "return", NRes: 1, Exprs: []*E{n}}}},
			{K: "return", NRes: 1, Exprs: []*E{{K: "bin", Ty: TInt, Op: "+",
				L: &E{K: "call", Fn: "fib", Ty: TInt, NRes: 1, Args: []*E{{K: "bin", Ty: TInt, Op: "-", L: n, R: lit(TInt, 1)}}},
				R: &E{K: "call", Fn: "fib", Ty: TInt, NRes: 1, Args: []*E{{K: "bin", Ty: TInt, Op: "-", L: n, R: lit(TInt, 2)}}}}}},
		}})
	// narrow(n, b, s): every level receives an untyped constant for a uint8 parameter and nil for a slice
	// parameter, and has a local of its own; b + 100 wraps only if b really is a uint8
	bq, sq := v("b", TUint8), v("s", SliceOf(TInt))
	p.Funcs = append(p.Funcs, &Func{Name: "narrow", Params: []string{"n", "b", "s"}, PTypes: []*Ty{TInt, TUint8, SliceOf(TInt)}, Results: []*Ty{TInt},
		Body: []*S{
			dcl("loc", &E{K: "conv", Ty: TInt, X: bin("+", TUint8, bq, lit(TUint8, 100))}),
			{K: "if", Cond: cmp("==", n, lit(TInt, 0)), Then: []*S{ret(bin("+", TInt, v("loc", TInt), lenOf(sq)))}},
			ret(bin("+", TInt, &E{K: "call", Fn: "narrow", Ty: TInt, NRes: 1, Args: []*E{bin("-", TInt, n, lit(TInt, 1)), lit(TUint8, 200), {K: "zero", Ty: SliceOf(TInt)}}}, v("loc", TInt))),
		}})
	p.Funcs = append(p.Funcs, &Func{Name: "Main", Body: []*S{
		pr(sS("narrow"), &E{K: "call", Fn: "narrow", Ty: TInt, NRes: 1, Args: []*E{lit(TInt, int64(depth)), lit(TUint8, 200), {K: "zero", Ty: SliceOf(TInt)}}}),
		{K: "decl", Names: []string{"a", "b"}, Exprs: []*E{{K: "call", Fn: "down", NRes: 2, Args: []*E{lit(TInt, int64(depth)), lit(TInt, 0), {K: "str", Ty: TString, S: "t"}}}}},
		{K: "print", Ln: true, Exprs: []*E{{K: "str", Ty: TString, S: "down"}, v("a", TInt), v("b", TString)}},
		{K: "print", Ln: true, Exprs: []*E{{K: "str", Ty: TString, S: "fib"}, {K: "call", Fn: "fib", Ty: TInt, NRes: 1, Args: []*E{lit(TInt, 9)}}}},
	}})
	return p
}

// c09WideRecursion: narrow's recursion (an untyped constant for a uint8 parameter and nil for a slice parameter at every
// level) with frames of 12 locals (110 deep: some 1650 stack slots) and of 5 locals (60 deep).
func c09WideRecursion() *Prog {
	p := &Prog{ID: "c09/wide-recursion", Pkg: "main", Main: "Main"}
	n := v("n", TInt)
	bq, sq := v("b", TUint8), v("s", SliceOf(TInt))
	// wide(n, b, s): the same with larger frames, so that the frames of the recursion cross every size at
	// which the value stack is grown with room for the locals still to be added (the arguments are converted to the
	// declared parameter types around that point)
	var widePr []*S
	for _, nl := range []int{12, 5} {
		depth := map[int]int{12: 110, 5: 60}[nl]
		name := fmt.Sprintf("wide%d", nl)
		body := []*S{dcl("loc", &E{K: "conv", Ty: TInt, X: bin("+", TUint8, bq, lit(TUint8, 100))})}
		sum := bin("+", TInt, v("loc", TInt), lenOf(sq))
		for i := 1; i < nl; i++ {
			ln := fmt.Sprintf("l%d", i)
			body = append(body, dcl(ln, bin("+", TInt, v("loc", TInt), lit(TInt, int64(i)))))
			sum = bin("+", TInt, sum, v(ln, TInt))
		}
		body = append(body,
			&S{K: "if", Cond: cmp("==", n, lit(TInt, 0)), Then: []*S{ret(sum)}},
			ret(bin("+", TInt, &E{K: "call", Fn: name, Ty: TInt, NRes: 1, Args: []*E{bin("-", TInt, n, lit(TInt, 1)), lit(TUint8, 200), {K: "zero", Ty: SliceOf(TInt)}}}, sum)))
		p.Funcs = append(p.Funcs, &Func{Name: name, Params: []string{"n", "b", "s"}, PTypes: []*Ty{TInt, TUint8, SliceOf(TInt)}, Results: []*Ty{TInt}, Body: body})
		widePr = append(widePr, pr(sS(name), &E{K: "call", Fn: name, Ty: TInt, NRes: 1, Args: []*E{lit(TInt, int64(depth)), lit(TUint8, 200), {K: "zero", Ty: SliceOf(TInt)}}}))
	}
	p.Funcs = append(p.Funcs, &Func{Name: "Main", Body: widePr})
	return p
}

// error cases (not Go programs; the property defines their outcome): wrong argument count, more
// results requested than yielded. Each must end in an error after the output printed so far.
func c09ErrorPrograms() []*Prog {
	var progs []*Prog
	mk := func(id string, body []*S) {
		p := &Prog{ID: "c09/err-" + id, Pkg: "main", Main: "Main"}
		p.Funcs = append(p.Funcs, &Func{Name: "one", Params: []string{"a"}, PTypes: []*Ty{TInt}, Results: []*Ty{TInt}, Body: []*S{
			{K: "print", Ln: true, Exprs: []*E{{K: "str", Ty: TString, S: "in one"}, v("a", TInt)}},
			{K: "return", NRes: 1, Exprs: []*E{v("a", TInt)}}}})
		p.Funcs = append(p.Funcs, &Func{Name: "vr", Params: []string{"a", "va"}, PTypes: []*Ty{TInt, SliceOf(TInt)}, Variadic: true, Body: []*S{
			{K: "print", Ln: true, Exprs: []*E{{K: "str", Ty: TString, S: "in vr"}, v("a", TInt), lenOf(v("va", SliceOf(TInt)))}}}})
		pre := []*S{{K: "print", Ln: true, Exprs: []*E{{K: "str", Ty: TString, S: "before"}}}}
		post := []*S{{K: "print", Ln: true, Exprs: []*E{{K: "str", Ty: TString, S: "after"}}}}
		p.Funcs = append(p.Funcs, &Func{Name: "Main", Body: append(append(pre, body...), post...)})
		progs = append(progs, p)
	}
	call := func(fn string, nres int, args ...*E) *E { return &E{K: "call", Fn: fn, NRes: nres, Args: args} }
	mk("too-many-args", []*S{{K: "expr", E: call("one", 1, lit(TInt, 1), lit(TInt, 2)), NRes: 1}})
	mk("too-few-args", []*S{{K: "expr", E: call("one", 1), NRes: 1}})
	mk("variadic-missing-fixed", []*S{{K: "expr", E: call("vr", 0), NRes: 0}})
	c2 := call("one", 2, lit(TInt, 1))
	c2.Want = 2
	mk("more-results-than-yielded", []*S{{K: "decl", Names: []string{"a", "b"}, Exprs: []*E{c2}}, {K: "print", Ln: true, Exprs: []*E{v("a", TInt), v("b", TInt)}}})
	c3 := call("vr", 1, lit(TInt, 1))
	c3.Want = 1
	c3.Ty = TInt
	mk("result-of-void", []*S{{K: "decl", Names: []string{"a"}, Exprs: []*E{c3}}, {K: "print", Ln: true, Exprs: []*E{v("a", TInt)}}})
	// in a loop and nested in an expression: the error must not be postponed or swallowed
	mk("in-loop", []*S{{K: "for", Init: &S{K: "decl", Names: []string{"i"}, Exprs: []*E{lit(TInt, 0)}}, Cond: cmp("<", v("i", TInt), lit(TInt, 3)), Post: &S{K: "incdec", Lhs: []*E{v("i", TInt)}, D: 1},
		Body: []*S{{K: "print", Ln: true, Exprs: []*E{{K: "str", Ty: TString, S: "it"}, v("i", TInt)}}, {K: "if", Cond: cmp("==", v("i", TInt), lit(TInt, 1)), Then: []*S{{K: "expr", E: call("one", 1, lit(TInt, 1), lit(TInt, 2)), NRes: 1}}}}}})
	return progs
}

func checkC09(c *Ctx) {
	c.Rule = "signatures = every list of 0..P parameters (P=2 quick, 3 thorough) over {int, uint8, string, bool, []int, *T, func(int) int}, with and without a variadic tail, with 0..3 results; each exercised through direct call (0/1/3 surplus variadic arguments, spread), statement call, return f() wrapper, call as argument, method call, method value (receiver bound at capture), function-typed variable and parameter; constants and nil as arguments; linear recursion to depth D (also with frames of 12 locals, 110 deep, across the growth points of the value stack) and tree recursion; plus error cases (wrong arity, too many results requested); plus every pair of parameter lists (0..3 fixed, with and without a variadic tail) for a function defined again on the same VM; distinct_nontrivial = (signature, call form) pairs"
	c.Assumptions = []string{"MiniGo.tla is calibrated against the Go toolchain on every valid program of this check", "the error cases are not Go programs: their expected outcome (an error after the output so far) is the property's own statement"}
	maxP := c.pick(2, 3)
	c09Forms = 0
	progs := c09Programs(maxP, 6)
	forms := c09Forms
	nsig := len(c09Signatures(maxP))
	c.Extra["signatures"] = nsig
	progs = append(progs, c09Recursion(c.pick(300, 450)), c09WideRecursion())
	progs = append(progs, c09TypedDecls(), c09VariadicTypes(), c09NamedTypes(false), c09NamedTypes(true))
	// seeded random call-heavy programs: function literals, method values, return f(), variadics
	r := rand.New(rand.NewSource(c.Seed))
	for i := 0; i < c.pick(300, 5000); i++ {
		g := NewGen(r, GenOpts{MaxStmts: 30, MaxDepth: 2, Funcs: 6, Strings: true, Structs: true, Containers: true, FuncLits: true})
		g.callBias = true
		progs = append(progs, g.Program(fmt.Sprintf("c09-rand-%d", i)))
	}
	valid := len(progs)
	progs = append(progs, c09ErrorPrograms()...)
	b := runMiniGoSpec(c, progs, 0, "c09")
	for _, p := range progs {
		if len(b.Behs[p.ID]) != 1 {
			fatalf("program %s has %d behaviours in the specification (want 1)", p.ID, len(b.Behs[p.ID]))
		}
	}
	for _, p := range progs[valid:] {
		if b.Behs[p.ID][0].Status != "panic" {
			fatalf("error-case program %s does not end in an error in MiniGo.tla", p.ID)
		}
	}
	calibrateGo(c, &mgBatch{Progs: progs[:valid], Sources: b.Sources, Behs: b.Behs}, "c09")
	compareBehaviours(c, b, true, "call")
	compareBehaviours(c, b, false, "call")
	c09Redefinitions(c)
	c.DistinctCount = int64(forms)
	c.Extra["call_forms_exercised"] = forms
	p := progs[len(progs)/3]
	c.sample(map[string]any{"program": p.ID, "source": clip(b.Sources[p.ID], 1800)})
	c.sample(map[string]any{"program": progs[valid].ID, "source": b.Sources[progs[valid].ID], "expected": b.Behs[progs[valid].ID][0].Render() + "<error>"})
}

// c09TypedDecls: results delivered to declarations that name several variables and a type
// (var a, b T = f(); var v, ok bool = m[k]), inside functions, with locals around them, and at package
// level; next to the untyped and := forms.
func c09TypedDecls() *Prog {
	p := &Prog{ID: "c09/typed-decls", Pkg: "main", Main: "Main"}
	mt := MapOf(TInt, TBool)
	call := func(fn string, n int, t *Ty) *E { return &E{K: "call", Fn: fn, NRes: n, Ty: t} }
	p.Funcs = append(p.Funcs,
		&Func{Name: "two", Results: []*Ty{TInt, TInt}, Body: []*S{ret(lit(TInt, 4), lit(TInt, 5))}},
		&Func{Name: "three", Params: []string{"s"}, PTypes: []*Ty{TString}, Results: []*Ty{TString, TString, TString},
			Body: []*S{ret(v("s", TString), bin("+", TString, v("s", TString), sS("!")), sS("z"))}},
		&Func{Name: "sum2", Params: []string{"k"}, PTypes: []*Ty{TInt}, Results: []*Ty{TInt}, Body: []*S{
			dcl("before", lit(TInt, 100)),
			{K: "decl", Names: []string{"a", "b"}, DeclTy: TInt, VarForm: true, Exprs: []*E{call("two", 2, nil)}},
			dcl("after", lit(TInt, 1000)),
			ret(bin("+", TInt, bin("+", TInt, bin("+", TInt, v("a", TInt), bin("*", TInt, v("b", TInt), lit(TInt, 10))), v("before", TInt)), bin("+", TInt, v("after", TInt), v("k", TInt))))}},
		&Func{Name: "lookup", Params: []string{"k"}, PTypes: []*Ty{TInt}, Results: []*Ty{TBool, TBool}, Body: []*S{
			dcl("m", &E{K: "maplit", Ty: mt, Keys: []*E{lit(TInt, 1)}, Args: []*E{{K: "bool", Ty: TBool, B: true}}}),
			{K: "decl", Names: []string{"v", "ok"}, DeclTy: TBool, VarForm: true, Exprs: []*E{{K: "mapget", Ty: TBool, Ok: true, X: v("m", mt), I: v("k", TInt)}}},
			ret(v("v", TBool), v("ok", TBool))}},
	)
	p.Globals = append(p.Globals,
		&S{K: "decl", Names: []string{"GA", "GB"}, DeclTy: TInt, VarForm: true, Exprs: []*E{call("two", 2, nil)}},
		&S{K: "decl", Names: []string{"GX", "GY"}, DeclTy: TInt, VarForm: true, Exprs: []*E{lit(TInt, 1), lit(TInt, 2)}})
	body := []*S{
		pr(sS("globals"), v("GA", TInt), v("GB", TInt), v("GX", TInt), v("GY", TInt)),
		dcl("keep", lit(TInt, 7)),
		{K: "decl", Names: []string{"a", "b"}, DeclTy: TInt, VarForm: true, Exprs: []*E{call("two", 2, nil)}},
		{K: "decl", Names: []string{"s1", "s2", "s3"}, DeclTy: TString, VarForm: true, Exprs: []*E{{K: "call", Fn: "three", NRes: 3, Args: []*E{sS("q")}}}},
		{K: "decl", Names: []string{"c", "d"}, VarForm: true, Exprs: []*E{call("two", 2, nil)}},
		{K: "decl", Names: []string{"e", "f"}, Exprs: []*E{call("two", 2, nil)}},
		{K: "decl", Names: []string{"x", "y"}, DeclTy: TInt, VarForm: true, Exprs: []*E{lit(TInt, 8), lit(TInt, 9)}},
		pr(sS("locals"), v("keep", TInt), v("a", TInt), v("b", TInt), v("s1", TString), v("s2", TString), v("s3", TString), v("c", TInt), v("d", TInt), v("e", TInt), v("f", TInt), v("x", TInt), v("y", TInt)),
		pr(sS("sum2"), &E{K: "call", Fn: "sum2", Ty: TInt, NRes: 1, Args: []*E{lit(TInt, 3)}}),
		{K: "decl", Names: []string{"v1", "ok1"}, DeclTy: TBool, VarForm: true, Exprs: []*E{{K: "call", Fn: "lookup", NRes: 2, Args: []*E{lit(TInt, 1)}}}},
		{K: "decl", Names: []string{"v2", "ok2"}, DeclTy: TBool, VarForm: true, Exprs: []*E{{K: "call", Fn: "lookup", NRes: 2, Args: []*E{lit(TInt, 2)}}}},
		pr(sS("lookup"), v("v1", TBool), v("ok1", TBool), v("v2", TBool), v("ok2", TBool), v("keep", TInt)),
		{K: "for", Init: dcl("i", lit(TInt, 0)), Cond: bin("<", TBool, v("i", TInt), lit(TInt, 2)), Post: &S{K: "incdec", Lhs: []*E{v("i", TInt)}, D: 1}, Body: []*S{
			{K: "decl", Names: []string{"p", "q"}, DeclTy: TInt, VarForm: true, Exprs: []*E{call("two", 2, nil)}},
			pr(sS("loop"), v("i", TInt), v("p", TInt), v("q", TInt))}},
	}
	p.Funcs = append(p.Funcs, &Func{Name: "Main", Body: body})
	return p
}

// c09VariadicTypes: variadic parameters whose element type is not int (uint8, int8, string): surplus
// untyped constants must arrive as values of the element type (200 + 100 wraps in a uint8), through a
// direct call, a method, a function value and a spread of a typed slice.
func c09VariadicTypes() *Prog {
	p := &Prog{ID: "c09/variadic-types", Pkg: "main", Main: "Main"}
	p.Structs = []*StructDef{{Name: "T", Fields: []string{"X"}, FTypes: []*Ty{TInt}}}
	mk := func(name string, et *Ty, recv bool) *Func {
		vt := SliceOf(et)
		fn := &Func{Name: name, Params: []string{"k", "va"}, PTypes: []*Ty{TInt, vt}, Variadic: true, Results: []*Ty{TInt}}
		if recv {
			fn.Recv, fn.RecvTy = "t", "T"
		}
		var body []*S
		body = append(body, dcl("acc", lit(TInt, 0)))
		if et.K == "string" {
			body = append(body, &S{K: "range", X: v("va", vt), KName: "_", VName: "e", Body: []*S{{K: "opassign", Lhs: []*E{v("acc", TInt)}, Op: "+", E: lenOf(bin("+", TString, v("e", TString), sS("!")))}}})
		} else {
			// e + 100 is computed in the element type: it wraps there
			body = append(body, &S{K: "range", X: v("va", vt), KName: "_", VName: "e", Body: []*S{{K: "opassign", Lhs: []*E{v("acc", TInt)}, Op: "+", E: &E{K: "conv", Ty: TInt, X: bin("+", et, v("e", et), lit(et, 100))}}}})
		}
		body = append(body, pr(sS(name), v("k", TInt), lenOf(v("va", vt)), v("acc", TInt)), ret(v("acc", TInt)))
		fn.Body = body
		return fn
	}
	fU, fI, fS, mU := mk("vu", TUint8, false), mk("vi", TInt8, false), mk("vs", TString, false), mk("T.mu", TUint8, true)
	p.Funcs = append(p.Funcs, fU, fI, fS, mU)
	call := func(fn string, args ...*E) *E { return &E{K: "call", Fn: fn, Ty: TInt, NRes: 1, Args: args} }
	u := func(x int64) *E { return lit(TUint8, x) }
	i8 := func(x int64) *E { return lit(TInt8, x) }
	tv := v("t", PtrTo("T"))
	ftU := FuncTy(&FuncSig{Params: []*Ty{TInt, SliceOf(TUint8)}, Results: []*Ty{TInt}, Variadic: true})
	body := []*S{
		pr(sS("direct"), call("vu", lit(TInt, 0)), call("vu", lit(TInt, 1), u(200)), call("vu", lit(TInt, 3), u(200), u(100), u(255))),
		pr(sS("int8"), call("vi", lit(TInt, 2), i8(100), i8(-100)), call("vs", lit(TInt, 2), sS("a"), sS("bc"))),
		dcl("t", newS("T", "X", lit(TInt, 1))),
		pr(sS("method"), &E{K: "mcall", X: tv, M: "mu", Ty: TInt, NRes: 1, Args: []*E{lit(TInt, 2), u(200), u(56)}}, &E{K: "mcall", X: tv, M: "mu", Ty: TInt, NRes: 1, Args: []*E{lit(TInt, 0)}}),
		dcl("h", &E{K: "fnval", Ty: ftU, Fn: "vu"}),
		pr(sS("value"), &E{K: "callv", X: v("h", ftU), Ty: TInt, NRes: 1, Args: []*E{lit(TInt, 1), u(199)}}),
		dcl("bs", &E{K: "slicelit", Ty: SliceOf(TUint8), Args: []*E{u(250), u(6)}}),
		pr(sS("spread"), &E{K: "call", Fn: "vu", Ty: TInt, NRes: 1, Spread: true, Args: []*E{lit(TInt, 9), v("bs", SliceOf(TUint8))}}),
	}
	p.Funcs = append(p.Funcs, &Func{Name: "Main", Body: body})
	return p
}

// c09Redefinitions: a function defined again on the same VM with a different parameter list (as a
// second Eval or a reload does) must from then on be called with its NEW list: every pair of
// signatures over 0..3 fixed parameters with and without a variadic tail, called through script code,
// through a function value taken after the redefinition, and from the host.
func c09Redefinitions(c *Ctx) {
	type sig struct {
		n        int
		variadic bool
	}
	var sigs []sig
	for n := 0; n <= 3; n++ {
		sigs = append(sigs, sig{n, false}, sig{n, true})
	}
	decl := func(s sig, ver int) string {
		var ps, sum []string
		for i := 0; i < s.n; i++ {
			ps = append(ps, fmt.Sprintf("p%d int", i))
			sum = append(sum, fmt.Sprintf("p%d", i))
		}
		body := fmt.Sprintf("%d", ver*1000)
		if s.variadic {
			ps = append(ps, "va ...int")
			body += " + 100*len(va)"
		}
		for _, x := range sum {
			body += " + " + x
		}
		return "func f(" + strings.Join(ps, ", ") + ") int {\n\treturn " + body + "\n}\n"
	}
	args := func(s sig) (string, []goat.Value, int) {
		var as []string
		var vs []goat.Value
		total := 0
		for i := 0; i < s.n; i++ {
			as = append(as, fmt.Sprint(i+1))
			vs = append(vs, goat.Int(i+1))
			total += i + 1
		}
		if s.variadic {
			as = append(as, "7", "8")
			vs = append(vs, goat.Int(7), goat.Int(8))
			total += 200
		}
		return strings.Join(as, ", "), vs, total
	}
	for _, s1 := range sigs {
		for _, s2 := range sigs {
			if s1 == s2 {
				continue
			}
			vm := goat.New(goat.WithStdout(&bytes.Buffer{}))
			a1, _, t1 := args(s1)
			a2, v2, t2 := args(s2)
			steps := []struct {
				src  string
				want int
			}{
				{decl(s1, 1) + "r := f(" + a1 + ")\nr", 1000 + t1},
				{decl(s2, 2) + "r = f(" + a2 + ")\nr", 2000 + t2},
				{"g := f\nr = g(" + a2 + ")\nr", 2000 + t2},
			}
			key := fmt.Sprintf("redef|%v|%v", s1, s2)
			bad := ""
			for si, st := range steps {
				goat.VerifSetBudget(100000)
				rets, err := vm.Eval(fstest.MapFS{}, "redef.go", st.src)
				goat.VerifSetBudget(-1)
				c.Evaluations++
				if err != nil {
					bad = fmt.Sprintf("step %d: %s", si+1, firstLine(err.Error()))
					break
				}
				if len(rets) != 1 || rets[0].Int() != st.want {
					bad = fmt.Sprintf("step %d returned %v, want %d", si+1, valsToDescs(rets), st.want)
					break
				}
			}
			if bad == "" {
				rets, err := vm.Call("main.f", 1, v2...)
				c.Evaluations++
				if err != nil {
					bad = "host Call after the redefinition: " + firstLine(err.Error())
				} else if rets[0].Int() != 2000+t2 {
					bad = fmt.Sprintf("host Call after the redefinition returned %d, want %d", rets[0].Int(), 2000+t2)
				}
			}
			if bad != "" {
				c.violate(hashKey(key), fmt.Sprintf("function defined with %d parameters (variadic=%v), then again with %d (variadic=%v): %s", s1.n, s1.variadic, s2.n, s2.variadic, bad),
					map[string]any{"first": decl(s1, 1), "second": decl(s2, 2), "call_after": "f(" + a2 + ")"})
			} else {
				c.TracesVsImpl++
			}
		}
	}
}

// c09NamedTypes: defined non-struct types (type Lv int8, type Cs uint8, type Li []int) as parameter and result types: an
// untyped constant or nil passed / returned takes the underlying type. split: the types live in an imported package and
// are spelled lib.Lv in the signatures.
func c09NamedTypes(split bool) *Prog {
	c09Lit1 := &Func{Name: "c09lit1", Params: []string{"a"}, PTypes: []*Ty{TInt}, Results: []*Ty{TInt}, Body: []*S{ret(bin("*", TInt, v("a", TInt), v("a", TInt)))}}
	id := "c09/named-types"
	if split {
		id += "-qualified"
	}
	p := &Prog{ID: id, Pkg: "main", Main: "Main"}
	tLv := &Ty{K: "int8", Alias: "Lv"}
	tCs := &Ty{K: "uint8", Alias: "Cs"}
	tLi := &Ty{K: "slice", Elem: TInt, Alias: "Li"}
	p.Globals = append(p.Globals, &S{K: "declzero", Names: []string{"Cnt"}, DeclTy: TInt, Global: true})
	p.TypeDefs = append(p.TypeDefs, &TypeDef{Name: "Lv", Under: TInt8}, &TypeDef{Name: "Cs", Under: TUint8}, &TypeDef{Name: "Li", Under: SliceOf(TInt)})
	call := func(fn string, t *Ty, n int, args ...*E) *E { return &E{K: "call", Fn: fn, Ty: t, NRes: n, Args: args} }
	p.Funcs = append(p.Funcs,
		&Func{Name: "keep", Params: []string{"a"}, PTypes: []*Ty{tLv}, Results: []*Ty{tLv}, Body: []*S{ret(v("a", tLv))}},
		&Func{Name: "twice", Params: []string{"x"}, PTypes: []*Ty{tLv}, Results: []*Ty{tLv}, Body: []*S{ret(bin("+", tLv, v("x", tLv), v("x", tLv)))}},
		&Func{Name: "mix", Params: []string{"a", "s", "b"}, PTypes: []*Ty{tCs, TString, tCs}, Results: []*Ty{tCs}, Body: []*S{ret(bin("+", tCs, v("a", tCs), v("b", tCs)))}},
		&Func{Name: "pair", Params: []string{"n"}, PTypes: []*Ty{TInt}, Results: []*Ty{tCs, tLv}, Body: []*S{ret(lit(tCs, 200), lit(tLv, 100))}},
		&Func{Name: "viaPair", Params: []string{"n"}, PTypes: []*Ty{TInt}, Results: []*Ty{tCs, tLv}, Body: []*S{{K: "return", NRes: 2, Exprs: []*E{call("pair", nil, 2, v("n", TInt))}}}},
		&Func{Name: "none", Params: []string{"n"}, PTypes: []*Ty{TInt}, Results: []*Ty{tLi}, Body: []*S{ret(&E{K: "zero", Ty: tLi})}},
		&Func{Name: "count", Params: []string{"l"}, PTypes: []*Ty{tLi}, Results: []*Ty{TInt}, Body: []*S{ret(lenOf(v("l", tLi)))}},
		&Func{Name: "blank", Params: []string{"_", "_", "x", "_"}, PTypes: []*Ty{TInt, TString, TInt, TInt}, Results: []*Ty{TInt}, Body: []*S{dcl("y", v("x", TInt)), ret(bin("*", TInt, v("y", TInt), lit(TInt, 2)))}},
		&Func{Name: "blank2", Params: []string{"_", "_"}, PTypes: []*Ty{TInt, TInt}, Results: []*Ty{TInt}, Body: []*S{ret(lit(TInt, 1))}},
		// a spread slice is passed through as it is: the callee writes to the caller's elements, an empty slice stays non-nil
		&Func{Name: "zero", Params: []string{"xs"}, PTypes: []*Ty{SliceOf(TInt)}, Variadic: true, Body: []*S{
			{K: "range", X: v("xs", SliceOf(TInt)), KName: "i", VName: "", Body: []*S{asg(&E{K: "index", Ty: TInt, X: v("xs", SliceOf(TInt)), I: v("i", TInt)}, lit(TInt, 0))}}}},
		&Func{Name: "isnil", Params: []string{"xs"}, PTypes: []*Ty{SliceOf(TInt)}, Variadic: true, Results: []*Ty{TBool}, Body: []*S{
			ret(bin("==", TBool, v("xs", SliceOf(TInt)), &E{K: "zero", Ty: SliceOf(TInt)}))}},
		&Func{Name: "setFirst", Params: []string{"k", "xs"}, PTypes: []*Ty{TInt, SliceOf(TInt)}, Variadic: true, Results: []*Ty{TInt}, Body: []*S{
			asg(&E{K: "index", Ty: TInt, X: v("xs", SliceOf(TInt)), I: lit(TInt, 0)}, v("k", TInt)), ret(lenOf(v("xs", SliceOf(TInt))))}},
		// a function literal with another number of results, then results forwarded from a call
		// a call as the post statement of a for loop drops its results like any call statement
		&Func{Name: "tick", Results: []*Ty{TInt}, Body: []*S{{K: "incdec", Lhs: []*E{{K: "var", Ty: TInt, Name: "Cnt", Global: true}}, D: 1}, ret(&E{K: "var", Ty: TInt, Name: "Cnt", Global: true})}},
		&Func{Name: "tick2", Results: []*Ty{TInt, TInt}, Body: []*S{{K: "incdec", Lhs: []*E{{K: "var", Ty: TInt, Name: "Cnt", Global: true}}, D: 1}, ret(&E{K: "var", Ty: TInt, Name: "Cnt", Global: true}, lit(TInt, 5))}},
		&Func{Name: "postLoop", Params: []string{"n"}, PTypes: []*Ty{TInt}, Results: []*Ty{TInt, TString}, Body: []*S{
			dcl("t", lit(TInt, 0)), asg(&E{K: "var", Ty: TInt, Name: "Cnt", Global: true}, lit(TInt, 0)),
			{K: "for", Semis: true, Cond: bin("<", TBool, &E{K: "var", Ty: TInt, Name: "Cnt", Global: true}, v("n", TInt)), Post: &S{K: "expr", NRes: 1, E: call("tick", nil, 0)},
				Body: []*S{{K: "opassign", Lhs: []*E{v("t", TInt)}, Op: "+", E: lit(TInt, 10)}}},
			{K: "for", Init: &S{K: "expr", NRes: 2, E: call("tick2", nil, 0)}, Cond: bin("<", TBool, &E{K: "var", Ty: TInt, Name: "Cnt", Global: true}, bin("+", TInt, v("n", TInt), lit(TInt, 3))), Post: &S{K: "expr", NRes: 2, E: call("tick2", nil, 0)},
				Body: []*S{{K: "opassign", Lhs: []*E{v("t", TInt)}, Op: "+", E: lit(TInt, 1)}}},
			ret(v("t", TInt), sS("done"))}},
		&Func{Name: "dropper", Params: []string{"n"}, PTypes: []*Ty{TInt}, Results: []*Ty{TInt}, Body: []*S{
			dcl("k", lit(TInt, 42)), {K: "expr", NRes: 2, E: call("two", nil, 0, v("n", TInt))}, {K: "expr", NRes: 2, E: call("two", nil, 0, v("k", TInt))}, ret(v("k", TInt))}},
		&Func{Name: "two", Params: []string{"a"}, PTypes: []*Ty{TInt}, Results: []*Ty{TInt, TInt}, Body: []*S{ret(v("a", TInt), bin("+", TInt, v("a", TInt), lit(TInt, 1)))}},
		&Func{Name: "afterLit", Params: []string{"n"}, PTypes: []*Ty{TInt}, Results: []*Ty{TInt, TInt}, Body: []*S{
			dcl("sq", &E{K: "funclit", Ty: FuncTy(&FuncSig{Params: []*Ty{TInt}, Results: []*Ty{TInt}}), Fn: "c09lit1", Lit: c09Lit1}),
			{K: "return", NRes: 2, Exprs: []*E{call("two", nil, 2, &E{K: "callv", Ty: TInt, NRes: 1, X: v("sq", FuncTy(&FuncSig{Params: []*Ty{TInt}, Results: []*Ty{TInt}})), Args: []*E{v("n", TInt)}})}}}},
		&Func{Name: "spread", Params: []string{"xs"}, PTypes: []*Ty{SliceOf(tCs)}, Variadic: true, Results: []*Ty{tCs}, Body: []*S{
			ret(bin("+", tCs, &E{K: "index", Ty: tCs, X: v("xs", SliceOf(tCs)), I: lit(TInt, 0)}, &E{K: "index", Ty: tCs, X: v("xs", SliceOf(tCs)), I: lit(TInt, 1)}))}},
	)
	body := []*S{
		pr(sS("twice"), call("twice", tLv, 1, lit(tLv, 100)), call("twice", tLv, 1, call("keep", tLv, 1, lit(tLv, 70)))),
		pr(sS("mix"), call("mix", tCs, 1, lit(tCs, 200), sS("x"), lit(tCs, 100))),
		{K: "decl", Names: []string{"c", "l"}, Exprs: []*E{call("pair", nil, 2, lit(TInt, 1))}},
		{K: "opassign", Lhs: []*E{v("c", tCs)}, Op: "+", E: lit(tCs, 100)},
		{K: "opassign", Lhs: []*E{v("l", tLv)}, Op: "+", E: lit(tLv, 100)},
		pr(sS("pair"), v("c", tCs), v("l", tLv)),
		{K: "decl", Names: []string{"c2", "l2"}, Exprs: []*E{call("viaPair", nil, 2, lit(TInt, 1))}},
		{K: "opassign", Lhs: []*E{v("c2", tCs)}, Op: "+", E: lit(tCs, 100)},
		{K: "opassign", Lhs: []*E{v("l2", tLv)}, Op: "+", E: lit(tLv, 100)},
		pr(sS("viaPair"), v("c2", tCs), v("l2", tLv)),
		dcl("x", call("none", tLi, 1, lit(TInt, 1))),
		pr(sS("none"), call("count", TInt, 1, v("x", tLi)), call("count", TInt, 1, &E{K: "zero", Ty: tLi})),
		asg(v("x", tLi), &E{K: "append", Ty: tLi, X: v("x", tLi), Args: []*E{lit(TInt, 5)}}),
		pr(sS("appended"), lenOf(v("x", tLi)), &E{K: "index", Ty: TInt, X: v("x", tLi), I: lit(TInt, 0)}),
		pr(sS("spread"), call("spread", tCs, 1, lit(tCs, 200), lit(tCs, 100))),
		pr(sS("blank"), call("blank", TInt, 1, lit(TInt, 1), sS("s"), lit(TInt, 21), lit(TInt, 4)), call("blank2", TInt, 1, lit(TInt, 4), lit(TInt, 5))),
		dcl("sp", &E{K: "slicelit", Ty: SliceOf(TInt), Args: []*E{lit(TInt, 1), lit(TInt, 2), lit(TInt, 3)}}),
		{K: "expr", E: &E{K: "call", Fn: "zero", NRes: 0, Args: []*E{v("sp", SliceOf(TInt))}, Spread: true}},
		pr(sS("zeroed"), &E{K: "index", Ty: TInt, X: v("sp", SliceOf(TInt)), I: lit(TInt, 0)}, &E{K: "index", Ty: TInt, X: v("sp", SliceOf(TInt)), I: lit(TInt, 2)}),
		pr(sS("setFirst"), &E{K: "call", Fn: "setFirst", Ty: TInt, NRes: 1, Args: []*E{lit(TInt, 9), v("sp", SliceOf(TInt))}, Spread: true}, &E{K: "index", Ty: TInt, X: v("sp", SliceOf(TInt)), I: lit(TInt, 0)}),
		dcl("em", &E{K: "slicelit", Ty: SliceOf(TInt)}),
		pr(sS("isnil"), &E{K: "call", Fn: "isnil", Ty: TBool, NRes: 1, Args: []*E{v("em", SliceOf(TInt))}, Spread: true}, &E{K: "call", Fn: "isnil", Ty: TBool, NRes: 1}),
		// calls whose results (two, one) are dropped: statements of their own, before other statements of the function
		{K: "expr", NRes: 2, E: call("two", nil, 0, lit(TInt, 1))},
		{K: "expr", NRes: 1, E: call("blank2", nil, 0, lit(TInt, 1), lit(TInt, 2))},
		{K: "expr", NRes: 2, E: call("afterLit", nil, 0, lit(TInt, 2))},
		{K: "decl", Names: []string{"r1", "r2"}, Exprs: []*E{call("afterLit", nil, 2, lit(TInt, 3))}},
		pr(sS("afterLit"), v("r1", TInt), v("r2", TInt)),
		pr(sS("dropper"), call("dropper", TInt, 1, lit(TInt, 5))),
		{K: "decl", Names: []string{"pt", "ps"}, Exprs: []*E{call("postLoop", nil, 2, lit(TInt, 3))}},
		pr(sS("postLoop"), v("pt", TInt), v("ps", TString)),
	}
	p.Funcs = append(p.Funcs, &Func{Name: "Main", Body: body})
	p.Lits = append(p.Lits, c09Lit1)
	if split {
		p.Split = &pkgSplit{lib: map[string]bool{"Lv": true, "Cs": true, "Li": true, "keep": true}, vars: map[string]bool{}, path: "app/lib"}
	}
	return p
}
