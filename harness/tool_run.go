package main

import (
	"fmt"
	"os"
)

// `vcheck run <file.go>`: developer tool, runs a single-file package main and calls main.Main with
// the optimizer on and off.
func init() {
	register("run", func(c *Ctx) {
		path := os.Args[2]
		b, err := os.ReadFile(path)
		must(err)
		for _, opt := range []bool{true, false} {
			r := runMain(string(b), opt)
			fmt.Printf("--- optimize=%v\n%s", opt, r.Stdout)
			if r.Failed() {
				fmt.Printf("ERROR: %s\n", r.ErrString())
			}
		}
		c.cleanup()
		os.Exit(0)
	})
}
