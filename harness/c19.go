package main

import (
	"bytes"
	"encoding/json"
	"fmt"
	"io"
	"math"
	"math/rand"
	"sort"
	"strings"
	"testing/fstest"

	goat "github.com/philhassey/goatlang"
)

// C19 — the embedding API passes values faithfully in both directions.
//
// M1/M2: Embed.tla (native call protocol on an abstract operand stack) is model-checked exhaustively
//        over form x arity x produced x requested x operands-below x raise x spread; every completed
//        case is emitted and replayed on the real package in every context that can express it
//        (statement, single value, multi-assign, inside an arithmetic expression with other operands
//        on the stack, argument of a script function / of another native, inside a loop, host-side
//        Func and Call with a requested result count).
// M3:    constructor/accessor round trips (boundaries + seeded random) as table lines validated by
//        TLC against FixedWidth.Conv; strings (arbitrary bytes), float64 bit patterns and bools as
//        identity lines (Trace_Values).

func init() { register("C19", checkC19) }

type embedRec struct {
	Form    string  `json:"form"`
	Argc    int     `json:"argc"`
	Nargs   int     `json:"nargs"`
	Spread  bool    `json:"spread"`
	Prod    int     `json:"prod"`
	Req     int     `json:"req"`
	Below   int     `json:"below"`
	Raise   bool    `json:"raise"`
	Fixed   []int64 `json:"fixed"`
	Tail    []int64 `json:"tail"`
	Outcome string  `json:"outcome"`
	Stack   []int64 `json:"stack"`
}

type nativeLog struct {
	calls [][2][]string // per invocation: descriptors of the fixed args and of the variadic tail
}

// argument value profiles: the abstract argument Arg(k) = 100+k of Embed.tla is realised as
//
//	profile 0: the int 100+k;  profile 1: nil;  profile 2: a kind chosen by position
var c19Profile = 0

func argKind(k int) string {
	switch c19Profile {
	case 0:
		return "int"
	case 1:
		return "nil"
	}
	return []string{"nil", "string", "int", "float", "slice", "int"}[k%6]
}

func argDesc(k int64) string {
	id := int(k)
	switch argKind(id - 100) {
	case "nil":
		return "nil"
	case "string":
		return fmt.Sprintf("string:s%d", id)
	case "float":
		return fmt.Sprintf("float64:%d.5", id)
	case "slice":
		return fmt.Sprintf("[]:[%d]", id)
	}
	return fmt.Sprintf("int32:%d", id)
}

func argLit(id int) string {
	switch argKind(id - 100) {
	case "nil":
		return "nil"
	case "string":
		return fmt.Sprintf("\"s%d\"", id)
	case "float":
		return fmt.Sprintf("%d.5", id)
	case "slice":
		return fmt.Sprintf("[]int{%d}", id)
	}
	return fmt.Sprint(id)
}

func argValue(id int) goat.Value {
	switch argKind(id - 100) {
	case "nil":
		return goat.Nil()
	case "string":
		return goat.String(fmt.Sprintf("s%d", id))
	case "float":
		return goat.Float64(float64(id) + 0.5)
	case "slice":
		return goat.NewSlice(goat.TypeInt32, []goat.Value{goat.Int(id)})
	}
	return goat.Int(id)
}

func descValue(v goat.Value) string {
	switch {
	case v.Type() == goat.TypeNil:
		return "nil"
	case v.Type() == goat.TypeString:
		return "string:" + v.String()
	case v.Type() == goat.TypeFloat64:
		return "float64:" + v.String()
	case v.Type() == goat.TypeSlice:
		return "[]:" + v.String()
	case v.Type() == goat.TypeInt32 || v.Type() == goat.Type(1):
		// an integer constant written at the call site reaches a native untyped (Type 1); the property
		// speaks about the argument VALUES, so both spellings count as the integer
		return "int32:" + v.String()
	}
	return fmt.Sprintf("type%d:%s", v.Type(), v.String())
}

func valsToDescs(vs []goat.Value) []string {
	out := make([]string, len(vs))
	for i, v := range vs {
		out[i] = descValue(v)
	}
	return out
}

func idsToDescs(ids []int64) []string {
	out := make([]string, len(ids))
	for i, k := range ids {
		out[i] = argDesc(k)
	}
	return out
}

// c19Alias selects how natives with a result list build it: 0 a fresh slice, 1 in place in the
// leading argument slots (the returned slice aliases args), 2 in place in the trailing argument slots.
// A native may legitimately reuse its argument buffer; the results must arrive all the same.
var c19Alias int

func mkNative(e embedRec, lg *nativeLog) goat.Value {
	alias := c19Alias
	resultsIn := func(args []goat.Value) []goat.Value {
		rs := make([]goat.Value, e.Prod)
		if alias == 1 && e.Prod > 0 && e.Prod <= len(args) {
			rs = args[:e.Prod]
		} else if alias == 2 && e.Prod > 0 && e.Prod <= len(args) {
			rs = args[len(args)-e.Prod:]
		}
		for i := range rs {
			rs[i] = goat.Int(200 + i + 1)
		}
		return rs
	}
	results := func() []goat.Value { return resultsIn(nil) }
	_ = results
	rec := func(fixed, tail []goat.Value) {
		lg.calls = append(lg.calls, [2][]string{valsToDescs(fixed), valsToDescs(tail)})
		if e.Raise {
			panic("boom from native")
		}
	}
	switch e.Form {
	case "0to0":
		return goat.NewFunc(0, 0, func(vm *goat.VM) { rec(nil, nil) })
	case "0to1":
		return goat.NewFunc(0, 1, func(vm *goat.VM) goat.Value { rec(nil, nil); return goat.Int(201) })
	case "Nto0":
		return goat.NewFunc(e.Argc, 0, func(vm *goat.VM, args []goat.Value) { rec(args, nil) })
	case "Nto1":
		return goat.NewFunc(e.Argc, 1, func(vm *goat.VM, args []goat.Value) goat.Value { rec(args, nil); return goat.Int(201) })
	case "NtoM":
		return goat.NewFunc(e.Argc, e.Prod, func(vm *goat.VM, args []goat.Value) []goat.Value { rec(args, nil); return resultsIn(args) })
	case "NVtoM":
		return goat.NewFunc(e.Argc+1, e.Prod, func(vm *goat.VM, args []goat.Value, vargs ...goat.Value) []goat.Value {
			rec(args, vargs)
			return resultsIn(args)
		})
	}
	panic("form")
}

func argList(e embedRec) string {
	var a []string
	if e.Spread {
		for i := 1; i <= e.Argc; i++ {
			a = append(a, argLit(100+i))
		}
		var t []string
		for i := e.Argc + 1; i <= e.Nargs; i++ {
			t = append(t, argLit(100+i))
		}
		a = append(a, "[]any{"+strings.Join(t, ", ")+"}...")
	} else {
		for i := 1; i <= e.Nargs; i++ {
			a = append(a, argLit(100+i))
		}
	}
	return strings.Join(a, ", ")
}

type c19Ctx struct {
	name string
	// applicable reports whether the context can express the case
	applicable func(e embedRec) bool
	// script returns Eval source; calls = how many times the native is invoked when all goes well
	script func(e embedRec) (src string, calls int)
	// expect computes the expected printed line from the specification's final stack
	expect func(e embedRec) string
}

func sumInts(xs []int64) int64 {
	var s int64
	for _, x := range xs {
		s += x
	}
	return s
}

func lhs(n int) string {
	var v []string
	for i := 1; i <= n; i++ {
		v = append(v, fmt.Sprintf("r%d", i))
	}
	return strings.Join(v, ", ")
}

var c19Contexts = []c19Ctx{
	{"statement", func(e embedRec) bool { return e.Req == 0 && e.Below == 0 },
		func(e embedRec) (string, int) {
			return fmt.Sprintf("import \"host\"\nhost.N(%s)\nprintln(\"RES\")", argList(e)), 1
		},
		func(e embedRec) string { return "RES" }},
	{"assign", func(e embedRec) bool { return e.Req >= 1 && e.Below == 0 },
		func(e embedRec) (string, int) {
			return fmt.Sprintf("import \"host\"\n%s := host.N(%s)\nprintln(\"RES\", %s)", lhs(e.Req), argList(e), lhs(e.Req)), 1
		},
		func(e embedRec) string {
			s := "RES"
			for _, v := range e.Stack {
				s += " " + fmt.Sprint(v)
			}
			return s
		}},
	{"in-expression", func(e embedRec) bool { return e.Req == 1 && e.Below >= 1 },
		func(e embedRec) (string, int) {
			expr := fmt.Sprintf("host.N(%s)", argList(e))
			for i := e.Below; i >= 1; i-- {
				expr = fmt.Sprintf("(%d + %s)", 10+i, expr)
			}
			return fmt.Sprintf("import \"host\"\nr := %s\nprintln(\"RES\", r)", expr), 1
		},
		func(e embedRec) string { return "RES " + fmt.Sprint(sumInts(e.Stack)) }},
	{"arg-of-script-func", func(e embedRec) bool { return e.Req == 1 && e.Below == 0 },
		func(e embedRec) (string, int) {
			return fmt.Sprintf("import \"host\"\nfunc pair(a int, b int) int { return a*1000 + b }\nr := pair(host.N(%s), 7)\nprintln(\"RES\", r)", argList(e)), 1
		},
		func(e embedRec) string { return "RES " + fmt.Sprint(e.Stack[0]*1000+7) }},
	{"arg-of-native", func(e embedRec) bool { return e.Req == 1 && e.Below == 0 },
		func(e embedRec) (string, int) {
			return fmt.Sprintf("import \"host\"\nr := host.Pair(host.N(%s), 7)\nprintln(\"RES\", r)", argList(e)), 1
		},
		func(e embedRec) string { return "RES " + fmt.Sprint(e.Stack[0]*1000+7) }},
	{"in-loop", func(e embedRec) bool { return e.Req == 1 && e.Below == 0 },
		func(e embedRec) (string, int) {
			return fmt.Sprintf("import \"host\"\nfunc loop() int {\n\ts := 0\n\tfor i := 0; i < 3; i++ {\n\t\ts += host.N(%s)\n\t}\n\treturn s\n}\nr := loop()\nprintln(\"RES\", r)", argList(e)), 3
		},
		func(e embedRec) string { return "RES " + fmt.Sprint(e.Stack[0]*3) }},
	{"return-from-wrapper", func(e embedRec) bool { return e.Req >= 1 && e.Below == 0 },
		func(e embedRec) (string, int) {
			// the native call is the sole operand of a return: it is asked for as many results as the wrapper declares
			rt := "int"
			if e.Req > 1 {
				rt = "(" + strings.TrimSuffix(strings.Repeat("int, ", e.Req), ", ") + ")"
			}
			return fmt.Sprintf("import \"host\"\nfunc w() %s {\n\treturn host.N(%s)\n}\n%s := w()\nprintln(\"RES\", %s)", rt, argList(e), lhs(e.Req), lhs(e.Req)), 1
		},
		func(e embedRec) string {
			s := "RES"
			for _, v := range e.Stack {
				s += " " + fmt.Sprint(v)
			}
			return s
		}},
	{"local-in-func", func(e embedRec) bool { return e.Req >= 1 && e.Below == 0 },
		func(e embedRec) (string, int) {
			return fmt.Sprintf("import \"host\"\nfunc f() {\n\tk := 5\n\t%s := host.N(%s)\n\tprintln(\"RES\", %s, k)\n}\nf()", lhs(e.Req), argList(e), lhs(e.Req)), 1
		},
		func(e embedRec) string {
			s := "RES"
			for _, v := range e.Stack {
				s += " " + fmt.Sprint(v)
			}
			return s + " 5"
		}},
}

func checkC19(c *Ctx) {
	c.Rule = "cases = every (NewFunc form, declared arity 0..6, surplus variadic arguments 0..3, spread call or not, results produced 0..4, results requested 0..produced+1, operands below 0..2, native raises or not) enumerated by TLC from Embed.tla, each replayed in every context able to express it (8 script contexts incl. the native call as the sole operand of a return + host Func + host Call); re-entrant natives over several rounds on one VM; a failure family (9 ways a script function fails x 5 routes incl. nested re-entry through natives x Eval/Load); natives build their result list in a fresh slice or in place in their argument buffer (leading / trailing slots); plus constructor/accessor round trips over boundary and seeded random scalars; distinct_nontrivial = replayed (case, context) pairs with at least one argument or result"
	c.Assumptions = []string{"natives record copies of the arguments they were handed", "TLC evaluates Embed.tla / FixedWidth.tla as written"}
	dir := c.specWorkDir("mc")
	res := c.runTLC(dir, TLCOpts{Module: "Embed", Cfg: "MC_Embed.cfg", Workers: 8})
	var recs []embedRec
	for _, s := range res.Records["BEH"] {
		var e embedRec
		if err := json.Unmarshal([]byte(s), &e); err != nil {
			fatalf("bad BEH record %q: %v", s, err)
		}
		recs = append(recs, e)
	}
	if len(recs) < 1000 {
		fatalf("Embed.tla emitted only %d cases", len(recs))
	}
	c.Extra["cases_from_tlc"] = len(recs)
	pair := goat.NewFunc(2, 1, func(vm *goat.VM, a []goat.Value) goat.Value { return goat.Int(a[0].Int()*1000 + a[1].Int()) })

	replay := func(e embedRec, ctxName string, run func(lg *nativeLog) (string, error, any), wantOut string, wantCalls int) {
		lg := &nativeLog{}
		out, err, pan := run(lg)
		c.Evaluations++
		if e.Nargs+e.Prod > 0 {
			c.DistinctCount++
		}
		key := fmt.Sprintf("%s|%d|%+v", ctxName, c19Profile, e)
		fail := func(what string) {
			c.violate(hashKey(key), fmt.Sprintf("native call %s form=%s argc=%d nargs=%d spread=%v produced=%d requested=%d below=%d raise=%v: %s", ctxName, e.Form, e.Argc, e.Nargs, e.Spread, e.Prod, e.Req, e.Below, e.Raise, what),
				map[string]any{"case": e, "context": ctxName, "stdout": out, "error": fmt.Sprint(err), "native_saw": lg.calls})
		}
		if pan != nil {
			fail(fmt.Sprintf("Go panic escaped: %v", pan))
			return
		}
		// the native must have seen exactly the pushed arguments (every time it ran)
		if len(lg.calls) == 0 {
			fail("the native was never invoked")
			return
		}
		for _, cl := range lg.calls {
			if !eqStrs(cl[0], idsToDescs(e.Fixed)) || !eqStrs(cl[1], idsToDescs(e.Tail)) {
				fail(fmt.Sprintf("native saw fixed=%v tail=%v, specification: fixed=%v tail=%v (profile %d)", cl[0], cl[1], idsToDescs(e.Fixed), idsToDescs(e.Tail), c19Profile))
				return
			}
		}
		if e.Outcome == "error" {
			if err == nil {
				fail("expected the outer call to fail (native raised / more results requested than produced), it succeeded with output " + strings.TrimSpace(out))
			} else if e.Raise && !strings.Contains(err.Error(), "boom from native") {
				fail("the error raised inside the native did not surface: " + firstLine(err.Error()))
			}
			return
		}
		if err != nil {
			fail("unexpected error: " + firstLine(err.Error()))
			return
		}
		if len(lg.calls) != wantCalls {
			fail(fmt.Sprintf("native invoked %d times, want %d", len(lg.calls), wantCalls))
			return
		}
		if strings.TrimSpace(out) != wantOut {
			fail(fmt.Sprintf("script observed %q, specification: %q", strings.TrimSpace(out), wantOut))
		}
	}

	sampled := 0
	for pi, e := range recs {
		e := e
		// argument kinds: every case with ints; nil-only and mixed kinds on every case with arguments
		profiles := []int{0}
		if e.Nargs > 0 && (!c.quick() || pi%2 == 0 || e.Form == "NVtoM") {
			profiles = []int{0, 1, 2}
		}
		for _, prof := range profiles {
			c19Profile = prof
			c19Alias = (pi + prof) % 3
			for _, cx := range c19Contexts {
				if !cx.applicable(e) {
					continue
				}
				src, calls := cx.script(e)
				want := ""
				if e.Outcome == "ok" {
					want = cx.expect(e)
				}
				if sampled < 3 && e.Nargs >= 2 && e.Prod >= 1 {
					c.sample(map[string]any{"case": e, "context": cx.name, "script": src})
					sampled++
				}
				replay(e, cx.name, func(lg *nativeLog) (out string, err error, pan any) {
					var buf bytes.Buffer
					vm := goat.New(goat.WithStdout(&buf))
					vm.Set("host.N", mkNative(e, lg))
					vm.Set("host.Pair", pair)
					goat.VerifSetBudget(100000)
					defer goat.VerifSetBudget(-1)
					defer func() {
						if r := recover(); r != nil {
							pan = r
						}
						out = buf.String()
					}()
					_, err = vm.Eval(fstest.MapFS{}, "c19.go", src)
					return
				}, want, calls)
			}
			if e.Below == 0 && !e.Spread {
				// host side: Func(native, req, args...) and Call of a registered name
				for _, via := range []string{"Func", "Call"} {
					via := via
					want := ""
					for _, v := range e.Stack {
						want += " " + fmt.Sprint(v)
					}
					replay(e, "host-"+via, func(lg *nativeLog) (out string, err error, pan any) {
						vm := goat.New(goat.WithStdout(&bytes.Buffer{}))
						n := mkNative(e, lg)
						vm.Set("host.N", n)
						args := make([]goat.Value, e.Nargs)
						for i := range args {
							args[i] = argValue(100 + i + 1)
						}
						defer func() {
							if r := recover(); r != nil {
								pan = r
							}
						}()
						var rets []goat.Value
						if via == "Func" {
							rets, err = vm.Func(n, e.Req, args...)
						} else {
							rets, err = vm.Call("host.N", e.Req, args...)
						}
						if err == nil {
							for _, v := range rets {
								out += " " + fmt.Sprint(v.Int())
							}
						}
						return
					}, strings.TrimSpace(want), 1)
				}
			}
		}
	}
	c19Profile = 0
	c.TracesVsImpl = c.Evaluations

	// nested re-entry: native A re-enters the VM (Func) -> script -> native B raises; the error must
	// surface as the error of the outermost call
	{
		var buf bytes.Buffer
		vm := goat.New(goat.WithStdout(&buf))
		vm.Set("host.B", goat.NewFunc(1, 1, func(vm *goat.VM, a []goat.Value) goat.Value { panic("boom from B") }))
		vm.Set("host.A", goat.NewFunc(1, 1, func(v2 *goat.VM, a []goat.Value) goat.Value {
			rets, err := vm.Func(a[0], 1, goat.Int(1))
			if err != nil {
				panic(err)
			}
			return rets[0]
		}))
		_, err := vm.Eval(fstest.MapFS{}, "nest.go", "import \"host\"\nfunc inner(x int) int { return host.B(x) }\nfunc outer() int { return host.A(inner) }\nr := outer()\nprintln(r)")
		c.Evaluations++
		if err == nil || !strings.Contains(err.Error(), "boom from B") {
			c.violate(hashKey("nested-raise"), fmt.Sprintf("error raised in a nested native call did not surface at the outer Eval: err=%v out=%q", err, buf.String()), map[string]any{"error": fmt.Sprint(err)})
		}
	}

	// failure family: script functions that fail in different ways (run-time faults, explicit panic,
	// declared results but no return on the path taken, wrong result count) x how they are reached
	// (host Call, host Func, nested through a native that re-enters with Func and hands the error on,
	// nested two levels deep, from top-level Eval code) x loaded by Eval / Load: every one must come
	// back as the error of the outermost call - never a Go panic, never a silent success
	{
		failing := []struct{ name, decl, marker string }{
			{"idx", "func idx(x int) int { xs := []int{1}; return xs[x+5] }", "index out of range"},
			{"div", "func div(x int) int { z := 0; return x / z }", "divide by zero"},
			{"boom", "func boom(x int) int { panic(\"boom in script\") }", "boom in script"},
			{"nilmap", "func nilmap(x int) int { var m map[int]int; m[x] = 1; return 1 }", ""},
			{"nilptr", "func nilptr(x int) int { var t *T; return t.X + x }", ""},
			{"noret", "func noret(x int) int { if x > 0 { return 1 } }", ""},
			{"noret2", "func noret2(x int) int { for i := 0; i < x; i++ { return i } }", ""},
			{"empty", "func empty(x int) int { }", ""},
			{"deep", "func deep(x int) int { if x > 3 { return idx(x) }; return deep(x + 1) }", "index out of range"},
		}
		var src strings.Builder
		src.WriteString("type T struct { X int }\n")
		for _, f := range failing {
			src.WriteString(f.decl + "\n")
		}
		src.WriteString("func ok(x int) int { return x + 1 }\n")
		mkVM := func(load bool) *goat.VM {
			vm := goat.New(goat.WithStdout(&bytes.Buffer{}))
			vm.Set("host.Apply", goat.NewFunc(2, 1, func(v2 *goat.VM, a []goat.Value) goat.Value {
				rets, err := v2.Func(a[0], 1, a[1])
				if err != nil {
					panic(err)
				}
				return rets[0]
			}))
			var err error
			if load {
				err = vm.Load(mapFS(map[string]string{"main/main.go": "package main\nimport \"host\"\n" + src.String() + "func via(f func(int) int, x int) int { return host.Apply(f, x) }\nfunc via2(f func(int) int, x int) int { return via(f, x) + host.Apply(ok, x) }\n"}), "main")
			} else {
				_, err = vm.Eval(fstest.MapFS{}, "fail.go", "import \"host\"\n"+src.String()+"func via(f func(int) int, x int) int { return host.Apply(f, x) }\nfunc via2(f func(int) int, x int) int { return via(f, x) + host.Apply(ok, x) }\n")
			}
			if err != nil {
				fatalf("the failure-family program does not load: %v", err)
			}
			return vm
		}
		for _, load := range []bool{false, true} {
			for _, f := range failing {
				for _, route := range []string{"Call", "Func", "nested", "nested2", "eval"} {
					if route == "eval" && load {
						continue
					}
					vm := mkVM(load)
					var err error
					var rets []goat.Value
					pan := ""
					func() {
						defer func() {
							if r := recover(); r != nil {
								pan = fmt.Sprint(r)
							}
						}()
						goat.VerifSetBudget(200000)
						defer goat.VerifSetBudget(-1)
						switch route {
						case "Call":
							rets, err = vm.Call("main."+f.name, 1, goat.Int(0))
						case "Func":
							rets, err = vm.Func(vm.Get("main."+f.name), 1, goat.Int(0))
						case "nested":
							rets, err = vm.Call("main.via", 1, vm.Get("main."+f.name), goat.Int(0))
						case "nested2":
							rets, err = vm.Call("main.via2", 1, vm.Get("main."+f.name), goat.Int(0))
						case "eval":
							rets, err = vm.Eval(fstest.MapFS{}, "top.go", "r := via("+f.name+", 0)\nr")
						}
					}()
					c.Evaluations++
					key := fmt.Sprintf("fail|%s|%s|%v", f.name, route, load)
					rp := map[string]any{"function": f.decl, "route": route, "loaded_with": map[bool]string{true: "Load", false: "Eval"}[load], "error": fmt.Sprint(err), "panic": pan}
					switch {
					case pan != "":
						c.violate(hashKey(key), fmt.Sprintf("failing script function %s reached through %s: a Go panic escaped instead of an error: %s", f.name, route, clip(pan, 200)), rp)
					case err == nil:
						c.violate(hashKey(key), fmt.Sprintf("failing script function %s reached through %s: no error surfaced (returned %v)", f.name, route, valsToDescs(rets)), rp)
					case f.marker != "" && !strings.Contains(err.Error(), f.marker):
						c.violate(hashKey(key), fmt.Sprintf("failing script function %s reached through %s: the surfaced error is not the nested call's (%q lacks %q)", f.name, route, firstLine(err.Error()), f.marker), rp)
					default:
						c.TracesVsImpl++
					}
					// the VM stays usable after the failure
					r2, e2 := vm.Call("main.ok", 1, goat.Int(41))
					if e2 != nil || len(r2) != 1 || r2[0].Int() != 42 {
						c.violate(hashKey(key+"|after"), fmt.Sprintf("after the failure of %s through %s the VM no longer runs a plain call: %v %v", f.name, route, valsToDescs(r2), e2), rp)
					}
				}
			}
		}
	}

	// re-entrancy and repeated use of one VM: natives that re-enter the VM they were registered on (the
	// callback's own VM argument, or the VM captured by the host closure), called in several rounds; the
	// results of an earlier Call stay what they were after later Calls
	{
		var vm *goat.VM
		mk := func(captured bool) *goat.VM {
			vm = goat.New(goat.WithStdout(&bytes.Buffer{}))
			vm.Set("host.Apply", goat.NewFunc(2, 1, func(v2 *goat.VM, a []goat.Value) goat.Value {
				target := v2
				if captured {
					target = vm
				}
				rets, err := target.Func(a[0], 1, a[1])
				if err != nil {
					panic(err)
				}
				return rets[0]
			}))
			_, err := vm.Eval(fstest.MapFS{}, "re.go", `import "host"
import "golang.org/x/exp/slices"
func sq(x int) int { return x * x }
func twice(f func(int) int, x int) int {
	a := x + 100
	r := host.Apply(f, x) + host.Apply(f, x+1)
	return r + a - a
}
func nest(x int) int { return twice(sq, x) + host.Apply(sq, x) }
func sorted(a, b, c int) int {
	xs := []int{a, b, c}
	slices.SortFunc(xs, func(p, q int) bool { return p < q })
	return xs[0]*100 + xs[1]*10 + xs[2]
}`)
			if err != nil {
				fatalf("the re-entrancy program does not load: %v", err)
			}
			return vm
		}
		for _, captured := range []bool{false, true} {
			mk(captured)
			var kept [][]goat.Value
			var keptWant []int
			for round := 0; round < 4; round++ {
				x := round + 2
				steps := []struct {
					name string
					args []goat.Value
					want int
				}{
					{"main.twice", []goat.Value{vm.Get("main.sq"), goat.Int(x)}, x*x + (x+1)*(x+1)},
					{"main.nest", []goat.Value{goat.Int(x)}, x*x + (x+1)*(x+1) + x*x},
					{"main.sorted", []goat.Value{goat.Int(3), goat.Int(round % 3), goat.Int(2)}, func() int {
						v := []int{3, round % 3, 2}
						sort.Ints(v)
						return v[0]*100 + v[1]*10 + v[2]
					}()},
					{"main.sq", []goat.Value{goat.Int(x + 10)}, (x + 10) * (x + 10)},
				}
				for _, st := range steps {
					var rets []goat.Value
					var err error
					pan := ""
					func() {
						defer func() {
							if r := recover(); r != nil {
								pan = fmt.Sprint(r)
							}
						}()
						goat.VerifSetBudget(200000)
						defer goat.VerifSetBudget(-1)
						rets, err = vm.Call(st.name, 1, st.args...)
					}()
					c.Evaluations++
					key := fmt.Sprintf("reenter|%v|%s", captured, st.name)
					rp := map[string]any{"captured_vm": captured, "round": round + 1, "call": st.name, "error": fmt.Sprint(err), "panic": pan}
					switch {
					case pan != "":
						c.violate(hashKey(key), fmt.Sprintf("round %d, %s: a Go panic escaped: %s", round+1, st.name, clip(pan, 200)), rp)
					case err != nil:
						c.violate(hashKey(key), fmt.Sprintf("round %d, %s (native re-enters the %s VM): %s", round+1, st.name, map[bool]string{true: "captured", false: "callback's"}[captured], firstLine(err.Error())), rp)
					case len(rets) != 1 || rets[0].Int() != st.want:
						c.violate(hashKey(key), fmt.Sprintf("round %d, %s returned %v, want %d", round+1, st.name, valsToDescs(rets), st.want), rp)
					default:
						c.TracesVsImpl++
						kept = append(kept, rets)
						keptWant = append(keptWant, st.want)
					}
				}
			}
			for i, rs := range kept {
				if rs[0].Int() != keptWant[i] {
					c.violate(hashKey(fmt.Sprintf("kept|%v", captured)), fmt.Sprintf("the result slice returned by an earlier Call changed after later Calls on the same VM: %d became %d", keptWant[i], rs[0].Int()), map[string]any{"index": i})
					break
				}
			}
		}
	}

	c19RoundTrips(c)
}

func eqStrs(a, b []string) bool {
	if len(a) != len(b) {
		return false
	}
	for i := range a {
		if a[i] != b[i] {
			return false
		}
	}
	return true
}

func eqInts(a, b []int64) bool {
	if len(a) != len(b) {
		return false
	}
	for i := range a {
		if a[i] != b[i] {
			return false
		}
	}
	return true
}

func c19RoundTrips(c *Ctx) {
	r := rand.New(rand.NewSource(c.Seed))
	n := c.pick(2000, 200000)
	var lines []map[string]any
	mk := func(t, to, pos string, ys, res []int64) {
		lines = append(lines, map[string]any{"t": t, "op": "conv", "pos": pos, "to": to, "fixed": "b", "x": 0, "ys": ys, "res": res, "pan": []int{}, "rt": to, "src": "goat", "fn": pos, "op1": "+", "op2": "+", "z": 0})
	}
	i32 := []int64{0, 1, -1, 127, 128, -128, -129, 255, 256, 32767, 65535, 65536, 2147483647, -2147483648, -2147483647, 1073741824}
	u32 := []int64{0, 1, 255, 256, 65535, 65536, 2147483647, 2147483648, 2147483649, 4294967295, 4294967294, 3000000000}
	for i := 0; i < n; i++ {
		i32 = append(i32, int64(int32(r.Uint32())))
		u32 = append(u32, int64(r.Uint32()))
	}
	chunk := func(xs []int64, f func(part []int64)) {
		for i := 0; i < len(xs); i += 200 {
			j := i + 200
			if j > len(xs) {
				j = len(xs)
			}
			f(xs[i:j])
		}
	}
	pat := func(xs []int64) []int64 {
		o := make([]int64, len(xs))
		for i, x := range xs {
			o[i] = int64(int32(uint32(x)))
		}
		return o
	}
	chunk(i32, func(p []int64) {
		a, b, d := make([]int64, len(p)), make([]int64, len(p)), make([]int64, len(p))
		for i, x := range p {
			a[i] = int64(goat.Int(int(x)).Int())
			b[i] = int64(goat.Int32(int32(x)).Int32())
			d[i] = int64(goat.Int(int(x)).Int32())
			c.Evaluations += 3
		}
		mk("int32", "int32", "Int.Int", p, a)
		mk("int32", "int32", "Int32.Int32", p, b)
		mk("int32", "int32", "Int.Int32", p, d)
	})
	chunk(u32, func(p []int64) {
		a, b, d := make([]int64, len(p)), make([]int64, len(p)), make([]int64, len(p))
		for i, x := range p {
			a[i] = int64(int32(uint32(goat.Uint(uint(x)).Uint())))
			if goat.Uint(uint(x)).Uint() != uint(x) {
				a[i] = a[i] ^ 1 // the accessor returned something outside the uint32 domain: make the line disagree
			}
			b[i] = int64(int32(goat.Uint32(uint32(x)).Uint32()))
			d[i] = int64(int32(goat.Uint(uint(x)).Uint32()))
			c.Evaluations += 3
		}
		mk("uint32", "uint32", "Uint.Uint", pat(p), a)
		mk("uint32", "uint32", "Uint32.Uint32", pat(p), b)
		mk("uint32", "uint32", "Uint.Uint32", pat(p), d)
	})
	var i8, u8 []int64
	for v := int64(-128); v <= 127; v++ {
		i8 = append(i8, v)
	}
	for v := int64(0); v <= 255; v++ {
		u8 = append(u8, v)
	}
	{
		a, b := make([]int64, len(i8)), make([]int64, len(i8))
		for i, x := range i8 {
			a[i] = int64(goat.Int8(int8(x)).Int8())
			b[i] = int64(goat.Int8(int8(x)).Int())
		}
		mk("int8", "int8", "Int8.Int8", i8, a)
		mk("int8", "int32", "Int8.Int", i8, b)
		a2, b2, d2 := make([]int64, len(u8)), make([]int64, len(u8)), make([]int64, len(u8))
		for i, x := range u8 {
			a2[i] = int64(goat.Uint8(uint8(x)).Uint8())
			b2[i] = int64(goat.Byte(byte(x)).Byte())
			d2[i] = int64(goat.Byte(byte(x)).Int())
		}
		mk("uint8", "uint8", "Uint8.Uint8", u8, a2)
		mk("uint8", "uint8", "Byte.Byte", u8, b2)
		mk("uint8", "int32", "Byte.Int", u8, d2)
		c.Evaluations += 5 * 256
	}
	bad := classifySharded(c, "Trace_FixedWidth", "Trace_FixedWidth.cfg", lines, c.Workers)
	seen := map[string]bool{}
	for _, idx := range bad {
		l := lines[idx]
		pos := l["pos"].(string)
		if seen[pos] {
			continue
		}
		seen[pos] = true
		c.violate(hashKey("roundtrip|"+pos), fmt.Sprintf("constructor/accessor round trip %s does not return the value it was given (first values %v -> %v)", pos, headInts(l["ys"].([]int64)), headInts(l["res"].([]int64))), map[string]any{"line": l})
	}
	c.TracesVsImpl += int64(len(lines) - len(bad))

	// identity lines: strings (arbitrary bytes), float64 bit patterns, bools, nil, containers
	var ids []map[string]any
	strs := []string{"", "a", "héllo", "\x00", "\xff\xfe", "a\x00b", strings.Repeat("x", 300), "\xe2\x82", "日本語"}
	for i := 0; i < c.pick(200, 20000); i++ {
		b := make([]byte, r.Intn(12))
		r.Read(b)
		strs = append(strs, string(b))
	}
	for _, s := range strs {
		got := goat.String(s).String()
		ids = append(ids, map[string]any{"kind": "String.String", "x": bytesToInts(s), "got": bytesToInts(got)})
		c.Evaluations++
	}
	fl := []float64{0, math.Copysign(0, -1), 1, -1, 0.5, 1e300, -1e-300, math.MaxFloat64, math.SmallestNonzeroFloat64, math.Inf(1), math.Inf(-1), math.NaN(), 1 << 53, 1<<53 + 2, 0.1, 3.141592653589793}
	for i := 0; i < c.pick(200, 20000); i++ {
		fl = append(fl, math.Float64frombits(r.Uint64()))
	}
	for _, f := range fl {
		got := goat.Float64(f).Float64()
		ids = append(ids, map[string]any{"kind": "Float64.Float64", "x": floatBits(f), "got": floatBits(got)})
		c.Evaluations++
	}
	for _, b := range []bool{true, false} {
		ids = append(ids, map[string]any{"kind": "Bool.Bool", "x": []int64{b2i(b)}, "got": []int64{b2i(goat.Bool(b).Bool())}})
	}
	ids = append(ids, map[string]any{"kind": "Nil.IsNil", "x": []int64{1}, "got": []int64{b2i(goat.Nil().IsNil())}})
	// slices and maps built host-side read back element by element
	for i := 0; i < 50; i++ {
		nel := r.Intn(20)
		vals := make([]goat.Value, nel)
		want := make([]int64, nel)
		for j := range vals {
			want[j] = int64(int32(r.Uint32()))
			vals[j] = goat.Int32(int32(want[j]))
		}
		s := goat.NewSlice(goat.TypeInt32, vals)
		got := make([]int64, 0, nel)
		for j := 0; j < s.Len(); j++ {
			v, _ := s.Get(goat.Int(j))
			got = append(got, int64(v.Int32()))
		}
		ids = append(ids, map[string]any{"kind": "NewSlice.Get", "x": want, "got": got})
	}
	// host objects: Wrap / Unwrap give back the very object; Unwrap of a value that is not a host object is nil;
	// a wrapped object passed through script code (parameter, result, slice element, struct field) is still that object
	{
		type hostObj struct {
			goat.Object
			tag int
		}
		o1, o2 := &hostObj{tag: 1}, &hostObj{tag: 2}
		w1, w2 := goat.Wrap(o1), goat.Wrap(o2)
		same := func(v goat.Value, o *hostObj) int64 { u, ok := v.Unwrap().(*hostObj); return b2i(ok && u == o) }
		ids = append(ids, map[string]any{"kind": "Wrap.Unwrap", "x": []int64{1, 1, 0}, "got": []int64{same(w1, o1), same(w2, o2), same(w1, o2)}})
		ids = append(ids, map[string]any{"kind": "Unwrap.nonobject", "x": []int64{1, 1, 1}, "got": []int64{b2i(goat.Int(3).Unwrap() == nil), b2i(goat.String("s").Unwrap() == nil), b2i(goat.Nil().Unwrap() == nil)}})
		// loaders given to New run before any script and may register natives and values
		loaded := 0
		vm := goat.New(goat.WithStdout(io.Discard), goat.WithLoaders(func(vm *goat.VM) {
			loaded++
			vm.Set("host.Obj", w1)
			vm.Set("host.Pick", goat.NewFunc(2, 1, func(vm *goat.VM, args []goat.Value) goat.Value {
				if args[0].Bool() {
					return w1
				}
				return w2
			}))
		}, func(vm *goat.VM) { loaded += 10 }))
		goat.VerifSetBudget(100000)
		rets, err := vm.Eval(fstest.MapFS{}, "w.go", "package main\nimport \"host\"\ntype B struct { O any }\nfunc Thru(x any) any { b := &B{O: x}; s := []any{b.O}; return s[0] }\nfunc Use() (any, any) { return Thru(host.Pick(false, 0)), Thru(host.Obj) }\n")
		_ = rets
		var got []int64
		if err == nil {
			for _, w := range []goat.Value{w1, w2} {
				r1, e := vm.Call("main.Thru", 1, w)
				if e != nil {
					err = e
					break
				}
				got = append(got, same(r1[0], o1), same(r1[0], o2))
			}
		}
		if err == nil {
			var r2 []goat.Value
			r2, err = vm.Call("main.Use", 2)
			if err == nil && len(r2) == 2 {
				got = append(got, same(r2[0], o2), same(r2[1], o1))
			}
		}
		goat.VerifSetBudget(-1)
		if err != nil {
			c.violate(hashKey("wrap-thru"), "a wrapped host object could not be passed through script code: "+firstLine(err.Error()), map[string]any{"error": err.Error()})
		} else {
			ids = append(ids, map[string]any{"kind": "Wrap.throughScript", "x": []int64{1, 0, 0, 1, 1, 1}, "got": got})
		}
		ids = append(ids, map[string]any{"kind": "WithLoaders.ran", "x": []int64{11}, "got": []int64{int64(loaded)}})
		// variadic methods reached through a LOCAL receiver (host object with a native variadic method; script struct with
		// a variadic method), called with 0, 1, 2 surplus arguments and in spread form
		{
			vo := &variadicObj{}
			vm2 := goat.New(goat.WithStdout(io.Discard))
			vm2.Set("main.HostObj", goat.Wrap(vo))
			goat.VerifSetBudget(200000)
			_, err := vm2.Eval(fstest.MapFS{}, "v.go", "package main\ntype R struct{ K int }\nfunc (r *R) Cat(p string, xs ...int) int {\n\tt := len(xs)*100 + len(p) + r.K\n\tfor _, x := range xs {\n\t\tt += x\n\t}\n\treturn t\n}\nfunc UseHost() (int, int, int, int) {\n\th := HostObj\n\tys := []int{4, 5}\n\treturn h.Sum(10), h.Sum(10, 1), h.Sum(10, 1, 2), h.Sum(10, ys...)\n}\nfunc UseScript(k int) (int, int, int, int) {\n\tr := &R{K: k}\n\tys := []int{4, 5}\n\treturn r.Cat(\"ab\"), r.Cat(\"ab\", 1), r.Cat(\"ab\", 1, 2), r.Cat(\"ab\", ys...)\n}\nfunc count(x float64) int { return 7 }\nfunc pair(a int) (float64, int) { return 1, 2 }\nfunc none(m map[string]int) []int { return nil }\nfunc mixed(s string, f float64, b uint8) (uint8, float64, int8) { return 200, 3, 100 }\n")
			var got []int64
			var tys []string
			if err == nil {
				for _, fn := range []string{"main.UseHost", "main.UseScript"} {
					var rets []goat.Value
					if fn == "main.UseHost" {
						rets, err = vm2.Call(fn, 4)
					} else {
						rets, err = vm2.Call(fn, 4, goat.Int(7))
					}
					if err != nil {
						break
					}
					for _, r := range rets {
						got = append(got, int64(r.Int()))
					}
				}
			}
			// results arrive with their DECLARED types (an untyped constant or nil in the return statement adopts the type of
			// the result at its position, whatever the parameter at that position is)
			if err == nil {
				calls := []struct {
					fn   string
					n    int
					args []goat.Value
				}{{"main.count", 1, []goat.Value{goat.Float64(2.5)}}, {"main.pair", 2, []goat.Value{goat.Int(1)}}, {"main.none", 1, []goat.Value{goat.NewMap(goat.TypeString, goat.TypeInt32, nil)}},
					{"main.mixed", 3, []goat.Value{goat.String("s"), goat.Float64(1.5), goat.Uint8(3)}}}
				for _, cl := range calls {
					var rets []goat.Value
					rets, err = vm2.Call(cl.fn, cl.n, cl.args...)
					if err != nil {
						break
					}
					for _, r := range rets {
						tys = append(tys, vm2.VerifTypeOf(r))
					}
				}
			}
			// parameters the script function does not name (blank) still take their argument; natives called as statements
			// of a switch clause (with and without results) leave nothing behind
			var misc []int64
			if err == nil {
				nlog := 0
				vm2.Set("main.note0", goat.NewFunc(1, 0, func(vm *goat.VM, args []goat.Value) { nlog += args[0].Int() }))
				vm2.Set("main.note1", goat.NewFunc(1, 1, func(vm *goat.VM, args []goat.Value) goat.Value { nlog += args[0].Int(); return goat.Int(1000 + args[0].Int()) }))
				_, err = vm2.Eval(fstest.MapFS{}, "misc.go", "func pick(_ string, _ int, v int, _ bool) int {\n\tw := v\n\treturn w\n}\nfunc pos(_, _ int, c int) int {\n\treturn c + 1\n}\nfunc inCase(k int) int {\n\tr := 7\n\tswitch k {\n\tcase 1:\n\t\tnote0(10)\n\tcase 2:\n\t\tnote1(20)\n\t\tnote0(1)\n\tdefault:\n\t\tnote1(30)\n\t}\n\treturn r + k\n}\n")
				for _, cl := range []struct {
					fn   string
					args []goat.Value
				}{{"main.pick", []goat.Value{goat.String("s"), goat.Int(7), goat.Int(42), goat.Bool(true)}}, {"main.pos", []goat.Value{goat.Int(11), goat.Int(12), goat.Int(13)}},
					{"main.inCase", []goat.Value{goat.Int(1)}}, {"main.inCase", []goat.Value{goat.Int(2)}}, {"main.inCase", []goat.Value{goat.Int(3)}}} {
					if err == nil {
						var rets []goat.Value
						rets, err = vm2.Call(cl.fn, 1, cl.args...)
						if err == nil {
							misc = append(misc, int64(rets[0].Int()))
						}
					}
				}
				misc = append(misc, int64(nlog))
			}
			if err == nil {
				ids = append(ids, map[string]any{"kind": "Call.blankParams+caseStatements", "x": []int64{42, 14, 8, 9, 10, 61}, "got": misc})
			}
			// the slice of parameters handed to Call belongs to the caller: it is neither changed nor retained (it has spare
			// capacity here, as a slice built by append usually has), and the results of one call survive the next call
			var clob []int64
			if err == nil {
				_, err = vm2.Eval(fstest.MapFS{}, "n.go", "func neg(a, b, c int) int { return -a }")
				args := make([]goat.Value, 0, 8)
				args = append(args, goat.Int(1), goat.Int(2), goat.Int(3))
				var r1, r2 []goat.Value
				if err == nil {
					r1, err = vm2.Call("main.neg", 1, args...)
				}
				if err == nil {
					r2, err = vm2.Call("main.neg", 1, args...)
				}
				if err == nil {
					clob = []int64{int64(args[0].Int()), int64(args[1].Int()), int64(args[2].Int()), int64(r1[0].Int()), int64(r2[0].Int())}
				}
			}
			// an error raised inside a script function that a native calls back (the comparator of slices.SortFunc /
			// SortStableFunc failing for ONE element) surfaces as the error of the outer call
			var sortErrs []int64
			if err == nil {
				_, err = vm2.Eval(fstest.MapFS{}, "srt.go", "import \"golang.org/x/exp/slices\"\nfunc lessBut3(a, b int) bool {\n\tif a == 3 || b == 3 {\n\t\tpanic(\"three\")\n\t}\n\treturn a < b\n}\nfunc sortA(pos int) int {\n\txs := []int{15, 11, 14, 10, 13, 12, 17, 16}\n\tif pos >= 0 {\n\t\txs[pos] = 3\n\t}\n\tslices.SortFunc(xs, lessBut3)\n\treturn xs[0]\n}\nfunc sortB(pos int) int {\n\txs := []int{15, 11, 14, 10, 13, 12, 17, 16}\n\tif pos >= 0 {\n\t\txs[pos] = 3\n\t}\n\tslices.SortStableFunc(xs, lessBut3)\n\treturn xs[0]\n}\n")
				// the failing element at every position of the slice (the failing comparison is then the first, a middle or
				// the last one the sort makes), and not at all
				for _, fn := range []string{"main.sortA", "main.sortB"} {
					for pos := -1; pos < 8; pos++ {
						if err == nil {
							_, e := vm2.Call(fn, 1, goat.Int(pos))
							sortErrs = append(sortErrs, b2i(e != nil))
						}
					}
				}
			}
			if err == nil {
				ids = append(ids, map[string]any{"kind": "Call.errorFromCallback", "x": []int64{0, 1, 1, 1, 1, 1, 1, 1, 1, 0, 1, 1, 1, 1, 1, 1, 1, 1}, "got": sortErrs})
			}
			// nil-ness of what a script hands to the host: nil slices, maps, references and functions are nil, made ones are not
			var nils []int64
			if err == nil {
				_, err = vm2.Eval(fstest.MapFS{}, "z.go", "type Z struct{ A int }\nfunc nils() ([]int, map[string]int, *Z, func(), any, error) { return nil, nil, nil, nil, nil, nil }\nfunc made() ([]int, map[string]int, *Z, func(), any) { return []int{}, map[string]int{}, &Z{}, func() {}, 0 }")
				for _, fn := range []string{"main.nils", "main.made"} {
					var rets []goat.Value
					n := 6
					if fn == "main.made" {
						n = 5
					}
					if err == nil {
						rets, err = vm2.Call(fn, n)
					}
					for _, r := range rets {
						nils = append(nils, b2i(r.IsNil()))
					}
				}
			}
			goat.VerifSetBudget(-1)
			if err == nil {
				ids = append(ids, map[string]any{"kind": "Call.IsNil", "x": []int64{1, 1, 1, 1, 1, 1, 0, 0, 0, 0, 0}, "got": nils})
			}
			if err == nil {
				ids = append(ids, map[string]any{"kind": "Call.paramsUntouched", "x": []int64{1, 2, 3, -1, -1}, "got": clob})
			}
			if err != nil {
				c.violate(hashKey("variadic-method-local"), "variadic method through a local receiver / typed results: "+firstLine(err.Error()), map[string]any{"error": err.Error()})
			} else {
				ids = append(ids, map[string]any{"kind": "VariadicMethod.localReceiver", "x": []int64{10, 1011, 2013, 2019, 9, 110, 212, 218}, "got": got})
				ids = append(ids, map[string]any{"kind": "Call.declaredResultTypes", "x": bytesToInts("int32 float64 int32 []int32 uint8 float64 int8"), "got": bytesToInts(strings.Join(tys, " "))})
			}
			c.Evaluations += 16
		}
		c.Evaluations += 8
	}
	badIDs := classifySharded(c, "Trace_Values", "Trace_Values.cfg", ids, 4)
	for _, idx := range badIDs {
		l := ids[idx]
		c.violate(hashKey(fmt.Sprint(l)), fmt.Sprintf("round trip %v changed the value: %v -> %v", l["kind"], l["x"], l["got"]), map[string]any{"line": l})
	}
	c.TracesVsImpl += int64(len(ids) - len(badIDs))
	// negative control
	nb := classifyFlatTrace(c, "Trace_Values", "Trace_Values.cfg", []map[string]any{{"kind": "String.String", "x": []int64{1, 2}, "got": []int64{1, 2}}, {"kind": "String.String", "x": []int64{1, 2}, "got": []int64{1, 3}}})
	if len(nb) != 1 || nb[0] != 1 {
		fatalf("negative control (altered string) not flagged: %v", nb)
	}
	c.Extra["negative_control"] = "an altered round-trip value was flagged by Trace_Values as expected"
}

func bytesToInts(s string) []int64 {
	o := make([]int64, len(s))
	for i := 0; i < len(s); i++ {
		o[i] = int64(s[i])
	}
	return o
}

func floatBits(f float64) []int64 {
	b := math.Float64bits(f)
	return []int64{int64(int32(uint32(b >> 32))), int64(int32(uint32(b)))}
}

// variadicObj: a host object whose method Sum is a native variadic function
type variadicObj struct{ goat.Object }

func (o *variadicObj) GetAttr(k string) goat.Value {
	if k != "Sum" {
		return goat.Nil()
	}
	return goat.NewFunc(2, 1, func(vm *goat.VM, args []goat.Value, vargs ...goat.Value) []goat.Value {
		t := args[0].Int() + 1000*len(vargs)
		for _, v := range vargs {
			t += v.Int()
		}
		return []goat.Value{goat.Int(t)}
	})
}
