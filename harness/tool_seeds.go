package main

import (
	"fmt"
	"os"
)

func init() {
	register("seeds", func(c *Ctx) {
		for i, s := range seedPrograms {
			r := runMain(s, true)
			r2 := runMain(s, false)
			fmt.Printf("=== seed %d err=%q same=%v\n%s", i, r.ErrString(), r.Stdout == r2.Stdout, r.Stdout)
		}
		c.cleanup()
		os.Exit(0)
	})
}
