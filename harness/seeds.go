package main

// Hand-written programs in the supported subset (valid Go with int = int32 semantics). They seed
// the mutation-based generators of C02, C03 and C07 and are themselves run by C01 (against the Go
// toolchain) and C02 (optimizer on/off).
var seedPrograms = []string{
	`package main

type Shape interface {
	Area() int
	Name() string
}

type Rect struct {
	W, H int
	Tag  string
}

func (r *Rect) Area() int    { return r.W * r.H }
func (r *Rect) Name() string { return "rect:" + r.Tag }

type Sq struct {
	S int
}

func (s *Sq) Area() int    { return s.S * s.S }
func (s *Sq) Name() string { return "sq" }

func total(shapes []Shape) int {
	t := 0
	for _, s := range shapes {
		t += s.Area()
	}
	return t
}

func fib(n int) int {
	if n < 2 {
		return n
	}
	return fib(n-1) + fib(n-2)
}

func sum(xs ...int) int {
	t := 0
	for _, x := range xs {
		t += x
	}
	return t
}

func divmod(a, b int) (int, int) {
	return a / b, a % b
}

func Main() {
	shapes := []Shape{&Rect{W: 2, H: 3, Tag: "a"}, &Sq{S: 4}}
	println(total(shapes))
	for i, s := range shapes {
		println(i, s.Name(), s.Area())
	}
	println(fib(15))
	println(sum(), sum(1), sum(1, 2, 3))
	xs := []int{4, 5, 6}
	println(sum(xs...))
	q, r := divmod(17, 5)
	println(q, r)
	m := map[string]int{}
	m["a"] = 1
	m["b"] += 2
	m["a"]++
	println(len(m), m["a"], m["b"], m["zz"])
	v, ok := m["zz"]
	println(v, ok)
	var b byte = 250
	for i := 0; i < 10; i++ {
		b++
	}
	println(b)
	x := 1<<10 - 1
	println(x, x>>3, x&0xf0, x|1024, x^5)
	s := "héllo"
	for i, c := range s {
		println(i, c)
	}
	println(len(s), s[1], s[2:4] == "\xa9l")
	f := sum
	println(f(7, 8))
	g := func(a int, b int) int { return a*b + 1 }
	println(g(3, 4))
}
`,
	`package main

type Node struct {
	Val  int
	Next *Node
}

type List struct {
	Head *Node
	N    int
}

func (l *List) Push(v int) {
	l.Head = &Node{Val: v, Next: l.Head}
	l.N++
}

func (l *List) Sum() int {
	t := 0
	for p := l.Head; p != nil; p = p.Next {
		t += p.Val
	}
	return t
}

func classify(n int) string {
	switch {
	case n < 0:
		return "neg"
	case n == 0:
		return "zero"
	case n < 10:
		return "small"
	}
	return "big"
}

func find(xs []int, x int) int {
	for i, v := range xs {
		if v == x {
			return i
		}
	}
	return -1
}

func collatz(n int) int {
	steps := 0
	for n != 1 {
		if n%2 == 0 {
			n = n / 2
		} else {
			n = 3*n + 1
		}
		steps++
		if steps > 1000 {
			break
		}
	}
	return steps
}

var counter int
var names = []string{"a", "b", "c"}

func bump() int {
	counter++
	return counter
}

func Main() {
	l := &List{}
	for i := 1; i <= 5; i++ {
		l.Push(i * i)
	}
	println(l.N, l.Sum())
	println(classify(-3), classify(0), classify(7), classify(70))
	xs := []int{3, 1, 4, 1, 5, 9, 2, 6}
	println(find(xs, 5), find(xs, 7))
	println(collatz(27))
	ys := xs[2:5]
	ys[0] = 40
	println(xs[2], len(ys))
	ys = append(ys, 99)
	println(xs[5], len(ys))
	zs := make([]int, 3)
	copy(zs, xs)
	println(zs[0], zs[1], zs[2])
	for i := 0; i < 3; i++ {
		switch i {
		case 0:
			println("zero")
		case 1:
			continue
		default:
			println("other", i)
		}
		println("after", i)
	}
	println(bump(), bump(), counter)
	for _, nm := range names {
		print(nm, " ")
	}
	println()
	grid := [][]int{{1, 2}, {3, 4}}
	t := 0
	for _, row := range grid {
		for _, c := range row {
			if c == 3 {
				continue
			}
			t += c
		}
	}
	println(t)
	var f float64 = 1.5
	f = f*2 + 0.25
	println(f, int(f), float64(7)/2)
	var u uint32 = 4000000000
	u += 500000000
	println(u)
	var i8 int8 = 127
	i8++
	println(i8)
}
`,
	`package main

import (
	"fmt"
	"strconv"
	"strings"
)

type Stack struct {
	items []int
}

func (s *Stack) Push(v int) { s.items = append(s.items, v) }
func (s *Stack) Pop() int {
	v := s.items[len(s.items)-1]
	s.items = s.items[:len(s.items)-1]
	return v
}
func (s *Stack) Len() int { return len(s.items) }

func eval(src string) int {
	st := &Stack{}
	for _, tok := range strings.Split(src, " ") {
		switch tok {
		case "+":
			b, a := st.Pop(), st.Pop()
			st.Push(a + b)
		case "*":
			b, a := st.Pop(), st.Pop()
			st.Push(a * b)
		case "-":
			b, a := st.Pop(), st.Pop()
			st.Push(a - b)
		default:
			n, _ := strconv.ParseInt(tok, 10, 32)
			st.Push(int(n))
		}
	}
	return st.Pop()
}

func words(s string) map[string]int {
	res := map[string]int{}
	for _, w := range strings.Split(s, " ") {
		if w == "" {
			continue
		}
		res[w]++
	}
	return res
}

func Main() {
	fmt.Println(eval("3 4 + 2 *"), eval("10 2 3 * -"))
	w := words("a b a c b a")
	fmt.Println(w["a"], w["b"], w["c"], len(w))
	fmt.Println(strings.Repeat("ab", 3), strings.Contains("hello", "ell"), strings.TrimSpace("  x "))
	fmt.Println(strconv.Itoa(42)+"!", strings.Join([]string{"x", "y"}, "-"))
	fmt.Println([]int{1, 2, 3}, []string{"a", "b"}, map[string]int{"k": 1})
	fmt.Println(1.5, 2.0, true, "s", 'x')
	var e []int
	fmt.Println(e, len(e))
	e = append(e, 1)
	fmt.Println(e)
	bs := []byte("hi")
	bs[0] = 'H'
	fmt.Println(string(bs), len(bs))
	fmt.Print("no newline")
	fmt.Println()
	fmt.Println(fmt.Sprint(12) + fmt.Sprint("x"))
}
`,
}

// seedSnippets are top-level statement sequences (Eval style: no package clause) that are valid
// Go statements; used where the property speaks about Eval.
var seedSnippets = []string{
	"a := 2; b := 3; c := a + b*4; c",
	"func sq(a int) int { return a*a }; x := sq(7); x",
	"x := 0; for i := 0; i < 5; i++ { x += i }; x",
	"m := map[string]int{\"a\": 1}; m[\"b\"] = 2; len(m)",
	"type T struct { X int }; t := &T{X: 4}; t.X++; t.X",
	"s := []int{1,2,3}; s = append(s, 4); len(s)",
	"var b byte = 255; b++; b",
	"x := 10; if x > 5 { x = 1 } else { x = 2 }; x",
	// container histories followed by every operation that walks the container inside ONE native call
	"m := map[string]int{\"a\": 1, \"b\": 2, \"c\": 3}; delete(m, \"a\"); n := 0; for k, v := range m { n += v + len(k) }; n",
	"m := map[string]int{\"a\": 1, \"b\": 2, \"c\": 3}; for k := range m { delete(m, \"c\"); delete(m, k) }; len(m)",
	"m := map[int]string{1: \"a\", 2: \"b\", 3: \"c\"}; delete(m, 2); t := \"\"; for _, v := range m { t += v }; len(t)",
	"import \"golang.org/x/exp/maps\"; m := map[string]int{\"a\": 1, \"b\": 2, \"c\": 3}; delete(m, \"b\"); k := maps.Keys(m); c := maps.Clone(m); len(k) + len(c)",
	"import \"golang.org/x/exp/maps\"; m := map[int]int{1: 1, 2: 2, 3: 3, 4: 4}; delete(m, 1); delete(m, 9); m[1] = 5; delete(m, 3); len(maps.Keys(m)) + len(maps.Clone(m))",
	"import \"fmt\"; m := map[string]int{\"a\": 1, \"b\": 2}; delete(m, \"a\"); s := fmt.Sprint(m); println(m); len(s)",
	"import \"golang.org/x/exp/slices\"; xs := []int{3, 1, 2}; xs = slices.Delete(xs, 0, 1); slices.Sort(xs); slices.SortFunc(xs, func(a, b int) bool { return a > b }); slices.Contains(xs, 2)",
	"import \"strings\"; s := strings.Repeat(\"ab\", 3); p := strings.Split(s, \"b\"); j := strings.Join(p, \"-\"); strings.ReplaceAll(j, \"a\", \"\") + strings.TrimRight(j, \"-\")",
	"m := map[bool]int{true: 1, false: 2}; delete(m, true); m[true] = 3; delete(m, false); n := 0; for _, v := range m { n += v }; n",
	"m := map[float64]int{1.5: 1, 2.5: 2}; delete(m, 1.5); n := 0; for k := range m { n += int(k) }; n",
}
