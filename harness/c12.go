package main

import (
	"bytes"
	"fmt"
	"io"
	"math/rand"
	"strings"
	"testing/fstest"

	goat "github.com/philhassey/goatlang"
)

// C12 — struct fields are independent, typed, and shared through references.
//
// Table level (M3): random operation histories on the real robin-hood table (hook VerifIntMap) with
// key sets built to collide (strides of 16/32/64, dense runs crossing the last bucket, keys shaped
// like interned-name indices) are validated by TLC against IntMapSpec.tla; bucket dumps are checked
// against the robin-hood layout invariants after every step (small tables) or periodically.
// Script level (M3): generated struct types with 0..~200 fields/methods whose field-name indices
// are shifted by filler names, several instances and aliases, random write/read/method-call
// histories; the printed observations are validated against StructSpec.tla.

func init() { register("C12", checkC12) }

func c12KeySet(r *rand.Rand, n int) []int {
	var keys []int
	switch r.Intn(6) {
	case 0: // dense
		base := r.Intn(64)
		for i := 0; i < n; i++ {
			keys = append(keys, base+i)
		}
	case 1: // stride 16: everything collides in a 16-bucket table
		base := r.Intn(16)
		for i := 0; i < n; i++ {
			keys = append(keys, base+16*i)
		}
	case 2: // stride 32 / 64
		st := []int{32, 64}[r.Intn(2)]
		base := r.Intn(st)
		for i := 0; i < n; i++ {
			keys = append(keys, base+st*i)
		}
	case 3: // runs near the end of the table (wrap-around)
		for i := 0; i < n; i++ {
			keys = append(keys, 13+r.Intn(4)+16*r.Intn(1+n/2))
		}
	case 4: // two adjacent homes plus colliders
		h := r.Intn(16)
		for i := 0; i < n; i++ {
			keys = append(keys, h+(i%2)+16*(i/2))
		}
	default: // random interned-name-like indices
		for i := 0; i < n; i++ {
			keys = append(keys, 60+r.Intn(400))
		}
	}
	// dedupe
	seen := map[int]bool{}
	var out []int
	for _, k := range keys {
		if !seen[k] {
			seen[k] = true
			out = append(out, k)
		}
	}
	return out
}

func c12Dump(w *goat.VerifIntMap) [][]int {
	bs := w.Buckets()
	out := make([][]int, len(bs))
	for i, b := range bs {
		out[i] = []int{b.Distance, b.Key}
	}
	return out
}

func c12Trace(r *rand.Rand, id string, nops int) []map[string]any {
	var lines []map[string]any
	nkeys := []int{2, 3, 5, 8, 11, 12, 13, 16, 23, 24, 25, 40, 47, 48, 49, 96, 97, 200}[r.Intn(18)]
	keys := c12KeySet(r, nkeys)
	alloc := []int{0, 0, 0, nkeys / 2, nkeys}[r.Intn(5)]
	tabs := []*goat.VerifIntMap{goat.VerifNewIntMap(alloc)}
	lines = append(lines, map[string]any{"op": "reset", "id": id, "t": 1, "dump": [][]int{}})
	emit := func(l map[string]any, t int, force bool) {
		l["t"] = t + 1
		w := tabs[t]
		if l["op"] == "copy" {
			l["dump"] = [][]int{}
		} else if w.Size() <= 64 || force || r.Intn(12) == 0 {
			l["dump"] = c12Dump(w)
		} else {
			l["dump"] = [][]int{}
		}
		lines = append(lines, l)
	}
	phase := r.Intn(3) // 0 mixed, 1 fill then drain, 2 churn
	for i := 0; i < nops; i++ {
		t := r.Intn(len(tabs))
		w := tabs[t]
		k := keys[r.Intn(len(keys))]
		x := r.Intn(100)
		if phase == 1 {
			if i < nops/2 {
				x = x % 40
			} else {
				x = 40 + x%25
			}
		}
		switch {
		case x < 40:
			v := 1 + r.Intn(1000)
			ty := []string{"i", "f", "b"}[r.Intn(3)]
			if ty == "b" {
				v = v % 256
			}
			w.Set(k, c12TypedValue(ty, v))
			emit(map[string]any{"op": "set", "k": k, "v": v, "ty": ty}, t, false)
		case x < 65:
			w.Delete(k)
			emit(map[string]any{"op": "del", "k": k}, t, false)
		case x < 78:
			// the store to a declared field: mostly an untyped constant (it adopts the type of the value at that key)
			v := 1 + r.Intn(1000)
			ty := []string{"u", "u", "u", "i", "f"}[r.Intn(5)]
			w.Assign(k, c12TypedValue(ty, v))
			emit(map[string]any{"op": "assign", "k": k, "v": v, "ty": ty}, t, false)
		case x < 92:
			val, ok := w.Get(k)
			emit(map[string]any{"op": "get", "k": k, "ok": ok, "v": val.Int(), "ty": c12TypeTag(val)}, t, false)
		case x < 97:
			emit(map[string]any{"op": "len", "n": w.Len()}, t, false)
		default:
			if len(tabs) < 3 {
				tabs = append(tabs, w.Copy())
				emit(map[string]any{"op": "copy"}, t, false)
			}
		}
	}
	// final full observation of every table: every key of the universe is looked up
	for t, w := range tabs {
		for _, k := range keys {
			val, ok := w.Get(k)
			emit(map[string]any{"op": "get", "k": k, "ok": ok, "v": val.Int(), "ty": c12TypeTag(val)}, t, false)
		}
		emit(map[string]any{"op": "len", "n": w.Len()}, t, true)
	}
	return lines
}

func checkC12(c *Ctx) {
	c.Rule = "table level: seeded random histories of Set/Assign/Get/Delete/Copy/Len on the real robin-hood table over colliding key sets (dense, strides 16/32/64, runs crossing the last bucket, adjacent homes, interned-name-like), 2..200 keys, up to 3 tables (copies); script level: generated struct types (0..200 fields, methods, filler names shifting the field-name indices), instances, aliases, write/read/method histories; distinct_nontrivial = distinct (key set, history) traces containing at least one collision-prone key pair"
	c.Assumptions = []string{"the verif hook VerifIntMap forwards to the unexported table without altering it", "TLC evaluates IntMapSpec.tla / StructSpec.tla as written"}
	r := rand.New(rand.NewSource(c.Seed))

	var lines []map[string]any
	ntr := c.pick(250, 6000)
	starts := []int{}
	for i := 0; i < ntr; i++ {
		starts = append(starts, len(lines))
		tr := c12Trace(r, fmt.Sprintf("tab/%d", i), 30+r.Intn(c.pick(250, 500)))
		lines = append(lines, tr...)
		c.distinct(hashKey(fmt.Sprint(tr)))
	}
	c.Evaluations += int64(len(lines))
	c.sample(map[string]any{"table_trace_head": lines[:minInt(6, len(lines))]})
	bad := c12ClassifyTraces(c, "Trace_IntMap", "Trace_IntMap.cfg", lines, starts)
	for _, idx := range bad {
		l := lines[idx]
		// find the start of this trace to include the history in the replay file
		st := 0
		for _, s := range starts {
			if s <= idx {
				st = s
			}
		}
		c.violate(hashKey(fmt.Sprint(lines[st:idx+1])), fmt.Sprintf("robin-hood table: observation %v not allowed by IntMapSpec (trace line %d of %v)", clip(fmt.Sprint(l), 160), idx-st, lines[st]["id"]),
			map[string]any{"history": lines[st : idx+1]})
	}
	c.TracesVsImpl += int64(ntr - len(bad))

	c12Script(c, r)

	// negative control: a Get observation with the wrong presence flag must be flagged
	nc := []map[string]any{
		{"op": "reset", "id": "nc", "t": 1, "dump": [][]int{}},
		{"op": "set", "t": 1, "k": 5, "v": 7, "ty": "i", "dump": [][]int{}},
		{"op": "get", "t": 1, "k": 5, "ok": false, "v": 0, "ty": "i", "dump": [][]int{}},
	}
	nb := classifyFlatTrace(c, "Trace_IntMap", "Trace_IntMap.cfg", nc)
	if len(nb) != 1 || nb[0] != 2 {
		fatalf("negative control (lost key) not flagged: %v", nb)
	}
	c.Extra["negative_control"] = "a fabricated lookup that misses a stored key was flagged by Trace_IntMap as expected"
}

func minInt(a, b int) int {
	if a < b {
		return a
	}
	return b
}

// c12ClassifyTraces shards on trace boundaries and reports only the first bad line of each trace.
func c12ClassifyTraces(c *Ctx, module, cfg string, lines []map[string]any, starts []int) []int {
	shards := c.Workers
	if shards > len(starts) {
		shards = len(starts)
	}
	per := (len(starts) + shards - 1) / shards
	type res struct {
		bad []int
		err any
		st  [2]int64
	}
	results := make([]res, shards)
	done := make(chan int, shards)
	for s := 0; s < shards; s++ {
		go func(s int) {
			defer func() {
				if r := recover(); r != nil {
					results[s].err = r
				}
				done <- s
			}()
			lo := s * per
			hi := (s + 1) * per
			if lo >= len(starts) {
				return
			}
			a := starts[lo]
			b := len(lines)
			if hi < len(starts) {
				b = starts[hi]
			}
			sub := &Ctx{ID: c.ID, Tier: c.Tier, Seed: c.Seed, Work: fmt.Sprintf("%s/tshard%d", c.Work, s), Workers: 1}
			bad := classifyFlatTrace(sub, module, cfg, lines[a:b])
			for _, x := range bad {
				results[s].bad = append(results[s].bad, a+x)
			}
			results[s].st = [2]int64{sub.States, sub.Transitions}
		}(s)
	}
	for i := 0; i < shards; i++ {
		<-done
	}
	var all []int
	for _, rr := range results {
		if rr.err != nil {
			panic(rr.err)
		}
		all = append(all, rr.bad...)
		c.States += rr.st[0]
		c.Transitions += rr.st[1]
	}
	// first bad line per trace
	var out []int
	lastTrace := -1
	for _, idx := range all {
		tr := 0
		for i, s := range starts {
			if s <= idx {
				tr = i
			}
		}
		if tr != lastTrace {
			out = append(out, idx)
			lastTrace = tr
		}
	}
	return out
}

// ---- script level ---------------------------------------------------------------------------------

type c12Prog struct {
	Src    string
	Events []map[string]any // expected-independent: the operations performed, in order
}

// c12GenProgram builds a package with struct types and a Main that performs a random history and
// prints one observation line per read.
func c12GenProgram(r *rand.Rand, id int) (string, []map[string]any) {
	var b strings.Builder
	b.WriteString("package main\n\nimport \"errors\"\n\nvar _ = errors.New\n\n")
	// filler names shift the interned indices of the field names that follow
	nf := r.Intn(40)
	if nf > 0 {
		b.WriteString("var (\n")
		for i := 0; i < nf; i++ {
			fmt.Fprintf(&b, "\tfill%d_%d int\n", id, i)
		}
		b.WriteString(")\n\n")
	}
	nfields := []int{0, 1, 2, 5, 11, 12, 13, 23, 24, 25, 47, 48, 49, 95, 96, 97, 150, 200}[r.Intn(18)]
	if nfields > 50 && r.Intn(3) > 0 {
		nfields = []int{5, 11, 12, 13, 24, 25}[r.Intn(6)]
	}
	nmeth := []int{0, 1, 3, 8, 20}[r.Intn(5)]
	// nillable field types are observed through "is nil": their zero value is nil, also for any
	types := []string{"int", "string", "bool", "byte", "float64", "any", "*T", "[]int", "map[string]int", "error", "int", "string"}
	nillable := func(ty string) bool {
		return ty == "any" || ty == "*T" || ty == "[]int" || ty == "map[string]int" || ty == "error"
	}
	ftypes := make([]string, nfields)
	b.WriteString("type T struct {\n")
	for i := 0; i < nfields; i++ {
		ftypes[i] = types[r.Intn(len(types))]
		fmt.Fprintf(&b, "\tF%d %s\n", i, ftypes[i])
	}
	b.WriteString("}\n\n")
	b.WriteString("type U T\n\n")
	methField := make([]int, nmeth)
	for m := 0; m < nmeth; m++ {
		f := -1
		if nfields > 0 {
			f = r.Intn(nfields)
			for tries := 0; tries < 20 && nillable(ftypes[f]); tries++ {
				f = r.Intn(nfields)
			}
			if nillable(ftypes[f]) {
				f = -1
			}
		}
		if f >= 0 {
			methField[m] = f
			fmt.Fprintf(&b, "func (t *T) M%d() %s { return t.F%d }\n", m, ftypes[f], f)
		} else {
			methField[m] = -1
			fmt.Fprintf(&b, "func (t *T) M%d() int { return %d }\n", m, m)
		}
	}
	b.WriteString("\nfunc Main() {\n")
	var evs []map[string]any
	ninst := 1 + r.Intn(3)
	vars := []string{}
	for i := 0; i < ninst; i++ {
		if i == 1 {
			fmt.Fprintf(&b, "\tv%d := &U{}\n", i) // an instance of the type defined from T
		} else {
			fmt.Fprintf(&b, "\tv%d := &T{}\n", i)
		}
		vars = append(vars, fmt.Sprintf("v%d", i))
		evs = append(evs, map[string]any{"op": "new", "var": i + 1, "nfields": nfields})
	}
	// methods bodies reference a field chosen above: record which, by re-deriving from source is
	// fragile, so method calls print through the method and the spec only demands "a declared field's value"
	nops := 10 + r.Intn(60)
	litFor := func(ty string, n int) (string, string) {
		switch ty {
		case "int":
			return fmt.Sprint(n), fmt.Sprint(n)
		case "string":
			return fmt.Sprintf("\"s%d\"", n), fmt.Sprintf("s%d", n)
		case "bool":
			return fmt.Sprint(n%2 == 1), fmt.Sprint(n%2 == 1)
		case "byte":
			return fmt.Sprint(n % 256), fmt.Sprint(n % 256)
		case "any":
			return []string{"nil", fmt.Sprint(n), "\"a\"", "false", "0", "&T{}"}[n%6], fmt.Sprint(n%6 == 0)
		case "*T":
			return []string{"nil", "&T{}"}[n%2], fmt.Sprint(n%2 == 0)
		case "[]int":
			return []string{"nil", "[]int{}", "[]int{1}"}[n%3], fmt.Sprint(n%3 == 0)
		case "map[string]int":
			return []string{"nil", "map[string]int{}"}[n%2], fmt.Sprint(n%2 == 0)
		case "error":
			return []string{"nil", "errors.New(\"e\")"}[n%2], fmt.Sprint(n%2 == 0)
		}
		if n%3 == 0 {
			return fmt.Sprint(n), fmt.Sprint(n) // an integer constant stored in a float64 field
		}
		return fmt.Sprintf("%d.5", n), fmt.Sprintf("%d.5", n)
	}
	readExpr := func(v string, f int) string {
		if nillable(ftypes[f]) {
			return fmt.Sprintf("%s.F%d == nil", v, f)
		}
		return fmt.Sprintf("%s.F%d", v, f)
	}
	for i := 0; i < nops; i++ {
		v := r.Intn(len(vars))
		x := r.Intn(100)
		switch {
		case nfields > 0 && x < 45:
			f := r.Intn(nfields)
			n := 1 + r.Intn(900)
			lit, printed := litFor(ftypes[f], n)
			fmt.Fprintf(&b, "\t%s.F%d = %s\n", vars[v], f, lit)
			evs = append(evs, map[string]any{"op": "write", "var": v + 1, "f": f, "val": printed})
		case nfields > 0 && x < 85:
			f := r.Intn(nfields)
			fmt.Fprintf(&b, "\tprintln(\"R\", %d, %s)\n", len(evs), readExpr(vars[v], f))
			evs = append(evs, map[string]any{"op": "read", "var": v + 1, "f": f})
		case nfields > 0 && x < 88:
			f := r.Intn(nfields)
			if !nillable(ftypes[f]) {
				fmt.Fprintf(&b, "\tprintln(\"R\", %d, __type(%s.F%d))\n", len(evs), vars[v], f)
				evs = append(evs, map[string]any{"op": "type", "var": v + 1, "f": f})
			}
		case nmeth > 0 && x < 90:
			m := r.Intn(nmeth)
			fmt.Fprintf(&b, "\tprintln(\"M\", %d, %s.M%d())\n", len(evs), vars[v], m)
			evs = append(evs, map[string]any{"op": "method", "var": v + 1, "f": methField[m], "val": fmt.Sprint(m)})
		case x < 94 && len(vars) < 6:
			nv := fmt.Sprintf("a%d", len(vars))
			fmt.Fprintf(&b, "\t%s := %s\n", nv, vars[v])
			vars = append(vars, nv)
			evs = append(evs, map[string]any{"op": "alias", "var": len(vars), "of": v + 1})
		default:
			// read every field of the instance (independence check)
			for f := 0; f < nfields; f++ {
				fmt.Fprintf(&b, "\tprintln(\"R\", %d, %s)\n", len(evs), readExpr(vars[v], f))
				evs = append(evs, map[string]any{"op": "read", "var": v + 1, "f": f})
			}
			if nfields == 0 {
				fmt.Fprintf(&b, "\tprintln(\"R\", %d, %s != nil)\n", len(evs), vars[v])
				evs = append(evs, map[string]any{"op": "readnil", "var": v + 1})
			}
		}
	}
	// every method exists on every instance, also on the instance of the defined type U
	for m := 0; m < nmeth; m++ {
		for v := range vars {
			fmt.Fprintf(&b, "\tprintln(\"M\", %d, %s.M%d())\n", len(evs), vars[v], m)
			evs = append(evs, map[string]any{"op": "method", "var": v + 1, "f": methField[m], "val": fmt.Sprint(m)})
		}
	}
	b.WriteString("}\n")
	return b.String(), evs
}

// c12EvalProgram: a struct type, instances created before / between / after the declarations of its
// methods (13, 14, 25, 26, 49 or 50 of them: the sizes at which a method table grows), every method
// called on every instance at the end. Returned as one chunk or as several (methods in later chunks).
func c12EvalProgram(r *rand.Rand, id int) ([]string, []map[string]any) {
	nm := []int{13, 14, 25, 26, 49, 50}[id%6]
	split := id%2 == 1
	var evs []map[string]any
	var chunks []string
	var b strings.Builder
	flush := func() {
		if split && b.Len() > 0 {
			chunks = append(chunks, b.String())
			b.Reset()
		}
	}
	b.WriteString("type T struct {\n\tF0 int\n\tF1 string\n}\n")
	nvars := 0
	newInst := func() {
		fmt.Fprintf(&b, "v%d := &T{}\n", nvars)
		evs = append(evs, map[string]any{"op": "new", "var": nvars + 1, "nfields": 2})
		n := 3 + r.Intn(90)
		fmt.Fprintf(&b, "v%d.F0 = %d\n", nvars, n)
		evs = append(evs, map[string]any{"op": "write", "var": nvars + 1, "f": 0, "val": fmt.Sprint(n)})
		fmt.Fprintf(&b, "v%d.F1 = \"s%d\"\n", nvars, n)
		evs = append(evs, map[string]any{"op": "write", "var": nvars + 1, "f": 1, "val": fmt.Sprintf("s%d", n)})
		nvars++
	}
	newInst()
	flush()
	cut1, cut2 := 1+r.Intn(12), nm-1-r.Intn(3)
	for m := 0; m < nm; m++ {
		if m == cut1 || m == cut2 {
			flush()
			newInst()
			flush()
		}
		if m%2 == 0 {
			fmt.Fprintf(&b, "func (t *T) M%d() int { return t.F0 }\n", m)
		} else {
			fmt.Fprintf(&b, "func (t *T) M%d() string { return t.F1 }\n", m)
		}
	}
	flush()
	newInst()
	for v := 0; v < nvars; v++ {
		for m := 0; m < nm; m++ {
			fmt.Fprintf(&b, "println(\"M\", %d, v%d.M%d())\n", len(evs), v, m)
			evs = append(evs, map[string]any{"op": "method", "var": v + 1, "f": m % 2, "val": fmt.Sprint(m)})
		}
	}
	chunks = append(chunks, b.String())
	return chunks, evs
}

func c12Script(c *Ctx, r *rand.Rand) {
	nprog := c.pick(60, 1500)
	var lines []map[string]any
	var starts []int
	var srcs []string
	zero := map[string]string{"int": "0", "string": "", "bool": "false", "byte": "0", "float64": "0"}
	_ = zero
	nEval := c.pick(24, 200)
	for p := 0; p < nprog+nEval; p++ {
		var src string
		var evs []map[string]any
		var res RunResult
		if p < nprog {
			src, evs = c12GenProgram(r, p)
			res = runMain(src, true)
		} else {
			// top-level code run in source order (Eval): instances exist BEFORE (some of) the methods of
			// their type are declared; in every second program the methods arrive in later Eval calls
			var chunks []string
			chunks, evs = c12EvalProgram(r, p-nprog)
			src = strings.Join(chunks, "\n// ---- next Eval call\n")
			var out bytes.Buffer
			vm := goat.New(goat.WithStdout(&out))
			var err error
			for _, ch := range chunks {
				goat.VerifSetBudget(400000)
				_, err = vm.Eval(fstest.MapFS{}, "m.go", ch)
				goat.VerifSetBudget(-1)
				if err != nil {
					break
				}
			}
			res = RunResult{Stdout: out.String(), Err: err, VM: vm}
		}
		if res.Failed() {
			c.violate(hashKey(src), "struct program failed: "+firstLine(res.ErrString()), map[string]any{"source": src, "error": res.ErrString()})
			continue
		}
		// parse observations
		obs := map[int]string{}
		okParse := true
		for _, line := range strings.Split(res.Stdout, "\n") {
			if line == "" {
				continue
			}
			f := strings.SplitN(line, " ", 3)
			if len(f) < 2 || (f[0] != "R" && f[0] != "M") {
				okParse = false
				break
			}
			var n int
			fmt.Sscan(f[1], &n)
			v := ""
			if len(f) == 3 {
				v = f[2]
			}
			obs[n] = v
		}
		if !okParse {
			c.violate(hashKey(src), "struct program printed an unexpected line", map[string]any{"source": src, "stdout": res.Stdout})
			continue
		}
		starts = append(starts, len(lines))
		srcs = append(srcs, src)
		// declared field types -> zero values are part of the trace header
		lines = append(lines, map[string]any{"op": "reset", "id": fmt.Sprintf("script/%d", p), "zeros": c12Zeros(src), "types": c12Types(src)})
		for i, e := range evs {
			l := map[string]any{"op": e["op"], "var": e["var"]}
			for k, v := range e {
				l[k] = v
			}
			if e["op"] == "read" || e["op"] == "readnil" || e["op"] == "method" || e["op"] == "type" {
				v, ok := obs[i]
				if !ok {
					v = "<missing>"
				}
				l["got"] = v
			}
			for _, k := range []string{"f", "val", "of", "m", "got", "nfields"} {
				if _, ok := l[k]; !ok {
					if k == "val" || k == "got" {
						l[k] = ""
					} else {
						l[k] = 0
					}
				}
			}
			lines = append(lines, l)
		}
		c.distinct(hashKey(src))
	}
	// function-local struct types: methods of the SAME NAME on different receiver types (and a plain function of that name
	// in an imported package would be the same) each declare a local type with the same name and different fields
	for p := 0; p < c.pick(6, 60); p++ {
		src, traces := c12LocalTypes(r, p)
		res := runMain(src, true)
		if res.Failed() {
			c.violate(hashKey(src), "local-type program failed: "+firstLine(res.ErrString()), map[string]any{"source": src, "error": res.ErrString()})
			continue
		}
		if !strings.Contains(res.Stdout, "G &{G:7} &{G:8} 15\n") {
			c.violate(hashKey(src+"|global"), "the package-level type with the name of the methods' local types is not what later declarations get: "+clip(res.Stdout[strings.LastIndex(strings.TrimSpace(res.Stdout), "\n")+1:], 120), map[string]any{"source": src})
		}
		obs := map[int]string{}
		for _, line := range strings.Split(res.Stdout, "\n") {
			f := strings.SplitN(line, " ", 3)
			if len(f) >= 2 && f[0] == "R" {
				var n int
				fmt.Sscan(f[1], &n)
				if len(f) == 3 {
					obs[n] = f[2]
				} else {
					obs[n] = ""
				}
			}
		}
		for ti, tr := range traces {
			starts = append(starts, len(lines))
			srcs = append(srcs, src)
			lines = append(lines, map[string]any{"op": "reset", "id": fmt.Sprintf("localtype/%d/%d", p, ti), "zeros": tr.zeros, "types": tr.types})
			for _, e := range tr.evs {
				l := map[string]any{}
				for k, v := range e {
					l[k] = v
				}
				if id, ok := l["obs"]; ok {
					v, have := obs[id.(int)]
					if !have {
						v = "<missing>"
					}
					l["got"] = v
					delete(l, "obs")
				}
				for _, k := range []string{"f", "val", "of", "m", "got", "nfields", "var"} {
					if _, ok := l[k]; !ok {
						if k == "val" || k == "got" {
							l[k] = ""
						} else {
							l[k] = 0
						}
					}
				}
				lines = append(lines, l)
			}
		}
		c.distinct(hashKey(src))
	}
	// a local variable that has the name of an imported package holds a struct reference: stores and reads through that name
	// are field accesses (the package is used under its name in another function)
	for _, pkg := range []string{"strings", "fmt", "errors"} {
		use := map[string]string{"strings": "strings.Repeat(s, 2)", "fmt": "fmt.Sprint(s, s)", "errors": "errors.New(s).Error()"}[pkg]
		src := "package main\n\nimport \"" + pkg + "\"\n\ntype T struct {\n\tF0 int\n\tF1 string\n}\n\nfunc up(s string) string { return " + use + " }\n\nfunc (t *T) Bump() { t.F0 += 10 }\n\nfunc Main() {\n\t" + pkg + " := &T{}\n\t" +
			pkg + ".F0 = 5\n\t" + pkg + ".F1 = \"x\"\n\tal := " + pkg + "\n\tal.F0 = 6\n\t" + pkg + ".F0 += 1\n\t" + pkg + ".F0++\n\t" + pkg + ".Bump()\n\tprintln(\"R\", 0, " + pkg + ".F0)\n\tprintln(\"R\", 1, al.F0)\n\tprintln(\"R\", 2, " + pkg + ".F1)\n\tprintln(\"R\", 3, len(up(\"ab\")) > 0)\n}\n"
		res := runMain(src, true)
		want := "R 0 18\nR 1 18\nR 2 x\nR 3 true\n"
		if res.Failed() || res.Stdout != want {
			c.violate(hashKey(src), fmt.Sprintf("a struct reference held in a local named like the imported package %s: got %q (%s) want %q", pkg, res.Stdout, firstLine(res.ErrString()), want), map[string]any{"source": src})
		}
		c.Evaluations++
	}
	// host route: the same histories driven through the embedding API (NewStruct, GetAttr, SetAttr, values
	// passed to and returned from script functions)
	nHost := c.pick(60, 1500)
	for p := 0; p < nHost; p++ {
		desc, zeros, evs, err := c12HostHistory(r, p)
		if err != nil {
			c.violate(hashKey(desc), "struct history through the host API failed: "+firstLine(err.Error()), map[string]any{"history": desc, "error": err.Error()})
			continue
		}
		starts = append(starts, len(lines))
		srcs = append(srcs, desc)
		lines = append(lines, map[string]any{"op": "reset", "id": fmt.Sprintf("host/%d", p), "zeros": zeros, "types": c12Types(desc)})
		for _, e := range evs {
			for _, k := range []string{"f", "val", "of", "m", "got", "nfields"} {
				if _, ok := e[k]; !ok {
					if k == "val" || k == "got" {
						e[k] = ""
					} else {
						e[k] = 0
					}
				}
			}
			lines = append(lines, e)
		}
		c.distinct(hashKey(desc))
	}
	c.Extra["struct_host_histories"] = nHost
	c.Evaluations += int64(len(lines))
	if len(srcs) > 0 {
		c.sample(map[string]any{"struct_program": clip(srcs[0], 600)})
	}
	bad := c12ClassifyTraces(c, "Trace_Struct", "Trace_Struct.cfg", lines, starts)
	for _, idx := range bad {
		tr := 0
		for i, s := range starts {
			if s <= idx {
				tr = i
			}
		}
		c.violate(hashKey(srcs[tr]), fmt.Sprintf("struct program %v: observation %v not allowed by StructSpec", lines[starts[tr]]["id"], clip(fmt.Sprint(lines[idx]), 200)),
			map[string]any{"source": srcs[tr], "line": lines[idx]})
	}
	c.TracesVsImpl += int64(len(starts) - len(bad))
	c.Extra["struct_programs"] = len(starts)
}

// c12Types returns, per field of type T, the name goatlang's __type gives the declared type ("" for types the trace
// does not observe).
func c12Types(src string) []string {
	out := []string{}
	in := false
	for _, line := range strings.Split(src, "\n") {
		if strings.HasPrefix(line, "type T struct") {
			in = true
			continue
		}
		if in {
			if strings.HasPrefix(line, "}") {
				break
			}
			f := strings.Fields(line)
			out = append(out, map[string]string{"int": "int32", "byte": "uint8", "float64": "float64", "string": "string", "bool": "bool"}[f[1]])
		}
	}
	return out
}

// c12Zeros returns the printed zero value of every field F<i> of type T in declaration order.
func c12Zeros(src string) []string {
	var out []string
	in := false
	for _, line := range strings.Split(src, "\n") {
		if strings.HasPrefix(line, "type T struct") {
			in = true
			continue
		}
		if in {
			if strings.HasPrefix(line, "}") {
				break
			}
			f := strings.Fields(line)
			switch f[1] {
			case "int", "byte", "float64":
				out = append(out, "0")
			case "string":
				out = append(out, "")
			case "bool":
				out = append(out, "false")
			default: // nillable: observed as "is nil"
				out = append(out, "true")
			}
		}
	}
	if out == nil {
		out = []string{}
	}
	return out
}

// c12HostHistory: a struct type with 1-5 fields of type int / string / bool / float64 and two methods; a random history
// of new / alias / write / read / method operations in which every operation goes through the embedding API by one of
// several routes (new: script constructor via Call, NewStruct on the type value, NewStruct with initial fields; alias:
// copy of the Value, through a script identity function; write: SetAttr, script setter; read: GetAttr, script getter).
func c12HostHistory(r *rand.Rand, id int) (desc string, zeros []string, evs []map[string]any, err error) {
	defer func() {
		if x := recover(); x != nil {
			err = fmt.Errorf("panic: %v", x)
		}
	}()
	types := []string{"int", "string", "bool", "float64"}
	nfields := 1 + r.Intn(5)
	ftypes := make([]string, nfields)
	var b, log strings.Builder
	b.WriteString("package main\ntype T struct {\n")
	for i := range ftypes {
		ftypes[i] = types[r.Intn(len(types))]
		fmt.Fprintf(&b, "\tF%d %s\n", i, ftypes[i])
		zeros = append(zeros, map[string]string{"int": "0", "string": "", "bool": "false", "float64": "0"}[ftypes[i]])
	}
	b.WriteString("}\nfunc NewT() *T { return &T{} }\nfunc Id(p *T) *T { return p }\n")
	for i, ft := range ftypes {
		fmt.Fprintf(&b, "func Get%d(p *T) %s { return p.F%d }\nfunc Set%d(p *T, x %s) { p.F%d = x }\n", i, ft, i, i, ft, i)
	}
	mf := r.Intn(nfields)
	fmt.Fprintf(&b, "func (t *T) M0() %s { return t.F%d }\nfunc CallM0(p *T) %s { return p.M0() }\n", ftypes[mf], mf, ftypes[mf])
	src := b.String()
	log.WriteString(src)
	vm := goat.New(goat.WithStdout(io.Discard))
	goat.VerifSetBudget(2000000)
	defer goat.VerifSetBudget(-1)
	if _, err = vm.Eval(fstest.MapFS{}, "m.go", src); err != nil {
		return log.String(), zeros, nil, err
	}
	mkVal := func(ft string, n int) (goat.Value, string) {
		switch ft {
		case "int":
			return goat.Int(n), fmt.Sprint(n)
		case "string":
			return goat.String(fmt.Sprintf("s%d", n)), fmt.Sprintf("s%d", n)
		case "bool":
			return goat.Bool(n%2 == 1), fmt.Sprint(n%2 == 1)
		}
		return goat.Float64(float64(n) + 0.5), fmt.Sprintf("%d.5", n)
	}
	text := func(ft string, v goat.Value) string {
		switch ft {
		case "int":
			return fmt.Sprint(v.Int())
		case "string":
			return v.String()
		case "bool":
			return fmt.Sprint(v.Bool())
		}
		return fmt.Sprint(v.Float64())
	}
	call1 := func(name string, args ...goat.Value) goat.Value {
		rets, e := vm.Call(name, 1, args...)
		if e != nil {
			panic(fmt.Sprintf("%s: %v", name, e))
		}
		return rets[0]
	}
	var vars []goat.Value
	newInst := func() {
		route := r.Intn(3)
		var v goat.Value
		var init []int
		switch route {
		case 0:
			v = call1("main.NewT")
		case 1:
			v = goat.NewStruct(vm.Get("main.T"), nil)
		default:
			var data []goat.Value
			for _, f := range r.Perm(nfields)[:r.Intn(nfields+1)] {
				val, _ := mkVal(ftypes[f], 7+f)
				data = append(data, goat.String(fmt.Sprintf("F%d", f)), val)
				init = append(init, f)
			}
			v = goat.NewStruct(vm.Get("main.T"), data)
		}
		vars = append(vars, v)
		fmt.Fprintf(&log, "new route=%d init=%v\n", route, init)
		evs = append(evs, map[string]any{"op": "new", "var": len(vars), "nfields": nfields})
		for _, f := range init {
			_, txt := mkVal(ftypes[f], 7+f)
			evs = append(evs, map[string]any{"op": "write", "var": len(vars), "f": f, "val": txt})
		}
	}
	newInst()
	nops := 10 + r.Intn(50)
	for i := 0; i < nops; i++ {
		v := r.Intn(len(vars))
		f := r.Intn(nfields)
		route := r.Intn(2)
		switch x := r.Intn(100); {
		case x < 40:
			val, txt := mkVal(ftypes[f], 1+r.Intn(900))
			if route == 0 {
				vars[v].SetAttr(fmt.Sprintf("F%d", f), val)
			} else if _, e := vm.Call(fmt.Sprintf("main.Set%d", f), 0, vars[v], val); e != nil {
				return log.String(), zeros, nil, e
			}
			fmt.Fprintf(&log, "write route=%d v%d.F%d = %s\n", route, v, f, txt)
			evs = append(evs, map[string]any{"op": "write", "var": v + 1, "f": f, "val": txt})
		case x < 80:
			var got goat.Value
			if route == 0 {
				got = vars[v].GetAttr(fmt.Sprintf("F%d", f))
			} else {
				got = call1(fmt.Sprintf("main.Get%d", f), vars[v])
			}
			fmt.Fprintf(&log, "read route=%d v%d.F%d -> %s\n", route, v, f, text(ftypes[f], got))
			evs = append(evs, map[string]any{"op": "read", "var": v + 1, "f": f, "got": text(ftypes[f], got)})
			evs = append(evs, map[string]any{"op": "type", "var": v + 1, "f": f, "got": vm.VerifTypeOf(got)})
		case x < 86:
			got := call1("main.CallM0", vars[v])
			fmt.Fprintf(&log, "method v%d.M0() -> %s\n", v, text(ftypes[mf], got))
			evs = append(evs, map[string]any{"op": "method", "var": v + 1, "f": mf, "val": "0", "got": text(ftypes[mf], got)})
		case x < 93 && len(vars) < 7:
			if route == 0 {
				vars = append(vars, vars[v])
			} else {
				vars = append(vars, call1("main.Id", vars[v]))
			}
			fmt.Fprintf(&log, "alias route=%d v%d = v%d\n", route, len(vars)-1, v)
			evs = append(evs, map[string]any{"op": "alias", "var": len(vars), "of": v + 1})
		case len(vars) < 7:
			newInst()
		}
	}
	for v := range vars {
		var parts []string
		for f := 0; f < nfields; f++ {
			got := vars[v].GetAttr(fmt.Sprintf("F%d", f))
			evs = append(evs, map[string]any{"op": "read", "var": v + 1, "f": f, "got": text(ftypes[f], got)})
			parts = append(parts, fmt.Sprintf("F%d:%s", f, text(ftypes[f], got)))
		}
		// the instance as a whole (host-made and script-made instances alike): its fields in declaration order
		evs = append(evs, map[string]any{"op": "method", "var": v + 1, "f": -1, "val": "&{" + strings.Join(parts, " ") + "}", "got": vars[v].String()})
	}
	return log.String(), zeros, evs, nil
}

type c12LTrace struct {
	zeros, types []string
	evs          []map[string]any
}

// c12LocalTypes: two receiver types whose methods have the same names; every method declares a local struct type named
// acc with its own fields, makes an instance, writes constants to some fields and reads everything back (value, type,
// the whole instance as text). The methods run interleaved (A.Run, B.Run, A.Run ...) so that each type is used again
// after the other method has declared its own.
func c12LocalTypes(r *rand.Rand, id int) (string, []c12LTrace) {
	fieldPool := [][2]string{{"Total", "int"}, {"Total", "float64"}, {"N", "int"}, {"Label", "string"}, {"Ok", "bool"}, {"Size", "int"}, {"Size", "byte"}, {"Kind", "string"}, {"W", "float64"}}
	pick := func() [][2]string {
		var out [][2]string
		seen := map[string]bool{}
		for len(out) < 2+r.Intn(3) {
			f := fieldPool[r.Intn(len(fieldPool))]
			if !seen[f[0]] {
				seen[f[0]] = true
				out = append(out, f)
			}
		}
		return out
	}
	tyName := map[string]string{"int": "int32", "float64": "float64", "string": "string", "bool": "bool", "byte": "uint8"}
	zero := map[string]string{"int": "0", "float64": "0", "string": "", "bool": "false", "byte": "0"}
	var b strings.Builder
	b.WriteString("package main\n\ntype A struct{ X int }\n\ntype B struct{ Y int }\n\n")
	var traces []c12LTrace
	n := 0
	for ti, recv := range []string{"A", "B"} {
		fs := pick()
		tr := c12LTrace{}
		fmt.Fprintf(&b, "func (t *%s) Run(round int) {\n\ttype acc struct {\n", recv)
		for _, f := range fs {
			fmt.Fprintf(&b, "\t\t%s %s\n", f[0], f[1])
			tr.zeros = append(tr.zeros, zero[f[1]])
			tr.types = append(tr.types, tyName[f[1]])
		}
		b.WriteString("\t}\n\tx := &acc{}\n")
		// the events of one call; the method is called twice, so they are recorded twice with their own print ids
		for round := 0; round < 2; round++ {
			base := n
			_ = base
			tr.evs = append(tr.evs, map[string]any{"op": "new", "var": round + 1, "nfields": len(fs)})
			if round == 0 {
				fmt.Fprintf(&b, "\tif round == 0 {\n")
			} else {
				fmt.Fprintf(&b, "\t} else {\n")
			}
			whole := make([]string, len(fs))
			for fi, f := range fs {
				whole[fi] = zero[f[1]]
				fmt.Fprintf(&b, "\t\tprintln(\"R\", %d, x.%s)\n", n, f[0])
				tr.evs = append(tr.evs, map[string]any{"op": "read", "var": round + 1, "f": fi, "obs": n})
				n++
				fmt.Fprintf(&b, "\t\tprintln(\"R\", %d, __type(x.%s))\n", n, f[0])
				tr.evs = append(tr.evs, map[string]any{"op": "type", "var": round + 1, "f": fi, "obs": n})
				n++
			}
			for fi, f := range fs {
				if r.Intn(3) == 0 {
					continue
				}
				lit, txt := "", ""
				k := 1 + r.Intn(90)
				switch f[1] {
				case "string":
					lit, txt = fmt.Sprintf("\"s%d\"", k), fmt.Sprintf("s%d", k)
				case "bool":
					lit, txt = "true", "true"
				default:
					lit, txt = fmt.Sprint(k), fmt.Sprint(k) // an integer constant, also for float64 and byte fields
				}
				fmt.Fprintf(&b, "\t\tx.%s = %s\n", f[0], lit)
				tr.evs = append(tr.evs, map[string]any{"op": "write", "var": round + 1, "f": fi, "val": txt})
				whole[fi] = txt
				fmt.Fprintf(&b, "\t\tprintln(\"R\", %d, x.%s)\n", n, f[0])
				tr.evs = append(tr.evs, map[string]any{"op": "read", "var": round + 1, "f": fi, "obs": n})
				n++
				fmt.Fprintf(&b, "\t\tprintln(\"R\", %d, __type(x.%s))\n", n, f[0])
				tr.evs = append(tr.evs, map[string]any{"op": "type", "var": round + 1, "f": fi, "obs": n})
				n++
			}
			// the instance as a whole: exactly the declared fields, in declaration order
			var parts []string
			for fi, f := range fs {
				parts = append(parts, f[0]+":"+whole[fi])
			}
			fmt.Fprintf(&b, "\t\tprintln(\"R\", %d, x)\n", n)
			tr.evs = append(tr.evs, map[string]any{"op": "method", "var": round + 1, "f": -1, "val": "&{" + strings.Join(parts, " ") + "}", "obs": n})
			n++
		}
		b.WriteString("\t}\n}\n\n")
		traces = append(traces, tr)
		_ = ti
	}
	// the package-level type of the same name, mentioned (in a composite literal) by declarations that follow the methods
	b.WriteString("type acc struct {\n\tG int\n}\n\nfunc (t *B) After() *acc {\n\treturn &acc{G: 8}\n}\n\nfunc mkAcc() *acc {\n\treturn &acc{G: 7}\n}\n\n")
	b.WriteString("func Main() {\n\ta := &A{}\n\tb := &B{}\n\ta.Run(0)\n\tb.Run(0)\n\ta.Run(1)\n\tb.Run(1)\n\tprintln(\"G\", mkAcc(), b.After(), mkAcc().G+b.After().G)\n}\n")
	return b.String(), traces
}

func c12TypedValue(ty string, v int) goat.Value {
	switch ty {
	case "f":
		return goat.Float64(float64(v))
	case "b":
		return goat.Uint8(uint8(v))
	case "u":
		return goat.VerifUntypedInt(v)
	}
	return goat.Int(v)
}

func c12TypeTag(v goat.Value) string {
	switch v.Type() {
	case goat.TypeInt32:
		return "i"
	case goat.TypeFloat64:
		return "f"
	case goat.TypeUint8:
		return "b"
	}
	return "?"
}
