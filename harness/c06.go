package main

import (
	"fmt"
	"math/rand"
)

// C06 — break, continue and return always reach the target Go specifies.
//
// The jump-placement family is enumerated exhaustively: every nesting chain (depth <= 2 quick,
// <= 3 thorough) over 16 compound forms (if/else arms, else-if chains, the three for forms, range,
// tagged and tagless switches with the clause and the default in every position) with break,
// continue or return - bare or guarded by a test input - at the innermost position, and a distinct
// mark before and after every level. Every condition is a test input (choice()), so TLC explores
// ALL paths of every program through MiniGo.tla; each path is replayed on goatlang with the same
// inputs. Seeded random control-flow programs extend the family beyond the enumerated shapes.

func init() {
	register("C06", checkC06)
	extraCorpus = append(extraCorpus, func(c *Ctx, r *rand.Rand) []map[string]string {
		var out []map[string]string
		progs := c06Family(2, c.pick(7, 2))
		for _, p := range progs {
			out = append(out, map[string]string{"main/main.go": p.Source(false, nil)})
		}
		return out
	})
}

type cfBuilder struct {
	mark  int
	nv    int
	tight bool // no marks after the nested statement: the jump's block ends the enclosing blocks
}

func (b *cfBuilder) m(extra ...*E) *S {
	b.mark++
	s := &S{K: "print", Ln: true, Exprs: []*E{{K: "str", Ty: TString, S: "m"}, lit(TInt, int64(b.mark))}}
	s.Exprs = append(s.Exprs, extra...)
	return s
}

func (b *cfBuilder) name(p string) string {
	b.nv++
	return fmt.Sprintf("%s%d", p, b.nv)
}

func chooseE(n int64) *E { return &E{K: "choice", Ty: TInt, N: n} }
func chooseIs1() *E      { return cmp("==", chooseE(2), lit(TInt, 1)) }

// the compound forms: each wraps the inner statement list
var cfForms = []string{"if", "ifelse-then", "ifelse-else", "elseif-mid", "elseif-last", "forever", "while", "for3", "for3-assignpost", "range",
	"switch-first", "switch-mid", "switch-last", "switch-default-first", "switch-default-last", "tagless-mid", "tagless-default"}

// further forms, combined with a representative subset of the forms above (cfExtraPartners): loop and
// branch conditions whose last operand is negated, switches with an empty clause that matches
var cfExtraForms = []string{"while-and-not", "while-or-not", "if-or-not", "switch-empty-case", "tagless-empty-case", "switch-many-values", "for-call-cond", "elseif3-third", "elseif3-else"}
var cfExtraPartners = []string{"if", "while", "for3", "range", "switch-mid", "tagless-default"}

func cfIsLoop(f string) bool {
	switch f {
	case "forever", "while", "for3", "for3-assignpost", "range", "while-and-not", "while-or-not", "for-call-cond":
		return true
	}
	return false
}
func cfIsSwitch(f string) bool { return len(f) > 6 && (f[:6] == "switch" || f[:7] == "tagless") }

// after appends the trailing mark of a block (after a bare jump it is unreachable code, which Go accepts)
func (b *cfBuilder) after(ss []*S) []*S {
	if b.tight {
		return ss
	}
	return append(ss, b.m())
}

func (b *cfBuilder) wrap(form string, inner []*S) []*S {
	pre, post := b.m(), b.m()
	var body []*S
	switch form {
	case "if":
		body = []*S{{K: "if", Cond: chooseIs1(), Then: b.after(append([]*S{b.m()}, inner...))}}
	case "ifelse-then":
		body = []*S{{K: "if", Cond: chooseIs1(), Then: b.after(inner), HasElse: true, Else: []*S{b.m()}}}
	case "ifelse-else":
		body = []*S{{K: "if", Cond: chooseIs1(), Then: []*S{b.m()}, HasElse: true, Else: b.after(inner)}}
	case "elseif-mid":
		body = []*S{{K: "if", Cond: chooseIs1(), Then: []*S{b.m()}, HasElse: true, Else: []*S{{K: "if", Cond: chooseIs1(), Then: b.after(inner), HasElse: true, Else: []*S{b.m()}}}}}
	case "elseif-last":
		body = []*S{{K: "if", Cond: chooseIs1(), Then: []*S{b.m()}, HasElse: true, Else: []*S{{K: "if", Cond: chooseIs1(), Then: []*S{b.m()}, HasElse: true, Else: b.after(inner)}}}}
	case "elseif3-third", "elseif3-else":
		// a chain with three conditions: the statements sit in the third branch or in the final else
		third, last := []*S{b.m()}, []*S{b.m()}
		if form == "elseif3-third" {
			third = b.after(inner)
		} else {
			last = b.after(inner)
		}
		body = []*S{{K: "if", Cond: chooseIs1(), Then: []*S{b.m()}, HasElse: true, Else: []*S{
			{K: "if", Cond: chooseIs1(), Then: []*S{b.m()}, HasElse: true, Else: []*S{
				{K: "if", Cond: chooseIs1(), Then: third, HasElse: true, Else: last}}}}}}
	case "forever":
		k := b.name("k")
		body = []*S{{K: "decl", Names: []string{k}, Exprs: []*E{lit(TInt, 0)}},
			{K: "for", Body: b.after(append([]*S{{K: "incdec", Lhs: []*E{v(k, TInt)}, D: 1}, {K: "if", Cond: cmp(">", v(k, TInt), lit(TInt, 2)), Then: []*S{{K: "break"}}}, b.m(v(k, TInt))}, inner...))}}
	case "while":
		k := b.name("k")
		body = []*S{{K: "decl", Names: []string{k}, Exprs: []*E{lit(TInt, 0)}},
			{K: "for", Cond: cmp("<", v(k, TInt), lit(TInt, 2)), Body: b.after(append([]*S{{K: "incdec", Lhs: []*E{v(k, TInt)}, D: 1}, b.m(v(k, TInt))}, inner...))}}
	case "for3", "for3-assignpost":
		i := b.name("i")
		post := &S{K: "incdec", Lhs: []*E{v(i, TInt)}, D: 1}
		if form == "for3-assignpost" {
			post = &S{K: "assign", Lhs: []*E{v(i, TInt)}, Exprs: []*E{{K: "bin", Ty: TInt, Op: "+", L: v(i, TInt), R: lit(TInt, 1)}}}
		}
		body = []*S{{K: "for", Init: &S{K: "decl", Names: []string{i}, Exprs: []*E{lit(TInt, 0)}}, Cond: cmp("<", v(i, TInt), lit(TInt, 2)), Post: post,
			Body: b.after(append([]*S{b.m(v(i, TInt))}, inner...))}}
	case "range":
		i, e := b.name("i"), b.name("e")
		body = []*S{{K: "range", X: &E{K: "slicelit", Ty: SliceOf(TInt), Args: []*E{lit(TInt, 7), lit(TInt, 8)}}, KName: i, VName: e,
			Body: b.after(append([]*S{b.m(v(i, TInt), v(e, TInt))}, inner...))}}
	case "switch-first", "switch-mid", "switch-last", "switch-default-first", "switch-default-last":
		s := &S{K: "switch", Tag: chooseE(3)}
		mk := func(val int64, body []*S) *Case { return &Case{Vals: []*E{lit(TInt, val)}, Body: body} }
		in := b.after(inner)
		switch form {
		case "switch-first":
			s.Cases = []*Case{mk(0, in), mk(1, []*S{b.m()})}
			s.HasDef, s.DefPos, s.Def = true, 2, []*S{b.m()}
		case "switch-mid":
			s.Cases = []*Case{mk(0, []*S{b.m()}), {Vals: []*E{lit(TInt, 1), lit(TInt, 5)}, Body: in}, mk(2, []*S{b.m()})}
		case "switch-last":
			s.Cases = []*Case{mk(0, []*S{b.m()}), mk(1, in)}
			s.HasDef, s.DefPos, s.Def = true, 0, []*S{b.m()}
		case "switch-default-first":
			s.Cases = []*Case{mk(0, []*S{b.m()}), mk(1, []*S{b.m()})}
			s.HasDef, s.DefPos, s.Def = true, 0, in
		case "switch-default-last":
			s.Cases = []*Case{mk(0, []*S{b.m()}), mk(1, []*S{b.m()})}
			s.HasDef, s.DefPos, s.Def = true, 2, in
		}
		body = []*S{s}
	case "tagless-mid":
		body = []*S{{K: "switch", Cases: []*Case{{Vals: []*E{chooseIs1()}, Body: []*S{b.m()}}, {Vals: []*E{chooseIs1(), chooseIs1()}, Body: b.after(inner)}, {Vals: []*E{chooseIs1()}, Body: []*S{b.m()}}},
			HasDef: true, DefPos: 1, Def: []*S{b.m()}}}
	case "tagless-default":
		body = []*S{{K: "switch", Cases: []*Case{{Vals: []*E{chooseIs1()}, Body: []*S{b.m()}}}, HasDef: true, DefPos: 1, Def: b.after(inner)}}
	case "while-and-not", "while-or-not":
		// the loop condition ends in a negated operand; the left operand decides on some iterations
		k, f := b.name("k"), b.name("f")
		left := cmp("<", v(k, TInt), lit(TInt, 2))
		cond := &E{K: "and", Ty: TBool, L: left, R: &E{K: "not", Ty: TBool, X: v(f, TBool)}}
		if form == "while-or-not" {
			cond = &E{K: "or", Ty: TBool, L: left, R: &E{K: "not", Ty: TBool, X: v(f, TBool)}}
		}
		body = []*S{{K: "decl", Names: []string{k}, Exprs: []*E{lit(TInt, 0)}}, {K: "decl", Names: []string{f}, Exprs: []*E{chooseIs1()}},
			{K: "for", Cond: cond, Body: b.after(append([]*S{{K: "incdec", Lhs: []*E{v(k, TInt)}, D: 1}, {K: "if", Cond: cmp(">", v(k, TInt), lit(TInt, 3)), Then: []*S{{K: "break"}}}, b.m(v(k, TInt))}, inner...))},
			b.m(v(k, TInt))}
	case "if-or-not":
		f := b.name("f")
		body = []*S{{K: "decl", Names: []string{f}, Exprs: []*E{chooseIs1()}},
			{K: "if", Cond: &E{K: "or", Ty: TBool, L: chooseIs1(), R: &E{K: "not", Ty: TBool, X: v(f, TBool)}}, Then: b.after(inner), HasElse: true, Else: []*S{b.m()}}}
	case "switch-empty-case":
		// a clause without statements that matches: nothing runs, in particular not the default clause
		s := &S{K: "switch", Tag: chooseE(3)}
		s.Cases = []*Case{{Vals: []*E{lit(TInt, 0)}, Body: nil}, {Vals: []*E{lit(TInt, 1), lit(TInt, 4)}, Body: []*S{b.m()}}}
		s.HasDef, s.DefPos, s.Def = true, 2, b.after(inner)
		body = []*S{s}
	case "switch-many-values":
		// clauses with three and four values (tests of different lengths); the tag matches the second of four, the last of
		// three, or none
		y := b.name("y")
		s := &S{K: "switch", Tag: chooseE(4)}
		s.Cases = []*Case{
			{Vals: []*E{lit(TInt, 9), lit(TInt, 1), bin("+", TInt, v(y, TInt), lit(TInt, 10)), lit(TInt, 7)}, Body: b.after(inner)},
			{Vals: []*E{bin("+", TInt, v(y, TInt), lit(TInt, 20)), lit(TInt, 8), lit(TInt, 2)}, Body: []*S{b.m()}},
			{Vals: []*E{lit(TInt, 0), lit(TInt, 11), lit(TInt, 12), lit(TInt, 13), lit(TInt, 14)}, Body: []*S{b.m(v(y, TInt))}}}
		s.HasDef, s.DefPos, s.Def = true, 1, []*S{b.m()}
		body = []*S{{K: "decl", Names: []string{y}, Exprs: []*E{lit(TInt, 5)}}, s}
	case "for-call-cond":
		// the condition of a one-clause for statement is a bare call
		k := b.name("k")
		body = []*S{{K: "decl", Names: []string{k}, Exprs: []*E{lit(TInt, 0)}},
			{K: "for", Cond: &E{K: "call", Fn: "more", Ty: TBool, NRes: 1, Args: []*E{v(k, TInt)}}, Body: b.after(append([]*S{{K: "incdec", Lhs: []*E{v(k, TInt)}, D: 1}, b.m(v(k, TInt))}, inner...))},
			b.m(v(k, TInt))}
	case "tagless-empty-case":
		body = []*S{{K: "switch", Cases: []*Case{{Vals: []*E{chooseIs1()}, Body: nil}, {Vals: []*E{chooseIs1()}, Body: b.after(inner)}}, HasDef: true, DefPos: 2, Def: []*S{b.m()}}}
	default:
		panic("form " + form)
	}
	out := []*S{pre}
	out = append(out, body...)
	if b.tight {
		return out
	}
	return append(out, post)
}

// c06Family enumerates the jump-placement programs for all chains of the given depth.
// stride > 1 sub-samples deterministically (used when the family only feeds another check's corpus).
// cfWithWork puts an accumulator step before every mark of the statement tree and lets the mark print the accumulator.
func cfWithWork(ss []*S, k *int) []*S {
	var out []*S
	acc := v("acc", TInt)
	for _, s := range ss {
		if s.K == "print" {
			*k++
			var step *S
			switch *k % 4 {
			case 0:
				step = &S{K: "opassign", Lhs: []*E{acc}, Op: "-", E: &E{K: "neg", Ty: TInt, X: &E{K: "int", Ty: TInt, V: 48, Spell: "'0'"}}}
			case 1:
				step = &S{K: "assign", Lhs: []*E{acc}, Exprs: []*E{bin("+", TInt, bin("+", TInt, acc, lit(TInt, 1)), lit(TInt, 2))}}
			case 2:
				step = &S{K: "opassign", Lhs: []*E{acc}, Op: "+", E: &E{K: "neg", Ty: TInt, X: &E{K: "int", Ty: TInt, V: 2, Spell: "'\\x02'"}}}
			default:
				step = &S{K: "incdec", Lhs: []*E{acc}, D: 1}
			}
			c := *s
			c.Exprs = append(append([]*E{}, s.Exprs...), acc)
			out = append(out, step, &c)
			continue
		}
		c := *s
		c.Then, c.Else, c.Body, c.Def = cfWithWork(s.Then, k), cfWithWork(s.Else, k), cfWithWork(s.Body, k), cfWithWork(s.Def, k)
		if s.Cases != nil {
			c.Cases = nil
			for _, cs := range s.Cases {
				c.Cases = append(c.Cases, &Case{Vals: cs.Vals, Body: cfWithWork(cs.Body, k)})
			}
		}
		out = append(out, &c)
	}
	if ss == nil {
		return nil
	}
	return out
}

func c06Family(depth int, stride int) []*Prog {
	var progs []*Prog
	var chains [][]string
	var rec func(prefix []string)
	rec = func(prefix []string) {
		if len(prefix) > 0 {
			chains = append(chains, append([]string{}, prefix...))
		}
		if len(prefix) == depth {
			return
		}
		for _, f := range cfForms {
			rec(append(prefix, f))
		}
	}
	rec(nil)
	for _, x := range cfExtraForms {
		chains = append(chains, []string{x})
		if depth >= 2 {
			for _, y := range cfExtraPartners {
				chains = append(chains, []string{x, y}, []string{y, x})
			}
		}
	}
	n := 0
	for _, chain := range chains {
		inLoop, inSwitch := false, false
		for _, f := range chain {
			if cfIsLoop(f) {
				inLoop = true
			}
			if cfIsSwitch(f) {
				inSwitch = true
			}
		}
		for _, jump := range []string{"break", "continue", "return"} {
			if jump == "continue" && !inLoop {
				continue
			}
			if jump == "break" && !inLoop && !inSwitch {
				continue
			}
			for _, variant := range []int{0, 1, 2, 3} {
				guarded := variant&1 == 1
				tight := variant&2 == 2
				n++
				if stride > 1 && n%stride != 0 {
					continue
				}
				b := &cfBuilder{tight: tight}
				var inner []*S
				j := &S{K: jump}
				if guarded && tight {
					inner = []*S{b.m(), {K: "if", Cond: chooseIs1(), Then: []*S{b.m()}, HasElse: true, Else: []*S{j}}}
				} else if guarded {
					inner = []*S{b.m(), {K: "if", Cond: chooseIs1(), Then: []*S{j}}, b.m()}
				} else {
					inner = []*S{b.m(), j}
				}
				// wrap from the innermost form outwards
				for i := len(chain) - 1; i >= 0; i-- {
					inner = b.wrap(chain[i], inner)
				}
				id := fmt.Sprintf("cf/%v/%s/guarded=%v/tight=%v", chain, jump, guarded, tight)
				// every seventh program carries work between the marks: a local accumulator stepped by constants that
				// reach the peephole pass as several instructions (negated character constants, two constant steps in a
				// row) - statements that the optimizer rewrites inside the blocks whose lengths the jumps span
				if n%7 == 3 {
					inner = append([]*S{{K: "decl", Names: []string{"acc"}, Exprs: []*E{lit(TInt, 0)}}}, cfWithWork(inner, new(int))...)
					id += "/work"
				}
				p := &Prog{ID: id, Pkg: "main", Main: "Main", NeedChoice: true}
				p.Funcs = []*Func{{Name: "more", Params: []string{"n"}, PTypes: []*Ty{TInt}, Results: []*Ty{TBool}, Body: []*S{ret(bin("<", TBool, v("n", TInt), lit(TInt, 2)))}}, {Name: "F", Body: inner}, {Name: "Main", Body: []*S{{K: "expr", E: &E{K: "call", Fn: "F"}, NRes: 0}, {K: "print", Ln: true, Exprs: []*E{{K: "str", Ty: TString, S: "end"}}}}}}
				progs = append(progs, p)
			}
		}
	}
	return progs
}

func checkC06(c *Ctx) {
	c.Rule = "programs = the jump-placement family (every nesting chain of depth <= D over 17 compound forms (plus 5 further forms - loop / branch conditions ending in a negated operand, switches with an empty clause that matches - combined with 6 of them) x {break, continue, return} x {bare, guarded}; every seventh program with accumulator steps that the optimizer rewrites between the marks) + seeded random control-flow programs whose conditions are test inputs; every program explored by TLC on ALL input paths (<= 10 inputs per path) and every path replayed on goatlang; distinct_nontrivial = distinct (program, input path) behaviours"
	c.Assumptions = []string{"MiniGo.tla is calibrated against the Go toolchain on every behaviour of a deterministic sample of the family and of every random program", "paths that consume more than 10 test inputs are not explored"}
	depth := c.pick(2, 3)
	progs := c06Family(depth, c.pick(1, 3)) // thorough: every third chain of depth 3 (the full family takes over half an hour)
	c.Extra["family_programs"] = len(progs)
	r := rand.New(rand.NewSource(c.Seed))
	nr := c.pick(150, 3000)
	for i := 0; i < nr; i++ {
		g := NewGen(r, GenOpts{MaxStmts: 30, MaxDepth: 4, Funcs: 1, Choice: true})
		g.ctrlBias = true
		progs = append(progs, g.Program(fmt.Sprintf("c06-rand-%d", i)))
	}
	b := runMiniGoSpec(c, progs, 10, "c06")
	nb := 0
	for _, p := range progs {
		for _, bh := range b.Behs[p.ID] {
			nb++
			c.distinct(hashKey(p.ID + fmt.Sprint(bh.Ch)))
		}
	}
	c.Extra["behaviours"] = nb
	// calibration on a deterministic sample (every 9th family program) and every random program
	var cal []*Prog
	for i, p := range progs {
		if i%9 == 0 || i >= len(progs)-nr {
			cal = append(cal, p)
		}
	}
	calibrateGo(c, &mgBatch{Progs: cal, Sources: b.Sources, Behs: b.Behs}, "c06")
	compareBehaviours(c, b, true, "control-flow")
	if len(progs) > 40 {
		p := progs[40]
		c.sample(map[string]any{"program": p.ID, "source": clip(b.Sources[p.ID], 1200), "paths": len(b.Behs[p.ID])})
	}
}
