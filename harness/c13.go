package main

import (
	"fmt"
	"math/rand"
	"strconv"
	"strings"
	"unicode/utf8"
)

// C13 — strings are immutable UTF-8 byte sequences with Go's operations.
//
// Every string of length <= 3 (quick) / <= 4 (thorough) over a 12-byte alphabet (ASCII, the bytes of
// valid 2-, 3- and 4-byte runes, continuation bytes out of place, 0xFF) is put through every
// operation: len, s[i] (value and uint8 wrap-around), every s[i:j], range (offset, rune), string(rune)
// of every ranged rune, []byte(s) and back, comparison against a fixed set, concatenation (operands
// intact). Literal spellings: interpreted strings with every escape form, raw strings, character
// literals. MiniGo.tla/GoString.tla (DecodeRune, EncodeRune, bytewise order) give the expected
// output under TLC; goatlang is run in both optimizer modes; the Go toolchain calibrates a sample.

func init() { register("C13", checkC13) }

var c13Alphabet = []byte{'a', ' ', 0xC3, 0xA9, 0xE2, 0x82, 0xAC, 0xF0, 0x9F, 0x90, 0x80, 0xFF}

func c13Strings(maxLen int) []string {
	var out []string
	var rec func(prefix []byte)
	rec = func(prefix []byte) {
		out = append(out, string(prefix))
		if len(prefix) == maxLen {
			return
		}
		for _, b := range c13Alphabet {
			rec(append(append([]byte{}, prefix...), b))
		}
	}
	rec(nil)
	return out
}

// spellings of a string literal that denote the same bytes
func c13Spell(s string, k int) string {
	switch k % 5 {
	case 0: // \x escapes for everything outside printable ASCII
		return goStringLit(s, false)
	case 1: // raw string when possible
		if utf8.ValidString(s) && !strings.ContainsAny(s, "`\r") {
			return "`" + s + "`"
		}
		return goStringLit(s, false)
	case 2: // octal escapes
		var b strings.Builder
		b.WriteByte('"')
		for i := 0; i < len(s); i++ {
			fmt.Fprintf(&b, `\%03o`, s[i])
		}
		b.WriteByte('"')
		return b.String()
	case 3: // \u / \U escapes for valid multi-byte runes, \x otherwise
		var b strings.Builder
		b.WriteByte('"')
		for i := 0; i < len(s); {
			r, w := utf8.DecodeRuneInString(s[i:])
			switch {
			case r == utf8.RuneError && w == 1:
				fmt.Fprintf(&b, `\x%02x`, s[i])
			case r < 0x80:
				if r == '"' || r == '\\' {
					b.WriteByte('\\')
				}
				b.WriteRune(r)
			case r < 0x10000:
				fmt.Fprintf(&b, `\u%04x`, r)
			default:
				fmt.Fprintf(&b, `\U%08x`, r)
			}
			i += w
		}
		b.WriteByte('"')
		return b.String()
	default: // literal UTF-8 text when valid
		if utf8.ValidString(s) {
			return strconv.Quote(s)
		}
		return goStringLit(s, false)
	}
}

func c13Program(id string, strs []string, k0 int) *Prog {
	p := &Prog{ID: id, Pkg: "main", Main: "Main"}
	var body []*S
	pr := func(tag string, es ...*E) *S {
		return &S{K: "print", Ln: true, Exprs: append([]*E{{K: "str", Ty: TString, S: tag}}, es...)}
	}
	cmpSet := []string{"", "a", "a\xff", "\xc3\xa9", "b", "\xe2\x82"}
	for n, s := range strs {
		name := fmt.Sprintf("s%d", n)
		sv := v(name, TString)
		spell := c13Spell(s, k0+n)
		if un, err := strconv.Unquote(spell); err != nil || un != s {
			fatalf("spelling %s does not denote %q", spell, s)
		}
		body = append(body, &S{K: "decl", Names: []string{name}, Exprs: []*E{{K: "str", Ty: TString, S: s, Spell: spell}}})
		body = append(body, pr("S", lenOf(sv)))
		for i := 0; i < len(s); i++ {
			ix := &E{K: "index", Ty: TUint8, X: sv, I: lit(TInt, int64(i))}
			body = append(body, pr("b", ix, &E{K: "bin", Ty: TUint8, Op: "+", L: ix, R: lit(TUint8, 200)}))
			// string(b) of a byte is the UTF-8 text of the code point b (two bytes from 0x80 on), not the byte itself
			sb := &E{K: "conv", Ty: TString, X: ix}
			body = append(body, pr("sb", lenOf(sb), sb))
		}
		for i := 0; i <= len(s); i++ {
			for j := i; j <= len(s); j++ {
				sl := &E{K: "slice", Ty: TString, X: sv}
				if i > 0 || (i+j)%2 == 0 {
					sl.Lo = lit(TInt, int64(i))
				}
				if j < len(s) || (i+j)%3 == 0 {
					sl.Hi = lit(TInt, int64(j))
				}
				if sl.Lo == nil && i != 0 {
					sl.Lo = lit(TInt, int64(i))
				}
				if sl.Hi == nil && j != len(s) {
					sl.Hi = lit(TInt, int64(j))
				}
				body = append(body, pr("sl", sl))
			}
		}
		i, c := fmt.Sprintf("i%d", n), fmt.Sprintf("c%d", n)
		body = append(body, &S{K: "range", X: sv, KName: i, VName: c, Body: []*S{pr("r", v(i, TInt), v(c, TInt), &E{K: "conv", Ty: TString, X: v(c, TInt)})}})
		bn := fmt.Sprintf("b%d", n)
		bt := SliceOf(TUint8)
		body = append(body, &S{K: "decl", Names: []string{bn}, Exprs: []*E{{K: "conv", Ty: bt, X: sv}}})
		body = append(body, pr("by", lenOf(v(bn, bt)), cmp("==", &E{K: "conv", Ty: TString, X: v(bn, bt)}, sv)))
		if len(s) > 0 {
			// the byte slice is a copy: writing to it does not alter the string
			body = append(body, &S{K: "assign", Lhs: []*E{{K: "index", Ty: TUint8, X: v(bn, bt), I: lit(TInt, 0)}}, Exprs: []*E{lit(TUint8, 'Z')}})
			body = append(body, pr("im", sv, &E{K: "conv", Ty: TString, X: v(bn, bt)}))
		}
		// copy from a string moves its BYTES (typed byte) into the slice
		cn := fmt.Sprintf("cb%d", n)
		body = append(body, &S{K: "decl", Names: []string{cn}, Exprs: []*E{{K: "make", Ty: bt, X: lit(TInt, int64(len(s)+1))}}})
		body = append(body, &S{K: "copy", Dst: v(cn, bt), E: sv})
		body = append(body, pr("cp", cmp("==", &E{K: "conv", Ty: TString, X: &E{K: "slice", Ty: bt, X: v(cn, bt), Hi: lit(TInt, int64(len(s)))}}, sv), &E{K: "index", Ty: TUint8, X: v(cn, bt), I: lit(TInt, int64(len(s)))}))
		for i := 0; i < len(s); i++ {
			ix := &E{K: "index", Ty: TUint8, X: v(cn, bt), I: lit(TInt, int64(i))}
			body = append(body, pr("cpb", ix, &E{K: "bin", Ty: TUint8, Op: "+", L: ix, R: lit(TUint8, 200)}))
		}
		// a second []byte(s) after the first result was written to is again the bytes of s
		b2 := fmt.Sprintf("bb%d", n)
		body = append(body, &S{K: "decl", Names: []string{b2}, Exprs: []*E{{K: "conv", Ty: bt, X: sv}}})
		body = append(body, pr("by2", cmp("==", &E{K: "conv", Ty: TString, X: v(b2, bt)}, sv), lenOf(v(b2, bt))))
		// two literals of different kinds (raw, interpreted, escapes) joined: the value is the concatenation of what each denotes
		{
			fixed := []struct{ s, spell string }{{"\\n", "`\\n`"}, {"\n", `"\n"`}, {"C:\\t", "`C:\\t`"}, {"\"q\"", "`\"q\"`"}, {"a\tb", `"a\tb"`}}[n%5]
			l1 := &E{K: "str", Ty: TString, S: s, Spell: c13Spell(s, k0+n+1)}
			l2 := &E{K: "str", Ty: TString, S: fixed.s, Spell: fixed.spell}
			cat := &E{K: "bin", Ty: TString, Op: "+", L: l1, R: l2}
			cat2 := &E{K: "bin", Ty: TString, Op: "+", L: &E{K: "str", Ty: TString, S: fixed.s, Spell: fixed.spell}, R: &E{K: "str", Ty: TString, S: s, Spell: c13Spell(s, k0+n+2)}}
			body = append(body, pr("lit+lit", lenOf(cat), cat, lenOf(cat2), cat2))
		}
		// append(b, s...) appends the bytes of s
		an := fmt.Sprintf("ab%d", n)
		body = append(body, &S{K: "decl", Names: []string{an}, Exprs: []*E{{K: "append", Ty: bt, X: &E{K: "conv", Ty: bt, X: &E{K: "str", Ty: TString, S: "x"}}, Args: []*E{sv}, Spread: true}}})
		body = append(body, pr("ap", lenOf(v(an, bt)), cmp("==", &E{K: "conv", Ty: TString, X: v(an, bt)}, &E{K: "bin", Ty: TString, Op: "+", L: &E{K: "str", Ty: TString, S: "x"}, R: sv})))
		for _, t := range cmpSet {
			te := &E{K: "str", Ty: TString, S: t}
			body = append(body, pr("c", cmp("<", sv, te), cmp("<=", sv, te), cmp("==", sv, te), cmp("!=", sv, te), cmp(">", sv, te), cmp(">=", sv, te)))
		}
		un := fmt.Sprintf("u%d", n)
		body = append(body, &S{K: "decl", Names: []string{un}, Exprs: []*E{{K: "bin", Ty: TString, Op: "+", L: sv, R: &E{K: "str", Ty: TString, S: "\xa9!"}}}})
		body = append(body, pr("cat", lenOf(v(un, TString)), v(un, TString), sv))
	}
	p.Funcs = []*Func{{Name: "Main", Body: body}}
	return p
}

// character literal spellings and the rune values they denote
var c13Chars = []struct {
	spell string
	val   int64
}{
	{`'a'`, 'a'}, {`' '`, ' '}, {`'\''`, '\''}, {`'"'`, '"'}, {`'\\'`, '\\'}, {`'\n'`, '\n'}, {`'\t'`, '\t'}, {`'\r'`, '\r'}, {`'\a'`, 7}, {`'\b'`, 8},
	{`'\f'`, 12}, {`'\v'`, 11}, {`'\x41'`, 0x41}, {`'\xff'`, 0xff}, {`'\101'`, 65}, {`'\000'`, 0}, {`'é'`, 0xe9}, {`'€'`, 0x20ac},
	{`'\U0001F600'`, 0x1F600}, {`'é'`, 0xe9}, {`'€'`, 0x20ac}, {`'😀'`, 0x1F600}, {`'0'`, '0'}, {`'~'`, '~'},
}

func c13CharProgram() *Prog {
	p := &Prog{ID: "c13/chars", Pkg: "main", Main: "Main"}
	var body []*S
	for _, c := range c13Chars {
		e := &E{K: "int", Ty: TInt, V: c.val, Spell: c.spell}
		body = append(body, &S{K: "print", Ln: true, Exprs: []*E{{K: "str", Ty: TString, S: "ch"}, e, {K: "conv", Ty: TString, X: &E{K: "conv", Ty: TInt, X: e}}}})
	}
	// escapes inside interpreted strings
	for _, sp := range []string{`"\a\b\f\n\r\t\v\\\""`, `"\x00\x7f\xff"`, `"\101\377"`, `"é€\U0001F600"`, "`raw \\n \\x41 \"q\"`", `"tab\there"`, `"'"`, "`'`"} {
		s, err := strconv.Unquote(sp)
		if err != nil {
			fatalf("bad spelling %s", sp)
		}
		body = append(body, &S{K: "print", Ln: true, Exprs: []*E{{K: "str", Ty: TString, S: "lit"}, lenOf(&E{K: "str", Ty: TString, S: s, Spell: sp}), {K: "str", Ty: TString, S: s, Spell: sp}}})
	}
	// the same characters between the quotes mean different bytes in an interpreted and in a raw literal:
	// both spellings appear in one program (in both orders)
	for i, inner := range []string{`a\tb`, `\n`, `\x41`, `\\`, `q\"`, `\u00e9`, `\101`} {
		interp := "\"" + inner + "\""
		raw := "`" + inner + "`"
		is, err := strconv.Unquote(interp)
		if err != nil {
			fatalf("bad spelling %s", interp)
		}
		a := &E{K: "str", Ty: TString, S: is, Spell: interp}
		b := &E{K: "str", Ty: TString, S: inner, Spell: raw}
		if i%2 == 1 {
			a, b = b, a
		}
		body = append(body, &S{K: "print", Ln: true, Exprs: []*E{{K: "str", Ty: TString, S: "pair"}, lenOf(a), lenOf(b), a, b, cmp("==", a, b)}})
	}
	// raw strings that span lines, followed by more tokens on the line they end on
	for ri, sp := range []string{"`l1\nl2`", "`\n`", "`a\n\nb`", "`x\n`", "`c1\r\nc2`", "`\r\n`", "`a\rb`"} {
		rs := fmt.Sprintf("rs%d", ri)
		// carriage returns inside a raw string literal are discarded from its value
		s := strings.ReplaceAll(sp[1:len(sp)-1], "\r", "")
		mk := func() *E { return &E{K: "str", Ty: TString, S: s, Spell: sp} }
		body = append(body, &S{K: "print", Ln: true, Exprs: []*E{{K: "str", Ty: TString, S: "ml"}, lenOf(mk()), {K: "bin", Ty: TString, Op: "+", L: mk(), R: &E{K: "str", Ty: TString, S: "c"}}, cmp("==", mk(), &E{K: "str", Ty: TString, S: "x"}), mk(), lit(TInt, 7)}})
		body = append(body, &S{K: "decl", Names: []string{rs}, Exprs: []*E{{K: "bin", Ty: TString, Op: "+", L: mk(), R: mk()}}},
			&S{K: "print", Ln: true, Exprs: []*E{{K: "str", Ty: TString, S: "ml2"}, lenOf(v(rs, TString)), {K: "index", Ty: TUint8, X: mk(), I: lit(TInt, 0)}}})
	}
	p.Funcs = []*Func{{Name: "Main", Body: body}}
	return p
}

func checkC13(c *Ctx) {
	c.Rule = "strings = every byte string of length <= L over a 12-byte alphabet (ASCII, lead/continuation bytes of 2-, 3-, 4-byte runes, 0xFF), each spelled in one of 5 literal styles, through len, every index (and string(s[i])), every slice, range, string(rune), []byte round trip, 6 comparisons against 6 strings, concatenation; all character-literal escape forms; seeded random string programs; distinct_nontrivial = strings containing a non-ASCII byte"
	c.Assumptions = []string{"MiniGo.tla/GoString.tla are calibrated against the Go toolchain on a deterministic sample (every 7th program) and on the character-literal program", "literal spellings are checked with strconv.Unquote to denote the intended bytes before use"}
	L := c.pick(3, 4)
	strs := c13Strings(L)
	c.Extra["strings"] = len(strs)
	var progs []*Prog
	per := 12
	for i := 0; i < len(strs); i += per {
		j := i + per
		if j > len(strs) {
			j = len(strs)
		}
		progs = append(progs, c13Program(fmt.Sprintf("c13/strs%d", i), strs[i:j], i))
	}
	for _, s := range strs {
		for i := 0; i < len(s); i++ {
			if s[i] >= 0x80 {
				c.distinct(hashKey(s))
				break
			}
		}
	}
	progs = append(progs, c13CharProgram())
	r := rand.New(rand.NewSource(c.Seed))
	nr := c.pick(100, 2000)
	for i := 0; i < nr; i++ {
		g := NewGen(r, GenOpts{MaxStmts: 30, MaxDepth: 2, Funcs: 2, Strings: true, Containers: true})
		g.stringBias = true
		progs = append(progs, g.Program(fmt.Sprintf("c13-rand-%d", i)))
	}
	b := runMiniGoSpec(c, progs, 0, "c13")
	var cal []*Prog
	for i, p := range progs {
		if i%7 == 0 || i >= len(progs)-nr-1 {
			cal = append(cal, p)
		}
	}
	calibrateGo(c, &mgBatch{Progs: cal, Sources: b.Sources, Behs: b.Behs}, "c13")
	compareBehaviours(c, b, true, "string")
	compareBehaviours(c, b, false, "string")
	p := progs[len(progs)/4]
	c.sample(map[string]any{"program": p.ID, "source": clip(b.Sources[p.ID], 1500)})
}
