package main

import (
	"fmt"
	"math/rand"
	"strings"
)

// The fusion-boundary family (C02, C07): every expression / statement shape that the peephole pass
// fuses (local op local, local[const], local.field, local.method(), global(), x + 1, x++ ...) placed at
// the END of every kind of separately compiled chunk that a jump spans (right operand of && / ||,
// if / else-if / for conditions, case values, last statement of a block, for-post, return value,
// call argument). Each function is called with every combination of its inputs so that both outcomes
// of every jump are taken. Optimizer off is the oracle (C02); the code of both modes is explored (C07).

type fusionPat struct {
	name string
	expr string
}

var fusionInts = []fusionPat{
	{"local+local", "a + b"}, {"local*local", "a * b"}, {"local-local", "a - b"}, {"local/local", "a / d"},
	{"slice[int]", "xs[1]"}, {"map[const]", "m[\"k\"]"}, {"local.field", "t.n"}, {"local.method()", "t.get()"},
	{"global()", "gf()"}, {"x+1", "a + 1"}, {"x-1", "a - 1"}, {"local", "a"}, {"const", "2"}, {"global", "G"},
	{"param.field", "p.n"}, {"len(local)", "len(xs)"}, {"nested field", "t.in.n"},
	// constants that reach the peephole pass as more than one instruction (unary operators on character and
	// parenthesised constants), and fusion chains of more than two links
	{"-rune", "-'\\x01'"}, {"local - -rune", "a - -'\\x01'"}, {"local + ^rune", "a + ^'\\x02'"}, {"-local", "-a"}, {"x+1+1", "a + 1 + 1"}, {"x-1+2", "b - 1 + 2"},
}

var fusionBools = []fusionPat{
	{"local.boolfield", "t.ok"}, {"local.boolmethod()", "t.yes()"}, {"globalbool()", "gb()"}, {"local bool", "c2"}, {"param.boolfield", "p.ok"},
	{"!local.boolfield", "!t.ok"}, {"nested boolfield", "t.in.ok"},
}

var fusionStmts = []fusionPat{
	{"local++", "a++"}, {"local--", "a--"}, {"local=local+1", "a = a + 1"}, {"local+=1", "a += 1"}, {"local-=1", "a -= 1"},
	{"slice[int]=", "xs[1] = a"}, {"map[const]=", "m[\"k\"] = b"}, {"local.field=", "t.n = a"}, {"local=local+local", "r = a + b"},
	{"local.field++", "t.n++"}, {"slice[int]++", "xs[1]++"}, {"map[const]+=", "m[\"k\"] += 2"}, {"call stmt", "gf()"}, {"method stmt", "t.get()"},
	{"field=field", "t.n = t.in.n"}, {"global=", "G = a"}, {"empty", ""},
	{"local-=-rune", "a -= -'\\x01'"}, {"local+=-rune", "b += -'\\x02'"}, {"local=local- -rune", "a = a - -'\\x01'"}, {"local+=^rune", "a += ^'\\x01'"},
	{"local=local+1+1", "a = a + 1 + 1"}, {"field-=-rune", "t.n -= -'\\x01'"}, {"slice[int]-=-rune", "xs[1] -= -'\\x02'"},
}

// contexts: E = boolean expression under test, P = int expression, S = statement
var fusionBoolCtx = []string{
	"if E {\n\tr = 1\n} else {\n\tr = 2\n}",
	"if c && E {\n\tr = 1\n} else {\n\tr = 2\n}",
	"if c || E {\n\tr = 1\n} else {\n\tr = 2\n}",
	"if E && c {\n\tr = 1\n} else {\n\tr = 2\n}",
	"if E || c {\n\tr = 1\n} else {\n\tr = 2\n}",
	"if c && E {\n\tr = 1\n}",
	"if c || E {\n}",
	"if !(c && E) {\n\tr = 1\n}",
	"for r < 3 && E {\n\tr++\n}",
	"for E && r < 3 {\n\tr++\n}",
	"for E {\n\tr++\n\tif r > 2 {\n\t\tbreak\n\t}\n}",
	"for i := 0; i < 3 && E; i++ {\n\tr += i\n}",
	"if c {\n\tr = 5\n} else if E {\n\tr = 1\n} else {\n\tr = 2\n}",
	"if c {\n\tr = 5\n} else if c2 && E {\n\tr = 1\n}",
	"switch {\ncase c:\n\tr = 5\ncase E:\n\tr = 1\ndefault:\n\tr = 2\n}",
	"switch {\ncase c && E:\n\tr = 5\ncase c2 || E:\n\tr = 1\n}",
	"v := c && E\nif v {\n\tr = 1\n}",
	"v := c || E\nif !v {\n\tr = 1\n}",
	"if c {\n\treturn b2i(E)\n}",
	"if c {\n\treturn b2i(c2 && E)\n}",
	"r = b2i(E) + b2i(c || E)",
	"for i := 0; i < 2; i++ {\n\tif E {\n\t\tcontinue\n\t}\n\tr++\n}",
	"for i := 0; i < 2; i++ {\n\tif c && E {\n\t\tbreak\n\t}\n\tr++\n}",
	// nested short-circuit operators: the fusible operand is the LEFT operand of the inner one
	"if c || E && c2 {\n\tr = 1\n} else {\n\tr = 2\n}",
	"if c && (E || c2) {\n\tr = 1\n} else {\n\tr = 2\n}",
	"if c || (E || c2) {\n\tr = 1\n}",
	"v := c || E && c2\nr = b2i(!v)",
	"r = b2i(!(c || E && c2)) + b2i(c && (E || c2) == c2)",
	"for r < 3 && (c || E && c2) {\n\tr++\n}",
	"for c || !E {\n\tr++\n\tif r > 2 {\n\t\tbreak\n\t}\n}",
	"for r < 2 && !E {\n\tr++\n}",
	"if !(c && !E) {\n\tr = 1\n}",
	"switch a {\ncase 1:\ncase 2:\n\tr = 2\ndefault:\n\tr = 3\n}\nif E {\n}",
}

var fusionIntCtx = []string{
	"switch a {\ncase P:\n\tr = 1\ncase b, P:\n\tr = 2\ndefault:\n\tr = 3\n}",
	"switch b {\ncase 7, P:\n\tr = 1\ncase P, 1:\n\tr = 2\n}",
	"switch P {\ncase 1:\n\tr = 1\ncase 2, 3:\n\tr = 2\ndefault:\n\tr = 3\n}",
	"if c {\n\tr = P\n}",
	"if c {\n\tr = 1\n} else {\n\tr = P\n}",
	"if c && P > 1 {\n\tr = 1\n} else {\n\tr = 2\n}",
	"if c || P > 1 {\n\tr = 1\n}",
	"if P > 1 && c {\n\tr = 1\n}",
	"if c || b == P {\n\tr = 1\n}",
	"for i := 0; i < 2; i++ {\n\tr += P\n}",
	"for i := P; i < 4; i++ {\n\tr++\n}",
	"for i := 0; i < P && i < 4; i++ {\n\tr++\n}",
	"for i := 0; i < 3; i += 1 {\n\tr = P\n}",
	"if c {\n\treturn P\n}",
	"if c {\n\treturn id(P)\n}\nr = id(P) + 1",
	"xs[0] = P",
	"t.n = P",
	"m[\"j\"] = P",
	"r = P\nr += P",
	"v := P\nr = v + P",
	"for r < P && r < 4 {\n\tr++\n}",
	"switch {\ncase c:\n\tr = P\ncase P > 1:\n\tr = 7\n}",
}

var fusionStmtCtx = []string{
	"if c {\n\tS\n}",
	"if c {\n\tr = 1\n} else {\n\tS\n}",
	"if c {\n\tS\n} else {\n\tr = 1\n}",
	"for i := 0; i < 2; i++ {\n\tS\n}",
	"for i := 0; i < 2; i++ {\n\tif c {\n\t\tS\n\t\tcontinue\n\t}\n\tr++\n}",
	"switch {\ncase c:\n\tS\ndefault:\n\tr = 1\n}",
	"switch a {\ncase 1:\n\tS\ncase 2:\n\tr = 1\n}",
	"if c {\n\tif c2 {\n\t\tS\n\t}\n}",
	"for c && r < 2 {\n\tr++\n\tS\n}",
	"S\nif c {\n\tS\n}\nS",
}

func init() {
	extraCorpus = append(extraCorpus, func(c *Ctx, r *rand.Rand) []map[string]string {
		var out []map[string]string
		ps := fusionPrograms()
		step := c.pick(4, 1) // quick: a quarter of the family, which quarter depends on the seed
		for i := int(c.Seed % int64(step)); i < len(ps); i += step {
			out = append(out, map[string]string{"main/main.go": ps[i]})
		}
		return out
	})
}

func fusionPrograms() []string {
	var out []string
	header := `package main

type In struct {
	n  int
	ok bool
}

type T struct {
	n  int
	ok bool
	in *In
}

func (t *T) get() int {
	return t.n
}

func (t *T) yes() bool {
	return t.ok
}

var G int = 2

func gf() int {
	return 3
}

func gb() bool {
	return G > 1
}

func id(x int) int {
	return x
}

func b2i(x bool) int {
	if x {
		return 1
	}
	return 0
}

`
	mk := func(title string, bodies []string) string {
		var sb strings.Builder
		sb.WriteString(header)
		for i, body := range bodies {
			fmt.Fprintf(&sb, "func F%d(c bool, c2 bool, a int, b int, p *T) int {\n\td := b + 1\n\tt := &T{n: b, ok: a > 1, in: &In{n: a, ok: b > 1}}\n\txs := []int{a, b, 7}\n\tm := map[string]int{\"k\": a}\n\tr := 0\n", i)
			for _, l := range strings.Split(body, "\n") {
				sb.WriteString("\t" + l + "\n")
			}
			sb.WriteString("\tprintln(r, a, b, d, xs[0], xs[1], m[\"k\"], m[\"j\"], t.n, t.ok, t.in.n, G)\n\treturn r\n}\n\n")
		}
		sb.WriteString("func Main() {\n\tprintln(\"" + title + "\")\n\tbs := []bool{false, true}\n\tfor _, c := range bs {\n\t\tfor _, c2 := range bs {\n\t\t\tfor a := 1; a < 3; a++ {\n\t\t\t\tfor b := 1; b < 3; b++ {\n\t\t\t\t\tp := &T{n: a, ok: c2}\n")
		for i := range bodies {
			fmt.Fprintf(&sb, "\t\t\t\t\tG = 2\n\t\t\t\t\tprintln(%d, F%d(c, c2, a, b, p))\n", i, i)
		}
		sb.WriteString("\t\t\t\t}\n\t\t\t}\n\t\t}\n\t}\n}\n")
		return sb.String()
	}
	for _, p := range fusionBools {
		var bodies []string
		for _, ctx := range fusionBoolCtx {
			bodies = append(bodies, strings.ReplaceAll(ctx, "E", p.expr))
		}
		out = append(out, mk("bool "+p.name, bodies))
	}
	for _, p := range fusionInts {
		var bodies []string
		for _, ctx := range fusionIntCtx {
			bodies = append(bodies, strings.ReplaceAll(ctx, "P", p.expr))
		}
		// the int pattern compared, in every boolean context
		for _, ctx := range fusionBoolCtx {
			bodies = append(bodies, strings.ReplaceAll(ctx, "E", p.expr+" > 1"))
		}
		out = append(out, mk("int "+p.name, bodies))
	}
	for _, p := range fusionStmts {
		var bodies []string
		for _, ctx := range fusionStmtCtx {
			bodies = append(bodies, strings.ReplaceAll(ctx, "S", p.expr))
		}
		out = append(out, mk("stmt "+p.name, bodies))
	}
	return out
}
