package main

import (
	"fmt"
	"math/rand"
)

// Random typed program generator for the MiniGo subset. Programs are valid Go (checked by the
// calibration run with the Go toolchain), terminate, and print enough of their state to make
// mis-executions visible.

type gvar struct {
	name     string
	ty       *Ty
	ro       bool // loop counters etc. must not be assigned by generated statements
	maybeNil bool // a map or pointer that may be nil: never written through unless Panics
	fresh    bool // a slice whose capacity equals its length (literal / make): aliasing is growth-policy independent
}

type gfunc struct {
	name     string
	params   []*Ty
	results  []*Ty
	variadic bool
	method   bool // T.m: first param is the receiver
	recvTy   string
	pure     bool
	quiet    bool // neither prints nor can fault (transitively): see quietBody
}

type GenOpts struct {
	Choice     bool // conditions may read choice()
	MaxStmts   int
	MaxDepth   int
	Structs    bool
	Containers bool
	Strings    bool
	Funcs      int
	SmallInts  bool // also use int8/uint8/uint32 locals
	Lib        bool // calls of the bundled string library (strings.*, strconv.Itoa): GoStrLib.tla
	Packages   bool // move a closed set of declarations into an imported package (mg_split.go)
	Ifaces     bool // append the interface feature block (mg_gen3.go)
	NamedTypes bool // append the named / alias type feature block
	Panics     bool // allow statements that may panic at run time (index out of range, nil map write ...)
	FuncLits   bool
	OneStruct  bool // exactly one struct type
	NoGlobals  bool // no generated package-level variables
}

type Gen struct {
	r        *rand.Rand
	o        GenOpts
	prog     *Prog
	scopes   [][]gvar
	funcs    []gfunc
	callable int // functions with index < callable may be called from the function being generated
	loop     int
	swtch    int
	results  []*Ty
	nvar     int
	budget   int
	mark     int
	lits     int
	inLit    bool
	chLeft   int
	impure   bool // the function being generated writes package-level state (directly or through a callee)
	// shared: slice variables whose value has been copied (assigned, passed, returned). Appending to a
	// shared slice is observable only through the growth policy, which Go leaves to the implementation
	// (and which differs between []int32 and goatlang's []Value): such appends are never generated.
	shared map[string]bool
	// ctrlBias: prefer control-flow statements (C06 profile)
	ctrlBias bool
	// callBias: prefer calls, function literals, method values, returns (C09 profile)
	callBias bool
	// shadowBias: most declarations reuse a visible name (C08 profile)
	shadowBias bool
	// stringBias: prefer the string templates (C13 profile)
	stringBias bool
}

func NewGen(r *rand.Rand, o GenOpts) *Gen { return &Gen{r: r, o: o} }

func (g *Gen) push()            { g.scopes = append(g.scopes, nil) }
func (g *Gen) pop()             { g.scopes = g.scopes[:len(g.scopes)-1] }
func (g *Gen) declare(v gvar)   { g.scopes[len(g.scopes)-1] = append(g.scopes[len(g.scopes)-1], v) }
func (g *Gen) fresh(p string) string {
	g.nvar++
	return fmt.Sprintf("%s%d", p, g.nvar)
}

// visible variables (innermost shadowing outer ones)
func (g *Gen) visible() []gvar {
	seen := map[string]bool{}
	var out []gvar
	for i := len(g.scopes) - 1; i >= 0; i-- {
		for j := len(g.scopes[i]) - 1; j >= 0; j-- {
			v := g.scopes[i][j]
			if !seen[v.name] {
				seen[v.name] = true
				out = append(out, v)
			}
		}
	}
	return out
}

func (g *Gen) varsOf(t *Ty, writable bool) []gvar {
	var out []gvar
	for _, v := range g.visible() {
		if v.ty.Eq(t) && (!writable || !v.ro) {
			out = append(out, v)
		}
	}
	return out
}

// isGlobal reports whether name currently resolves to a package-level variable.
func (g *Gen) isGlobal(name string) bool {
	for i := len(g.scopes) - 1; i >= 0; i-- {
		for _, v := range g.scopes[i] {
			if v.name == name {
				return i == 0
			}
		}
	}
	return false
}

func (g *Gen) inCurrentScope(name string) bool {
	for _, v := range g.scopes[len(g.scopes)-1] {
		if v.name == name {
			return true
		}
	}
	return false
}

func (g *Gen) intTypes() []*Ty {
	if g.o.SmallInts {
		return []*Ty{TInt, TInt, TInt, TUint8, TInt8, TUint32}
	}
	return []*Ty{TInt}
}

func (g *Gen) scalarType() *Ty {
	ts := append([]*Ty{}, g.intTypes()...)
	ts = append(ts, TBool)
	if g.o.Strings {
		ts = append(ts, TString, TString)
	}
	return ts[g.r.Intn(len(ts))]
}

func (g *Gen) anyType() *Ty {
	x := g.r.Intn(10)
	switch {
	case x < 6:
		return g.scalarType()
	case x < 8 && g.o.Containers:
		return SliceOf([]*Ty{TInt, TInt, TString, TUint8}[g.r.Intn(4)])
	case x < 9 && g.o.Containers:
		return MapOf([]*Ty{TString, TInt}[g.r.Intn(2)], []*Ty{TInt, TString}[g.r.Intn(2)])
	case g.o.Structs && len(g.prog.Structs) > 0:
		return PtrTo(g.prog.Structs[g.r.Intn(len(g.prog.Structs))].Name)
	}
	return g.scalarType()
}

func litRange(t *Ty) (int64, int64) {
	switch t.K {
	case "int8":
		return -128, 127
	case "uint8":
		return 0, 255
	case "uint32":
		return 0, 4294967295
	}
	return -2147483648, 2147483647
}

func (g *Gen) intLit(t *Ty) *E {
	lo, hi := litRange(t)
	var v int64
	switch g.r.Intn(10) {
	case 0:
		v = hi
	case 1:
		v = lo
	case 2:
		v = hi - int64(g.r.Intn(3))
	default:
		v = int64(g.r.Intn(20)) - 4
	}
	if v < lo {
		v = lo
	}
	if v > hi {
		v = hi
	}
	e := &E{K: "int", Ty: t, V: v}
	// other spellings of the same constant: hexadecimal and octal, also below zero
	if g.r.Intn(8) == 0 {
		mag, sign := v, ""
		if v < 0 {
			mag, sign = -v, "-"
		}
		if g.r.Intn(2) == 0 {
			e.Spell = fmt.Sprintf("%s0x%x", sign, mag)
		} else if mag > 0 {
			e.Spell = fmt.Sprintf("%s0%o", sign, mag)
		}
	}
	return e
}

var genStrings = []string{"", "a", "b", "ab", "go", "héllo", "x y", "Z", "abc", "\xff", "日本", "q"}

func (g *Gen) strLit() *E {
	return &E{K: "str", Ty: TString, S: genStrings[g.r.Intn(len(genStrings))]}
}

// isConst reports whether Go treats e as a constant expression (folded, overflow-checked, and
// compared for duplicate switch cases at compile time).
func isConst(e *E) bool {
	switch e.K {
	case "int", "bool", "str":
		return true
	case "bin", "and", "or":
		return isConst(e.L) && isConst(e.R)
	case "not", "neg", "compl":
		return isConst(e.X)
	case "conv":
		return isConst(e.X) && (e.Ty.IsInt() || e.Ty.K == "string")
	}
	return false
}

// expr generates an expression of type t.
func (g *Gen) expr(t *Ty, depth int) *E {
	vars := g.varsOf(t, false)
	leaf := depth <= 0 || g.r.Intn(4) == 0
	if t.K == "slice" && len(vars) > 0 && g.r.Intn(3) > 0 {
		x := vars[g.r.Intn(len(vars))]
		g.shared[x.name] = true
		return &E{K: "var", Ty: t, Name: x.name}
	}
	if t.K == "slice" {
		if c := g.callReturning(t, depth); c != nil && g.r.Intn(2) == 0 {
			return c
		}
		return g.literal(t)
	}
	if leaf {
		if len(vars) > 0 && g.r.Intn(4) > 0 {
			return &E{K: "var", Ty: t, Name: vars[g.r.Intn(len(vars))].name}
		}
		return g.literal(t)
	}
	switch {
	case t.IsInt():
		return g.intExpr(t, depth)
	case t.K == "bool":
		return g.boolExpr(depth)
	case t.K == "string":
		return g.strExpr(depth)
	}
	if len(vars) > 0 && g.r.Intn(3) > 0 {
		return &E{K: "var", Ty: t, Name: vars[g.r.Intn(len(vars))].name}
	}
	// a call returning exactly this type
	if c := g.callReturning(t, depth); c != nil && g.r.Intn(2) == 0 {
		return c
	}
	return g.literal(t)
}

func (g *Gen) literal(t *Ty) *E {
	switch {
	case t.IsInt():
		return g.intLit(t)
	case t.K == "bool":
		return &E{K: "bool", Ty: TBool, B: g.r.Intn(2) == 0}
	case t.K == "string":
		return g.strLit()
	case t.K == "slice":
		n := g.r.Intn(4)
		e := &E{K: "slicelit", Ty: t}
		for i := 0; i < n; i++ {
			e.Args = append(e.Args, g.literal(t.Elem))
		}
		return e
	case t.K == "map":
		n := g.r.Intn(3)
		e := &E{K: "maplit", Ty: t}
		used := map[string]bool{}
		for i := 0; i < n; i++ {
			k := g.literal(t.Key)
			ks := fmt.Sprint(k.V, k.S, k.B)
			if used[ks] {
				continue
			}
			used[ks] = true
			e.Keys = append(e.Keys, k)
			e.Args = append(e.Args, g.literal(t.Elem))
		}
		return e
	case t.K == "ptr":
		sd := g.structDef(t.Name)
		e := &E{K: "new", Ty: t, Sty: t.Name}
		for i, f := range sd.Fields {
			if g.r.Intn(2) == 0 && (sd.FTypes[i].IsInt() || sd.FTypes[i].K == "bool" || sd.FTypes[i].K == "string") {
				e.Fields = append(e.Fields, f)
				e.Args = append(e.Args, g.literal(sd.FTypes[i]))
			}
		}
		return e
	case t.K == "func":
		return &E{K: "zero", Ty: t}
	}
	return &E{K: "zero", Ty: t}
}

func (g *Gen) structDef(name string) *StructDef {
	for _, s := range g.prog.Structs {
		if s.Name == name {
			return s
		}
	}
	panic("no struct " + name)
}

func (g *Gen) nonConst(t *Ty, depth int) *E {
	for i := 0; i < 6; i++ {
		e := g.expr(t, depth)
		if !isConst(e) {
			return e
		}
	}
	vars := g.varsOf(t, false)
	if len(vars) > 0 {
		return &E{K: "var", Ty: t, Name: vars[g.r.Intn(len(vars))].name}
	}
	return nil
}

func (g *Gen) intExpr(t *Ty, depth int) *E {
	x := g.r.Intn(100)
	if t.K == "int" && g.r.Intn(14) == 0 {
		// a chain of three or four small literals (a constant expression: no overflow possible)
		e := &E{K: "bin", Ty: t, Op: []string{"+", "-"}[g.r.Intn(2)], L: lit(t, int64(1+g.r.Intn(9))), R: lit(t, int64(1+g.r.Intn(9)))}
		for k := 1 + g.r.Intn(2); k > 0; k-- {
			e = &E{K: "bin", Ty: t, Op: []string{"+", "-", "+"}[g.r.Intn(3)], L: e, R: lit(t, int64(1+g.r.Intn(9)))}
		}
		return e
	}
	switch {
	case x < 55:
		ops := []string{"+", "-", "*", "+", "-", "&", "|", "^", "/", "%", "<<", ">>"}
		op := ops[g.r.Intn(len(ops))]
		l := g.expr(t, depth-1)
		var r *E
		switch op {
		case "/", "%":
			// divisor: a non-zero literal (run-time division by zero is produced by the panic profile only)
			r = g.intLit(t)
			for r.V == 0 || (r.V == -1 && t.Signed()) {
				r = g.intLit(t)
			}
			if isConst(l) {
				if nl := g.nonConst(t, depth-1); nl != nil {
					l = nl
				} else {
					op = "+"
				}
			}
		case "<<", ">>":
			r = &E{K: "int", Ty: t, V: int64(g.r.Intn(9))}
			if isConst(l) {
				if nl := g.nonConst(t, depth-1); nl != nil {
					l = nl
				} else {
					op = "+"
					r = g.expr(t, depth-1)
				}
			}
		default:
			r = g.expr(t, depth-1)
		}
		if isConst(l) && isConst(r) {
			// Go folds constant expressions and rejects overflow: keep one side non-constant
			if nl := g.nonConst(t, depth-1); nl != nil {
				l = nl
			} else {
				return l
			}
		}
		return &E{K: "bin", Ty: t, Op: op, L: l, R: r}
	case x < 62 && t.Signed():
		o := g.nonConst(t, depth-1)
		if o == nil {
			return g.intLit(t)
		}
		return &E{K: "neg", Ty: t, X: o}
	case x < 66:
		o := g.nonConst(t, depth-1)
		if o == nil {
			return g.intLit(t)
		}
		return &E{K: "compl", Ty: t, X: o}
	case x < 74:
		// conversion from another integer type
		from := g.intTypes()[g.r.Intn(len(g.intTypes()))]
		o := g.nonConst(from, depth-1)
		if o == nil {
			return g.intLit(t)
		}
		return &E{K: "conv", Ty: t, X: o}
	case x < 80 && t.K == "int" && g.o.Containers:
		if e := g.lenExpr(depth); e != nil {
			return e
		}
	case x < 86 && g.o.Containers:
		if e := g.indexExpr(t, depth); e != nil {
			return e
		}
	case x < 90 && g.o.Structs:
		if e := g.fieldExpr(t, depth); e != nil {
			return e
		}
	case x < 97:
		if c := g.callReturning(t, depth); c != nil {
			return c
		}
	}
	return g.expr(t, 0)
}

func (g *Gen) lenExpr(depth int) *E {
	var cands []gvar
	for _, v := range g.visible() {
		if v.ty.K == "slice" || v.ty.K == "string" || v.ty.K == "map" {
			cands = append(cands, v)
		}
	}
	if len(cands) == 0 {
		return nil
	}
	v := cands[g.r.Intn(len(cands))]
	return &E{K: "len", Ty: TInt, X: &E{K: "var", Ty: v.ty, Name: v.name}}
}

// indexExpr: s[i] guarded to be in range by construction: s[i % len] is not valid for empty s, so
// generated programs index with a literal below a known minimum length only through helper
// variables; here: map reads (never fail) and slice reads guarded by the panic profile.
func (g *Gen) indexExpr(t *Ty, depth int) *E {
	var maps, slices []gvar
	for _, v := range g.visible() {
		if v.ty.K == "map" && v.ty.Elem.Eq(t) {
			maps = append(maps, v)
		}
		if v.ty.K == "slice" && v.ty.Elem.Eq(t) {
			slices = append(slices, v)
		}
	}
	if len(maps) > 0 && (len(slices) == 0 || g.r.Intn(2) == 0) {
		m := maps[g.r.Intn(len(maps))]
		return &E{K: "mapget", Ty: t, X: &E{K: "var", Ty: m.ty, Name: m.name}, I: g.expr(m.ty.Key, depth-1)}
	}
	if len(slices) > 0 && g.o.Panics {
		s := slices[g.r.Intn(len(slices))]
		return &E{K: "index", Ty: t, X: &E{K: "var", Ty: s.ty, Name: s.name}, I: &E{K: "int", Ty: TInt, V: int64(g.r.Intn(3))}}
	}
	return nil
}

func (g *Gen) fieldExpr(t *Ty, depth int) *E {
	type cand struct {
		v gvar
		f string
	}
	var cs []cand
	for _, v := range g.visible() {
		if v.ty.K == "ptr" {
			sd := g.structDef(v.ty.Name)
			for i, f := range sd.Fields {
				if sd.FTypes[i].Eq(t) {
					cs = append(cs, cand{v, f})
				}
			}
		}
	}
	if len(cs) == 0 {
		return nil
	}
	c := cs[g.r.Intn(len(cs))]
	return &E{K: "field", Ty: t, X: &E{K: "var", Ty: c.v.ty, Name: c.v.name}, F: c.f}
}

func (g *Gen) boolExpr(depth int) *E {
	x := g.r.Intn(100)
	switch {
	case x < 15 && g.o.Choice && g.chLeft > 0:
		g.chLeft--
		g.prog.NeedChoice = true
		return &E{K: "bin", Ty: TBool, Op: "==", L: &E{K: "choice", Ty: TInt, N: 2}, R: &E{K: "int", Ty: TInt, V: 1}}
	case x < 50:
		t := g.scalarType()
		if t.K == "bool" {
			t = TInt
		}
		ops := []string{"==", "!=", "<", "<=", ">", ">="}
		l := g.expr(t, depth-1)
		r := g.expr(t, depth-1)
		if isConst(l) && isConst(r) {
			if nl := g.nonConst(t, depth-1); nl != nil {
				l = nl
			}
		}
		return &E{K: "bin", Ty: TBool, Op: ops[g.r.Intn(len(ops))], L: l, R: r}
	case x < 65:
		return &E{K: "and", Ty: TBool, L: g.expr(TBool, depth-1), R: g.boolOperand(depth - 1)}
	case x < 80:
		return &E{K: "or", Ty: TBool, L: g.expr(TBool, depth-1), R: g.boolOperand(depth - 1)}
	case x < 88:
		return &E{K: "not", Ty: TBool, X: g.expr(TBool, depth-1)}
	case x < 92 && g.o.Structs:
		if e := g.fieldExpr(TBool, depth); e != nil {
			return e
		}
	case x < 96 && g.o.Lib:
		return &E{K: "lib", Ty: TBool, Fn: "strings.Contains", Args: []*E{g.expr(TString, depth-1), g.expr(TString, 0)}}
	case x < 96:
		// nil comparisons of nillable variables
		for _, v := range g.visible() {
			if v.ty.K == "ptr" || v.ty.K == "slice" || v.ty.K == "map" {
				op := []string{"==", "!="}[g.r.Intn(2)]
				return &E{K: "bin", Ty: TBool, Op: op, L: &E{K: "var", Ty: v.ty, Name: v.name}, R: &E{K: "zero", Ty: v.ty}}
			}
		}
	default:
		if c := g.callReturning(TBool, depth); c != nil {
			return c
		}
	}
	return g.expr(TBool, 0)
}

// boolOperand: the right operand of && / ||; prefers a bare field or element read of a local (these
// are what the peephole pass fuses, and what a jump over the operand must account for)
func (g *Gen) boolOperand(depth int) *E {
	if g.o.Structs && g.r.Intn(3) == 0 {
		if e := g.fieldExpr(TBool, depth); e != nil {
			return e
		}
	}
	if g.o.Containers && g.r.Intn(4) == 0 {
		if e := g.indexExpr(TBool, depth); e != nil {
			return e
		}
	}
	return g.expr(TBool, depth)
}

func (g *Gen) strExpr(depth int) *E {
	x := g.r.Intn(100)
	switch {
	case x < 50:
		l, r := g.expr(TString, depth-1), g.expr(TString, depth-1)
		return &E{K: "bin", Ty: TString, Op: "+", L: l, R: r}
	case x < 60 && g.o.Structs:
		if e := g.fieldExpr(TString, depth); e != nil {
			return e
		}
	case x < 70 && g.o.Containers:
		if e := g.indexExpr(TString, depth); e != nil {
			return e
		}
	case x < 85:
		if c := g.callReturning(TString, depth); c != nil {
			return c
		}
	case g.o.Lib:
		return g.libStrExpr(depth)
	}
	return g.expr(TString, 0)
}

// callReturning: a call of a previously generated function whose single result has type t.
func (g *Gen) callReturning(t *Ty, depth int) *E {
	if g.inLit {
		return nil
	}
	var cs []int
	for i := 0; i < g.callable && i < len(g.funcs); i++ {
		f := g.funcs[i]
		// Go leaves the order between a call and the reads of variables in the same expression
		// unspecified: only functions that do not write package-level state may appear inside expressions
		// ... and between a call and a faulting operand: where faults are possible only functions that
		// neither print nor can fault themselves may appear inside expressions
		if len(f.results) == 1 && f.results[0].Eq(t) && f.pure && (!g.o.Panics || f.quiet) {
			cs = append(cs, i)
		}
	}
	if len(cs) == 0 {
		return nil
	}
	return g.callOf(g.funcs[cs[g.r.Intn(len(cs))]], depth)
}

func (g *Gen) callOf(f gfunc, depth int) *E {
	e := &E{K: "call", Fn: f.name, NRes: len(f.results)}
	if len(f.results) == 1 {
		e.Ty = f.results[0]
	}
	params := f.params
	if f.method {
		// receiver: a visible variable of the struct type, else a fresh instance
		rt := PtrTo(f.recvTy)
		var recv *E
		// receivers that may be nil are left out: goatlang finds methods through the instance, so a method
		// call on a nil pointer fails where Go runs the method (recorded finding C01/nil-receiver)
		var vs []gvar
		for _, x := range g.varsOf(rt, false) {
			if !x.maybeNil {
				vs = append(vs, x)
			}
		}
		if len(vs) > 0 {
			recv = &E{K: "var", Ty: rt, Name: vs[g.r.Intn(len(vs))].name}
		} else {
			recv = g.literal(rt)
		}
		e = &E{K: "mcall", X: recv, M: f.name[len(f.recvTy)+1:], NRes: len(f.results), Ty: e.Ty}
		params = params[1:]
	}
	n := len(params)
	if f.variadic {
		n--
	}
	for i := 0; i < n; i++ {
		e.Args = append(e.Args, g.expr(params[i], depth-1))
	}
	if f.variadic {
		vt := params[len(params)-1]
		if vs := g.varsOf(vt, false); len(vs) > 0 && g.r.Intn(2) == 0 {
			sv := vs[g.r.Intn(len(vs))]
			g.shared[sv.name] = true
			e.Args = append(e.Args, &E{K: "var", Ty: vt, Name: sv.name})
			e.Spread = true
		} else if g.r.Intn(4) == 0 {
			e.Args = append(e.Args, g.literal(vt))
			e.Spread = true
		} else {
			for i := g.r.Intn(4); i > 0; i-- {
				e.Args = append(e.Args, g.expr(vt.Elem, depth-1))
			}
		}
	}
	return e
}

// ---------------------------------------------------------------------------------------------
// statements

func (g *Gen) printState() *S {
	g.mark++
	s := &S{K: "print", Ln: true, Exprs: []*E{{K: "str", Ty: TString, S: fmt.Sprintf("L%d", g.mark)}}}
	vs := g.visible()
	g.r.Shuffle(len(vs), func(i, j int) { vs[i], vs[j] = vs[j], vs[i] })
	n := 0
	for _, v := range vs {
		if n >= 4 {
			break
		}
		switch {
		case v.ty.IsInt() || v.ty.K == "bool" || v.ty.K == "string":
			s.Exprs = append(s.Exprs, &E{K: "var", Ty: v.ty, Name: v.name})
			n++
		case v.ty.K == "slice" || v.ty.K == "map":
			s.Exprs = append(s.Exprs, &E{K: "len", Ty: TInt, X: &E{K: "var", Ty: v.ty, Name: v.name}})
			n++
		case v.ty.K == "ptr":
			s.Exprs = append(s.Exprs, &E{K: "bin", Ty: TBool, Op: "==", L: &E{K: "var", Ty: v.ty, Name: v.name}, R: &E{K: "zero", Ty: v.ty}})
			n++
		}
	}
	return s
}

func (g *Gen) block(n int, depth int) []*S {
	g.push()
	defer g.pop()
	return g.stmts(n, depth)
}

func (g *Gen) stmts(n int, depth int) []*S {
	var out []*S
	for i := 0; i < n && g.budget > 0; i++ {
		s := g.stmt(depth)
		if s == nil {
			continue
		}
		out = append(out, s...)
		last := s[len(s)-1]
		if last.K == "return" || last.K == "break" || last.K == "continue" || last.K == "panic" {
			break
		}
	}
	return out
}

func (g *Gen) lvalue(t *Ty, depth int) *E {
	var cs []*E
	for _, v := range g.varsOf(t, true) {
		cs = append(cs, &E{K: "var", Ty: t, Name: v.name})
	}
	for _, v := range g.visible() {
		if v.ro {
			continue
		}
		if v.ty.K == "ptr" {
			sd := g.structDef(v.ty.Name)
			for i, f := range sd.Fields {
				if sd.FTypes[i].Eq(t) {
					cs = append(cs, &E{K: "field", Ty: t, X: &E{K: "var", Ty: v.ty, Name: v.name}, F: f})
				}
			}
		}
		if v.ty.K == "map" && v.ty.Elem.Eq(t) {
			cs = append(cs, &E{K: "mapget", Ty: t, X: &E{K: "var", Ty: v.ty, Name: v.name}, I: g.literal(v.ty.Key)})
		}
	}
	if len(cs) == 0 {
		return nil
	}
	lv := cs[g.r.Intn(len(cs))]
	root := lv
	for root.K != "var" {
		root = root.X
	}
	if g.isGlobal(root.Name) {
		g.impure = true
	}
	return lv
}

// nilSafe reports whether storing through / reading e can not panic for reasons the generator does
// not track (nil pointer, nil map). Variables initialised from literals are tracked as non-nil by
// convention: pointer and map variables are always initialised non-nil unless Panics is on.
func (g *Gen) stmt(depth int) []*S {
	g.budget--
	x := g.r.Intn(100)
	if g.ctrlBias && depth > 0 && g.r.Intn(100) < 55 {
		x = 56 + g.r.Intn(37) // if / loops / switch / break / continue / return
	}
	if g.stringBias && g.r.Intn(100) < 40 {
		if out := g.stringTemplate(depth); out != nil {
			return out
		}
	}
	if g.callBias && g.r.Intn(100) < 45 {
		switch g.r.Intn(4) {
		case 0:
			x = 91 // return
		case 1:
			x = 94 // call statement
		default:
			if g.r.Intn(2) == 0 {
				if out := g.funcValueTemplate(depth); out != nil {
					return out
				}
			} else if out := g.methodValueTemplate(depth); out != nil {
				return out
			}
			x = 94
		}
	}
	switch {
	case x < 18: // declaration
		t := g.anyType()
		name := g.fresh("v")
		if g.r.Intn(5) == 0 || (g.shadowBias && g.r.Intn(3) > 0) { // shadow an existing name (not one of the current scope)
			vs := g.visible()
			if len(vs) > 0 {
				c := vs[g.r.Intn(len(vs))]
				if !g.inCurrentScope(c.name) && !c.ro {
					name = c.name
				}
			}
		}
		var s *S
		switch g.r.Intn(4) {
		case 0:
			if t.K != "ptr" && t.K != "map" || g.o.Panics {
				s = &S{K: "declzero", Names: []string{name}, DeclTy: t}
				break
			}
			fallthrough
		case 1:
			s = &S{K: "decl", Names: []string{name}, DeclTy: t, VarForm: true, Exprs: []*E{g.expr(t, depth)}}
		default:
			e := g.expr(t, depth)
			if e.K == "zero" {
				s = &S{K: "declzero", Names: []string{name}, DeclTy: t}
			} else if isConst(e) && e.K == "int" && t.K != "int" {
				// x := 5 would be an int: spell the conversion
				s = &S{K: "decl", Names: []string{name}, DeclTy: t, VarForm: true, Exprs: []*E{e}}
			} else {
				s = &S{K: "decl", Names: []string{name}, Exprs: []*E{e}}
			}
		}
		g.declare(gvar{name: name, ty: t, maybeNil: s.K == "declzero" && (t.K == "ptr" || t.K == "map")})
		if t.K == "slice" && len(s.Exprs) == 1 && s.Exprs[0].K == "var" {
			g.shared[name] = true
		}
		return []*S{s}
	case x < 34: // assignment
		t := g.anyType()
		lv := g.lvalue(t, depth)
		if lv == nil {
			return nil
		}
		rhs := g.expr(t, depth)
		if t.K == "string" && !g.growthOK() && hasStringSource(rhs) {
			rhs = g.strLit()
		}
		if t.K == "slice" && lv.K == "var" {
			g.shared[lv.Name] = rhs.K == "var" // the target now holds whatever the source holds
		}
		return []*S{{K: "assign", Lhs: []*E{lv}, Exprs: []*E{rhs}}}
	case x < 42: // op-assignment
		t := g.intTypes()[g.r.Intn(len(g.intTypes()))]
		if g.o.Strings && g.r.Intn(5) == 0 {
			t = TString
		}
		lv := g.lvalue(t, depth)
		if lv == nil {
			return nil
		}
		if t.K == "string" {
			rhs := g.expr(TString, depth-1)
			if !g.growthOK() && hasStringSource(rhs) {
				rhs = g.strLit()
			}
			return []*S{{K: "opassign", Lhs: []*E{lv}, Op: "+", E: rhs}}
		}
		ops := []string{"+", "-", "*", "&", "|", "^", "<<", ">>", "/", "%"}
		op := ops[g.r.Intn(len(ops))]
		var r *E
		switch op {
		case "/", "%":
			r = g.intLit(t)
			for r.V == 0 || (r.V == -1 && t.Signed()) {
				r = g.intLit(t)
			}
		case "<<", ">>":
			r = &E{K: "int", Ty: t, V: int64(g.r.Intn(9))}
		default:
			r = g.expr(t, depth-1)
		}
		return []*S{{K: "opassign", Lhs: []*E{lv}, Op: op, E: r}}
	case x < 48: // ++ / --
		t := g.intTypes()[g.r.Intn(len(g.intTypes()))]
		lv := g.lvalue(t, depth)
		if lv == nil {
			return nil
		}
		return []*S{{K: "incdec", Lhs: []*E{lv}, D: []int{1, -1}[g.r.Intn(2)]}}
	case x < 56:
		return []*S{g.printState()}
	case x < 66 && depth > 0: // if
		s := &S{K: "if", Cond: g.expr(TBool, 2)}
		g.push()
		if g.r.Intn(5) == 0 {
			name := g.fresh("c")
			t := TInt
			s.Init = &S{K: "decl", Names: []string{name}, Exprs: []*E{g.nonConstOrLit(t)}}
			g.declare(gvar{name: name, ty: t})
			s.Cond = &E{K: "bin", Ty: TBool, Op: []string{"<", ">", "==", "!="}[g.r.Intn(4)], L: &E{K: "var", Ty: t, Name: name}, R: g.expr(t, 1)}
		}
		s.Then = g.block(1+g.r.Intn(3), depth-1)
		if g.r.Intn(2) == 0 {
			s.HasElse = true
			if g.r.Intn(3) == 0 {
				inner := &S{K: "if", Cond: g.expr(TBool, 2)}
				inner.Then = g.block(1+g.r.Intn(2), depth-1)
				if g.r.Intn(2) == 0 {
					inner.HasElse = true
					inner.Else = g.block(1+g.r.Intn(2), depth-1)
				}
				s.Else = []*S{inner}
			} else {
				s.Else = g.block(1+g.r.Intn(3), depth-1)
			}
		}
		g.pop()
		return []*S{s}
	case x < 76 && depth > 0: // loops
		return g.loop_(depth)
	case x < 84 && depth > 0: // switch
		return []*S{g.switch_(depth)}
	case x < 88 && g.loop > 0:
		if g.r.Intn(2) == 0 {
			return []*S{{K: "break"}}
		}
		return []*S{{K: "continue"}}
	case x < 90 && g.swtch > 0 && g.loop == 0:
		return []*S{{K: "break"}}
	case x < 93 && len(g.results) >= 0 && !g.inMain():
		return []*S{g.returnStmt(depth)}
	case x < 95: // call statement
		if g.inLit {
			return nil
		}
		var cs []int
		for i := 0; i < g.callable && i < len(g.funcs); i++ {
			cs = append(cs, i)
		}
		if len(cs) == 0 {
			return nil
		}
		f := g.funcs[cs[g.r.Intn(len(cs))]]
		c := g.callOf(f, 2)
		if !f.pure {
			g.impure = true
		}
		var pre []*S
		if len(f.results) >= 2 && g.r.Intn(2) == 0 {
			// multi-value declaration
			s := &S{K: "decl", Exprs: []*E{c}}
			for _, rt := range f.results {
				n := g.fresh("r")
				s.Names = append(s.Names, n)
				g.declare(gvar{name: n, ty: rt})
			}
			return append(pre, s)
		}
		return append(pre, &S{K: "expr", E: c, NRes: len(f.results)})
	default:
		return g.extraStmt(depth)
	}
	return nil
}

func (g *Gen) inMain() bool { return g.results == nil }

// growthOK: a string may be assigned something built from other strings only where the statement runs
// once (Main, outside loops): repeated s += s style growth makes values exponentially large, which
// neither the specification's evaluation nor the comparison needs.
func (g *Gen) growthOK() bool { return g.inMain() && g.loop == 0 && !g.inLit }

func hasStringSource(e *E) bool {
	if e == nil {
		return false
	}
	switch e.K {
	case "var", "field", "call", "callv", "mcall", "index", "mapget", "slice", "lib":
		return true
	case "len", "str", "int", "bool":
		return false
	}
	for _, x := range []*E{e.L, e.R, e.X, e.I} {
		if hasStringSource(x) {
			return true
		}
	}
	for _, x := range e.Args {
		if hasStringSource(x) {
			return true
		}
	}
	return false
}

func (g *Gen) nonConstOrLit(t *Ty) *E {
	if e := g.nonConst(t, 1); e != nil {
		return e
	}
	return &E{K: "conv", Ty: t, X: g.intLit(t)}
}

func (g *Gen) returnStmt(depth int) *S {
	// return f(...): the callee's results are returned as they are (also with a spread argument)
	if len(g.results) > 0 && !g.inLit && g.r.Intn(3) == 0 {
		var cs []int
		for i := 0; i < g.callable && i < len(g.funcs); i++ {
			f := g.funcs[i]
			if len(f.results) != len(g.results) {
				continue
			}
			same := true
			for j := range f.results {
				if !f.results[j].Eq(g.results[j]) {
					same = false
				}
			}
			if same {
				cs = append(cs, i)
			}
		}
		if len(cs) > 0 {
			f := g.funcs[cs[g.r.Intn(len(cs))]]
			if !f.pure {
				g.impure = true
			}
			return &S{K: "return", NRes: len(g.results), Exprs: []*E{g.callOf(f, 2)}}
		}
	}
	s := &S{K: "return", NRes: len(g.results)}
	for _, rt := range g.results {
		s.Exprs = append(s.Exprs, g.expr(rt, depth))
	}
	return s
}

func (g *Gen) loop_(depth int) []*S {
	g.loop++
	defer func() { g.loop-- }()
	switch g.r.Intn(5) {
	case 0, 1: // counted three-clause loop
		i := g.fresh("i")
		n := int64(1 + g.r.Intn(3))
		s := &S{K: "for"}
		g.push()
		s.Init = &S{K: "decl", Names: []string{i}, Exprs: []*E{{K: "int", Ty: TInt, V: 0}}}
		g.declare(gvar{name: i, ty: TInt, ro: true})
		s.Cond = &E{K: "bin", Ty: TBool, Op: "<", L: &E{K: "var", Ty: TInt, Name: i}, R: &E{K: "int", Ty: TInt, V: n}}
		switch g.r.Intn(3) {
		case 0:
			s.Post = &S{K: "incdec", Lhs: []*E{{K: "var", Ty: TInt, Name: i}}, D: 1}
		case 1:
			s.Post = &S{K: "opassign", Lhs: []*E{{K: "var", Ty: TInt, Name: i}}, Op: "+", E: &E{K: "int", Ty: TInt, V: 1}}
		default:
			s.Post = &S{K: "assign", Lhs: []*E{{K: "var", Ty: TInt, Name: i}}, Exprs: []*E{{K: "bin", Ty: TInt, Op: "+", L: &E{K: "var", Ty: TInt, Name: i}, R: &E{K: "int", Ty: TInt, V: 1}}}}
		}
		s.Body = g.block(1+g.r.Intn(3), depth-1)
		g.pop()
		// clause variants: any of the three clauses may be empty (its work moves next to the loop)
		switch g.r.Intn(8) {
		case 0: // for ; cond; post  (the variable is declared before the loop, in the enclosing scope)
			init := s.Init
			s.Init = nil
			g.declare(gvar{name: i, ty: TInt, ro: true})
			return []*S{init, s}
		case 1: // for init; ; post  (the condition becomes a guarded break at the top of the body)
			cond := s.Cond
			s.Cond = nil
			s.Body = append([]*S{{K: "if", Cond: &E{K: "not", Ty: TBool, X: cond}, Then: []*S{{K: "break"}}}}, s.Body...)
		case 2: // for init; cond;   (the increment moves to the top of the body: a continue cannot skip it)
			post := s.Post
			s.Post = nil
			s.Body = append([]*S{post}, s.Body...)
		case 3: // for ; cond;
			init, post := s.Init, s.Post
			s.Init, s.Post, s.Semis = nil, nil, true
			s.Body = append([]*S{post}, s.Body...)
			g.declare(gvar{name: i, ty: TInt, ro: true})
			return []*S{init, s}
		}
		return []*S{s}
	case 2: // while-style loop with a counter declared before it
		k := g.fresh("k")
		decl := &S{K: "decl", Names: []string{k}, Exprs: []*E{{K: "int", Ty: TInt, V: int64(1 + g.r.Intn(3))}}}
		g.declare(gvar{name: k, ty: TInt, ro: true})
		s := &S{K: "for", Cond: &E{K: "bin", Ty: TBool, Op: ">", L: &E{K: "var", Ty: TInt, Name: k}, R: &E{K: "int", Ty: TInt, V: 0}}}
		g.push()
		body := []*S{{K: "incdec", Lhs: []*E{{K: "var", Ty: TInt, Name: k}}, D: -1}}
		body = append(body, g.stmts(1+g.r.Intn(3), depth-1)...)
		g.pop()
		s.Body = body
		return []*S{decl, s}
	case 3: // infinite loop with a guarded break at the top
		k := g.fresh("k")
		decl := &S{K: "decl", Names: []string{k}, Exprs: []*E{{K: "int", Ty: TInt, V: 0}}}
		g.declare(gvar{name: k, ty: TInt, ro: true})
		s := &S{K: "for"}
		g.push()
		body := []*S{{K: "incdec", Lhs: []*E{{K: "var", Ty: TInt, Name: k}}, D: 1},
			{K: "if", Cond: &E{K: "bin", Ty: TBool, Op: ">", L: &E{K: "var", Ty: TInt, Name: k}, R: &E{K: "int", Ty: TInt, V: int64(1 + g.r.Intn(3))}}, Then: []*S{{K: "break"}}}}
		body = append(body, g.stmts(1+g.r.Intn(3), depth-1)...)
		g.pop()
		s.Body = body
		return []*S{decl, s}
	default: // range over a slice (or string)
		var cands []gvar
		for _, v := range g.visible() {
			if v.ty.K == "slice" || (v.ty.K == "string" && g.o.Strings) {
				cands = append(cands, v)
			}
		}
		var x *E
		if len(cands) > 0 && g.r.Intn(3) > 0 {
			v := cands[g.r.Intn(len(cands))]
			x = &E{K: "var", Ty: v.ty, Name: v.name}
		} else if g.o.Containers {
			x = g.literal(SliceOf(TInt))
		} else {
			return nil
		}
		s := &S{K: "range", X: x, KName: g.fresh("i"), VName: g.fresh("e")}
		g.push()
		g.declare(gvar{name: s.KName, ty: TInt, ro: true})
		et := TInt
		if x.Ty.K == "slice" {
			et = x.Ty.Elem
		}
		g.declare(gvar{name: s.VName, ty: et})
		s.Body = g.block(1+g.r.Intn(3), depth-1)
		g.pop()
		return []*S{s}
	}
}

func (g *Gen) switch_(depth int) *S {
	g.swtch++
	defer func() { g.swtch-- }()
	s := &S{K: "switch"}
	tagged := g.r.Intn(3) > 0
	var tt *Ty
	if tagged {
		tt = []*Ty{TInt, TInt, TString, TUint8}[g.r.Intn(4)]
		if !g.o.Strings && tt.K == "string" {
			tt = TInt
		}
		if !g.o.SmallInts && tt.K == "uint8" {
			tt = TInt
		}
		s.Tag = g.nonConst(tt, 2)
		if s.Tag == nil {
			s.Tag = &E{K: "conv", Ty: tt, X: g.literal(tt)}
			if tt.K == "string" {
				tagged = false
				s.Tag = nil
			}
		}
	}
	nc := 1 + g.r.Intn(3)
	used := map[string]bool{}
	for i := 0; i < nc; i++ {
		c := &Case{}
		nv := 1
		if g.r.Intn(3) == 0 {
			nv = 2
		}
		for j := 0; j < nv; j++ {
			if tagged {
				var v *E
				if g.r.Intn(3) == 0 {
					// a field / element / call as case value
					if g.o.Structs && g.r.Intn(2) == 0 {
						v = g.fieldExpr(tt, 1)
					}
					if v == nil && g.o.Containers && g.r.Intn(2) == 0 {
						v = g.indexExpr(tt, 1)
					}
					if v == nil {
						v = g.nonConst(tt, 1)
					}
				}
				if v == nil {
					for k := 0; k < 10; k++ {
						v = g.literal(tt)
						key := fmt.Sprint(v.V, "|", v.S)
						if !used[key] {
							used[key] = true
							break
						}
						v = nil
					}
				}
				if v == nil {
					continue
				}
				c.Vals = append(c.Vals, v)
			} else {
				v := g.expr(TBool, 2)
				if isConst(v) {
					v = &E{K: "not", Ty: TBool, X: &E{K: "not", Ty: TBool, X: v}}
				}
				c.Vals = append(c.Vals, v)
			}
		}
		if len(c.Vals) == 0 {
			continue
		}
		c.Body = g.block(1+g.r.Intn(3), depth-1)
		s.Cases = append(s.Cases, c)
	}
	if g.r.Intn(3) > 0 || len(s.Cases) == 0 {
		s.HasDef = true
		s.DefPos = g.r.Intn(len(s.Cases) + 1)
		s.Def = g.block(1+g.r.Intn(2), depth-1)
	}
	return s
}

func (g *Gen) containerStmt(depth int) []*S {
	var slices, maps []gvar
	for _, v := range g.visible() {
		if v.ro {
			continue
		}
		if v.ty.K == "slice" && !g.shared[v.name] {
			slices = append(slices, v)
		}
		if v.ty.K == "map" {
			maps = append(maps, v)
		}
	}
	switch g.r.Intn(4) {
	case 0, 1:
		if len(slices) == 0 || g.loop >= 2 {
			// (an append inside nested loops can feed the range of an outer loop: the slice then grows geometrically)
			return nil
		}
		v := slices[g.r.Intn(len(slices))]
		ve := &E{K: "var", Ty: v.ty, Name: v.name}
		ap := &E{K: "append", Ty: v.ty, X: ve}
		for i := 1 + g.r.Intn(2); i > 0; i-- {
			ap.Args = append(ap.Args, g.expr(v.ty.Elem, 1))
		}
		return []*S{{K: "assign", Lhs: []*E{{K: "var", Ty: v.ty, Name: v.name}}, Exprs: []*E{ap}}}
	case 2:
		if len(maps) == 0 {
			return nil
		}
		v := maps[g.r.Intn(len(maps))]
		return []*S{{K: "delete", M: &E{K: "var", Ty: v.ty, Name: v.name}, Key: g.literal(v.ty.Key)}}
	default:
		if len(maps) == 0 {
			return nil
		}
		v := maps[g.r.Intn(len(maps))]
		a, b := g.fresh("g"), g.fresh("ok")
		s := &S{K: "decl", Names: []string{a, b}, Exprs: []*E{{K: "mapget", Ty: v.ty.Elem, Ok: true, X: &E{K: "var", Ty: v.ty, Name: v.name}, I: g.literal(v.ty.Key)}}}
		g.declare(gvar{name: a, ty: v.ty.Elem})
		g.declare(gvar{name: b, ty: TBool})
		return []*S{s}
	}
}

// ---------------------------------------------------------------------------------------------
// whole programs

func (g *Gen) Program(id string) *Prog {
	g.prog = &Prog{ID: id, Pkg: "main", Main: "Main"}
	g.funcs = nil
	g.shared = map[string]bool{}
	g.nvar = 0
	g.mark = 0
	g.chLeft = 6
	if g.o.Structs {
		ns := 1 + g.r.Intn(2)
		if g.o.OneStruct {
			ns = 1
		}
		for i := 0; i < ns; i++ {
			sd := &StructDef{Name: fmt.Sprintf("T%d", i)}
			nf := 1 + g.r.Intn(4)
			for j := 0; j < nf; j++ {
				sd.Fields = append(sd.Fields, fmt.Sprintf("F%d", j))
				ft := g.scalarType()
				if j == nf-1 && g.r.Intn(3) == 0 {
					ft = PtrTo(sd.Name)
				}
				sd.FTypes = append(sd.FTypes, ft)
			}
			g.prog.Structs = append(g.prog.Structs, sd)
		}
	}
	// package-level variables
	g.scopes = [][]gvar{nil}
	ng := g.r.Intn(3)
	if g.o.NoGlobals {
		ng = 0
	}
	for i := ng; i > 0; i-- {
		t := g.scalarType()
		name := g.fresh("G")
		if g.r.Intn(2) == 0 {
			g.prog.Globals = append(g.prog.Globals, &S{K: "declzero", Names: []string{name}, DeclTy: t, Global: true})
		} else {
			g.prog.Globals = append(g.prog.Globals, &S{K: "decl", Names: []string{name}, DeclTy: t, VarForm: true, Exprs: []*E{g.literal(t)}, Global: true})
		}
		g.declare(gvar{name: name, ty: t})
	}
	for i := 0; i < g.o.Funcs; i++ {
		g.callable = i
		g.function(i)
	}
	g.callable = len(g.funcs)
	// Main
	g.results = nil
	g.budget = g.o.MaxStmts
	g.push()
	body := g.stmts(4+g.r.Intn(6), g.o.MaxDepth)
	body = append(body, g.printState())
	g.pop()
	// feature blocks: self-contained functions called from a random top-level position of Main
	insert := func(s *S) {
		at := g.r.Intn(len(body) + 1)
		for at > 0 {
			if k := body[at-1].K; k == "return" || k == "panic" {
				at--
			} else {
				break
			}
		}
		body = append(body[:at], append([]*S{s}, body[at:]...)...)
	}
	if g.o.Ifaces && g.r.Intn(2) == 0 {
		insert(g.addIfaceDemo())
	}
	if g.o.NamedTypes && g.r.Intn(2) == 0 {
		insert(g.addNamedTypesDemo())
	}
	if g.o.Containers && g.o.NamedTypes && g.r.Intn(2) == 0 {
		insert(g.addAppendDemo())
	}
	if g.o.Containers && g.r.Intn(3) == 0 {
		insert(g.addMapRangeDemo())
	}
	if g.o.Structs && g.o.Containers && g.r.Intn(3) == 0 {
		insert(g.addTypedStoresDemo())
	}
	if g.o.Structs && g.o.Lib && g.r.Intn(2) == 0 {
		insert(g.addShowDemo())
	}
	if !g.o.NoGlobals && !g.o.Packages && g.r.Intn(4) == 0 {
		insert(g.addConstGroupDemo())
	}
	g.prog.Funcs = append(g.prog.Funcs, &Func{Name: "Main", Body: body})
	if g.o.Packages {
		g.prog.Split = g.prog.chooseSplit(g.r)
	}
	return g.prog
}

func (g *Gen) function(i int) {
	f := gfunc{name: fmt.Sprintf("f%d", i)}
	fn := &Func{}
	if g.o.Structs && len(g.prog.Structs) > 0 && g.r.Intn(3) == 0 {
		sd := g.prog.Structs[g.r.Intn(len(g.prog.Structs))]
		f.method = true
		f.recvTy = sd.Name
		f.name = sd.Name + ".M" + fmt.Sprint(i)
		fn.Recv = "t"
		fn.RecvTy = sd.Name
		f.params = append(f.params, PtrTo(sd.Name))
	}
	np := g.r.Intn(4)
	g.push()
	if f.method {
		g.declare(gvar{name: "t", ty: PtrTo(f.recvTy), ro: true})
	}
	for j := 0; j < np; j++ {
		t := g.anyType()
		if t.K == "ptr" || t.K == "map" {
			t = g.scalarType() // nillable parameters could be nil: keep calls total
		}
		n := fmt.Sprintf("p%d", j)
		fn.Params = append(fn.Params, n)
		fn.PTypes = append(fn.PTypes, t)
		f.params = append(f.params, t)
		g.declare(gvar{name: n, ty: t})
		if t.K == "slice" {
			g.shared[n] = true
		}
	}
	if g.r.Intn(3) == 0 {
		et := []*Ty{TInt, TString}[g.r.Intn(2)]
		if !g.o.Strings {
			et = TInt
		}
		vt := SliceOf(et)
		fn.Params = append(fn.Params, "va")
		fn.PTypes = append(fn.PTypes, vt)
		f.params = append(f.params, vt)
		f.variadic = true
		fn.Variadic = true
		g.declare(gvar{name: "va", ty: vt})
		g.shared["va"] = true
	}
	nr := []int{0, 1, 1, 1, 2, 3}[g.r.Intn(6)]
	for j := 0; j < nr; j++ {
		f.results = append(f.results, g.scalarType())
	}
	fn.Results = f.results
	fn.Name = f.name
	g.results = f.results
	if g.results == nil {
		g.results = []*Ty{}
	}
	g.budget = 4 + g.r.Intn(8)
	g.impure = false
	body := g.stmts(2+g.r.Intn(4), 2)
	if len(body) == 0 || body[len(body)-1].K != "return" {
		if len(f.results) > 0 || g.r.Intn(3) == 0 {
			body = append(body, g.returnStmt(1))
		}
	}
	g.pop()
	fn.Body = body
	f.pure = !g.impure
	f.quiet = g.quietBody(fn.Body)
	g.prog.Funcs = append(g.prog.Funcs, fn)
	g.funcs = append(g.funcs, f)
}
