package main

import (
	"bytes"
	"fmt"
	"math/rand"
	"os"
	"path/filepath"
	"strings"
	"time"

	goat "github.com/philhassey/goatlang"
)

// C04 — fixed-width numeric semantics equal Go's for every operand value.
//
// M1: MC_FixedWidth — lemmas about FixedWidth.tla (range, division law, limb arithmetic embeds
//     plain arithmetic, algebraic laws on 32-bit boundary values), checked exhaustively by TLC.
// M3: one script function per (type, operator, syntactic position[, constant]) is compiled by the
//     real compiler and called through VM.Call with constructor-built operands; the results (value
//     via accessor, dynamic type via the VM) form table-shaped trace lines that TLC validates against
//     FixedWidth.tla. The same tables computed with native Go integer types calibrate the spec.

func init() { register("C04", checkC04) }

var c04Types = []string{"int8", "uint8", "int32", "uint32"}
var c04Arith = []string{"+", "-", "*", "/", "%", "&", "|", "^", "<<", ">>"}
var c04Cmp = []string{"==", "!=", "<", "<=", ">", ">="}

type c04Fn struct {
	Name  string
	T     string
	Op    string
	Pos   string
	To    string // conv target
	Arity int    // number of runtime operands
	Fixed string // "a": runtime operand is b and a is the constant X; "b": runtime operand is a, constant X is b; "" none
	X     int64  // constant operand (mathematical value; for uint32 0..2^32-1)
	Y     int64  // second constant (Arity 0 with two constants)
	HasY  bool
	Op1   string // chain: (a Op1 b) Op2 Z
	Op2   string
	Z     int64
	Src   string
}

func isCmp(op string) bool {
	for _, c := range c04Cmp {
		if c == op {
			return true
		}
	}
	return false
}

func typeRange(t string) (int64, int64) {
	switch t {
	case "int8":
		return -128, 127
	case "uint8":
		return 0, 255
	case "int32":
		return -2147483648, 2147483647
	}
	return 0, 4294967295
}

// pattern converts a mathematical value of type t into the representation used in traces
// (uint32 -> int32 bit pattern).
func pattern(t string, v int64) int64 {
	if t == "uint32" {
		return int64(int32(uint32(v)))
	}
	return v
}

func mkValue(t string, v int64) goat.Value {
	switch t {
	case "int8":
		return goat.Int8(int8(v))
	case "uint8":
		return goat.Uint8(uint8(v))
	case "int32":
		return goat.Int32(int32(v))
	}
	return goat.Uint32(uint32(v))
}

func readValue(v goat.Value, rt string) (int64, bool) {
	switch rt {
	case "int8":
		return int64(v.Int8()), true
	case "uint8":
		return int64(v.Uint8()), true
	case "int32":
		return int64(v.Int32()), true
	case "uint32":
		return int64(int32(v.Uint32())), true
	case "bool":
		if v.Bool() {
			return 1, true
		}
		return 0, true
	case "number": // untyped constant leaked
		return int64(v.Int()), true
	}
	return 0, false
}

// native Go oracle (calibration)
func nativeBin(t, op string, a, b int64) (int64, bool) {
	switch t {
	case "int8":
		x, y := int8(a), int8(b)
		switch op {
		case "+":
			return int64(x + y), false
		case "-":
			return int64(x - y), false
		case "*":
			return int64(x * y), false
		case "/":
			if y == 0 {
				return 0, true
			}
			return int64(x / y), false
		case "%":
			if y == 0 {
				return 0, true
			}
			return int64(x % y), false
		case "&":
			return int64(x & y), false
		case "|":
			return int64(x | y), false
		case "^":
			return int64(x ^ y), false
		case "<<":
			return int64(x << uint8(y)), false
		case ">>":
			return int64(x >> uint8(y)), false
		case "==":
			return b2i(x == y), false
		case "!=":
			return b2i(x != y), false
		case "<":
			return b2i(x < y), false
		case "<=":
			return b2i(x <= y), false
		case ">":
			return b2i(x > y), false
		case ">=":
			return b2i(x >= y), false
		}
	case "uint8":
		x, y := uint8(a), uint8(b)
		switch op {
		case "+":
			return int64(x + y), false
		case "-":
			return int64(x - y), false
		case "*":
			return int64(x * y), false
		case "/":
			if y == 0 {
				return 0, true
			}
			return int64(x / y), false
		case "%":
			if y == 0 {
				return 0, true
			}
			return int64(x % y), false
		case "&":
			return int64(x & y), false
		case "|":
			return int64(x | y), false
		case "^":
			return int64(x ^ y), false
		case "<<":
			return int64(x << y), false
		case ">>":
			return int64(x >> y), false
		case "==":
			return b2i(x == y), false
		case "!=":
			return b2i(x != y), false
		case "<":
			return b2i(x < y), false
		case "<=":
			return b2i(x <= y), false
		case ">":
			return b2i(x > y), false
		case ">=":
			return b2i(x >= y), false
		}
	case "int32":
		x, y := int32(a), int32(b)
		switch op {
		case "+":
			return int64(x + y), false
		case "-":
			return int64(x - y), false
		case "*":
			return int64(x * y), false
		case "/":
			if y == 0 {
				return 0, true
			}
			return int64(x / y), false
		case "%":
			if y == 0 {
				return 0, true
			}
			return int64(x % y), false
		case "&":
			return int64(x & y), false
		case "|":
			return int64(x | y), false
		case "^":
			return int64(x ^ y), false
		case "<<":
			return int64(x << uint32(y)), false
		case ">>":
			return int64(x >> uint32(y)), false
		case "==":
			return b2i(x == y), false
		case "!=":
			return b2i(x != y), false
		case "<":
			return b2i(x < y), false
		case "<=":
			return b2i(x <= y), false
		case ">":
			return b2i(x > y), false
		case ">=":
			return b2i(x >= y), false
		}
	case "uint32":
		x, y := uint32(a), uint32(b)
		p := func(v uint32) int64 { return int64(int32(v)) }
		switch op {
		case "+":
			return p(x + y), false
		case "-":
			return p(x - y), false
		case "*":
			return p(x * y), false
		case "/":
			if y == 0 {
				return 0, true
			}
			return p(x / y), false
		case "%":
			if y == 0 {
				return 0, true
			}
			return p(x % y), false
		case "&":
			return p(x & y), false
		case "|":
			return p(x | y), false
		case "^":
			return p(x ^ y), false
		case "<<":
			return p(x << y), false
		case ">>":
			return p(x >> y), false
		case "==":
			return b2i(x == y), false
		case "!=":
			return b2i(x != y), false
		case "<":
			return b2i(x < y), false
		case "<=":
			return b2i(x <= y), false
		case ">":
			return b2i(x > y), false
		case ">=":
			return b2i(x >= y), false
		}
	}
	panic("nativeBin: " + t + " " + op)
}

func b2i(b bool) int64 {
	if b {
		return 1
	}
	return 0
}

func constLit(v int64) string { return fmt.Sprint(v) }

// otherType: an integer type different from t (receiver / parameter types next to a result of type t)
func otherType(t string) string {
	if t == "int32" {
		return "int8"
	}
	return "int32"
}

func c04Source(fns []*c04Fn) string {
	var b strings.Builder
	b.WriteString("package main\n\n")
	for _, t := range c04Types {
		fmt.Fprintf(&b, "type S_%s struct {\n\tPad int\n\tF %s\n}\n\nvar G_%s %s\n\nvar GP_%s = &S_%s{}\n\nvar GS_%s = make([]%s, 3)\n\nfunc id_%s(x %s) %s { return x }\n\n", t, t, t, t, t, t, t, t, t, t, t)
	}
	for _, f := range fns {
		b.WriteString(f.Src)
		b.WriteString("\n")
	}
	return b.String()
}

func c04Functions(c *Ctx, r *rand.Rand) []*c04Fn {
	var fns []*c04Fn
	add := func(f *c04Fn, src string) {
		f.Name = fmt.Sprintf("F%d", len(fns))
		f.Src = strings.ReplaceAll(src, "FN", f.Name)
		fns = append(fns, f)
	}
	for _, t := range c04Types {
		lo, hi := typeRange(t)
		consts := []int64{0, 1, 2, 3, 7, 8, hi, hi - 1, lo, lo + 1, 100, 31, 32}
		if lo < 0 {
			consts = append(consts, -1, -2, -7)
		}
		nrc := c.pick(3, 24)
		for i := 0; i < nrc; i++ {
			consts = append(consts, lo+r.Int63n(hi-lo+1))
		}
		// dedupe, keep representable
		seen := map[int64]bool{}
		var cs []int64
		for _, k := range consts {
			if k >= lo && k <= hi && !seen[k] {
				seen[k] = true
				cs = append(cs, k)
			}
		}
		for _, op := range append(append([]string{}, c04Arith...), c04Cmp...) {
			rt := t
			if isCmp(op) {
				rt = "bool"
			}
			add(&c04Fn{T: t, Op: op, Pos: "vv", Arity: 2}, fmt.Sprintf("func FN(a, b %s) %s { return a %s b }", t, rt, op))
			add(&c04Fn{T: t, Op: op, Pos: "vv-assign", Arity: 2}, fmt.Sprintf("func FN(a, b %s) %s {\n\tc := a %s b\n\treturn c\n}", t, rt, op))
			add(&c04Fn{T: t, Op: op, Pos: "vv-any", Arity: 2}, fmt.Sprintf("func FN(a, b %s) any { return a %s b }", t, op))
			if op == "<<" || op == ">>" {
				// the count of a shift may have any integer type: the result has the type of the LEFT operand
				for _, ct := range c04Types {
					if ct == t {
						continue
					}
					add(&c04Fn{T: t, Op: op, Pos: "shift-count-" + ct, Arity: 2}, fmt.Sprintf("func FN(a, b %s) any {\n\tif uint32(b) < 100 {\n\t\treturn a %s %s(b)\n\t}\n\treturn a %s b\n}", t, op, ct, op))
					add(&c04Fn{T: t, Op: op, Pos: "shift-assign-count-" + ct, Arity: 2}, fmt.Sprintf("func FN(a, b %s) any {\n\tif uint32(b) < 100 {\n\t\ta %s= %s(b)\n\t\treturn a\n\t}\n\ta %s= b\n\treturn a\n}", t, op, ct, op))
				}
			}
			if !isCmp(op) {
				add(&c04Fn{T: t, Op: op, Pos: "opassign-local", Arity: 2}, fmt.Sprintf("func FN(a, b %s) %s {\n\ta %s= b\n\treturn a\n}", t, t, op))
				add(&c04Fn{T: t, Op: op, Pos: "opassign-global", Arity: 2}, fmt.Sprintf("func FN(a, b %s) %s {\n\tG_%s = a\n\tG_%s %s= b\n\treturn G_%s\n}", t, t, t, t, op, t))
				add(&c04Fn{T: t, Op: op, Pos: "opassign-field", Arity: 2}, fmt.Sprintf("func FN(a, b %s) %s {\n\ts := &S_%s{F: a}\n\ts.F %s= b\n\treturn s.F\n}", t, t, t, op))
				add(&c04Fn{T: t, Op: op, Pos: "opassign-elem", Arity: 2}, fmt.Sprintf("func FN(a, b %s) %s {\n\ts := []%s{0, a}\n\ts[1] %s= b\n\treturn s[1]\n}", t, t, t, op))
				add(&c04Fn{T: t, Op: op, Pos: "opassign-mapelem", Arity: 2}, fmt.Sprintf("func FN(a, b %s) %s {\n\tm := map[string]%s{\"k\": a}\n\tm[\"k\"] %s= b\n\treturn m[\"k\"]\n}", t, t, t, op))
				add(&c04Fn{T: t, Op: op, Pos: "field-field", Arity: 2}, fmt.Sprintf("func FN(a, b %s) %s {\n\ts := &S_%s{F: a}\n\tu := &S_%s{F: b}\n\treturn s.F %s u.F\n}", t, t, t, t, op))
			}
			for _, k := range cs {
				if (op == "<<" || op == ">>") && (k < 0 || (t == "uint32" && k > 2147483647)) {
					continue // negative / huge constant shift counts are not Go programs
				}
				if (op == "/" || op == "%") && k == 0 {
					continue // division by constant zero is a compile-time error in Go
				}
				add(&c04Fn{T: t, Op: op, Pos: "var-const", Arity: 1, Fixed: "b", X: k}, fmt.Sprintf("func FN(a %s) %s { return a %s %s }", t, rt, op, constLit(k)))
				add(&c04Fn{T: t, Op: op, Pos: "var-const-any", Arity: 1, Fixed: "b", X: k}, fmt.Sprintf("func FN(a %s) any { return a %s %s }", t, op, constLit(k)))
				if !isCmp(op) {
					add(&c04Fn{T: t, Op: op, Pos: "opassign-const", Arity: 1, Fixed: "b", X: k}, fmt.Sprintf("func FN(a %s) %s {\n\ta %s= %s\n\treturn a\n}", t, t, op, constLit(k)))
				}
			}
			for _, k := range cs {
				if op == "<<" || op == ">>" {
					continue // constant << variable: the constant's type comes from context, kept out of the table
				}
				add(&c04Fn{T: t, Op: op, Pos: "const-var", Arity: 1, Fixed: "a", X: k}, fmt.Sprintf("func FN(b %s) %s { return %s %s b }", t, rt, constLit(k), op))
				add(&c04Fn{T: t, Op: op, Pos: "const-var-any", Arity: 1, Fixed: "a", X: k}, fmt.Sprintf("func FN(b %s) any { return %s %s b }", t, constLit(k), op))
			}
			// two constants passed to a variadic / ordinary typed parameter list and combined there
			if op != "<<" && op != ">>" {
				for i := 0; i+1 < len(cs) && i < 12; i += 2 {
					k1, k2 := cs[i], cs[i+1]
					if (op == "/" || op == "%") && k2 == 0 {
						k2 = 3
					}
					add(&c04Fn{T: t, Op: op, Pos: "variadic-param-consts", Arity: 0, Fixed: "a", X: k1, Y: k2, HasY: true},
						fmt.Sprintf("func FN_v(xs ...%s) any { return xs[0] %s xs[1] }\nfunc FN() any { return FN_v(%s, %s) }", t, op, constLit(k1), constLit(k2)))
					// a group of names sharing the type, followed by parameters of other types
					add(&c04Fn{T: t, Op: op, Pos: "grouped-param-consts", Arity: 0, Fixed: "a", X: k1, Y: k2, HasY: true},
						fmt.Sprintf("func FN_g(x, y %s, f float64, s string) any { return x %s y }\nfunc FN() any { return FN_g(%s, %s, 0.5, \"s\") }", t, op, constLit(k1), constLit(k2)))
					add(&c04Fn{T: t, Op: op, Pos: "grouped-param-consts-2", Arity: 0, Fixed: "a", X: k1, Y: k2, HasY: true},
						fmt.Sprintf("func FN_h(s string, x, y %s, ok bool) any { return x %s y }\nfunc FN() any { return FN_h(\"s\", %s, %s, true) }", t, op, constLit(k1), constLit(k2)))
					add(&c04Fn{T: t, Op: op, Pos: "param-consts", Arity: 0, Fixed: "a", X: k1, Y: k2, HasY: true},
						fmt.Sprintf("func FN_p(x, y %s) any { return x %s y }\nfunc FN() any { return FN_p(%s, %s) }", t, op, constLit(k1), constLit(k2)))
				}
			}
			// chains: (a op c1) op2 c2 and (a op b) op2 c with constants that each fit the type
			if op == "+" || op == "-" || op == "*" {
				for _, op2 := range []string{"+", "-"} {
					for i := 0; i+1 < len(cs) && i < 16; i += 2 {
						k1, k2 := cs[i], cs[i+1]
						add(&c04Fn{T: t, Op: "chain", Op1: op, Op2: op2, Z: k2, Pos: "chain-const-const", Arity: 1, Fixed: "b", X: k1},
							fmt.Sprintf("func FN(a %s) any { return a %s %s %s %s }", t, op, constLit(k1), op2, constLit(k2)))
						add(&c04Fn{T: t, Op: "chain", Op1: op, Op2: op2, Z: k2, Pos: "chain-assign-const-const", Arity: 1, Fixed: "b", X: k1},
							fmt.Sprintf("func FN(a %s) %s {\n\ta = a %s %s %s %s\n\treturn a\n}", t, t, op, constLit(k1), op2, constLit(k2)))
						add(&c04Fn{T: t, Op: "chain", Op1: op, Op2: op2, Z: k2, Pos: "chain-var-const", Arity: 2},
							fmt.Sprintf("func FN(a, b %s) any { return a %s b %s %s }", t, op, op2, constLit(k2)))
					}
				}
			}
		}
		add(&c04Fn{T: t, Op: "++", Pos: "incdec-local", Arity: 1}, fmt.Sprintf("func FN(a %s) %s {\n\ta++\n\treturn a\n}", t, t))
		add(&c04Fn{T: t, Op: "--", Pos: "incdec-local", Arity: 1}, fmt.Sprintf("func FN(a %s) %s {\n\ta--\n\treturn a\n}", t, t))
		add(&c04Fn{T: t, Op: "++", Pos: "incdec-global", Arity: 1}, fmt.Sprintf("func FN(a %s) %s {\n\tG_%s = a\n\tG_%s++\n\treturn G_%s\n}", t, t, t, t, t))
		add(&c04Fn{T: t, Op: "--", Pos: "incdec-field", Arity: 1}, fmt.Sprintf("func FN(a %s) %s {\n\ts := &S_%s{F: a}\n\ts.F--\n\treturn s.F\n}", t, t, t))
		add(&c04Fn{T: t, Op: "++", Pos: "incdec-elem", Arity: 1}, fmt.Sprintf("func FN(a %s) %s {\n\ts := []%s{a}\n\ts[0]++\n\treturn s[0]\n}", t, t, t))
		add(&c04Fn{T: t, Op: "--", Pos: "incdec-mapelem", Arity: 1}, fmt.Sprintf("func FN(a %s) %s {\n\tm := map[int]%s{3: a}\n\tm[3]--\n\treturn m[3]\n}", t, t, t))
		add(&c04Fn{T: t, Op: "++", Pos: "incdec-loop", Arity: 1}, fmt.Sprintf("func FN(a %s) %s {\n\tfor i := 0; i < 3; i++ {\n\t\ta++\n\t\ta--\n\t}\n\ta++\n\treturn a\n}", t, t))
		if lo < 0 {
			add(&c04Fn{T: t, Op: "neg", Pos: "unary", Arity: 1}, fmt.Sprintf("func FN(a %s) %s { return -a }", t, t))
		}
		add(&c04Fn{T: t, Op: "compl", Pos: "unary", Arity: 1}, fmt.Sprintf("func FN(a %s) %s { return ^a }", t, t))
		for _, to := range c04Types {
			add(&c04Fn{T: t, Op: "conv", To: to, Pos: "conv", Arity: 1}, fmt.Sprintf("func FN(a %s) %s { return %s(a) }", t, to, to))
			add(&c04Fn{T: t, Op: "conv", To: to, Pos: "conv-assign", Arity: 1}, fmt.Sprintf("func FN(a %s) %s {\n\tx := %s(a)\n\treturn x\n}", t, to, to))
		}
		// typed declarations, assignments, parameters, results, fields and container elements convert
		// untyped constants to the declared type ("id": the constant must come back with type t)
		for _, k := range cs {
			lit := constLit(k)
			add(&c04Fn{T: t, Op: "id", Pos: "decl-var", Arity: 0, Fixed: "a", X: k}, fmt.Sprintf("func FN() %s {\n\tvar x %s = %s\n\treturn x\n}", t, t, lit))
			add(&c04Fn{T: t, Op: "id", Pos: "decl-var-any", Arity: 0, Fixed: "a", X: k}, fmt.Sprintf("func FN() any {\n\tvar x %s = %s\n\treturn x\n}", t, lit))
			add(&c04Fn{T: t, Op: "id", Pos: "param-any", Arity: 0, Fixed: "a", X: k}, fmt.Sprintf("func FN_q(x %s) any { return x }\nfunc FN() any { return FN_q(%s) }", t, lit))
			add(&c04Fn{T: t, Op: "id", Pos: "variadic-param-any", Arity: 0, Fixed: "a", X: k}, fmt.Sprintf("func FN_w(xs ...%s) any { return xs[0] }\nfunc FN() any { return FN_w(%s) }", t, lit))
			add(&c04Fn{T: t, Op: "id", Pos: "field-any", Arity: 0, Fixed: "a", X: k}, fmt.Sprintf("func FN() any {\n\ts := &S_%s{F: %s}\n\treturn s.F\n}", t, lit))
			add(&c04Fn{T: t, Op: "id", Pos: "slice-elem-any", Arity: 0, Fixed: "a", X: k}, fmt.Sprintf("func FN() any {\n\ts := []%s{%s}\n\treturn s[0]\n}", t, lit))
			add(&c04Fn{T: t, Op: "id", Pos: "map-elem-any", Arity: 0, Fixed: "a", X: k}, fmt.Sprintf("func FN() any {\n\tm := map[string]%s{\"k\": %s}\n\treturn m[\"k\"]\n}", t, lit))
			add(&c04Fn{T: t, Op: "id", Pos: "result-any", Arity: 0, Fixed: "a", X: k}, fmt.Sprintf("func FN_r() %s { return %s }\nfunc FN() any { return FN_r() }", t, lit))
			// a constant result of a function / method that has parameters of OTHER types at the same positions
			add(&c04Fn{T: t, Op: "id", Pos: "result-after-float-param-any", Arity: 0, Fixed: "a", X: k}, fmt.Sprintf("func FN_rp(x float64) %s { return %s }\nfunc FN() any { return FN_rp(2.5) }", t, lit))
			add(&c04Fn{T: t, Op: "id", Pos: "result-after-string-bool-param-any", Arity: 0, Fixed: "a", X: k}, fmt.Sprintf("func FN_rq(s string, b bool) (%s, %s) { return %s, %s }\nfunc FN() any {\n\t_, y := FN_rq(\"s\", true)\n\treturn y\n}", t, t, lit, lit))
			add(&c04Fn{T: t, Op: "id", Pos: "method-result-any", Arity: 0, Fixed: "a", X: k}, fmt.Sprintf("func (s *S_%s) FN_m(x uint8) %s { return %s }\nfunc FN() any { return (&S_%s{}).FN_m(1) }", otherType(t), t, lit, otherType(t)))
			add(&c04Fn{T: t, Op: "id", Pos: "decl-then-assign", Arity: 0, Fixed: "a", X: k}, fmt.Sprintf("func FN() %s {\n\tvar x %s\n\tx = %s\n\treturn x\n}", t, t, lit))
			add(&c04Fn{T: t, Op: "id", Pos: "param", Arity: 0, Fixed: "a", X: k}, fmt.Sprintf("func FN() %s { return id_%s(%s) }", t, t, lit))
			add(&c04Fn{T: t, Op: "id", Pos: "result", Arity: 0, Fixed: "a", X: k}, fmt.Sprintf("func FN() %s { return %s }", t, lit))
			add(&c04Fn{T: t, Op: "id", Pos: "field-init", Arity: 0, Fixed: "a", X: k}, fmt.Sprintf("func FN() %s {\n\ts := &S_%s{F: %s}\n\treturn s.F\n}", t, t, lit))
			add(&c04Fn{T: t, Op: "id", Pos: "field-assign", Arity: 0, Fixed: "a", X: k}, fmt.Sprintf("func FN() %s {\n\ts := &S_%s{}\n\ts.F = %s\n\treturn s.F\n}", t, t, lit))
			add(&c04Fn{T: t, Op: "id", Pos: "slice-elem", Arity: 0, Fixed: "a", X: k}, fmt.Sprintf("func FN() %s {\n\ts := []%s{%s}\n\treturn s[0]\n}", t, t, lit))
			add(&c04Fn{T: t, Op: "id", Pos: "slice-assign", Arity: 0, Fixed: "a", X: k}, fmt.Sprintf("func FN() %s {\n\ts := make([]%s, 2)\n\ts[1] = %s\n\treturn s[1]\n}", t, t, lit))
			add(&c04Fn{T: t, Op: "id", Pos: "append", Arity: 0, Fixed: "a", X: k}, fmt.Sprintf("func FN() %s {\n\tvar s []%s\n\ts = append(s, %s)\n\treturn s[0]\n}", t, t, lit))
			add(&c04Fn{T: t, Op: "id", Pos: "map-elem", Arity: 0, Fixed: "a", X: k}, fmt.Sprintf("func FN() %s {\n\tm := map[string]%s{\"k\": %s}\n\treturn m[\"k\"]\n}", t, t, lit))
			add(&c04Fn{T: t, Op: "id", Pos: "map-assign", Arity: 0, Fixed: "a", X: k}, fmt.Sprintf("func FN() %s {\n\tm := map[string]%s{}\n\tm[\"k\"] = %s\n\treturn m[\"k\"]\n}", t, t, lit))
			add(&c04Fn{T: t, Op: "id", Pos: "global-assign", Arity: 0, Fixed: "a", X: k}, fmt.Sprintf("func FN() %s {\n\tG_%s = %s\n\treturn G_%s\n}", t, t, lit, t))
			// the same stores with the value read back as `any`: the declared result type must not be what converts it
			add(&c04Fn{T: t, Op: "id", Pos: "decl-then-assign-any", Arity: 0, Fixed: "a", X: k}, fmt.Sprintf("func FN() any {\n\tvar x %s\n\tx = %s\n\treturn x\n}", t, lit))
			add(&c04Fn{T: t, Op: "id", Pos: "field-assign-any", Arity: 0, Fixed: "a", X: k}, fmt.Sprintf("func FN() any {\n\ts := &S_%s{}\n\ts.F = %s\n\treturn s.F\n}", t, lit))
			add(&c04Fn{T: t, Op: "id", Pos: "field-assign-param-any", Arity: 0, Fixed: "a", X: k}, fmt.Sprintf("func FN_fa(s *S_%s) { s.F = %s }\nfunc FN() any {\n\ts := &S_%s{}\n\tFN_fa(s)\n\treturn s.F\n}", t, lit, t))
			add(&c04Fn{T: t, Op: "id", Pos: "field-assign-method-any", Arity: 0, Fixed: "a", X: k}, fmt.Sprintf("func (s *S_%s) FN_set() { s.F = %s }\nfunc FN() any {\n\ts := &S_%s{}\n\ts.FN_set()\n\treturn s.F\n}", t, lit, t))
			add(&c04Fn{T: t, Op: "id", Pos: "field-assign-global-any", Arity: 0, Fixed: "a", X: k}, fmt.Sprintf("func FN() any {\n\tGP_%s.F = %s\n\treturn GP_%s.F\n}", t, lit, t))
			add(&c04Fn{T: t, Op: "id", Pos: "slice-assign-any", Arity: 0, Fixed: "a", X: k}, fmt.Sprintf("func FN() any {\n\ts := make([]%s, 2)\n\ts[1] = %s\n\treturn s[1]\n}", t, lit))
			add(&c04Fn{T: t, Op: "id", Pos: "slice-assign-var-index-any", Arity: 0, Fixed: "a", X: k}, fmt.Sprintf("func FN() any {\n\ts := make([]%s, 2)\n\ti := 1\n\ts[i] = %s\n\treturn s[i]\n}", t, lit))
			add(&c04Fn{T: t, Op: "id", Pos: "slice-assign-global-any", Arity: 0, Fixed: "a", X: k}, fmt.Sprintf("func FN() any {\n\tGS_%s[1] = %s\n\treturn GS_%s[1]\n}", t, lit, t))
			add(&c04Fn{T: t, Op: "id", Pos: "slice-assign-alias-any", Arity: 0, Fixed: "a", X: k}, fmt.Sprintf("func FN() any {\n\ts := make([]%s, 3)\n\tu := s[1:]\n\tu[0] = %s\n\treturn s[1]\n}", t, lit))
			add(&c04Fn{T: t, Op: "id", Pos: "append-any", Arity: 0, Fixed: "a", X: k}, fmt.Sprintf("func FN() any {\n\tvar s []%s\n\ts = append(s, %s)\n\treturn s[0]\n}", t, lit))
			add(&c04Fn{T: t, Op: "id", Pos: "map-assign-any", Arity: 0, Fixed: "a", X: k}, fmt.Sprintf("func FN() any {\n\tm := map[string]%s{}\n\tm[\"k\"] = %s\n\treturn m[\"k\"]\n}", t, lit))
			add(&c04Fn{T: t, Op: "id", Pos: "map-assign-int-key-any", Arity: 0, Fixed: "a", X: k}, fmt.Sprintf("func FN() any {\n\tm := map[int]%s{}\n\tm[2] = %s\n\treturn m[2]\n}", t, lit))
			add(&c04Fn{T: t, Op: "id", Pos: "global-assign-any", Arity: 0, Fixed: "a", X: k}, fmt.Sprintf("func FN() any {\n\tG_%s = %s\n\treturn G_%s\n}", t, lit, t))
			add(&c04Fn{T: t, Op: "id", Pos: "multi-assign-any", Arity: 0, Fixed: "a", X: k}, fmt.Sprintf("func FN() any {\n\ts := &S_%s{}\n\tvar y %s\n\ty, s.F = %s, %s\n\t_ = y\n\treturn s.F\n}", t, t, lit, lit))
			add(&c04Fn{T: t, Op: "id", Pos: "convert-const", Arity: 0, Fixed: "a", X: k}, fmt.Sprintf("func FN() %s {\n\tx := %s(%s)\n\treturn x\n}", t, t, lit))
		}
	}
	return fns
}

func c04Operands(c *Ctx, r *rand.Rand, t string, exhaustive8 bool) []int64 {
	lo, hi := typeRange(t)
	if hi-lo < 256 {
		var all []int64
		if exhaustive8 {
			for v := lo; v <= hi; v++ {
				all = append(all, v)
			}
			return all
		}
		set := map[int64]bool{lo: true, hi: true, 0: true, 1: true, lo + 1: true, hi - 1: true, 127: true, 128 + lo: true, 7: true, 8: true}
		for len(set) < 24 {
			set[lo+r.Int63n(256)] = true
		}
		for v := lo; v <= hi; v++ {
			if set[v] {
				all = append(all, v)
			}
		}
		return all
	}
	base := []int64{0, 1, 2, 3, 5, 7, 8, 15, 16, 31, 32, 33, 63, 64, 127, 128, 255, 256, 32767, 32768, 65535, 65536, 46340, 46341, 16777216, 1073741823, 1073741824, 2147483647, 2147483646}
	if lo < 0 {
		base = append(base, -1, -2, -3, -7, -8, -128, -129, -32768, -65536, -46341, -1073741824, -2147483647, -2147483648)
	} else {
		base = append(base, 2147483648, 2147483649, 3000000000, 4294967295, 4294967294, 4294901760)
	}
	n := c.pick(12, 60)
	for i := 0; i < n; i++ {
		base = append(base, lo+r.Int63n(hi-lo+1))
	}
	return base
}

func shiftCountOK(t string, b int64) bool {
	if t == "uint32" || t == "uint8" {
		return true
	}
	return b >= 0
}

func checkC04(c *Ctx) {
	c.Rule = "integer cases = (type in int8,uint8,int32,uint32) x (16 binary/comparison operators, ++, --, unary -, ^, conversions, constant adoption) x syntactic position (var op var, result assigned, x op= y on local/global/field/slice element/map element, var op const, const op var, x op= const, ++/-- on local/global/field/element/in loop, typed declaration/parameter/result/field/element with constant) x operands (8-bit: all 65536 pairs for var-op-var, all 256 values elsewhere; 32-bit: boundary + seeded random values); float64 cases = (+ - * /, 6 comparisons, op=, ++, --, unary -, conversions to and from the four integer types, constant adoption incl. integer constant expressions) x the same syntactic positions x (40 / 100 exact dyadic operands incl. -0, +-Inf, NaN, all pairs for var-op-var); distinct_nontrivial = distinct (type, op, position, a, b) evaluations whose operands are not both in {0,1}"
	c.Assumptions = []string{"TLC evaluates FixedWidth.tla as written (32-bit arithmetic on limbs)", "native Go integer types calibrate the spec on every var-op-var table", "float64 is covered on operands where IEEE-754 arithmetic is exact (m * 2^e with |m| < 2^15, e in -6..5, and -0, +-Inf, NaN; divisions only where the quotient is exact); rounding of inexact results is not covered (TLA+ has no floating point; see DESIGN.md section 7)", "shift counts are non-negative values of the operand type; constant<<variable is outside the table"}

	// M1 runs concurrently with the table construction (it is a single-threaded constant evaluation)
	mcDone := make(chan any, 1)
	go func() {
		defer func() { mcDone <- recover() }()
		sub := &Ctx{ID: c.ID, Tier: c.Tier, Seed: c.Seed, Work: filepath.Join(c.Work, "mcsub"), Workers: 1}
		must(os.MkdirAll(sub.Work, 0o755))
		dir := sub.specWorkDir("mc")
		cfg := "MC_FixedWidth_quick.cfg"
		if !c.quick() {
			cfg = "MC_FixedWidth.cfg"
		}
		sub.runTLC(dir, TLCOpts{Module: "MC_FixedWidth", Cfg: cfg, Workers: 1, ExtraArgs: []string{"-nowarning"}})
	}()
	defer func() {
		if r := <-mcDone; r != nil {
			panic(r)
		}
		c.States++ // MC_FixedWidth: one state, constant-level lemmas
		c.Transitions++
	}()

	c.Extra["t_mc_s"] = int(time.Since(c.Start).Seconds())
	r := rand.New(rand.NewSource(c.Seed))
	fns := c04Functions(c, r)
	src := c04Source(fns)
	var out bytes.Buffer
	vm := goat.New(goat.WithStdout(&out))
	if err := vm.Load(mapFS(map[string]string{"main/main.go": src}), "main"); err != nil {
		c.violate(hashKey("load"), "the C04 table package does not load: "+firstLine(err.Error()), map[string]any{"source": src, "error": err.Error()})
		return
	}
	c.Extra["functions"] = len(fns)

	var lines []map[string]any
	var lineFn []*c04Fn
	nontrivial := int64(0)
	call := func(f *c04Fn, args ...goat.Value) (int64, string, bool) {
		goat.VerifSetBudget(100000)
		rets, err := vm.Call("main."+f.Name, 1, args...)
		goat.VerifSetBudget(-1)
		if err != nil {
			return 0, "", true
		}
		rt := vm.VerifTypeOf(rets[0])
		v, ok := readValue(rets[0], rt)
		if !ok {
			return 0, rt, false
		}
		return v, rt, false
	}
	mkLine := func(f *c04Fn, fixed string, x int64, ys []int64, src string) map[string]any {
		res := make([]int64, 0, len(ys))
		pan := []int{}
		rtAll := ""
		ysP := make([]int64, len(ys))
		for i, y := range ys {
			ysP[i] = pattern(f.T, y)
			var v int64
			var rt string
			var failed bool
			if src == "go" {
				a, b := x, y
				if fixed == "b" {
					a, b = y, x
				}
				v, failed = nativeBin(f.T, f.Op, a, b)
				rt = f.T
				if isCmp(f.Op) {
					rt = "bool"
				}
			} else {
				switch {
				case f.Arity == 0:
					v, rt, failed = call(f)
				case f.Arity == 1:
					v, rt, failed = call(f, mkValue(f.T, y))
				case fixed == "a":
					v, rt, failed = call(f, mkValue(f.T, x), mkValue(f.T, y))
				default:
					v, rt, failed = call(f, mkValue(f.T, y), mkValue(f.T, x))
				}
			}
			if failed {
				pan = append(pan, i+1)
				v = 0
			} else if rtAll == "" {
				rtAll = rt
			} else if rtAll != rt {
				rtAll = "mixed:" + rtAll + "/" + rt
			}
			res = append(res, v)
			c.Evaluations++
			if !((x == 0 || x == 1) && (y == 0 || y == 1)) {
				nontrivial++
			}
		}
		if rtAll == "" { // every entry failed: the type expectation is vacuous
			rtAll = f.T
			if isCmp(f.Op) {
				rtAll = "bool"
			}
			if f.Op == "conv" {
				rtAll = f.To
			}
		}
		to := f.To
		if to == "" {
			to = f.T
		}
		op1, op2 := f.Op1, f.Op2
		if op1 == "" {
			op1, op2 = "+", "+"
		}
		return map[string]any{"t": f.T, "op": f.Op, "pos": f.Pos, "to": to, "fixed": fixed, "x": pattern(f.T, x), "ys": ysP, "res": res, "pan": pan, "rt": rtAll, "src": src, "fn": f.Name,
			"op1": op1, "op2": op2, "z": pattern(f.T, f.Z)}
	}
	emit := func(f *c04Fn, l map[string]any) {
		lines = append(lines, l)
		lineFn = append(lineFn, f)
	}
	for _, f := range fns {
		wide := f.T == "int32" || f.T == "uint32"
		exh := !wide && (f.Pos == "vv" || !c.quick())
		switch {
		case f.Arity == 2:
			as := c04Operands(c, r, f.T, exh)
			bsAll := c04Operands(c, r, f.T, !wide)
			var bs []int64
			for _, b := range bsAll {
				if (f.Op == "<<" || f.Op == ">>") && !shiftCountOK(f.T, b) {
					continue
				}
				bs = append(bs, b)
			}
			for _, a := range as {
				emit(f, mkLine(f, "a", a, bs, "goat"))
				if f.Pos == "vv" && (wide || !c.quick() || (a&3) == 0) {
					emit(nil, mkLine(f, "a", a, bs, "go"))
				}
			}
		case f.Arity == 1 && f.Fixed != "":
			ys := c04Operands(c, r, f.T, !wide)
			if f.Fixed == "a" && (f.Op == "<<" || f.Op == ">>") {
				var k []int64
				for _, y := range ys {
					if shiftCountOK(f.T, y) {
						k = append(k, y)
					}
				}
				ys = k
			}
			emit(f, mkLine(f, f.Fixed, f.X, ys, "goat"))
		case f.Arity == 1:
			ys := c04Operands(c, r, f.T, !wide)
			emit(f, mkLine(f, "b", 0, ys, "goat")) // unary: the runtime operand is "a" (fixed b unused)
		case f.Arity == 0 && f.HasY:
			emit(f, mkLine(f, "a", f.X, []int64{f.Y}, "goat")) // two constants: a = X, b = Y
		case f.Arity == 0:
			emit(f, mkLine(f, "b", 0, []int64{f.X}, "goat")) // constant adoption: a = X
		}
	}
	c.DistinctCount = nontrivial
	c.Extra["trace_lines"] = len(lines)
	for i := 0; i < len(lines) && len(c.Samples) < 4; i += len(lines)/4 + 1 {
		l := lines[i]
		c.sample(map[string]any{"t": l["t"], "op": l["op"], "pos": l["pos"], "fixed": l["fixed"], "x": l["x"], "ys_head": headInts(l["ys"].([]int64)), "res_head": headInts(l["res"].([]int64)), "rt": l["rt"], "src": l["src"]})
	}
	c.Extra["t_run_s"] = int(time.Since(c.Start).Seconds())
	bad := classifySharded(c, "Trace_FixedWidth", "Trace_FixedWidth.cfg", lines, c.Workers)
	c.Extra["t_tlc_s"] = int(time.Since(c.Start).Seconds())
	reported := map[string]bool{}
	for _, idx := range bad {
		l := lines[idx]
		if l["src"] == "go" {
			fatalf("calibration failure: FixedWidth.tla disagrees with native Go on %v %v x=%v", l["t"], l["op"], l["x"])
		}
		f := lineFn[idx]
		key := fmt.Sprintf("%s|%s|%s", f.T, f.Op, f.Pos)
		if reported[key] {
			continue
		}
		reported[key] = true
		c.violate(hashKey(key), fmt.Sprintf("%s %s at position %s: results differ from Go (fixed %v=%v, result type %v); function: %s", f.T, f.Op, f.Pos, l["fixed"], l["x"], l["rt"], strings.ReplaceAll(f.Src, "\n", " ")),
			map[string]any{"function": f.Src, "line": l})
	}
	c.TracesVsImpl = int64(len(lines) - len(bad))
	// negative control: one wrong result in one line must be flagged
	nc := map[string]any{}
	for k, v := range lines[0] {
		nc[k] = v
	}
	res := append([]int64{}, lines[0]["res"].([]int64)...)
	res[len(res)/2] ^= 1
	nc["res"] = res
	nb := classifyFlatTrace(c, "Trace_FixedWidth", "Trace_FixedWidth.cfg", []map[string]any{lines[0], nc})
	if len(nb) != 1 || nb[0] != 1 {
		fatalf("negative control (one flipped result bit) not flagged: %v", nb)
	}
	c.Extra["negative_control"] = "a table line with one flipped result bit was flagged by Trace_FixedWidth as expected"
	checkC04Float(c, r)
}

func headInts(v []int64) []int64 {
	if len(v) > 8 {
		return v[:8]
	}
	return v
}
