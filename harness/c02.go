package main

import (
	"bytes"
	"encoding/hex"
	"fmt"
	"math"
	"math/rand"
	"regexp"
	"sort"
	"strconv"
	"strings"
	"testing/fstest"

	goat "github.com/philhassey/goatlang"
)

// C02 — the bytecode optimizer is observationally transparent.
//
// Layer 3 (the property itself, PairTrace.tla): every program is run twice on the real VM, compiled
// with the peephole optimizer off (hook VerifLoad/VerifEval) and on; the two observations (stdout,
// returned values with dynamic types, success/failure, failing line) are one trace line each and
// TLC accepts the line iff they are equal. Programs: all generated MiniGo programs on every choice
// path TLC found, type-preserving mutations of them, the hand-written seed programs, and every input
// string of the repository's own test tables (extracted from /repo/*_test.go at check time).
// Layer 2 (OptSim.tla, translation validation of the exported code pairs) localises a difference to a
// rewrite rule or a jump; it never produces a verdict on its own.

func init() { register("C02", checkC02) }

var reErrLine = regexp.MustCompile(`([A-Za-z0-9_./-]+\.go):(\d+):\d+`)

func errLine(err string) int {
	m := reErrLine.FindStringSubmatch(err)
	if m == nil {
		return -1
	}
	n, _ := strconv.Atoi(m[2])
	return n
}

type c02Obs struct {
	Out  string   `json:"out"`
	Vals []string `json:"vals"`
	Ok   bool     `json:"ok"`
	Line int      `json:"line"`
	err  string
}

func observeRun(res RunResult) c02Obs {
	o := c02Obs{Out: hex.EncodeToString([]byte(res.Stdout)), Vals: []string{}, Ok: !res.Failed()}
	if res.Failed() {
		o.err = res.ErrString()
		o.Line = errLine(o.err)
		if res.Panic != "" {
			o.Line = -2
		}
	}
	for _, v := range res.Rets {
		txt := v.String()
		if v.Type() == goat.TypeMap && strings.HasPrefix(txt, "map[") && strings.HasSuffix(txt, "]") {
			// map entries print in Go's random iteration order: compare them as a multiset
			ents := strings.Split(txt[4:len(txt)-1], " ")
			sort.Strings(ents)
			txt = "map[" + strings.Join(ents, " ") + "]"
		}
		o.Vals = append(o.Vals, res.VM.VerifTypeOf(v)+":"+txt)
	}
	return o
}

func evalBoth(src string) (c02Obs, c02Obs) {
	run := func(opt bool) c02Obs {
		var out bytes.Buffer
		vm := goat.New(goat.WithStdout(&out))
		goat.VerifSetBudget(300000)
		res := RunResult{VM: vm}
		func() {
			defer func() {
				if r := recover(); r != nil {
					res.Panic = fmt.Sprint(r)
				}
			}()
			res.Rets, res.Err = vm.VerifEval(fstest.MapFS{}, "t.go", src, opt, nil)
		}()
		goat.VerifSetBudget(-1)
		res.Stdout = out.String()
		return observeRun(res)
	}
	return run(false), run(true)
}

// mutateProgram applies one type-preserving mutation to a program (in place on a deep-ish copy made
// by regenerating: mutations are applied to the AST before printing).
func mutateExprs(r *rand.Rand, ss []*S) {
	var visitE func(e *E)
	visitE = func(e *E) {
		if e == nil {
			return
		}
		if e.K == "bin" && r.Intn(4) == 0 {
			switch {
			case strings.Contains("+-*&|^", e.Op) && len(e.Op) == 1 && e.Ty.IsInt():
				ops := []string{"+", "-", "*", "&", "|", "^"}
				e.Op = ops[r.Intn(len(ops))]
			case e.Op == "<" || e.Op == "<=" || e.Op == ">" || e.Op == ">=":
				ops := []string{"<", "<=", ">", ">="}
				e.Op = ops[r.Intn(len(ops))]
			case e.Op == "==" || e.Op == "!=":
				e.Op = []string{"==", "!="}[r.Intn(2)]
			}
		}
		if e.K == "int" && r.Intn(5) == 0 {
			lo, hi := litRange(e.Ty)
			e.V += int64(r.Intn(5)) - 2
			if e.V < lo {
				e.V = lo
			}
			if e.V > hi {
				e.V = hi
			}
		}
		if (e.K == "and" || e.K == "or") && r.Intn(4) == 0 {
			if e.K == "and" {
				e.K = "or"
			} else {
				e.K = "and"
			}
		}
		for _, x := range []*E{e.L, e.R, e.X, e.I, e.Lo, e.Hi} {
			visitE(x)
		}
		for _, a := range e.Args {
			visitE(a)
		}
	}
	var visitS func(ss []*S)
	visitS = func(ss []*S) {
		for _, s := range ss {
			for _, e := range s.Exprs {
				visitE(e)
			}
			visitE(s.E)
			if s.K != "for" && !(s.K == "if" && len(s.Then) == 1 && s.Then[0].K == "break") {
				visitE(s.Cond) // loop conditions and counter guards keep the program terminating
			}
			visitS(s.Then)
			visitS(s.Else)
			visitS(s.Body)
			visitS(s.Def)
			for _, c := range s.Cases {
				visitS(c.Body)
			}
		}
	}
	visitS(ss)
}

func checkC02(c *Ctx) {
	c.Level = "translation_validation"
	c.Rule = "programs = generated MiniGo programs of every profile on every choice path found by TLC, type-preserving mutations of them (operator within its class, constants nudged, && <-> ||), the jump-placement family (sampled), the fusion-boundary family (every fusible expression / statement shape x every chunk-end context x all branch outcomes), hand-written seed programs, every function of the C04 operator tables (integers and float64) on boundary operands, and every In string of the repository's test tables; each run with the optimizer off and on; distinct_nontrivial = distinct (program, input) pairs whose optimized code differs from the unoptimized code"
	c.Assumptions = []string{"the unoptimized run of the same tree is the oracle (the property's own definition)", "VerifLoad/VerifEval mirror Load/Eval except for the optimizer flag (a drift between them is reported as exit 2)", "columns of error positions legitimately differ between the modes and are not compared"}
	r := rand.New(rand.NewSource(c.Seed))
	var lines []map[string]any
	var keys []string
	var replays []map[string]any
	add := func(key string, off, on c02Obs, replay map[string]any) {
		lines = append(lines, map[string]any{"key": key, "off": off, "on": on})
		keys = append(keys, key)
		replay["off_error"] = off.err
		replay["on_error"] = on.err
		replays = append(replays, replay)
		c.Programs++
	}

	// (1) generated programs, all choice paths (paths come from TLC through MiniGo.tla)
	var progs []*Prog
	profs := c01Profiles()
	n := c.pick(700, 10000)
	for i := 0; i < n; i++ {
		g := NewGen(r, profs[i%len(profs)])
		p := g.Program(fmt.Sprintf("c02-%d", i))
		if i%2 == 1 {
			for _, f := range p.Funcs {
				mutateExprs(r, f.Body)
			}
			p.ID += "-mut"
		}
		progs = append(progs, p)
	}
	fam := c06Family(2, c.pick(5, 1))
	progs = append(progs, fam...)
	// the hand-built families of the other checks (calls and dropped results, named types, nested literals, big frames,
	// stale slots, imported package variables, range loops that change their slice)
	progs = append(progs, c09TypedDecls(), c09VariadicTypes(), c09NamedTypes(false), c09NamedTypes(true))
	progs = append(progs, c08Extra()...)
	progs = append(progs, c11RangePrograms(r, c.pick(20, 200))...)
	for i, n := range bigFrameSizes {
		progs = append(progs, bigFrameProgram(n), staleSlotProgram(r, fmt.Sprintf("c02-slots-%d", i)), pkgVarProgram(r, fmt.Sprintf("c02-pkgvar-%d", i)))
	}
	b := runMiniGoSpec(c, progs, 8, "c02")
	for _, p := range progs {
		src := b.Sources[p.ID]
		behs := b.Behs[p.ID]
		if len(behs) == 0 {
			behs = []MGBehaviour{{}} // mutated programs may get stuck in the spec (e.g. division by zero introduced): run them once anyway
		}
		for _, bh := range behs {
			r0, r1 := goatRun(p, src, bh.Ch, false), goatRun(p, src, bh.Ch, true)
			if r0.Budget || r1.Budget {
				continue // not comparable: the budget runs out at different points in the two modes
			}
			off := observeRun(r0)
			on := observeRun(r1)
			add(hashKey(src+fmt.Sprint(bh.Ch)), off, on, map[string]any{"source": src, "choices": bh.Ch})
			c.Evaluations += 2
		}
	}
	// (2) seed programs and the fusion-boundary family
	fus := fusionPrograms()
	c.Extra["fusion_boundary_programs"] = len(fus)
	faultSites := c02FaultSites()
	c.Extra["fault_site_programs"] = len(faultSites)
	fus = append(fus, faultSites...)
	fus = append(fus, c02FuncVarPrograms()...)
	for _, s := range append(append([]string{}, seedPrograms...), fus...) {
		off, on := observeRun(runMain(s, false)), observeRun(runMain(s, true))
		if !off.Ok && strings.HasPrefix(s, "package main\n\ntype In struct") {
			fatalf("a fusion-boundary program fails with the optimizer off: %s", firstLine(off.err))
		}
		add(hashKey(s), off, on, map[string]any{"source": s})
		c.Evaluations += 2
	}
	// (3) the repository's own test inputs, through Eval
	inputs := repoTestInputs()
	inputs = append(inputs, seedSnippets...)
	inputs = append(inputs, seedStatementSnippets...)
	if len(inputs) < 100 {
		fatalf("test-table corpus extraction found only %d inputs", len(inputs))
	}
	c.Extra["test_table_inputs"] = len(inputs)
	for _, in := range inputs {
		off, on := evalBoth(in)
		add(hashKey("eval|"+in), off, on, map[string]any{"eval_input": in})
		c.Evaluations += 2
	}
	// (4) the C04 operator tables (integers and float64): every function called with sample operands in both modes
	{
		load1 := func(src string, opt bool) (*goat.VM, error) {
			vm := goat.New(goat.WithStdout(&bytes.Buffer{}))
			err := vm.VerifLoad(mapFS(map[string]string{"main/main.go": src}), "main", opt, nil)
			return vm, err
		}
		// the package has to load with the optimizer off (otherwise the table itself is wrong: machinery); when it
		// then fails to load with the optimizer on, the optimizer changed the outcome of loading, which is a violation
		loadPair := func(src string) (on, off *goat.VM) {
			off, err := load1(src, false)
			if err != nil {
				fatalf("operator table package does not load (optimize=false): %v", firstLine(err.Error()))
			}
			on, err = load1(src, true)
			if err != nil {
				c.violate(hashKey("c04load|"+firstLine(err.Error())), "the operator table package loads with the optimizer off and fails with it on: "+firstLine(err.Error()),
					map[string]any{"source": src, "error_optimizer_on": err.Error()})
				return nil, off
			}
			return on, off
		}
		callAll := func(vm *goat.VM, name string, argSets [][]goat.Value) c02Obs {
			o := c02Obs{Out: "", Vals: []string{}, Ok: true}
			for _, args := range argSets {
				goat.VerifSetBudget(100000)
				rets, err := vm.Call("main."+name, 1, args...)
				goat.VerifSetBudget(-1)
				if err != nil {
					o.Vals = append(o.Vals, "error")
					continue
				}
				o.Vals = append(o.Vals, vm.VerifTypeOf(rets[0])+":"+rets[0].String())
			}
			return o
		}
		sets := func(arity int, vals []goat.Value) [][]goat.Value {
			switch arity {
			case 0:
				return [][]goat.Value{{}}
			case 1:
				var out [][]goat.Value
				for _, a := range vals {
					out = append(out, []goat.Value{a})
				}
				return out
			}
			var out [][]goat.Value
			for _, a := range vals {
				for _, b := range vals {
					out = append(out, []goat.Value{a, b})
				}
			}
			return out
		}
		ifns := c04Functions(c, r)
		isrc := c04Source(ifns)
		ion, ioff := loadPair(isrc)
		step := c.pick(3, 1)
		for i := 0; ion != nil && i < len(ifns); i += step {
			f := ifns[i]
			lo, hi := typeRange(f.T)
			var vals []goat.Value
			for _, x := range []int64{lo, lo + 1, 0, 1, 3, hi - 1, hi} {
				vals = append(vals, mkValue(f.T, x))
			}
			as := sets(f.Arity, vals)
			add(hashKey("c04|"+f.Src), callAll(ioff, f.Name, as), callAll(ion, f.Name, as), map[string]any{"function": f.Src, "operands": "boundary values of " + f.T})
			c.Evaluations += int64(2 * len(as))
		}
		ffns := c04fFunctions(c, r)
		var sb strings.Builder
		sb.WriteString("package main\n\ntype S_f struct {\n\tPad int\n\tF float64\n}\n\nvar G_f float64\n\n")
		for _, f := range ffns {
			sb.WriteString(f.Src + "\n\n")
		}
		fon, foff := loadPair(sb.String())
		var fvals []goat.Value
		for _, x := range []float64{0, math.Copysign(0, -1), 1, -2.5, 0.125, 1024, math.Inf(1), math.Inf(-1), math.NaN()} {
			fvals = append(fvals, goat.Float64(x))
		}
		for _, f := range ffns {
			if fon == nil {
				break
			}
			vals := fvals
			if f.From != "" {
				vals = nil
				lo, hi := typeRange(f.From)
				for _, x := range []int64{lo, 0, 1, 7, hi} {
					vals = append(vals, mkValue(f.From, x))
				}
			}
			if f.Op == "toint" {
				vals = nil
				for _, x := range []float64{0, 1, 2.5, 100.75, 0.125} {
					vals = append(vals, goat.Float64(x))
				}
			}
			as := sets(f.Arity, vals)
			add(hashKey("c04f|"+f.Src), callAll(foff, f.Name, as), callAll(fon, f.Name, as), map[string]any{"function": f.Src, "operands": "0, -0, 1, -2.5, 0.125, 1024, +Inf, -Inf, NaN"})
			c.Evaluations += int64(2 * len(as))
		}
		c.Extra["operator_table_functions_paired"] = len(ifns)/step + len(ffns)
	}
	// drift check: Load(optimizer on) must equal VerifLoad(on) on a seed program
	{
		s := seedPrograms[0]
		a := observeRun(runMain(s, true))
		var out bytes.Buffer
		vm := goat.New(goat.WithStdout(&out))
		err := vm.VerifLoad(mapFS(map[string]string{"main/main.go": s}), "main", true, nil)
		if err == nil {
			_, err = vm.Call("main.Main", 0)
		}
		if hex.EncodeToString(out.Bytes()) != a.Out || (err == nil) != a.Ok {
			fatalf("the verif hook VerifLoad no longer mirrors Load")
		}
	}

	bad := classifySharded(c, "PairTrace", "PairTrace.cfg", lines, c.Workers)
	for _, idx := range bad {
		l := lines[idx]
		off, on := l["off"].(c02Obs), l["on"].(c02Obs)
		what := "optimizer off and on differ: "
		switch {
		case off.Out != on.Out:
			a, _ := hex.DecodeString(off.Out)
			bb, _ := hex.DecodeString(on.Out)
			what += fmt.Sprintf("stdout off=%q on=%q", clip(string(a), 150), clip(string(bb), 150))
		case off.Ok != on.Ok:
			what += fmt.Sprintf("outcome off ok=%v (%s) on ok=%v (%s)", off.Ok, firstLine(off.err), on.Ok, firstLine(on.err))
		case fmt.Sprint(off.Vals) != fmt.Sprint(on.Vals):
			what += fmt.Sprintf("returned values off=%v on=%v", off.Vals, on.Vals)
		default:
			what += fmt.Sprintf("failing line off=%d on=%d (%s | %s)", off.Line, on.Line, firstLine(off.err), firstLine(on.err))
		}
		rp := replays[idx]
		if in, ok := rp["eval_input"]; ok {
			what += fmt.Sprintf(" for Eval input %q", in)
		}
		c.violate(keys[idx], what, rp)
		c.Disagreements++
	}
	c.TracesVsImpl = int64(len(lines) - len(bad))
	for i := 0; i < 3 && i < len(lines); i++ {
		l := lines[(len(lines)/3)*i]
		c.sample(map[string]any{"input": replays[(len(lines)/3)*i], "off": l["off"], "on": l["on"]})
	}
	// how many programs actually have different code in the two modes
	diff := 0
	for _, p := range progs {
		src := b.Sources[p.ID]
		files := map[string]string{"main/main.go": src}
		u, e1 := disasmProgram(files, "main", false)
		o, e2 := disasmProgram(files, "main", true)
		if e1 == nil && e2 == nil && len(u.Code) != len(o.Code) {
			diff++
			c.distinct(hashKey(src))
		}
	}
	c.Extra["programs_with_fused_instructions"] = diff
	// negative control
	nc := []map[string]any{{"key": "a", "off": c02Obs{Out: "00", Vals: []string{"int32:1"}, Ok: true}, "on": c02Obs{Out: "00", Vals: []string{"int32:1"}, Ok: true}},
		{"key": "b", "off": c02Obs{Out: "00", Vals: []string{"uint8:0"}, Ok: true}, "on": c02Obs{Out: "00", Vals: []string{"int32:256"}, Ok: true}}}
	nb := classifyFlatTrace(c, "PairTrace", "PairTrace.cfg", nc)
	if len(nb) != 1 || nb[0] != 1 {
		fatalf("negative control (different returned value) not flagged: %v", nb)
	}
	c.Extra["negative_control"] = "a fabricated pair with different returned values was flagged by PairTrace as expected"
}

// c02FaultSites: every faulting expression over plain locals (the shapes the peephole pass fuses) x statement shape x
// enclosing block, each on a line of its own below the start of the block: the run fails in both modes and names the
// same line. (C20 decides which line is right; here the modes must agree.)
func c02FaultSites() []string {
	faults := []struct{ expr, args string }{
		{"a / b", "5, 0"}, {"a % b", "5, 0"}, {"b / a", "0, 5"}, {"a - a/b", "5, 0"}, {"a * (a / b)", "5, 0"},
		{"s[a]", "5, 0"}, {"s[a+b]", "3, 4"}, {"q.v", "5, 0"}, {"a << b", "5, -1"}, {"s[a:b][0]", "2, 1"},
	}
	shapes := []string{"x := E\n_ = x", "x = E", "x += E", "x -= E", "return E", "if E > 0 {\nx++\n}", "x = keep(E)", "t := []int{E}\n_ = t", "x, y := E, 1\n_ = y", "for i := 0; i < E; i++ {\n}"}
	blocks := []string{"BODY", "if a >= 0 {\nx++\nBODY\n}", "for k := 0; k < 2; k++ {\nx += k\nBODY\n}", "switch {\ncase a > 100:\nx--\ndefault:\nx++\nBODY\n}", "if a < -5 {\nx--\n} else {\nx++\nBODY\n}"}
	var out []string
	for _, f := range faults {
		for si, sh := range shapes {
			for bi, bl := range blocks {
				if (si+bi)%2 == 1 && len(out)%3 != 0 {
					continue
				}
				body := strings.ReplaceAll(bl, "BODY", strings.ReplaceAll(sh, "E", f.expr))
				src := "package main\n\ntype T struct{ v int }\n\nfunc keep(n int) int { return n }\n\nfunc F(a, b int, s []int, q *T) int {\n\tx := 0\n\tx++\n" + indentLines(body, "\t") + "\n\treturn x\n}\n\nfunc Main() {\n\tprintln(\"start\")\n\tprintln(F(" + f.args + ", []int{1, 2, 3}, nil))\n}\n"
				out = append(out, src)
			}
		}
	}
	return out
}

func indentLines(s, ind string) string {
	ls := strings.Split(s, "\n")
	depth := 0
	for i, l := range ls {
		if strings.HasPrefix(l, "}") || strings.HasPrefix(l, "case") || strings.HasPrefix(l, "default") {
			if strings.HasPrefix(l, "}") {
				depth--
			}
		}
		ls[i] = ind + strings.Repeat("\t", maxInt(depth, 0)) + l
		if strings.HasSuffix(l, "{") {
			depth++
		}
	}
	return strings.Join(ls, "\n")
}

// c02FuncVarPrograms: a package-level variable holding a function (a literal, a declared function, a native registered
// by the host is covered in C19) is replaced while a call site that already ran is going to run again.
func c02FuncVarPrograms() []string {
	return []string{
		// integer literals beyond int32 as keys of local maps (fused index instructions carry the literal themselves)
		"package main\n\nfunc Main() {\n\tm := map[uint32]int{}\n\tvar k uint32 = 3000000000\n\tm[k] = 7\n\tprintln(m[3000000000], len(m))\n\tm[4000000000] = 9\n\tvar k2 uint32 = 4000000000\n\tprintln(m[k2], len(m))\n\tf := map[float64]int{}\n\tf[3000000000] = 1\n\tkf := 3000000000.0\n\tprintln(f[kf], f[3000000000], len(f))\n\tfor q := range f {\n\t\tprintln(q > 0)\n\t}\n}\n",
		"package main\n\nvar f = func(n int) int { return n + 10 }\n\nfunc call(n int) int { return f(n) }\n\nfunc Main() {\n\tprintln(call(1))\n\tf = func(n int) int { return n * 20 }\n\tprintln(call(1))\n\tfor i := 0; i < 4; i++ {\n\t\tif i == 2 {\n\t\t\tf = func(n int) int { return -n }\n\t\t}\n\t\tprintln(f(i), call(i))\n\t}\n}\n",
		"package main\n\nfunc a(n int) int { return n + 1 }\n\nfunc b(n int) int { return n + 2 }\n\nvar g = a\n\nfunc use(n int) int { return g(n) + g(n) }\n\nfunc Main() {\n\tt := 0\n\tfor i := 0; i < 6; i++ {\n\t\tt += use(i)\n\t\tif i%2 == 0 {\n\t\t\tg = b\n\t\t} else {\n\t\t\tg = a\n\t\t}\n\t}\n\tprintln(t, g(0))\n}\n",
		"package main\n\ntype H struct{ fn func(int) int }\n\nvar h = &H{fn: func(n int) int { return n + 5 }}\n\nvar table = []func(int) int{func(n int) int { return n }, func(n int) int { return n * n }}\n\nfunc run(n int) int { return h.fn(n) + table[n%2](n) }\n\nfunc Main() {\n\tprintln(run(3))\n\th.fn = func(n int) int { return n - 5 }\n\ttable[1] = func(n int) int { return 0 }\n\tprintln(run(3))\n\th = &H{fn: table[0]}\n\tprintln(run(3), run(4))\n}\n",
	}
}

func maxInt(a, b int) int {
	if a > b {
		return a
	}
	return b
}
