package main

import (
	"fmt"
	"strings"
)

// Typed AST of the MiniGo subset. One AST has three renderings: goatlang source (natural Go with
// int = int32), real Go source for calibration (32-bit types spelled out, conversions inserted
// where Go's int differs) and the flat node table that MiniGo.tla interprets.

type Ty struct {
	K    string // int int8 uint8 uint32 bool string slice map ptr func any
	Elem *Ty    // slice element / map value
	Key  *Ty    // map key
	Name string // struct type name for ptr; for func: signature id; interface name for iface
	Sig  *FuncSig
	// Alias: the type is written in source by this name (a named or alias type declared in
	// Prog.TypeDefs); its meaning is the underlying type
	Alias string
}

// TypeDef: type Name Under   or   type Name = StructName
type TypeDef struct {
	Name    string
	Under   *Ty
	Struct  string
	IsAlias bool
}

type FuncSig struct {
	Params   []*Ty
	Results  []*Ty
	Variadic bool
}

var (
	TInt    = &Ty{K: "int"}
	TInt8   = &Ty{K: "int8"}
	TUint8  = &Ty{K: "uint8"}
	TUint32 = &Ty{K: "uint32"}
	TBool   = &Ty{K: "bool"}
	TString = &Ty{K: "string"}
)

func SliceOf(t *Ty) *Ty     { return &Ty{K: "slice", Elem: t} }
func MapOf(k, v *Ty) *Ty    { return &Ty{K: "map", Key: k, Elem: v} }
func PtrTo(name string) *Ty { return &Ty{K: "ptr", Name: name} }
func FuncTy(s *FuncSig) *Ty { return &Ty{K: "func", Sig: s} }
func (t *Ty) IsInt() bool   { return t.K == "int" || t.K == "int8" || t.K == "uint8" || t.K == "uint32" }
func (t *Ty) Signed() bool  { return t.K == "int" || t.K == "int8" }
func (t *Ty) Eq(o *Ty) bool { return t.Src(false) == o.Src(false) }
func (t *Ty) SpecInt() string { // FixedWidth type name
	if t.K == "int" {
		return "int32"
	}
	return t.K
}

// Src renders the type; goMode spells int as int32.
func (t *Ty) Src(goMode bool) string {
	if t.Alias != "" {
		if strings.HasPrefix(t.Alias, "*") {
			return "*" + qualName(t.Alias[1:])
		}
		return qualName(t.Alias)
	}
	switch t.K {
	case "iface":
		return qualName(t.Name)
	case "int":
		if goMode {
			return "int32"
		}
		return "int"
	case "slice":
		return "[]" + t.Elem.Src(goMode)
	case "map":
		return "map[" + t.Key.Src(goMode) + "]" + t.Elem.Src(goMode)
	case "ptr":
		return "*" + qualName(t.Name)
	case "func":
		var ps, rs []string
		for i, p := range t.Sig.Params {
			if t.Sig.Variadic && i == len(t.Sig.Params)-1 {
				ps = append(ps, "..."+p.Elem.Src(goMode))
			} else {
				ps = append(ps, p.Src(goMode))
			}
		}
		for _, r := range t.Sig.Results {
			rs = append(rs, r.Src(goMode))
		}
		s := "func(" + strings.Join(ps, ", ") + ")"
		if len(rs) == 1 {
			s += " " + rs[0]
		} else if len(rs) > 1 {
			s += " (" + strings.Join(rs, ", ") + ")"
		}
		return s
	}
	return t.K
}

// zero node description for the spec
func (t *Ty) zeroNode() map[string]any {
	switch {
	case t.IsInt():
		return map[string]any{"k": "zero", "zt": "int", "ty": t.SpecInt()}
	case t.K == "bool":
		return map[string]any{"k": "zero", "zt": "bool", "ty": ""}
	case t.K == "string":
		return map[string]any{"k": "zero", "zt": "str", "ty": ""}
	case t.K == "slice", t.K == "map", t.K == "ptr", t.K == "func":
		return map[string]any{"k": "zero", "zt": t.K, "ty": ""}
	case t.K == "iface": // an interface value is the reference it holds
		return map[string]any{"k": "zero", "zt": "ptr", "ty": ""}
	}
	return map[string]any{"k": "zero", "zt": "nil", "ty": ""}
}

type E struct {
	K      string
	Ty     *Ty
	V      int64
	B      bool
	S      string // string literal bytes
	Name   string
	Op     string
	L, R   *E
	X, I   *E
	Lo, Hi *E
	Args   []*E
	Spread bool
	Fn     string
	M      string
	F      string
	Keys   []*E
	Fields []string // new: field names given
	Sty    string   // new: struct type name
	Ok     bool     // mapget comma-ok form (two values)
	NRes   int      // calls: number of results
	N      int64    // choice bound
	Lit    *Func    // funclit: the literal (lifted to a named function for the specification)
	Want   int      // call: results requested by the context when that differs from the declaration (error cases)
	Line   int
	Break  bool   // binary expression: line break after the operator (goat rendering)
	Global bool   // var: resolved to a package-level variable (mg_split.go: resolveGlobals)
	Raw    bool   // string literal printed as raw string
	Spell  string // explicit source spelling of a literal (its meaning stays V / S)
}

type S struct {
	K       string
	Names   []string
	DeclTy  *Ty // explicit type in var declarations
	VarForm bool
	Const   bool // package-level constant declaration (const name = expr)
	Exprs   []*E
	Lhs     []*E
	Op      string
	D       int
	E       *E
	Ln      bool
	Fmt     bool // fmt.Println instead of println
	Init    *S
	Cond    *E
	Then    []*S
	Else    []*S
	HasElse bool
	Post    *S
	Body    []*S
	KName   string
	VName   string
	X       *E
	Tag     *E
	Cases   []*Case
	HasDef  bool
	DefPos  int
	Def     []*S
	NRes    int
	M, Key  *E
	Dst     *E
	Line    int
	Global  bool
	// Semis: a for statement written with its two semicolons even when init and post are empty
	Semis bool
	// Raw: source text printed instead of the statement (for a group of declarations written in a form the printer does
	// not produce, e.g. a const group with iota: the first statement carries the text, the others "-"); the statement
	// itself is the meaning
	Raw string
	// TopLevel: a statement of an Eval-style program outside any function: its declarations are
	// package-level variables (printed in their ordinary form)
	TopLevel bool
}

type Case struct {
	Vals []*E
	Body []*S
}

type Func struct {
	Name     string // "f" or "T.m" for methods
	Recv     string // receiver variable name ("" for functions)
	RecvTy   string
	Params   []string
	PTypes   []*Ty
	Results  []*Ty
	Variadic bool
	Body     []*S
	Line     int
}

type StructDef struct {
	Name   string
	Fields []string
	FTypes []*Ty
}

type Iface struct {
	Name    string
	Methods []string
	Sigs    []*FuncSig
}

type Prog struct {
	ID        string
	Pkg       string
	Structs   []*StructDef
	Ifaces    []*Iface
	TypeDefs  []*TypeDef
	Globals   []*S // package-level var declarations (in source order)
	Funcs     []*Func
	Inits     []*Func
	Split     *pkgSplit // multi-package layout (mg_split.go); nil: one package
	libPath   string    // (printing) import path of the lib part
	libPart   bool      // (printing) this is the lib part of a split
	importLib bool      // (printing) this is the main part of a split
	Lits      []*Func   // function literals (printed inline, lifted in the flat form)
	Main      string
	Imports   []string
	// NeedChoice: the program reads test inputs through choice()
	NeedChoice bool
}

// ---------------------------------------------------------------------------------------------
// printer

type printer struct {
	b      strings.Builder
	line   int
	goMode bool
	ind    int
	prog   *Prog
	tmp    int
	hdr    int
	// extra: line breaks inside the expression text built so far for the statement being printed (a
	// broken binary expression, a raw string with a newline, a function literal); the text reaches w()
	// only when the statement is complete
	extra int
}

func (p *printer) nl() {
	p.b.WriteString("\n")
	p.line++
}

func (p *printer) w(s string) {
	p.b.WriteString(s)
	n := strings.Count(s, "\n")
	p.line += n
	if n >= p.extra {
		p.extra = 0
	} else {
		p.extra -= n
	}
}

func (p *printer) indent() { p.w(strings.Repeat("\t", p.ind)) }

func goStringLit(s string, raw bool) string {
	if raw && !strings.Contains(s, "`") && !strings.Contains(s, "\r") {
		return "`" + s + "`"
	}
	var b strings.Builder
	b.WriteByte('"')
	for i := 0; i < len(s); i++ {
		c := s[i]
		switch {
		case c == '"':
			b.WriteString(`\"`)
		case c == '\\':
			b.WriteString(`\\`)
		case c == '\n':
			b.WriteString(`\n`)
		case c == '\t':
			b.WriteString(`\t`)
		case c >= 0x20 && c < 0x7f:
			b.WriteByte(c)
		default:
			fmt.Fprintf(&b, `\x%02x`, c)
		}
	}
	b.WriteByte('"')
	return b.String()
}

func (p *printer) lit(e *E) string {
	v := fmt.Sprint(e.V)
	if !p.goMode {
		return v
	}
	return e.Ty.Src(true) + "(" + v + ")"
}

var precOf = map[string]int{"*": 5, "/": 5, "%": 5, "<<": 5, ">>": 5, "&": 5, "+": 4, "-": 4, "|": 4, "^": 4,
	"==": 3, "!=": 3, "<": 3, "<=": 3, ">": 3, ">=": 3, "&&": 2, "||": 1}

func (p *printer) exprPrec(e *E) int {
	switch e.K {
	case "bin":
		return precOf[e.Op]
	case "and":
		return 2
	case "or":
		return 1
	case "not", "neg", "compl", "new":
		return 6
	}
	return 7
}

func (p *printer) sub(e *E, min int, right bool) string {
	s := p.expr(e)
	pr := p.exprPrec(e)
	if pr < min || (right && pr == min && pr < 6) {
		return "(" + s + ")"
	}
	return s
}

func (p *printer) args(as []*E, spread bool) string {
	var ss []string
	for _, a := range as {
		ss = append(ss, p.expr(a))
	}
	s := strings.Join(ss, ", ")
	if spread {
		s += "..."
	}
	return s
}

func (p *printer) expr(e *E) string {
	e.Line = p.line + p.extra
	switch e.K {
	case "int":
		if e.Spell != "" {
			if p.goMode {
				return e.Ty.Src(true) + "(" + e.Spell + ")"
			}
			return e.Spell
		}
		if e.V < 0 && !p.goMode {
			return fmt.Sprint(e.V)
		}
		return p.lit(e)
	case "bool":
		return fmt.Sprint(e.B)
	case "str":
		t := e.Spell
		if t == "" {
			t = goStringLit(e.S, e.Raw)
		}
		p.extra += strings.Count(t, "\n") // a raw string may span lines
		return t
	case "zero":
		return "nil"
	case "var":
		if e.Global && curSplit != nil && curSplit.vars[e.Name] && curSplit.cur != "lib" {
			return "lib." + e.Name
		}
		return e.Name
	case "fnval":
		return qualName(e.Fn)
	case "funclit":
		return p.funcLit(e.Lit)
	case "bin":
		pr := precOf[e.Op]
		if (e.Op == "==" || e.Op == "!=") && e.R.K == "zero" && e.L.K == "var" && len(e.L.Name)%2 == 0 {
			// every second comparison with nil is written nil == x
			return "nil " + e.Op + " " + p.sub(e.L, pr, true)
		}
		l := p.sub(e.L, pr, false)
		sep := " "
		if e.Break && !p.goMode {
			// the operator ends the line: its line is where the left operand ends
			e.Line = p.line + p.extra
			p.extra++
			sep = "\n" + strings.Repeat("\t", p.ind+2)
		}
		r := p.sub(e.R, pr, true)
		if e.R.K == "int" && e.R.V < 0 && !p.goMode {
			r = "(" + r + ")"
		}
		return l + " " + e.Op + sep + r
	case "and":
		return p.sub(e.L, 2, false) + " && " + p.sub(e.R, 2, true)
	case "or":
		return p.sub(e.L, 1, false) + " || " + p.sub(e.R, 1, true)
	case "not":
		return "!" + p.sub(e.X, 6, false)
	case "neg":
		s := p.sub(e.X, 6, false)
		if strings.HasPrefix(s, "-") {
			s = "(" + s + ")"
		}
		return "-" + s
	case "compl":
		return "^" + p.sub(e.X, 6, false)
	case "len":
		if p.goMode {
			return "int32(len(" + p.expr(e.X) + "))"
		}
		return "len(" + p.expr(e.X) + ")"
	case "conv":
		return e.Ty.Src(p.goMode) + "(" + p.expr(e.X) + ")"
	case "call":
		return qualName(e.Fn) + "(" + p.args(e.Args, e.Spread) + ")"
	case "callv":
		return p.sub(e.X, 7, false) + "(" + p.args(e.Args, e.Spread) + ")"
	case "mcall":
		return p.sub(e.X, 7, false) + "." + e.M + "(" + p.args(e.Args, e.Spread) + ")"
	case "mval":
		return p.sub(e.X, 7, false) + "." + e.M
	case "index", "mapget":
		return p.sub(e.X, 7, false) + "[" + p.expr(e.I) + "]"
	case "slice":
		lo, hi := "", ""
		if e.Lo != nil {
			lo = p.expr(e.Lo)
		}
		if e.Hi != nil {
			hi = p.expr(e.Hi)
		}
		return p.sub(e.X, 7, false) + "[" + lo + ":" + hi + "]"
	case "field":
		return p.sub(e.X, 7, false) + "." + e.F
	case "append":
		return "append(" + p.expr(e.X) + ", " + p.args(e.Args, e.Spread) + ")"
	case "make":
		return "make(" + e.Ty.Src(p.goMode) + ", " + p.expr(e.X) + ")"
	case "makemap":
		return "make(" + e.Ty.Src(p.goMode) + ")"
	case "slicelit":
		return e.Ty.Src(p.goMode) + "{" + p.args(e.Args, false) + "}"
	case "maplit":
		var ss []string
		for i := range e.Keys {
			ss = append(ss, p.expr(e.Keys[i])+": "+p.expr(e.Args[i]))
		}
		return e.Ty.Src(p.goMode) + "{" + strings.Join(ss, ", ") + "}"
	case "new":
		var ss []string
		for i, f := range e.Fields {
			ss = append(ss, f+": "+p.expr(e.Args[i]))
		}
		if p.hdr > 0 {
			// composite literals of named types must be parenthesised in if/for/switch headers
			return "(&" + qualName(e.Sty) + "{" + strings.Join(ss, ", ") + "})"
		}
		return "&" + qualName(e.Sty) + "{" + strings.Join(ss, ", ") + "}"
	case "choice":
		return fmt.Sprintf("choice(%d)", e.N)
	case "lib":
		if e.Fn == "fmt.Sprint" && p.goMode && len(e.Args) == 1 && e.Args[0].Ty != nil && e.Args[0].Ty.K == "ptr" {
			// goatlang renders a struct reference with its field names, which is Go's %+v
			return "fmt.Sprintf(\"%+v\", " + p.expr(e.Args[0]) + ")"
		}
		if e.Fn == "strconv.Itoa" && p.goMode {
			return "strconv.Itoa(int(" + p.expr(e.Args[0]) + "))"
		}
		if p.goMode && (e.Fn == "strings.Repeat" || e.Fn == "strings.Replace") {
			// the count parameter is an int (the program's int is int32 in the Go rendering)
			var as []string
			for i, a := range e.Args {
				x := p.expr(a)
				if i == len(e.Args)-1 {
					x = "int(" + x + ")"
				}
				as = append(as, x)
			}
			return e.Fn + "(" + strings.Join(as, ", ") + ")"
		}
		return e.Fn + "(" + p.args(e.Args, false) + ")"
	}
	panic("printer: unknown expr " + e.K)
}

func (p *printer) block(ss []*S) {
	p.w("{")
	p.nl()
	p.ind++
	for _, s := range ss {
		p.stmt(s)
	}
	p.ind--
	p.indent()
	p.w("}")
}

func (p *printer) simple(s *S) string {
	s.Line = p.line
	switch s.K {
	case "decl":
		var rs []string
		for _, e := range s.Exprs {
			rs = append(rs, p.expr(e))
		}
		if s.Const {
			return "const " + strings.Join(s.Names, ", ") + " = " + strings.Join(rs, ", ")
		}
		if s.VarForm || s.Global {
			t := ""
			if s.DeclTy != nil {
				t = " " + s.DeclTy.Src(p.goMode)
			}
			return "var " + strings.Join(s.Names, ", ") + t + " = " + strings.Join(rs, ", ")
		}
		return strings.Join(s.Names, ", ") + " := " + strings.Join(rs, ", ")
	case "declzero":
		return "var " + s.Names[0] + " " + s.DeclTy.Src(p.goMode)
	case "assign":
		var ls, rs []string
		for _, e := range s.Lhs {
			if e.K == "blank" {
				ls = append(ls, "_")
			} else {
				ls = append(ls, p.expr(e))
			}
		}
		for _, e := range s.Exprs {
			rs = append(rs, p.expr(e))
		}
		return strings.Join(ls, ", ") + " = " + strings.Join(rs, ", ")
	case "opassign":
		return p.expr(s.Lhs[0]) + " " + s.Op + "= " + p.expr(s.E)
	case "incdec":
		if s.D > 0 {
			return p.expr(s.Lhs[0]) + "++"
		}
		return p.expr(s.Lhs[0]) + "--"
	case "expr":
		return p.expr(s.E)
	}
	panic("printer: not a simple statement: " + s.K)
}

func (p *printer) stmt(s *S) {
	if s.Raw != "" {
		s.Line = p.line
		if s.Raw != "-" {
			for _, l := range strings.Split(s.Raw, "\n") {
				p.indent()
				p.w(l)
				p.nl()
			}
		}
		return
	}
	p.indent()
	s.Line = p.line
	switch s.K {
	case "yield":
		p.w(p.expr(s.E))
	case "decl", "declzero", "assign", "opassign", "incdec", "expr":
		p.w(p.simple(s))
		if p.goMode && !s.Global && (s.K == "decl" || s.K == "declzero") {
			// Go rejects unused variables: mention every declared name once
			for _, n := range s.Names {
				if n != "_" {
					p.nl()
					p.indent()
					p.w("_ = " + n)
				}
			}
		}
	case "print":
		fn := "println"
		if !s.Ln {
			fn = "print"
		}
		if s.Fmt {
			fn = "fmt.Println"
			if !s.Ln {
				fn = "fmt.Print"
			}
		}
		if p.goMode {
			// through package-level helpers: a local may shadow the name fmt
			fn = "pr_"
			if !s.Ln {
				fn = "pr0_"
			}
		}
		p.w(fn + "(" + p.args(s.Exprs, false) + ")")
	case "block":
		p.block(s.Body)
	case "if":
		p.w("if ")
		p.hdr++
		if s.Init != nil {
			p.w(p.simple(s.Init) + "; ")
		}
		p.w(p.expr(s.Cond) + " ")
		p.hdr--
		p.block(s.Then)
		if s.HasElse {
			p.w(" else ")
			if len(s.Else) == 1 && s.Else[0].K == "if" && s.Else[0].Init == nil {
				// else if chain: printed inline; the nested statement keeps its own node
				inner := s.Else[0]
				save := p.ind
				p.ifChain(inner)
				p.ind = save
			} else {
				p.block(s.Else)
			}
		}
	case "for":
		p.w("for ")
		p.hdr++
		if s.Init != nil || s.Post != nil || s.Semis {
			if s.Init != nil {
				p.w(p.simple(s.Init))
			}
			p.w("; ")
			if s.Cond != nil {
				p.w(p.expr(s.Cond))
			}
			p.w("; ")
			if s.Post != nil {
				p.w(p.simple(s.Post) + " ")
			}
		} else if s.Cond != nil {
			p.w(p.expr(s.Cond) + " ")
		}
		p.hdr--
		p.block(s.Body)
	case "range":
		k, v := s.KName, s.VName
		p.hdr++
		xs := p.expr(s.X)
		p.hdr--
		if p.goMode && k != "_" && s.X.Ty.K != "map" {
			// Go's range index is int: convert to int32 at the top of the body
			if v == "" {
				p.w("for " + k + "_ := range " + xs + " {")
			} else {
				p.w("for " + k + "_, " + v + " := range " + xs + " {")
			}
			p.nl()
			p.ind++
			p.indent()
			p.w(k + " := int32(" + k + "_)")
			p.nl()
			p.indent()
			p.w("_ = " + k)
			p.nl()
			if v != "_" && v != "" {
				p.indent()
				p.w("_ = " + v)
				p.nl()
			}
			// the body is a block of its own: it may declare the key's name again
			p.indent()
			p.w("{")
			p.nl()
			p.ind++
			for _, b := range s.Body {
				p.stmt(b)
			}
			p.ind--
			p.indent()
			p.w("}")
			p.nl()
			p.ind--
			p.indent()
			p.w("}")
		} else {
			if v == "" {
				p.w("for " + k + " := range " + xs + " ")
			} else {
				p.w("for " + k + ", " + v + " := range " + xs + " ")
			}
			if p.goMode {
				p.w("{")
				p.nl()
				p.ind++
				if k != "_" {
					p.indent()
					p.w("_ = " + k)
					p.nl()
				}
				if v != "_" && v != "" {
					p.indent()
					p.w("_ = " + v)
					p.nl()
				}
				for _, b := range s.Body {
					p.stmt(b)
				}
				p.ind--
				p.indent()
				p.w("}")
			} else {
				p.block(s.Body)
			}
		}
	case "switch":
		p.w("switch ")
		if s.Tag != nil {
			p.hdr++
			p.w(p.expr(s.Tag) + " ")
			p.hdr--
		}
		p.w("{")
		p.nl()
		emitDef := func() {
			p.indent()
			p.w("default:")
			p.nl()
			p.ind++
			for _, b := range s.Def {
				p.stmt(b)
			}
			p.ind--
		}
		for i, c := range s.Cases {
			if s.HasDef && s.DefPos == i {
				emitDef()
			}
			p.indent()
			var vs []string
			for _, v := range c.Vals {
				vs = append(vs, p.expr(v))
			}
			p.w("case " + strings.Join(vs, ", ") + ":")
			p.nl()
			p.ind++
			for _, b := range c.Body {
				p.stmt(b)
			}
			p.ind--
		}
		if s.HasDef && s.DefPos >= len(s.Cases) {
			emitDef()
		}
		p.indent()
		p.w("}")
	case "break", "continue":
		p.w(s.K)
	case "return":
		p.w("return")
		if len(s.Exprs) > 0 {
			p.w(" " + p.args(s.Exprs, false))
		}
	case "panic":
		p.w("panic(" + p.expr(s.E) + ")")
	case "delete":
		p.w("delete(" + p.expr(s.M) + ", " + p.expr(s.Key) + ")")
	case "copy":
		p.w("copy(" + p.expr(s.Dst) + ", " + p.expr(s.E) + ")")
	default:
		panic("printer: unknown stmt " + s.K)
	}
	p.nl()
}

func (p *printer) ifChain(s *S) {
	s.Line = p.line
	p.hdr++
	cs := p.expr(s.Cond)
	p.hdr--
	p.w("if " + cs + " ")
	p.block(s.Then)
	if s.HasElse {
		p.w(" else ")
		if len(s.Else) == 1 && s.Else[0].K == "if" && s.Else[0].Init == nil {
			p.ifChain(s.Else[0])
		} else {
			p.block(s.Else)
		}
	}
}

func (p *printer) funcDecl(f *Func) {
	f.Line = p.line
	p.w("func ")
	name := declName(f.Name)
	if f.Recv != "" {
		p.w("(" + f.Recv + " *" + f.RecvTy + ") ")
		name = strings.SplitN(f.Name, ".", 2)[1]
	}
	// every second function (by name) writes neighbouring parameters of one type as a group: a, b T
	group := 0
	for _, ch := range f.Name {
		group += int(ch)
	}
	var ps []string
	for i, n := range f.Params {
		if f.Variadic && i == len(f.Params)-1 {
			ps = append(ps, n+" ..."+f.PTypes[i].Elem.Src(p.goMode))
		} else if group%2 == 0 && i+1 < len(f.Params) && !(f.Variadic && i+1 == len(f.Params)-1) && f.PTypes[i].Src(p.goMode) == f.PTypes[i+1].Src(p.goMode) {
			ps = append(ps, n)
		} else {
			ps = append(ps, n+" "+f.PTypes[i].Src(p.goMode))
		}
	}
	p.w(name + "(" + strings.Join(ps, ", ") + ") ")
	if len(f.Results) == 1 {
		p.w(f.Results[0].Src(p.goMode) + " ")
	} else if len(f.Results) > 1 {
		var rs []string
		for _, r := range f.Results {
			rs = append(rs, r.Src(p.goMode))
		}
		p.w("(" + strings.Join(rs, ", ") + ") ")
	}
	p.block(f.Body)
	p.nl()
	p.nl()
}

// funcLit prints a function literal inline (possibly spanning several lines)
func (p *printer) funcLit(f *Func) string {
	q := &printer{goMode: p.goMode, line: p.line + p.extra, prog: p.prog, ind: p.ind}
	var ps []string
	for i, n := range f.Params {
		ps = append(ps, n+" "+f.PTypes[i].Src(p.goMode))
	}
	q.w("func(" + strings.Join(ps, ", ") + ") ")
	if len(f.Results) == 1 {
		q.w(f.Results[0].Src(p.goMode) + " ")
	} else if len(f.Results) > 1 {
		var rs []string
		for _, r := range f.Results {
			rs = append(rs, r.Src(p.goMode))
		}
		q.w("(" + strings.Join(rs, ", ") + ") ")
	}
	f.Line = q.line
	q.block(f.Body)
	out := q.b.String()
	// the caller appends the text with w(), which advances its own line counter by the newlines in it
	p.extra += strings.Count(out, "\n")
	return out
}

func (p *printer) typeDecls(prog *Prog) {
	for _, st := range prog.Structs {
		p.w("type " + st.Name + " struct {")
		p.nl()
		for i, f := range st.Fields {
			p.w("\t" + f + " " + st.FTypes[i].Src(p.goMode))
			p.nl()
		}
		p.w("}")
		p.nl()
		p.nl()
	}
	for _, td := range prog.TypeDefs {
		if td.IsAlias {
			p.w("type " + td.Name + " = " + td.Struct)
		} else {
			p.w("type " + td.Name + " " + td.Under.Src(p.goMode))
		}
		p.nl()
		p.nl()
	}
	for _, it := range prog.Ifaces {
		p.w("type " + it.Name + " interface {")
		p.nl()
		for i, m := range it.Methods {
			t := FuncTy(it.Sigs[i]).Src(p.goMode)
			p.w("\t" + m + strings.TrimPrefix(t, "func"))
			p.nl()
		}
		p.w("}")
		p.nl()
		p.nl()
	}
}

const choiceHelperGoat = `var chs []int
var chi int

func choice(n int) int {
	v := chs[chi]
	chi++
	return v
}

func Run(c []int) {
	chs = c
	chi = 0
	Main()
}

`

const choiceHelperGo = `var chs []int32
var chi int32

func choice(n int32) int32 {
	v := chs[chi]
	chi++
	return v
}

func Run(c []int32) {
	chs = c
	chi = 0
	Main()
}

`

// Source renders the program. In go mode it is a complete package main with a main function that
// runs Main once per choice vector.
// Files renders the program as source files: one package, or main + lib when a split was chosen.
func (prog *Prog) Files(goMode bool, choiceVectors [][]int) map[string]string {
	if prog.Split == nil {
		pkg := prog.Pkg
		if pkg == "" {
			pkg = "main"
		}
		return map[string]string{pkg + "/" + pkg + ".go": prog.Source(goMode, choiceVectors)}
	}
	splitMu.Lock()
	defer splitMu.Unlock()
	out := map[string]string{}
	for _, cur := range []string{"lib", "main"} {
		prog.Split.cur = cur
		curSplit = prog.Split
		key := "main/main.go"
		if cur == "lib" {
			key = prog.Split.path + "/lib.go"
		}
		out[key] = prog.sourceOf(goMode, choiceVectors, cur)
	}
	curSplit = nil
	return out
}

func (prog *Prog) Source(goMode bool, choiceVectors [][]int) string {
	return prog.sourceOf(goMode, choiceVectors, "")
}

// sourceOf prints the whole program (part == "") or the declarations of one package of a split.
func (prog *Prog) sourceOf(goMode bool, choiceVectors [][]int, part string) string {
	if part != "" {
		sub := *prog
		sub.Structs, sub.Ifaces, sub.TypeDefs, sub.Funcs = nil, nil, nil, nil
		inLib := func(n string) bool { return prog.Split.lib[n] }
		for _, x := range prog.Structs {
			if inLib(x.Name) == (part == "lib") {
				sub.Structs = append(sub.Structs, x)
			}
		}
		for _, x := range prog.Ifaces {
			if inLib(x.Name) == (part == "lib") {
				sub.Ifaces = append(sub.Ifaces, x)
			}
		}
		for _, x := range prog.TypeDefs {
			if inLib(x.Name) == (part == "lib") {
				sub.TypeDefs = append(sub.TypeDefs, x)
			}
		}
		for _, x := range prog.Funcs {
			if inLib(x.Name) == (part == "lib") {
				sub.Funcs = append(sub.Funcs, x)
			}
		}
		sub.Globals = nil
		for _, g := range prog.Globals {
			if prog.Split.vars[g.Names[0]] == (part == "lib") {
				sub.Globals = append(sub.Globals, g)
			}
		}
		sub.libPath = prog.Split.path
		sub.Split = nil
		if part == "lib" {
			sub.Pkg = "lib"
			sub.libPart = true
		} else {
			sub.importLib = true
		}
		return sub.sourceOf(goMode, choiceVectors, "")
	}
	p := &printer{goMode: goMode, line: 1, prog: prog}
	pkg := prog.Pkg
	if pkg == "" {
		pkg = "main"
	}
	// packages used by library calls (strings.*, strconv.*) anywhere in this program part
	libPkgs := map[string]bool{}
	needFmt := false
	scanE := func(e *E) {
		if e.K == "lib" {
			if strings.HasPrefix(e.Fn, "fmt.") {
				needFmt = true
			} else {
				libPkgs[strings.SplitN(e.Fn, ".", 2)[0]] = true
			}
		}
	}
	scanS := func(s *S) {
		if s.K == "print" && s.Fmt {
			needFmt = true
		}
	}
	for _, f := range prog.Funcs {
		walkStmts(f.Body, scanS, scanE)
	}
	for _, f := range prog.Inits {
		walkStmts(f.Body, scanS, scanE)
	}
	walkStmts(prog.Globals, scanS, scanE)
	var imports []string
	if goMode || needFmt {
		imports = append(imports, "fmt")
	}
	if prog.importLib {
		if goMode {
			imports = append(imports, "LIBPATH")
		} else {
			imports = append(imports, prog.libPath)
		}
	}
	for _, lp := range []string{"strconv", "strings"} {
		if libPkgs[lp] {
			imports = append(imports, lp)
		}
	}
	imp := ""
	if len(imports) == 1 {
		imp = "import \"" + imports[0] + "\"\n\n"
	} else if len(imports) > 1 {
		imp = "import (\n"
		for _, x := range imports {
			imp += "\t\"" + x + "\"\n"
		}
		imp += ")\n\n"
	}
	if goMode {
		gp := "main"
		if prog.libPart {
			gp = "lib"
		}
		p.w("package " + gp + "\n\n" + imp + "func pr_(a ...any) { fmt.Println(a...) }\n\nfunc pr0_(a ...any) { fmt.Print(a...) }\n\nvar _, _ = pr_, pr0_\n\n")
	} else {
		p.w("package " + pkg + "\n\n" + imp)
	}
	p.typeDecls(prog)
	if prog.NeedChoice {
		if goMode {
			p.w(choiceHelperGo)
		} else {
			p.w(choiceHelperGoat)
		}
	}
	for _, g := range prog.Globals {
		g.Global = true
		p.stmt(g)
	}
	if len(prog.Globals) > 0 {
		p.nl()
	}
	for _, f := range prog.Funcs {
		p.funcDecl(f)
	}
	for _, f := range prog.Inits {
		p.funcDecl(f)
	}
	if goMode {
		// every run starts from freshly initialised package-level variables (as a fresh VM does); the
		// moved package resets its own
		name := "resetGlobals"
		if prog.libPart {
			name = "ResetGlobals_"
		}
		p.w("func " + name + "() {\n")
		if prog.importLib {
			p.w("\tlib.ResetGlobals_()\n")
		}
		for _, g := range prog.Globals {
			if g.Const {
				continue
			}
			if g.K == "declzero" {
				p.w("\t{\n\t\tvar z " + g.DeclTy.Src(true) + "\n\t\t" + g.Names[0] + " = z\n\t}\n")
			} else {
				var rs []string
				for _, e := range g.Exprs {
					rs = append(rs, p.expr(e))
				}
				p.w("\t" + strings.Join(g.Names, ", ") + " = " + strings.Join(rs, ", ") + "\n")
			}
		}
		p.w("}\n\n")
	}
	if goMode && !prog.libPart {
		p.w("func runOnce(c []int32) {\n\tresetGlobals()\n\tdefer func() {\n\t\tif r := recover(); r != nil {\n\t\t\tpr_(\"PANIC\")\n\t\t}\n\t}()\n")
		if prog.NeedChoice {
			p.w("\tRun(c)\n")
		} else {
			p.w("\tMain()\n")
		}
		p.w("}\n\nfunc main() {\n")
		if len(choiceVectors) == 0 {
			choiceVectors = [][]int{nil}
		}
		for _, cv := range choiceVectors {
			var ss []string
			for _, c := range cv {
				ss = append(ss, fmt.Sprint(c))
			}
			p.w("\trunOnce([]int32{" + strings.Join(ss, ", ") + "})\n\tpr_(\"=====\")\n")
		}
		p.w("}\n")
	}
	return p.b.String()
}

// ---------------------------------------------------------------------------------------------
// flattening to the node table of MiniGo.tla (after printing in goat mode: line numbers are set)

type flat struct {
	nodes   []map[string]any
	structs map[string]*StructDef
}

func (f *flat) add(n map[string]any) int {
	f.nodes = append(f.nodes, n)
	return len(f.nodes)
}

func bytesOf(s string) []int {
	out := make([]int, len(s))
	for i := 0; i < len(s); i++ {
		out[i] = int(s[i])
	}
	return out
}

func specPattern(t *Ty, v int64) int64 {
	if t.K == "uint32" {
		return int64(int32(uint32(v)))
	}
	return v
}

func (f *flat) exprs(es []*E) []int {
	out := make([]int, len(es))
	for i, e := range es {
		out[i] = f.expr(e)
	}
	return out
}

func (f *flat) expr(e *E) int {
	switch e.K {
	case "int":
		return f.add(map[string]any{"k": "int", "ty": e.Ty.SpecInt(), "v": specPattern(e.Ty, e.V)})
	case "bool":
		return f.add(map[string]any{"k": "bool", "b": e.B})
	case "str":
		return f.add(map[string]any{"k": "str", "s": bytesOf(e.S)})
	case "zero":
		return f.add(e.Ty.zeroNode())
	case "var":
		return f.add(map[string]any{"k": "var", "name": e.Name})
	case "blank":
		return f.add(map[string]any{"k": "blank"})
	case "fnval", "funclit":
		return f.add(map[string]any{"k": "fnval", "fn": e.Fn})
	case "bin":
		return f.add(map[string]any{"k": "bin", "op": e.Op, "l": f.expr(e.L), "r": f.expr(e.R), "line": e.Line})
	case "and", "or":
		return f.add(map[string]any{"k": e.K, "l": f.expr(e.L), "r": f.expr(e.R)})
	case "not", "neg", "compl", "len":
		return f.add(map[string]any{"k": e.K, "x": f.expr(e.X)})
	case "conv":
		to := e.Ty.K
		switch {
		case e.Ty.IsInt():
			to = e.Ty.SpecInt()
		case e.Ty.K == "slice":
			to = "bytes"
		}
		return f.add(map[string]any{"k": "conv", "to": to, "x": f.expr(e.X)})
	case "call":
		want := -1
		if e.Want > 0 {
			want = e.Want
		}
		return f.add(map[string]any{"k": "call", "fn": e.Fn, "args": f.exprs(e.Args), "spread": e.Spread, "line": e.Line, "want": want})
	case "callv":
		return f.add(map[string]any{"k": "callv", "f": f.expr(e.X), "args": f.exprs(e.Args), "spread": e.Spread, "line": e.Line})
	case "mcall":
		sty := ""
		if e.X.Ty != nil && e.X.Ty.K == "ptr" {
			sty = e.X.Ty.Name
		}
		return f.add(map[string]any{"k": "mcall", "x": f.expr(e.X), "m": e.M, "sty": sty, "args": f.exprs(e.Args), "spread": e.Spread, "line": e.Line})
	case "mval":
		return f.add(map[string]any{"k": "mval", "x": f.expr(e.X), "m": e.M, "line": e.Line})
	case "index":
		return f.add(map[string]any{"k": "index", "x": f.expr(e.X), "i": f.expr(e.I), "line": e.Line})
	case "mapget":
		return f.add(map[string]any{"k": "mapget", "x": f.expr(e.X), "i": f.expr(e.I), "zero": f.add(e.Ty.zeroNode()), "ok": e.Ok, "line": e.Line})
	case "slice":
		n := map[string]any{"k": "slice", "x": f.expr(e.X), "haslo": e.Lo != nil, "hashi": e.Hi != nil, "lo": 0, "hi": 0, "line": e.Line}
		if e.Lo != nil {
			n["lo"] = f.expr(e.Lo)
		}
		if e.Hi != nil {
			n["hi"] = f.expr(e.Hi)
		}
		return f.add(n)
	case "field":
		return f.add(map[string]any{"k": "field", "x": f.expr(e.X), "f": e.F, "line": e.Line})
	case "append":
		return f.add(map[string]any{"k": "append", "x": f.expr(e.X), "args": f.exprs(e.Args), "spread": e.Spread})
	case "make":
		return f.add(map[string]any{"k": "make", "n": f.expr(e.X), "zero": f.add(e.Ty.Elem.zeroNode()), "line": e.Line})
	case "makemap":
		return f.add(map[string]any{"k": "makemap"})
	case "slicelit":
		return f.add(map[string]any{"k": "slicelit", "elems": f.exprs(e.Args)})
	case "maplit":
		var kvs []int
		for i := range e.Keys {
			kvs = append(kvs, f.expr(e.Keys[i]), f.expr(e.Args[i]))
		}
		if kvs == nil {
			kvs = []int{}
		}
		return f.add(map[string]any{"k": "maplit", "kvs": kvs})
	case "new":
		return f.add(map[string]any{"k": "new", "sty": e.Sty, "fnames": strsOrEmpty(e.Fields), "fvals": f.exprs(e.Args), "zeros": e.zerosFor(f)})
	case "choice":
		return f.add(map[string]any{"k": "choice", "n": e.N})
	case "lib":
		order := []map[string]any{}
		if e.Fn == "fmt.Sprint" && len(e.Args) == 1 && e.Args[0].Ty != nil && e.Args[0].Ty.K == "ptr" {
			// a struct reference rendered as a whole: the field names in declaration order
			for _, fn := range f.structs[e.Args[0].Ty.Name].Fields {
				order = append(order, map[string]any{"n": fn, "b": bytesOf(fn)})
			}
		}
		return f.add(map[string]any{"k": "lib", "fn": e.Fn, "args": f.exprs(e.Args), "order": order})
	}
	panic("flat: unknown expr " + e.K)
}

func strsOrEmpty(s []string) []string {
	if s == nil {
		return []string{}
	}
	return s
}

func (e *E) zerosFor(f *flat) [][]any {
	sd := f.structs[e.Sty]
	out := [][]any{}
	for i, fn := range sd.Fields {
		out = append(out, []any{fn, f.add(sd.FTypes[i].zeroNode())})
	}
	return out
}

func (f *flat) stmts(ss []*S) []int {
	out := make([]int, len(ss))
	for i, s := range ss {
		out[i] = f.stmt(s)
	}
	return out
}

func (f *flat) opt(s *S) int {
	if s == nil {
		return 0
	}
	return f.stmt(s)
}

func (f *flat) optE(e *E) int {
	if e == nil {
		return 0
	}
	return f.expr(e)
}

func (f *flat) stmt(s *S) int {
	switch s.K {
	case "decl":
		k := "decl"
		if s.Global || s.TopLevel {
			k = "gdecl"
		}
		return f.add(map[string]any{"k": k, "names": s.Names, "exprs": f.exprs(s.Exprs), "line": s.Line})
	case "declzero":
		k := "declzero"
		if s.Global || s.TopLevel {
			k = "gdeclzero"
		}
		return f.add(map[string]any{"k": k, "name": s.Names[0], "zero": f.add(s.DeclTy.zeroNode())})
	case "assign":
		return f.add(map[string]any{"k": "assign", "lhs": f.exprs(s.Lhs), "exprs": f.exprs(s.Exprs), "line": s.Line})
	case "opassign":
		return f.add(map[string]any{"k": "opassign", "lhs": f.lvalue(s.Lhs[0]), "op": s.Op, "rhs": f.expr(s.E), "line": s.Line})
	case "incdec":
		return f.add(map[string]any{"k": "incdec", "lhs": f.lvalue(s.Lhs[0]), "d": s.D, "line": s.Line})
	case "expr":
		return f.add(map[string]any{"k": "expr", "e": f.expr(s.E), "nres": s.NRes})
	case "yield":
		return f.add(map[string]any{"k": "yield", "e": f.expr(s.E)})
	case "print":
		return f.add(map[string]any{"k": "print", "args": f.exprs(s.Exprs), "ln": s.Ln, "fmtp": s.Fmt && !s.Ln})
	case "block":
		return f.add(map[string]any{"k": "block", "body": f.stmts(s.Body)})
	case "if":
		return f.add(map[string]any{"k": "if", "init": f.opt(s.Init), "cond": f.expr(s.Cond), "then": f.stmts(s.Then), "els": f.stmts(s.Else), "haselse": s.HasElse})
	case "for":
		return f.add(map[string]any{"k": "for", "init": f.opt(s.Init), "cond": f.optE(s.Cond), "post": f.opt(s.Post), "body": f.stmts(s.Body)})
	case "range":
		vn := s.VName
		if vn == "" {
			vn = "_"
		}
		return f.add(map[string]any{"k": "range", "kname": s.KName, "vname": vn, "x": f.expr(s.X), "body": f.stmts(s.Body)})
	case "switch":
		cases := []map[string]any{}
		for _, c := range s.Cases {
			cases = append(cases, map[string]any{"vals": f.exprs(c.Vals), "body": f.stmts(c.Body)})
		}
		return f.add(map[string]any{"k": "switch", "init": 0, "tag": f.optE(s.Tag), "cases": cases, "hasdef": s.HasDef, "defbody": f.stmts(s.Def)})
	case "break", "continue":
		return f.add(map[string]any{"k": s.K})
	case "return":
		return f.add(map[string]any{"k": "return", "exprs": f.exprs(s.Exprs), "n": s.NRes})
	case "panic":
		return f.add(map[string]any{"k": "panic", "e": f.expr(s.E), "line": s.Line})
	case "delete":
		return f.add(map[string]any{"k": "delete", "m": f.expr(s.M), "key": f.expr(s.Key)})
	case "copy":
		return f.add(map[string]any{"k": "copy", "dst": f.expr(s.Dst), "src": f.expr(s.E)})
	}
	panic("flat: unknown stmt " + s.K)
}

// lvalues reuse expression nodes (var / index / mapget / field / blank)
func (f *flat) lvalue(e *E) int { return f.expr(e) }

// Flatten returns the JSON-ready program record for MiniGo.tla. Source(false, ..) must have been
// called before (line numbers).
func (prog *Prog) Flatten() map[string]any {
	f := &flat{structs: map[string]*StructDef{}}
	for _, s := range prog.Structs {
		f.structs[s.Name] = s
	}
	var globals []int
	for _, g := range prog.Globals {
		g.Global = true
		globals = append(globals, f.stmt(g))
	}
	if prog.NeedChoice {
		// the choice() helper is the machine's built-in "choice" expression: nothing to add
	}
	funcs := map[string]any{}
	addFunc := func(fn *Func) {
		params := []string{}
		if fn.Recv != "" {
			params = append(params, fn.Recv)
		}
		params = append(params, fn.Params...)
		funcs[fn.Name] = map[string]any{"params": params, "body": f.stmts(fn.Body), "nres": len(fn.Results), "variadic": fn.Variadic, "line": fn.Line}
	}
	for _, fn := range prog.Funcs {
		addFunc(fn)
	}
	for _, fn := range prog.Lits {
		addFunc(fn)
	}
	inits := []string{}
	for i, fn := range prog.Inits {
		fn2 := *fn
		fn2.Name = fmt.Sprintf("init#%d", i)
		addFunc(&fn2)
		inits = append(inits, fn2.Name)
	}
	if globals == nil {
		globals = []int{}
	}
	if f.nodes == nil {
		f.nodes = append(f.nodes, map[string]any{"k": "nop"}) // JSON null is not a TLA+ value
	}
	return map[string]any{"id": prog.ID, "nodes": f.nodes, "funcs": funcs, "globals": globals, "inits": inits, "main": prog.Main}
}
