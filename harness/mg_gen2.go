package main

// Additional statement templates of the MiniGo generator: guarded slice indexing, aliasing
// sub-slices, overlapping copy, string operations, nil maps, function literals, method values,
// multi-assignment.

func v(name string, t *Ty) *E { return &E{K: "var", Ty: t, Name: name} }
func lit(t *Ty, x int64) *E  { return &E{K: "int", Ty: t, V: x} }
func lenOf(e *E) *E          { return &E{K: "len", Ty: TInt, X: e} }
func cmp(op string, l, r *E) *E {
	return &E{K: "bin", Ty: TBool, Op: op, L: l, R: r}
}

func (g *Gen) pickVar(pred func(gvar) bool) (gvar, bool) {
	var cs []gvar
	for _, x := range g.visible() {
		if pred(x) {
			cs = append(cs, x)
		}
	}
	if len(cs) == 0 {
		return gvar{}, false
	}
	return cs[g.r.Intn(len(cs))], true
}

func (g *Gen) extraStmt(depth int) []*S {
	for try := 0; try < 4; try++ {
		var out []*S
		switch g.r.Intn(12) {
		case 0, 1:
			if g.o.Containers {
				out = g.containerStmt(depth)
			}
		case 2, 3:
			if g.o.Containers {
				out = g.sliceTemplate(depth)
			}
		case 4, 5:
			if g.o.Strings {
				out = g.stringTemplate(depth)
			}
		case 6:
			if g.o.Containers {
				out = g.nilMapTemplate(depth)
			}
		case 7, 8:
			if g.o.FuncLits {
				out = g.funcValueTemplate(depth)
			}
		case 9:
			if g.o.Lib && g.r.Intn(2) == 0 {
				out = g.fmtPrintStmt(depth)
			} else {
				out = g.multiAssign(depth)
			}
		case 10:
			if g.o.Structs {
				out = g.methodValueTemplate(depth)
			}
		default:
			if g.o.Structs {
				if g.r.Intn(2) == 0 {
					out = g.linkTemplate(depth)
				} else {
					out = g.fieldLoopTemplate(depth)
				}
			}
		}
		if out != nil {
			return out
		}
	}
	return nil
}

// guarded element access, aliasing sub-slice with in-place append, overlapping copy
func (g *Gen) sliceTemplate(depth int) []*S {
	sv, ok := g.pickVar(func(x gvar) bool { return x.ty.K == "slice" && !x.ro })
	if !ok {
		// declare a fresh slice first
		t := SliceOf([]*Ty{TInt, TString, TUint8}[g.r.Intn(3)])
		if !g.o.Strings && t.Elem.K == "string" {
			t = SliceOf(TInt)
		}
		name := g.fresh("s")
		n := 3 + g.r.Intn(3)
		e := &E{K: "slicelit", Ty: t}
		for i := 0; i < n; i++ {
			e.Args = append(e.Args, g.literal(t.Elem))
		}
		g.declare(gvar{name: name, ty: t, fresh: true})
		return []*S{{K: "decl", Names: []string{name}, Exprs: []*E{e}}}
	}
	s := v(sv.name, sv.ty)
	et := sv.ty.Elem
	k := int64(1 + g.r.Intn(3))
	guard := func(min int64, body []*S) *S {
		return &S{K: "if", Cond: cmp(">", lenOf(s), lit(TInt, min)), Then: body}
	}
	switch g.r.Intn(6) {
	case 0: // read and write an element
		g.push()
		x := g.fresh("x")
		body := []*S{
			{K: "decl", Names: []string{x}, Exprs: []*E{{K: "index", Ty: et, X: s, I: lit(TInt, k)}}},
			{K: "assign", Lhs: []*E{{K: "index", Ty: et, X: s, I: lit(TInt, k-1)}}, Exprs: []*E{v(x, et)}},
		}
		g.declare(gvar{name: x, ty: et})
		body = append(body, g.printState())
		g.pop()
		return []*S{guard(k, body)}
	case 1: // op-assign / incdec on an element
		if !et.IsInt() {
			return nil
		}
		body := []*S{{K: "opassign", Lhs: []*E{{K: "index", Ty: et, X: s, I: lit(TInt, k)}}, Op: []string{"+", "*", "-", "^"}[g.r.Intn(4)], E: g.expr(et, 1)},
			{K: "incdec", Lhs: []*E{{K: "index", Ty: et, X: s, I: lit(TInt, 0)}}, D: 1}}
		return []*S{guard(k, body)}
	case 2: // aliasing sub-slice; a write through it is visible in the parent
		g.push()
		a := g.fresh("a")
		body := []*S{
			{K: "decl", Names: []string{a}, Exprs: []*E{{K: "slice", Ty: sv.ty, X: s, Lo: lit(TInt, 1), Hi: lit(TInt, k+1)}}},
			{K: "assign", Lhs: []*E{{K: "index", Ty: et, X: v(a, sv.ty), I: lit(TInt, 0)}}, Exprs: []*E{g.expr(et, 1)}},
			{K: "print", Ln: true, Exprs: []*E{{K: "str", Ty: TString, S: "alias"}, lenOf(v(a, sv.ty)), {K: "index", Ty: et, X: s, I: lit(TInt, 1)}, {K: "index", Ty: et, X: v(a, sv.ty), I: lit(TInt, 0)}}},
		}
		g.pop()
		return []*S{guard(k, body)}
	case 3: // append within the parent's length writes in place (growth-policy independent)
		g.push()
		a := g.fresh("a")
		body := []*S{
			{K: "decl", Names: []string{a}, Exprs: []*E{{K: "slice", Ty: sv.ty, X: s, Hi: lit(TInt, k)}}},
			{K: "assign", Lhs: []*E{v(a, sv.ty)}, Exprs: []*E{{K: "append", Ty: sv.ty, X: v(a, sv.ty), Args: []*E{g.expr(et, 1)}}}},
			{K: "print", Ln: true, Exprs: []*E{{K: "str", Ty: TString, S: "inplace"}, lenOf(v(a, sv.ty)), lenOf(s), {K: "index", Ty: et, X: s, I: lit(TInt, k)}, {K: "index", Ty: et, X: v(a, sv.ty), I: lit(TInt, k)}}},
		}
		g.pop()
		return []*S{guard(k, body)}
	case 4: // overlapping copy in both directions
		var c *S
		if g.r.Intn(2) == 0 {
			c = &S{K: "copy", Dst: &E{K: "slice", Ty: sv.ty, X: s, Lo: lit(TInt, 1)}, E: s}
		} else {
			c = &S{K: "copy", Dst: s, E: &E{K: "slice", Ty: sv.ty, X: s, Lo: lit(TInt, 1)}}
		}
		body := []*S{c, {K: "print", Ln: true, Exprs: []*E{{K: "str", Ty: TString, S: "copied"}, {K: "index", Ty: et, X: s, I: lit(TInt, 0)}, {K: "index", Ty: et, X: s, I: lit(TInt, 1)}, {K: "index", Ty: et, X: s, I: lit(TInt, k)}}}}
		return []*S{guard(k, body)}
	default: // print every element
		i, e := g.fresh("i"), g.fresh("e")
		return []*S{{K: "range", X: s, KName: i, VName: e, Body: []*S{{K: "print", Ln: true, Exprs: []*E{{K: "str", Ty: TString, S: "el"}, v(i, TInt), v(e, et)}}}}}
	}
}

func (g *Gen) stringTemplate(depth int) []*S {
	sv, ok := g.pickVar(func(x gvar) bool { return x.ty.K == "string" })
	if !ok {
		return nil
	}
	s := v(sv.name, TString)
	switch g.r.Intn(6) {
	case 0: // byte indexing and slicing
		k := int64(g.r.Intn(3))
		return []*S{{K: "if", Cond: cmp(">", lenOf(s), lit(TInt, k+1)), Then: []*S{
			{K: "print", Ln: true, Exprs: []*E{{K: "str", Ty: TString, S: "byte"}, {K: "index", Ty: TUint8, X: s, I: lit(TInt, k)},
				{K: "slice", Ty: TString, X: s, Lo: lit(TInt, k), Hi: lit(TInt, k+2)}, {K: "slice", Ty: TString, X: s, Hi: lit(TInt, k+1)}, {K: "slice", Ty: TString, X: s, Lo: lit(TInt, k+1)}}}}}}
	case 1: // range decodes runes and yields byte offsets
		i, c := g.fresh("i"), g.fresh("c")
		return []*S{{K: "range", X: s, KName: i, VName: c, Body: []*S{{K: "print", Ln: true, Exprs: []*E{{K: "str", Ty: TString, S: "rune"}, v(i, TInt), v(c, TInt)}}}}}
	case 2: // []byte(s) and back
		b := g.fresh("b")
		bt := SliceOf(TUint8)
		g.declare(gvar{name: b, ty: bt, fresh: true})
		return []*S{{K: "decl", Names: []string{b}, Exprs: []*E{{K: "conv", Ty: bt, X: s}}},
			{K: "print", Ln: true, Exprs: []*E{{K: "str", Ty: TString, S: "bytes"}, lenOf(v(b, bt)), {K: "bin", Ty: TBool, Op: "==", L: &E{K: "conv", Ty: TString, X: v(b, bt)}, R: s}}}}
	case 3: // string(rune)
		iv, ok := g.pickVar(func(x gvar) bool { return x.ty.K == "int" })
		if !ok {
			return nil
		}
		return []*S{{K: "print", Ln: true, Exprs: []*E{{K: "str", Ty: TString, S: "fromrune"}, {K: "conv", Ty: TString, X: &E{K: "bin", Ty: TInt, Op: "&", L: v(iv.name, TInt), R: lit(TInt, 0x3fff)}}}}}
	case 4: // comparison chain
		o := g.expr(TString, 1)
		return []*S{{K: "print", Ln: true, Exprs: []*E{{K: "str", Ty: TString, S: "cmp"}, cmp("<", s, o), cmp("==", s, o), cmp(">=", s, o)}}}
	default: // concatenation does not alter its operands
		t := g.fresh("t")
		rhs := g.expr(TString, 1)
		g.declare(gvar{name: t, ty: TString})
		return []*S{{K: "decl", Names: []string{t}, Exprs: []*E{{K: "bin", Ty: TString, Op: "+", L: s, R: rhs}}},
			{K: "print", Ln: true, Exprs: []*E{{K: "str", Ty: TString, S: "cat"}, s, v(t, TString), lenOf(v(t, TString))}}}
	}
}

// a nil map can be read, ranged and measured; it is never written
func (g *Gen) nilMapTemplate(depth int) []*S {
	mt := MapOf([]*Ty{TString, TInt}[g.r.Intn(2)], TInt)
	m := g.fresh("nm")
	g.declare(gvar{name: m, ty: mt, ro: true, maybeNil: true})
	a, ok := g.fresh("g"), g.fresh("ok")
	g.declare(gvar{name: a, ty: TInt})
	g.declare(gvar{name: ok, ty: TBool})
	return []*S{{K: "declzero", Names: []string{m}, DeclTy: mt},
		{K: "decl", Names: []string{a, ok}, Exprs: []*E{{K: "mapget", Ty: TInt, Ok: true, X: v(m, mt), I: g.literal(mt.Key)}}},
		{K: "print", Ln: true, Exprs: []*E{{K: "str", Ty: TString, S: "nilmap"}, {K: "mapget", Ty: TInt, X: v(m, mt), I: g.literal(mt.Key)}, lenOf(v(m, mt)), v(a, TInt), v(ok, TBool), cmp("==", v(m, mt), &E{K: "zero", Ty: mt})}}}
}

// a function literal (no captured variables) bound to a variable and called through it
func (g *Gen) funcValueTemplate(depth int) []*S {
	if g.inLit {
		return nil
	}
	np := 1 + g.r.Intn(2)
	sig := &FuncSig{}
	fn := &Func{}
	g.lits++
	fn.Name = "lit#" + g.prog.ID + "#" + itoa(g.lits)
	saved := g.scopes
	savedRes, savedLoop, savedSw, savedBudget := g.results, g.loop, g.swtch, g.budget
	g.scopes = [][]gvar{nil} // a literal sees no enclosing locals (and, to keep it self-contained, no globals)
	g.push()
	for j := 0; j < np; j++ {
		t := g.scalarType()
		n := "q" + itoa(j)
		fn.Params = append(fn.Params, n)
		fn.PTypes = append(fn.PTypes, t)
		sig.Params = append(sig.Params, t)
		g.declare(gvar{name: n, ty: t})
	}
	nr := []int{1, 1, 2, 0}[g.r.Intn(4)]
	for j := 0; j < nr; j++ {
		sig.Results = append(sig.Results, g.scalarType())
	}
	fn.Results = sig.Results
	g.results = sig.Results
	if g.results == nil {
		g.results = []*Ty{}
	}
	g.inLit = true
	g.loop, g.swtch = 0, 0
	g.budget = 6
	body := g.stmts(1+g.r.Intn(3), 1)
	if len(body) == 0 || body[len(body)-1].K != "return" {
		if nr > 0 {
			body = append(body, g.returnStmt(1))
		}
	}
	fn.Body = body
	g.inLit = false
	g.pop()
	g.scopes = saved
	g.results, g.loop, g.swtch, g.budget = savedRes, savedLoop, savedSw, savedBudget
	g.prog.Lits = append(g.prog.Lits, fn)
	ft := FuncTy(sig)
	h := g.fresh("h")
	g.declare(gvar{name: h, ty: ft, ro: true})
	decl := &S{K: "decl", Names: []string{h}, Exprs: []*E{{K: "funclit", Ty: ft, Fn: fn.Name, Lit: fn}}}
	call := &E{K: "callv", X: v(h, ft), NRes: nr}
	for _, pt := range sig.Params {
		call.Args = append(call.Args, g.expr(pt, 1))
	}
	out := []*S{decl}
	switch {
	case nr == 0:
		out = append(out, &S{K: "expr", E: call, NRes: 0})
	case nr == 1:
		call.Ty = sig.Results[0]
		r := g.fresh("r")
		g.declare(gvar{name: r, ty: sig.Results[0]})
		out = append(out, &S{K: "decl", Names: []string{r}, Exprs: []*E{call}})
	default:
		s := &S{K: "decl", Exprs: []*E{call}}
		for _, rt := range sig.Results {
			r := g.fresh("r")
			s.Names = append(s.Names, r)
			g.declare(gvar{name: r, ty: rt})
		}
		out = append(out, s)
	}
	return out
}

// a method value taken from an instance and called later
func (g *Gen) methodValueTemplate(depth int) []*S {
	if g.inLit {
		return nil
	}
	var ms []gfunc
	for i := 0; i < g.callable && i < len(g.funcs); i++ {
		if g.funcs[i].method && !g.funcs[i].variadic {
			ms = append(ms, g.funcs[i])
		}
	}
	if len(ms) == 0 {
		return nil
	}
	f := ms[g.r.Intn(len(ms))]
	rt := PtrTo(f.recvTy)
	var recv *E
	var vs []gvar
	for _, x := range g.varsOf(rt, false) {
		if !x.maybeNil {
			vs = append(vs, x)
		}
	}
	if len(vs) > 0 {
		recv = v(vs[g.r.Intn(len(vs))].name, rt)
	} else {
		o := g.fresh("o")
		g.declare(gvar{name: o, ty: rt, ro: true})
		pre := &S{K: "decl", Names: []string{o}, Exprs: []*E{g.literal(rt)}}
		rest := g.methodValueTemplate(depth)
		if rest == nil {
			return []*S{pre}
		}
		return append([]*S{pre}, rest...)
	}
	sig := &FuncSig{Params: f.params[1:], Results: f.results}
	ft := FuncTy(sig)
	m := g.fresh("mv")
	g.declare(gvar{name: m, ty: ft, ro: true})
	if !f.pure {
		g.impure = true
	}
	decl := &S{K: "decl", Names: []string{m}, Exprs: []*E{{K: "mval", Ty: ft, X: recv, M: f.name[len(f.recvTy)+1:]}}}
	call := &E{K: "callv", X: v(m, ft), NRes: len(f.results)}
	for _, pt := range sig.Params {
		call.Args = append(call.Args, g.expr(pt, 1))
	}
	if len(f.results) == 1 {
		call.Ty = f.results[0]
		r := g.fresh("r")
		g.declare(gvar{name: r, ty: f.results[0]})
		return []*S{decl, {K: "decl", Names: []string{r}, Exprs: []*E{call}}}
	}
	if len(f.results) == 0 {
		return []*S{decl, {K: "expr", E: call, NRes: 0}}
	}
	s := &S{K: "decl", Exprs: []*E{call}}
	for _, t := range f.results {
		r := g.fresh("r")
		s.Names = append(s.Names, r)
		g.declare(gvar{name: r, ty: t})
	}
	return []*S{decl, s}
}

// x, y = y, x  and  a, b := e1, e2
func (g *Gen) multiAssign(depth int) []*S {
	t := g.scalarType()
	vs := g.varsOf(t, true)
	if len(vs) >= 2 && g.r.Intn(2) == 0 {
		a, b := vs[0], vs[1]
		if g.isGlobal(a.name) || g.isGlobal(b.name) {
			g.impure = true
		}
		return []*S{{K: "assign", Lhs: []*E{v(a.name, t), v(b.name, t)}, Exprs: []*E{v(b.name, t), v(a.name, t)}}}
	}
	a, b := g.fresh("a"), g.fresh("b")
	t2 := g.scalarType()
	e1, e2 := g.expr(t, 1), g.expr(t2, 1)
	if (e1.K == "int" && t.K != "int") || (e2.K == "int" && t2.K != "int") {
		return nil // a, b := 5, 6 would make both int
	}
	g.declare(gvar{name: a, ty: t})
	g.declare(gvar{name: b, ty: t2})
	return []*S{{K: "decl", Names: []string{a, b}, Exprs: []*E{e1, e2}}}
}

// linked instances: p.Next = q; walking the chain with a for-post assignment
func (g *Gen) linkTemplate(depth int) []*S {
	var sd *StructDef
	var linkF string
	for _, s := range g.prog.Structs {
		for i, f := range s.Fields {
			if s.FTypes[i].K == "ptr" && s.FTypes[i].Name == s.Name {
				sd, linkF = s, f
			}
		}
	}
	if sd == nil {
		return nil
	}
	pt := PtrTo(sd.Name)
	a, b := g.fresh("n"), g.fresh("n")
	g.declare(gvar{name: a, ty: pt, ro: true})
	g.declare(gvar{name: b, ty: pt, ro: true})
	cnt := g.fresh("c")
	g.declare(gvar{name: cnt, ty: TInt})
	pv := g.fresh("p")
	return []*S{
		{K: "decl", Names: []string{a}, Exprs: []*E{g.literal(pt)}},
		{K: "decl", Names: []string{b}, Exprs: []*E{g.literal(pt)}},
		{K: "assign", Lhs: []*E{{K: "field", Ty: pt, X: v(a, pt), F: linkF}}, Exprs: []*E{v(b, pt)}},
		{K: "decl", Names: []string{cnt}, Exprs: []*E{lit(TInt, 0)}},
		{K: "for", Init: &S{K: "decl", Names: []string{pv}, Exprs: []*E{v(a, pt)}},
			Cond: cmp("!=", v(pv, pt), &E{K: "zero", Ty: pt}),
			Post: &S{K: "assign", Lhs: []*E{v(pv, pt)}, Exprs: []*E{{K: "field", Ty: pt, X: v(pv, pt), F: linkF}}},
			Body: []*S{{K: "incdec", Lhs: []*E{v(cnt, TInt)}, D: 1}}},
		{K: "print", Ln: true, Exprs: []*E{{K: "str", Ty: TString, S: "chain"}, v(cnt, TInt)}},
	}
}

// a loop whose whole condition is a bare field of a local: for p.On { p.On = false; ... }
func (g *Gen) fieldLoopTemplate(depth int) []*S {
	var sd *StructDef
	var bf string
	for _, s := range g.prog.Structs {
		for i, f := range s.Fields {
			if s.FTypes[i].K == "bool" {
				sd, bf = s, f
			}
		}
	}
	if sd == nil {
		return nil
	}
	pt := PtrTo(sd.Name)
	o := g.fresh("o")
	lt := g.literal(pt)
	g.declare(gvar{name: o, ty: pt, ro: true})
	fe := func() *E { return &E{K: "field", Ty: TBool, X: v(o, pt), F: bf} }
	g.loop++
	g.push()
	body := []*S{{K: "assign", Lhs: []*E{fe()}, Exprs: []*E{{K: "bool", Ty: TBool, B: false}}}}
	body = append(body, g.stmts(1+g.r.Intn(2), depth-1)...)
	g.pop()
	g.loop--
	return []*S{
		{K: "decl", Names: []string{o}, Exprs: []*E{lt}},
		{K: "assign", Lhs: []*E{fe()}, Exprs: []*E{{K: "bool", Ty: TBool, B: true}}},
		{K: "for", Cond: fe(), Body: body},
		g.printState(),
	}
}

func itoa(n int) string {
	if n == 0 {
		return "0"
	}
	s := ""
	for n > 0 {
		s = string(rune('0'+n%10)) + s
		n /= 10
	}
	return s
}

// quietBody reports whether the statements neither print nor can fault nor call anything that does
// (conservative: any indexing, slicing, field access, division, call through a value or method call
// counts as not quiet).
func (g *Gen) quietBody(body []*S) bool {
	quietFn := map[string]bool{}
	for _, f := range g.funcs {
		quietFn[f.name] = f.quiet
	}
	ok := true
	var ex func(e *E)
	ex = func(e *E) {
		if e == nil || !ok {
			return
		}
		switch e.K {
		case "index", "slice", "field", "callv", "mcall", "mval", "funclit", "make", "conv":
			ok = false
			return
		case "call":
			if !quietFn[e.Fn] {
				ok = false
				return
			}
		case "bin":
			if e.Op == "/" || e.Op == "%" || e.Op == "<<" || e.Op == ">>" {
				ok = false
				return
			}
		}
		for _, x := range []*E{e.L, e.R, e.X, e.I, e.Lo, e.Hi} {
			ex(x)
		}
		for _, x := range e.Args {
			ex(x)
		}
		for _, x := range e.Keys {
			ex(x)
		}
	}
	var st func(ss []*S)
	st = func(ss []*S) {
		for _, s := range ss {
			if !ok {
				return
			}
			switch s.K {
			case "print", "panic", "delete", "copy":
				ok = false
				return
			case "assign", "opassign", "incdec":
				for _, l := range s.Lhs {
					if l.K != "var" && l.K != "blank" {
						ok = false
						return
					}
				}
				if s.K == "opassign" && (s.Op == "/" || s.Op == "%" || s.Op == "<<" || s.Op == ">>") {
					ok = false
					return
				}
			}
			for _, x := range s.Exprs {
				ex(x)
			}
			for _, x := range []*E{s.E, s.Cond, s.X, s.Tag, s.M, s.Key, s.Dst} {
				ex(x)
			}
			if s.Init != nil {
				st([]*S{s.Init})
			}
			if s.Post != nil {
				st([]*S{s.Post})
			}
			st(s.Then)
			st(s.Else)
			st(s.Body)
			st(s.Def)
			for _, c := range s.Cases {
				for _, x := range c.Vals {
					ex(x)
				}
				st(c.Body)
			}
		}
	}
	st(body)
	return ok
}
