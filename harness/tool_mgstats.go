package main

import (
	"fmt"
	"math/rand"
	"os"
	"strings"
)

func init() {
	register("mgstats", func(c *Ctx) {
		r := rand.New(rand.NewSource(c.Seed))
		profs := c01Profiles()
		counts := map[string]int{}
		keys := []string{":= func(", "mv", "copy(", "inplace", "\"rune\"", "nilmap", "alias", "chain", "return f", "...)", "switch ", "range ", "choice(", "else if", "[]byte(", "fromrune", "break", "continue"}
		n := 1500
		for i := 0; i < n; i++ {
			g := NewGen(r, profs[i%len(profs)])
			src := g.Program(fmt.Sprint(i)).Source(false, nil)
			for _, k := range keys {
				if strings.Contains(src, k) {
					counts[k]++
				}
			}
			if len(os.Args) > 3 && os.Args[3] == fmt.Sprint(i) {
				fmt.Println(src)
			}
		}
		for _, k := range keys {
			fmt.Printf("%-14s %d/%d\n", k, counts[k], n)
		}
		c.cleanup()
		os.Exit(0)
	})
}
