package main

import (
	"bytes"
	"fmt"
	"strings"
	"testing/fstest"

	goat "github.com/philhassey/goatlang"
)

// RunResult is the observable outcome of running a program on the real goatlang package.
type RunResult struct {
	Stdout   string
	Err      error  // error returned by the API (nil = success)
	Panic    string // non-empty when a Go panic escaped the public API
	Rets     []goat.Value
	Budget   bool // the verif instruction budget ran out
	LoadErr  bool // the error came from Load (not from Call)
	VM       *goat.VM
	StdoutBf *bytes.Buffer
}

func (r RunResult) ErrString() string {
	if r.Panic != "" {
		return "PANIC: " + r.Panic
	}
	if r.Err != nil {
		return r.Err.Error()
	}
	return ""
}

func (r RunResult) Failed() bool { return r.Err != nil || r.Panic != "" }

func mapFS(files map[string]string) fstest.MapFS {
	fs := fstest.MapFS{}
	for name, src := range files {
		fs[name] = &fstest.MapFile{Data: []byte(src)}
	}
	return fs
}

const defaultBudget = 2_000_000

// runProgram loads package pkg from files (optimizer selectable) and calls entry (if not empty).
// A Go panic escaping the API is caught and reported in Panic.
func runProgram(files map[string]string, pkg, entry string, xRets int, optimize bool, budget int64, args ...goat.Value) (res RunResult) {
	var out bytes.Buffer
	vm := goat.New(goat.WithStdout(&out))
	res.VM = vm
	res.StdoutBf = &out
	if budget == 0 {
		budget = defaultBudget
	}
	goat.VerifSetBudget(budget)
	defer func() {
		goat.VerifSetBudget(-1)
		if r := recover(); r != nil {
			res.Panic = fmt.Sprint(r)
		}
		res.Stdout = out.String()
		if res.Err != nil && strings.Contains(res.Err.Error(), goat.VerifBudgetMsg) {
			res.Budget = true
		}
	}()
	var err error
	if optimize {
		err = vm.Load(mapFS(files), pkg)
	} else {
		err = vm.VerifLoad(mapFS(files), pkg, false, nil)
	}
	if err != nil {
		res.Err = err
		res.LoadErr = true
		return
	}
	if entry != "" {
		res.Rets, res.Err = vm.Call(entry, xRets, args...)
	}
	return
}

// runMain runs a single-file package "main" and calls main.Main.
func runMain(src string, optimize bool) RunResult {
	return runProgram(map[string]string{"main/main.go": src}, "main", "main.Main", 0, optimize, 0)
}
