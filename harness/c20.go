package main

import (
	"bytes"
	"encoding/json"
	"fmt"
	"math/rand"
	"os"
	"path/filepath"
	"regexp"
	"strconv"
	"strings"
	"testing/fstest"
	"time"

	goat "github.com/philhassey/goatlang"
)

// C20 — run-time errors point at the failing line and the active call chain.
//
// (a) Backtrace.tla: the call-stack discipline as a state machine (Call / Return / Fault); TLC
//     behaviours are scripts replayed by a generated "script interpreter" program whose functions and
//     methods call each other from call sites of many statement shapes (depth up to 30, through
//     loops, branches and recursion); the error text must list exactly the frames the model has.
// (b) MiniGo.tla: random programs with planted faults; the specification's panic record (failing
//     function, line, active call chain) must equal what the error text names, optimizer on and off.

func init() { register("C20", checkC20) }

type btFrame struct {
	Fn   string
	File string
	Line int
	Col  int
}

type btReport struct {
	Head  btFrame
	Op    string
	Msg   string
	Calls []btFrame
}

var btHeadRe = regexp.MustCompile(`^(?:(\S+)\(\.\.\.\) )?([^\s:]+):(\d+):(\d+): (\w+): (.*)$`)
var btCallRe = regexp.MustCompile(`^\t(?:(\S+)\(\.\.\.\) )?([^\s:]+):(\d+):(\d+)$`)

// parseBacktrace parses the error text; ok=false when the text does not have the documented shape.
func parseBacktrace(text string) (btReport, bool) {
	text = strings.TrimPrefix(text, "error in run: ")
	lines := strings.Split(text, "\n")
	var r btReport
	// the message itself may contain newlines (panic("a\nb")): the call lines are the trailing tab lines
	end := len(lines)
	for end > 1 && btCallRe.MatchString(lines[end-1]) {
		end--
	}
	head := strings.Join(lines[:end], "\n")
	m := btHeadRe.FindStringSubmatch(strings.SplitN(head, "\n", 2)[0])
	if m == nil {
		return r, false
	}
	r.Head.Fn = m[1]
	r.Head.File = m[2]
	r.Head.Line, _ = strconv.Atoi(m[3])
	r.Head.Col, _ = strconv.Atoi(m[4])
	r.Op, r.Msg = m[5], m[6]
	for _, l := range lines[end:] {
		m := btCallRe.FindStringSubmatch(l)
		ln, _ := strconv.Atoi(m[3])
		col, _ := strconv.Atoi(m[4])
		r.Calls = append(r.Calls, btFrame{m[1], m[2], ln, col})
	}
	return r, true
}

func (r btReport) framesWithFile() string {
	var ss []string
	ss = append(ss, fmt.Sprintf("%s@%s:%d", r.Head.Fn, r.Head.File, r.Head.Line))
	for _, f := range r.Calls {
		ss = append(ss, fmt.Sprintf("%s@%s:%d", f.Fn, f.File, f.Line))
	}
	return strings.Join(ss, " <- ")
}

func (r btReport) frames() string {
	var ss []string
	ss = append(ss, fmt.Sprintf("%s@%d", r.Head.Fn, r.Head.Line))
	for _, f := range r.Calls {
		ss = append(ss, fmt.Sprintf("%s@%d", f.Fn, f.Line))
	}
	return strings.Join(ss, " <- ")
}

func checkC20(c *Ctx) {
	c.Rule = "(a) call chains = EVERY behaviour of Backtrace.tla with <= 3 steps (thorough: also 4 steps with 4 of the fault kinds) over 6 functions and methods (results 0 / 1 / 2) x every call-site shape (5..11 statement forms per callee, including return f(), calls through a function value and calls whose argument list starts on the next line) x 30 fault kinds (8 of them spread over several lines: the operator or the opening parenthesis ends a line), plus TLC-simulated behaviours reaching depth 30 with many completed calls before the fault; each replayed as the script of a generated interpreter program (random function order, case order, padding, one or two files), entered by Load+Call and by Eval with trailing top-level code, optimizer on and off; (b) seeded random MiniGo programs with a fault planted (9 kinds x 9 statement shapes, divisions of two locals, half of them broken after the operator) at a random place; distinct_nontrivial = behaviours with at least one active call at the fault + faulting MiniGo programs"
	c.Assumptions = []string{"the error text is parsed as documented (first line: function, file:line:column, instruction, message; then one tab-indented line per active call); columns and the instruction name are not compared (they legitimately differ between optimizer modes)", "calls through function literals are outside the property's quantifier (functions and methods) and not generated in (a)"}
	r := rand.New(rand.NewSource(c.Seed))
	c20Backtrace(c, r)
	c20MiniGo(c, r)
}

type btVM struct {
	vm    *goat.VM
	out   *bytes.Buffer
	ncall int
}

// btInstall registers the host side of the interpreter program: main.cbOn switches the callback on; main.hostcb re-enters
// the VM while the script's call chain is active (a script function that makes calls of its own, completed successfully)
// and returns 7. The calls it makes have returned by the time anything faults: they are not part of the active chain.
func btInstall(vm *goat.VM, on bool) {
	vm.Set("main.cbOn", goat.Bool(on))
	vm.Set("main.hostcb", goat.NewFunc(1, 1, func(vm *goat.VM, args []goat.Value) goat.Value {
		rets, err := vm.Func(vm.Get("main.cbTarget"), 1, args[0])
		if err != nil {
			panic(err)
		}
		return rets[0]
	}))
}

func btLoad(bp *btProgram, optimize bool) *btVM {
	var out bytes.Buffer
	vm := goat.New(goat.WithStdout(&out))
	btInstall(vm, false)
	var err error
	if optimize {
		err = vm.Load(mapFS(bp.files), "main")
	} else {
		err = vm.VerifLoad(mapFS(bp.files), "main", false, nil)
	}
	if err != nil {
		fatalf("the generated script-interpreter program does not load: %v", err)
	}
	return &btVM{vm: vm, out: &out}
}

func (b *btVM) call(codes []int) (err error, pan string) {
	defer func() {
		if r := recover(); r != nil {
			pan = fmt.Sprint(r)
		}
		goat.VerifSetBudget(-1)
		b.out.Reset()
	}()
	vals := make([]goat.Value, len(codes))
	for i, x := range codes {
		vals[i] = goat.Int(x)
	}
	goat.VerifSetBudget(4000000)
	// every second script runs with the host callback switched on
	b.ncall++
	b.vm.Set("main.cbOn", goat.Bool(b.ncall%2 == 0))
	_, err = b.vm.Call("main.Main", 0, goat.NewSlice(goat.TypeInt32, vals))
	return
}

func btEvalSource(bp *btProgram, codes []int, trailingFault bool) (string, int, int) {
	var sb strings.Builder
	for i, name := range bp.order {
		src := bp.files[name]
		if i > 0 {
			src = strings.Replace(src, "package main\n", "", 1)
		}
		sb.WriteString(src)
	}
	var cs []string
	for _, x := range codes {
		cs = append(cs, fmt.Sprint(x))
	}
	line := strings.Count(sb.String(), "\n") + 1
	sb.WriteString("Main([]int{" + strings.Join(cs, ", ") + "})\n")
	fl := 0
	if trailingFault {
		sb.WriteString("println(\"after\")\n")
		fl = line + 2
		sb.WriteString("zero = 10 / zero\n")
	}
	return sb.String(), line, fl
}

func c20Backtrace(c *Ctx, r *rand.Rand) {
	var nsh, tails, notails []string
	for i, f := range btFns {
		if i == 0 {
			notails = append(notails, "0")
			continue
		}
		nsh = append(nsh, fmt.Sprint(len(btShapes[f.results])))
		if f.results == 1 {
			tails = append(tails, fmt.Sprint(i))
		}
		if f.results == 0 {
			notails = append(notails, fmt.Sprint(i))
		}
	}
	mc := "---- MODULE MC_Backtrace ----\nEXTENDS Backtrace\nNShapesC == <<" + strings.Join(nsh, ", ") + ">>\nTailC == {" + strings.Join(tails, ", ") + "}\nNoTailC == {" + strings.Join(notails, ", ") + "}\n====\n"
	cfg := func(nk, maxDepth, maxLen, minFault, retW int) string {
		return fmt.Sprintf("SPECIFICATION BSpec\nCONSTANTS\n  NF = %d\n  NShapes <- NShapesC\n  TailCallees <- TailC\n  NoTailCallers <- NoTailC\n  NK = %d\n  MaxDepth = %d\n  MaxLen = %d\n  MinFaultLen = %d\n  RetWeight = %d\nINVARIANTS StackIsHistory ReportShape TailWellFormed DepthBound Emit\nCHECK_DEADLOCK FALSE\n",
			len(btFns)-1, nk, maxDepth, maxLen, minFault, retW)
	}
	var behs []btBehaviour
	var kindMap []int // specification kind k -> fault statement kindMap[k-1] (nil: identity)
	parse := func(recs []string) {
		for _, s := range recs {
			var b btBehaviour
			// an empty TLA+ function prints as {} or []: normalise
			s = strings.ReplaceAll(s, "\"calls\":{}", "\"calls\":[]")
			if err := json.Unmarshal([]byte(s), &b); err != nil {
				fatalf("bad Backtrace record %q: %v", clip(s, 300), err)
			}
			if kindMap != nil {
				for i := range b.Script {
					if b.Script[i].Op == "fault" {
						b.Script[i].F = kindMap[b.Script[i].F-1]
					}
				}
				if b.Status == "fault" {
					b.Report.Kind = kindMap[b.Report.Kind-1]
				}
			}
			behs = append(behs, b)
		}
	}
	dir := c.specWorkDir("bt-exh")
	must(os.WriteFile(filepath.Join(dir, "MC_Backtrace.tla"), []byte(mc), 0o644))
	must(os.WriteFile(filepath.Join(dir, "MC_Backtrace.cfg"), []byte(cfg(len(btFaults)+len(btFaultsML), 4, c.pick(3, 3), 0, 1)), 0o644))
	res := c.runTLC(dir, TLCOpts{Module: "MC_Backtrace", Cfg: "MC_Backtrace.cfg", Workers: 8, HeapMB: 6000, Timeout: c.pickDur(5, 30)})
	parse(res.Records["BEH"])
	if !c.quick() {
		// one step deeper with four fault kinds (which four depends on the seed)
		kindMap = nil
		for _, k := range rand.New(rand.NewSource(c.Seed)).Perm(len(btFaults) + len(btFaultsML))[:4] {
			kindMap = append(kindMap, k+1)
		}
		d := c.specWorkDir("bt-exh4")
		must(os.WriteFile(filepath.Join(d, "MC_Backtrace.tla"), []byte(mc), 0o644))
		must(os.WriteFile(filepath.Join(d, "MC_Backtrace.cfg"), []byte(cfg(4, 4, 4, 0, 1)), 0o644))
		rs := c.runTLC(d, TLCOpts{Module: "MC_Backtrace", Cfg: "MC_Backtrace.cfg", Workers: 8, HeapMB: 8000, Timeout: 30 * time.Minute})
		parse(rs.Records["BEH"])
		kindMap = nil
	}
	nExh := len(behs)
	if nExh < 1000 {
		fatalf("Backtrace.tla emitted only %d behaviours", nExh)
	}
	for i, mf := range []int{4, 15, 40, 80} {
		d := c.specWorkDir(fmt.Sprintf("bt-sim%d", i))
		must(os.WriteFile(filepath.Join(d, "MC_Backtrace.tla"), []byte(mc), 0o644))
		must(os.WriteFile(filepath.Join(d, "MC_Backtrace.cfg"), []byte(cfg(len(btFaults)+len(btFaultsML), 30, mf+40, mf, 10)), 0o644))
		rs := c.runTLC(d, TLCOpts{Module: "MC_Backtrace", Cfg: "MC_Backtrace.cfg", Workers: 1, Simulate: fmt.Sprintf("num=%d", c.pick(30, 400)), Depth: mf + 45, ExtraArgs: []string{"-seed", fmt.Sprint(c.Seed + int64(i))}})
		recs := rs.Records["BEH"]
		if lim := c.pick(600, 10000); len(recs) > lim {
			recs = recs[:lim]
		}
		parse(recs)
	}
	c.Extra["backtrace_behaviours_exhaustive"] = nExh
	c.Extra["backtrace_behaviours_simulated"] = len(behs) - nExh

	// program variants
	nvar := c.pick(3, 8)
	type variant struct {
		bp       *btProgram
		on, off  *btVM
	}
	var vars []variant
	for i := 0; i < nvar; i++ {
		btVariant = i
		bp := btBuild(r, i%2 == 1)
		vars = append(vars, variant{bp, btLoad(bp, true), btLoad(bp, false)})
	}
	depths := map[int]int{}
	maxDepth := 0
	evalEvery := len(behs)/c.pick(500, 6000) + 1
	for bi, b := range behs {
		vr := vars[bi%len(vars)]
		codes := b.codes()
		want := ""
		wantFor := func(pos func(p btPos) string) string {
			hp, ok := vr.bp.faults[btFaultKey{b.Report.Fn, b.Report.Kind}]
			if !ok {
				fatalf("no fault statement for %v", b.Report)
			}
			ws := []string{btGoatName(btFns[b.Report.Fn]) + "@" + pos(hp)}
			for _, cl := range b.Report.Calls {
				sp, ok := vr.bp.sites[btSiteKey{cl.Caller, cl.Callee, cl.Shape}]
				if !ok {
					fatalf("no call site for %+v", cl)
				}
				ws = append(ws, btGoatName(btFns[cl.Caller])+"@"+pos(sp))
			}
			return strings.Join(ws, " <- ")
		}
		if b.Status == "fault" {
			want = wantFor(func(p btPos) string { return fmt.Sprintf("%s:%d", p.file, p.line) })
			depths[len(b.Report.Calls)/5*5]++
			if len(b.Report.Calls) > maxDepth {
				maxDepth = len(b.Report.Calls)
			}
			if len(b.Report.Calls) >= 1 {
				c.DistinctCount++
			}
		}
		check := func(mode string, optimize bool, err error, pan string, want string, src string) bool {
			c.Evaluations++
			bad := ""
			switch {
			case pan != "":
				bad = "Go panic escaped: " + pan
			case want == "" && err != nil:
				bad = "the script ends without a fault but an error was returned: " + firstLine(err.Error())
			case want != "" && err == nil:
				bad = "no error returned"
			case want != "":
				rep, ok := parseBacktrace(err.Error())
				if !ok {
					bad = "error text has no position: " + firstLine(err.Error())
				} else if got := rep.framesWithFile(); got != want {
					bad = fmt.Sprintf("error names %s ; the fault and the active calls are %s", got, want)
				}
			}
			if bad == "" {
				return true
			}
			et := ""
			if err != nil {
				et = err.Error()
			}
			rp := map[string]any{"files": vr.bp.files, "script": codes, "entry": mode, "optimize": optimize, "error_text": et, "expected_frames": want}
			if src != "" {
				rp["eval_source"] = src
			}
			c.violate(hashKey(fmt.Sprint(codes, mode, optimize, bi%len(vars))), fmt.Sprintf("script %v (%s, optimize=%v): %s", codes, mode, optimize, clip(bad, 1500)), rp)
			return false
		}
		ok := true
		for _, opt := range []bool{true, false} {
			bv := vr.on
			if !opt {
				bv = vr.off
			}
			err, pan := bv.call(codes)
			if !check("Load+Call", opt, err, pan, want, "") {
				ok = false
				break
			}
		}
		if ok && bi%evalEvery == 0 {
			// entered from top-level code through Eval; when the script ends quietly the top-level code after it faults
			src, callLine, faultLine := btEvalSource(vr.bp, codes, b.Status != "fault")
			w := ""
			if want != "" {
				// inside an Eval the files are concatenated under the Eval's file name
				first := strings.Count(vr.bp.files[vr.bp.order[0]], "\n")
				w = wantFor(func(p btPos) string {
					if p.file != vr.bp.order[0] {
						return fmt.Sprintf("prog.go:%d", first+p.line-1)
					}
					return fmt.Sprintf("prog.go:%d", p.line)
				})
				w += fmt.Sprintf(" <- @prog.go:%d", callLine)
			} else {
				w = fmt.Sprintf("@prog.go:%d", faultLine)
			}
			for _, opt := range []bool{true, false} {
				var out bytes.Buffer
				vm := goat.New(goat.WithStdout(&out))
				btInstall(vm, bi%(2*evalEvery) == 0)
				goat.VerifSetBudget(4000000)
				var err error
				pan := ""
				func() {
					defer func() {
						if r := recover(); r != nil {
							pan = fmt.Sprint(r)
						}
					}()
					_, err = vm.VerifEval(fstest.MapFS{}, "prog.go", src, opt, nil)
				}()
				goat.VerifSetBudget(-1)
				if !check("Eval", opt, err, pan, w, src) {
					ok = false
					break
				}
			}
		}
		if ok {
			c.TracesVsImpl++
		}
		if bi == nExh/2 || bi == len(behs)-1 {
			c.sample(map[string]any{"script": codes, "status": b.Status, "expected_frames": want})
		}
	}
	c.Extra["backtrace_depth_histogram_by_5"] = depths
	c.Extra["backtrace_max_depth"] = maxDepth
	c.Extra["backtrace_program_variants"] = nvar
	c.sample(map[string]any{"interpreter_program_excerpt": clip(vars[0].bp.files["main/a.go"], 1800)})
}



func c20MiniGo(c *Ctx, r *rand.Rand) {
	var progs []*Prog
	planted := map[string]string{}
	shapes := map[string]int{}
	n := c.pick(400, 6000)
	for i := 0; i < n; i++ {
		o := GenOpts{MaxStmts: 50, MaxDepth: 3, Funcs: 3 + i%4, Strings: true, Containers: true, Structs: true, Panics: true}
		if i%3 == 1 {
			o.SmallInts = true
		}
		g := NewGen(r, o)
		g.callBias = true
		p := g.Program(fmt.Sprintf("c20-%d", i))
		planted[p.ID] = plantFault(p, r, c20FaultKinds[i%len(c20FaultKinds)], i)
		progs = append(progs, p)
	}
	b := runMiniGoSpec(c, progs, 0, "c20")
	calibrateGo(c, b, "c20")
	npanic := 0
	kinds := map[string]int{}
	depths := map[int]int{}
	for _, p := range b.Progs {
		behs := b.Behs[p.ID]
		if len(behs) != 1 || behs[0].Status != "panic" {
			continue
		}
		bh := behs[0]
		npanic++
		kinds[bh.Kind]++
		depths[len(bh.Chain)]++
		shapes[planted[p.ID]]++
		want := []string{fmt.Sprintf("%s@%d", c20Name(bh.Fn), bh.Line)}
		for _, f := range bh.Chain {
			if f.Fn == "" {
				continue
			}
			want = append(want, fmt.Sprintf("%s@%d", c20Name(f.Fn), f.Line))
		}
		wantS := strings.Join(want, " <- ")
		for _, opt := range []bool{false, true} {
			res := goatRun(p, b.Sources[p.ID], nil, opt)
			c.Evaluations++
			bad := ""
			switch {
			case res.Panic != "":
				bad = "Go panic escaped: " + res.Panic
			case !res.Failed():
				bad = "no error returned; the specification's run ends in a " + bh.Kind + " fault"
			default:
				rep, ok := parseBacktrace(res.ErrString())
				if !ok {
					bad = "error text has no position: " + firstLine(res.ErrString())
				} else if !c20FramesMatch(rep, want) {
					bad = fmt.Sprintf("error names %s ; the fault (%s) and the active calls are %s", rep.frames(), bh.Kind, wantS)
				}
			}
			if bad != "" {
				c.violate(hashKey(p.ID+b.Sources[p.ID]), fmt.Sprintf("program %s optimize=%v: %s", p.ID, opt, bad),
					map[string]any{"source": b.Sources[p.ID], "optimize": opt, "error_text": res.ErrString(), "expected_frames": wantS})
				break
			}
			c.TracesVsImpl++
		}
		c.DistinctCount++
		if npanic == 3 {
			c.sample(map[string]any{"program": p.ID, "source": clip(b.Sources[p.ID], 1500), "expected_frames": wantS})
		}
	}
	c.Extra["minigo_programs"] = len(progs)
	c.Extra["minigo_programs_faulting"] = npanic
	c.Extra["minigo_fault_kinds"] = kinds
	c.Extra["minigo_planted_fault_shapes_in_faulting_programs"] = shapes
	c.Extra["minigo_chain_depths"] = depths
}

// stmtLists collects every statement list of the function (body and nested blocks).
func stmtLists(body *[]*S, out *[]*[]*S) {
	*out = append(*out, body)
	for _, s := range *body {
		switch s.K {
		case "if":
			stmtLists(&s.Then, out)
			if s.HasElse {
				stmtLists(&s.Else, out)
			}
		case "for", "range", "block":
			stmtLists(&s.Body, out)
		case "switch":
			for _, cs := range s.Cases {
				stmtLists(&cs.Body, out)
			}
			if s.HasDef {
				stmtLists(&s.Def, out)
			}
		}
	}
}

var c20FaultKinds = []string{"panic", "div", "mod", "index", "indexset", "slicebounds", "stridx", "nilmap", "nilptr"}

// plantFault inserts a faulting statement of the given kind, in a random statement shape, at a random
// place of a random function. Whether and when it is reached is decided by the specification's run.
func plantFault(p *Prog, r *rand.Rand, kind string, serial int) string {
	sfx := fmt.Sprintf("q%d", serial)
	zq, xq, iq, sq, mq, pq := "z"+sfx, "x"+sfx, "i"+sfx, "s"+sfx, "m"+sfx, "p"+sfx
	fn := p.Funcs[r.Intn(len(p.Funcs))]
	if r.Intn(3) == 0 {
		fn = p.Funcs[len(p.Funcs)-1] // Main: certainly reached
	}
	var lists []*[]*S
	stmtLists(&fn.Body, &lists)
	list := lists[r.Intn(len(lists))]
	if r.Intn(3) == 0 {
		list = lists[0]
	}
	decl := func(name string, e *E) *S { return &S{K: "decl", Names: []string{name}, Exprs: []*E{e}} }
	intShape := func(e *E, scratch string) (*S, string) {
		sv := v(scratch, TInt)
		switch x := r.Intn(9); {
		case x == 0:
			return &S{K: "print", Ln: true, Exprs: []*E{e}}, "println"
		case x == 1:
			return decl("r"+sfx, e), "short declaration"
		case x == 2:
			return &S{K: "assign", Lhs: []*E{sv}, Exprs: []*E{e}}, "assignment"
		case x == 3:
			return &S{K: "opassign", Lhs: []*E{sv}, Op: "+", E: e}, "op-assignment"
		case x == 4:
			return &S{K: "if", Cond: &E{K: "bin", Ty: TBool, Op: ">", L: e, R: lit(TInt, 0)}, Then: []*S{{K: "print", Ln: true, Exprs: []*E{{K: "str", Ty: TString, S: "then"}}}}}, "if condition"
		case x == 5:
			return &S{K: "for", Cond: &E{K: "bin", Ty: TBool, Op: ">", L: e, R: lit(TInt, 0)}, Body: []*S{{K: "break"}}}, "for condition"
		case x == 6:
			return &S{K: "switch", Tag: e, Cases: []*Case{{Vals: []*E{lit(TInt, 1)}, Body: []*S{{K: "print", Ln: true, Exprs: []*E{{K: "str", Ty: TString, S: "one"}}}}}}}, "switch tag"
		case x == 7 && len(fn.Results) == 1 && fn.Results[0].K == "int":
			return &S{K: "return", NRes: 1, Exprs: []*E{e}}, "return value"
		default:
			return &S{K: "print", Ln: true, Exprs: []*E{{K: "str", Ty: TString, S: "v"}, {K: "bin", Ty: TInt, Op: "+", L: lit(TInt, 1), R: e}}}, "println operand"
		}
	}
	var ss []*S
	shape := ""
	switch kind {
	case "panic":
		ss = []*S{{K: "panic", E: &E{K: "str", Ty: TString, S: "boom"}}}
		shape = "panic call"
	case "div", "mod":
		op := map[string]string{"div": "/", "mod": "%"}[kind]
		if r.Intn(4) == 0 {
			ss = []*S{decl(zq, lit(TInt, 0)), {K: "opassign", Lhs: []*E{v(zq, TInt)}, Op: op, E: v(zq, TInt)}}
			shape = "op-assignment " + op + "="
		} else {
			// the dividend is a constant or a second local (local op local is what the peephole pass fuses);
			// half of the expressions are broken after the operator
			var left *E = lit(TInt, 7)
			pre := []*S{decl(zq, lit(TInt, 0))}
			if r.Intn(2) == 0 {
				aq := "a" + sfx
				pre = append([]*S{decl(aq, lit(TInt, int64(3+r.Intn(90))))}, pre...)
				left = v(aq, TInt)
				shape = "local"
			}
			be := &E{K: "bin", Ty: TInt, Op: op, L: left, R: v(zq, TInt), Break: r.Intn(2) == 0}
			st, sh := intShape(be, zq)
			ss = append(pre, st)
			shape = strings.TrimSpace(shape + " " + sh)
			if be.Break {
				shape += " (broken after the operator)"
			}
		}
	case "index", "indexset", "slicebounds":
		xs := decl(xq, &E{K: "slicelit", Ty: SliceOf(TInt), Args: []*E{lit(TInt, 1), lit(TInt, 2)}})
		is := decl(iq, lit(TInt, int64(2+r.Intn(4))))
		ix := &E{K: "index", Ty: TInt, X: v(xq, SliceOf(TInt)), I: v(iq, TInt)}
		switch kind {
		case "index":
			st, sh := intShape(ix, iq)
			ss, shape = []*S{xs, is, st}, sh
		case "slicebounds":
			st, sh := intShape(lenOf(&E{K: "slice", Ty: SliceOf(TInt), X: v(xq, SliceOf(TInt)), Lo: v(iq, TInt)}), iq)
			ss, shape = []*S{xs, is, st}, sh
		default:
			switch r.Intn(3) {
			case 0:
				ss, shape = []*S{xs, is, {K: "assign", Lhs: []*E{ix}, Exprs: []*E{lit(TInt, 9)}}}, "element assignment"
			case 1:
				ss, shape = []*S{xs, is, {K: "opassign", Lhs: []*E{ix}, Op: "+", E: lit(TInt, 9)}}, "element op-assignment"
			default:
				ss, shape = []*S{xs, is, {K: "incdec", Lhs: []*E{ix}, D: 1}}, "element increment"
			}
		}
	case "stridx":
		st, sh := intShape(&E{K: "conv", Ty: TInt, X: &E{K: "index", Ty: TUint8, X: v(sq, TString), I: v(iq, TInt)}}, iq)
		ss, shape = []*S{decl(sq, &E{K: "str", Ty: TString, S: "ab"}), decl(iq, lit(TInt, int64(2+r.Intn(3)))), st}, sh
	case "nilmap":
		mt := MapOf(TInt, TInt)
		ss = []*S{{K: "declzero", Names: []string{mq}, DeclTy: mt}, {K: "assign", Lhs: []*E{{K: "mapget", Ty: TInt, X: v(mq, mt), I: lit(TInt, 1)}}, Exprs: []*E{lit(TInt, 2)}}}
		shape = "map element assignment"
	case "nilptr":
		var sd *StructDef
		fi := -1
		for _, d := range p.Structs {
			for i, ft := range d.FTypes {
				if ft.K == "int" {
					sd, fi = d, i
				}
			}
		}
		if sd == nil {
			return plantFault(p, r, "index", serial)
		}
		pt := PtrTo(sd.Name)
		fe := &E{K: "field", Ty: TInt, X: v(pq, pt), F: sd.Fields[fi]}
		dz := &S{K: "declzero", Names: []string{pq}, DeclTy: pt}
		switch r.Intn(3) {
		case 0:
			ss, shape = []*S{dz, {K: "assign", Lhs: []*E{fe}, Exprs: []*E{lit(TInt, 3)}}}, "field assignment"
		case 1:
			ss, shape = []*S{dz, {K: "incdec", Lhs: []*E{fe}, D: 1}}, "field increment"
		default:
			st, sh := intShape(fe, "")
			if st.K == "assign" || st.K == "opassign" {
				st, sh = &S{K: "print", Ln: true, Exprs: []*E{fe}}, "println"
			}
			ss, shape = []*S{dz, st}, sh
		}
	}
	at := r.Intn(len(*list) + 1)
	for at > 0 {
		if k := (*list)[at-1].K; k == "return" || k == "break" || k == "continue" || k == "panic" {
			at--
		} else {
			break
		}
	}
	// never after a terminating statement of the list (Go rejects nothing, but the statement would be dead)
	nl := append([]*S{}, (*list)[:at]...)
	nl = append(nl, ss...)
	nl = append(nl, (*list)[at:]...)
	*list = nl
	return kind + " in " + shape
}

// c20FramesMatch compares the reported frames with the specification's; a frame that is a function
// literal is compared by line only (the property quantifies over functions and methods; how a
// literal is named is not stated).
func c20FramesMatch(rep btReport, want []string) bool {
	got := append([]btFrame{rep.Head}, rep.Calls...)
	if len(got) != len(want) {
		return false
	}
	for i, w := range want {
		at := strings.LastIndex(w, "@")
		name, line := w[:at], w[at+1:]
		if fmt.Sprint(got[i].Line) != line {
			return false
		}
		if !strings.HasPrefix(name, "main.lit#") && got[i].Fn != name {
			return false
		}
	}
	return true
}

func c20Name(fn string) string {
	if fn == "" {
		return ""
	}
	return "main." + fn
}

// ---------------------------------------------------------------- (a) Backtrace.tla behaviours

type btFn struct {
	name    string // f1, M3 ...
	method  bool
	results int
}

// function 0 is the entry function Main
var btFns = []btFn{{"Main", false, 0}, {"f1", false, 1}, {"f2", false, 0}, {"M3", true, 1}, {"M4", true, 0}, {"f5", false, 2}, {"f6", false, 1}}

func btGoatName(f btFn) string {
	if f.method {
		return "main.T." + f.name
	}
	return "main." + f.name
}

// shapes per callee class: each is a list of lines with CALL standing for the call expression; the
// call's line is the one containing CALL
var btShapes = map[int][][]string{
	0: {{"CALL"}, {"if d >= 0 {", "\tCALL", "}"}, {"for i := 0; i < 1; i++ {", "\tCALL", "}"}, {"switch {", "case d >= 0:", "\tCALL", "}"},
		// through a function value, the argument list starting on the next line (the call is where the "(" is)
		{"fv := FVALUE", "fvSITE(", "\td + 1)"}},
	1: {{"CALL"}, {"acc += CALL"}, {"if CALL > 0 {", "\tacc++", "}"}, {"x := CALL", "acc += x"}, {"acc = add(acc, CALL)"}, {"arr[0] = CALL"},
		{"for i := CALL; i < 0; i++ {", "\tacc++", "}"}, {"switch CALL {", "case -1:", "\tacc++", "}"},
		{"fv := FVALUE", "acc += fvSITE(", "\td + 1)"}, {"acc += (CALLOPEN", "\td + 1))"}, {"TAILRETURN"}},
	2: {{"CALL"}, {"a, s := CALL", "acc += a + len(s)"}, {"if a, _ := CALL; a > 0 {", "\tacc++", "}"}, {"acc, str = CALL"}, {"arr[0], str = CALL"},
		{"for a, s := CALL; a < 0 && s == \"\"; a++ {", "}"}},
}

// fault kinds: lines with the fault on the first line; RET is replaced per result class
var btFaultsML = []btFaultML{
	{[]string{"lz := zero", "acc = acc /", "\tlz"}, 1},
	{[]string{"lz := zero", "la := acc + 7", "acc = la /", "\tlz"}, 2},
	{[]string{"lz := zero", "acc = acc %", "\tlz"}, 1},
	{[]string{"acc = 1 +", "\tarr[d+100]"}, 1},
	{[]string{"acc = add(acc,", "\t10/zero)"}, 1},
	{[]string{"if acc >= 0 &&", "\t10/zero > 1 {", "\tacc++", "}"}, 1},
	{[]string{"panic(", "\t\"boom\")"}, 0},
	{[]string{"acc = add(", "\tacc, 10%zero)"}, 1},
}

// multi-line fault kinds: the fault is on line at (0-based) of the statement lines
type btFaultML struct {
	lines []string
	at    int
}

var btFaults = [][]string{
	{"acc = 10 / zero"}, {"acc %= zero"}, {"acc = arr[d+100]"}, {"arr[d+100] = 1"}, {"nilm[1] = 1"}, {"acc = nilp.X"}, {"panic(\"boom\")"},
	{"arr = arr[d+100:]"}, {"acc = int(str[d+100])"}, {"nilp.X = 3"}, {"acc += arr[d+100] * 2"}, {"if 10/zero > 1 {", "\tacc++", "}"},
	{"for i := 10 / zero; i < 1; i++ {", "\tacc++", "}"}, {"println(arr[d+100])"}, {"acc = add(acc, 10%zero)"}, {"FAULTRETURN"}, {"nilf()"},
	{"println(strings.Repeat(\"x\", zero-1))"}, {"arr = make([]int, zero-5)"}, {"nilp.Get()"}, {"nils[0]++"}, {"switch 10 / zero {", "case 1:", "\tacc++", "}"},
}

type btSiteKey struct{ caller, callee, shape int }
type btFaultKey struct{ fn, kind int }
type btPos struct {
	file string
	line int
}

type btProgram struct {
	files   map[string]string
	order   []string // file names in order (Eval concatenates)
	sites   map[btSiteKey]btPos
	faults  map[btFaultKey]btPos
	nshapes []int
}

// btBuild generates the script-interpreter program. variant drives the layout (function order, case
// order, padding lines, one or two files).
// btVariant: index of the program being built (0: plain; 1: headers before the package clauses; 2: many names first)
var btVariant int

func btBuild(r *rand.Rand, twoFiles bool) *btProgram {
	bp := &btProgram{files: map[string]string{}, sites: map[btSiteKey]btPos{}, faults: map[btFaultKey]btPos{}}
	bp.nshapes = make([]int, len(btFns))
	for i, f := range btFns {
		bp.nshapes[i] = len(btShapes[f.results])
	}
	type fileB struct {
		name string
		b    strings.Builder
		line int
	}
	mk := func(name string) *fileB { return &fileB{name: name, line: 1} }
	fa := mk("main/a.go")
	fb := fa
	if twoFiles {
		fb = mk("main/b.go")
	}
	emit := func(f *fileB, s string) int {
		ln := f.line
		f.b.WriteString(s + "\n")
		f.line += 1 + strings.Count(s, "\n")
		return ln
	}
	// lines before the package clause (licence comment, build constraint, blank lines): positions count from the file's
	// first line
	if btVariant%3 == 1 {
		emit(fa, "// Copyright header.\n// Second line.\n\n//go:build goat\n")
	}
	emit(fa, "package main\n\nimport \"strings\"\n")
	if twoFiles {
		if btVariant%3 == 1 {
			emit(fb, "//go:build goat || linux\n\n// about this file\n")
		}
		emit(fb, "package main\n")
	}
	// in every third program some hundred other functions are declared first (the interpreter's functions then have
	// large indexes in the VM's name table)
	if btVariant%3 == 2 {
		var pad strings.Builder
		for k := 0; k < 140; k++ {
			fmt.Fprintf(&pad, "func pad%d(x int) int { return x + %d }\n", k, k)
		}
		emit(fa, pad.String())
	}
	emit(fa, "type T struct {\n\tX int\n}\n\nfunc (t *T) Get() int {\n\treturn t.X\n}\n")
	emit(fa, "var script []int\nvar pc int\nvar zero int\nvar nilm map[int]int\nvar nilp *T\nvar nilf func()\nvar nils []int\nvar str string = \"ab\"\nvar recv *T = &T{X: 1}\n")
	emit(fa, "func add(a int, b int) int {\n\treturn a + b\n}\n")
	emit(fa, "func cbTarget(n int) int {\n\tx := add(n, 3)\n\treturn add(x, 4) - n\n}\n")
	emit(fa, "func use(s string) int {\n\treturn len(strings.Repeat(s, 2))\n}\n")
	order := r.Perm(len(btFns))
	for _, fi := range order {
		fn := btFns[fi]
		f := fa
		if twoFiles && r.Intn(2) == 0 {
			f = fb
		}
		for k := r.Intn(3); k > 0; k-- {
			emit(f, "// padding")
		}
		ret := map[int]string{0: "return", 1: "return acc", 2: "return acc, str"}[fn.results]
		sig := ""
		rs := map[int]string{0: "", 1: " int", 2: " (int, string)"}[fn.results]
		switch {
		case fi == 0:
			sig = "func Main(s []int) {"
		case fn.method:
			sig = fmt.Sprintf("func (t *T) %s(d int)%s {", fn.name, rs)
		default:
			sig = fmt.Sprintf("func %s(d int)%s {", fn.name, rs)
		}
		emit(f, sig)
		if fi == 0 {
			emit(f, "\tscript = s\n\tpc = 0\n\td := 0")
		}
		emit(f, "\tacc := 0\n\tarr := []int{1, 2}\n\tfor pc < len(script) {\n\t\top := script[pc]\n\t\tpc++\n\t\tif cbOn {\n\t\t\tacc += hostcb(d) - 7\n\t\t}\n\t\tswitch op {")
		type caseT struct {
			code  int
			lines []string
			mark  func(pos btPos)
			at    int // index of the line that carries the position
		}
		var cases []caseT
		cases = append(cases, caseT{code: 0, lines: []string{ret}, at: -1})
		for ci := 1; ci < len(btFns); ci++ {
			callee := btFns[ci]
			call := callee.name + "(d + 1)"
			if callee.method {
				if fn.method {
					call = "t." + call
				} else {
					call = "recv." + call
				}
			}
			for si, sh := range btShapes[callee.results] {
				var lines []string
				at := 0
				skip := false
				for li, l := range sh {
					if l == "TAILRETURN" {
						switch fn.results {
						case 1:
							l = "return " + call
						case 2:
							l = "return " + call + ", str"
						default:
							skip = true
						}
					}
					if strings.Contains(l, "CALL") || strings.Contains(l, "SITE") || strings.HasPrefix(l, "return ") {
						at = li
					}
					l = strings.ReplaceAll(l, "CALLOPEN", strings.TrimSuffix(call, "d + 1)"))
					l = strings.ReplaceAll(l, "FVALUE", strings.TrimSuffix(call, "(d + 1)"))
					l = strings.ReplaceAll(l, "SITE", "")
					lines = append(lines, strings.ReplaceAll(l, "CALL", call))
				}
				if skip {
					continue
				}
				key := btSiteKey{fi, ci, si + 1}
				cases = append(cases, caseT{code: ci*100 + si + 1, lines: lines, at: at, mark: func(p btPos) { bp.sites[key] = p }})
			}
		}
		for ki, fl := range btFaults {
			var lines []string
			for _, l := range fl {
				if l == "FAULTRETURN" {
					l = map[int]string{0: "zero = 10 / zero", 1: "return 10 / zero", 2: "return 10 / zero, str"}[fn.results]
				}
				lines = append(lines, l)
			}
			key := btFaultKey{fi, ki + 1}
			cases = append(cases, caseT{code: 900 + ki + 1, lines: lines, at: 0, mark: func(p btPos) { bp.faults[key] = p }})
		}
		for ki, fl := range btFaultsML {
			key := btFaultKey{fi, len(btFaults) + ki + 1}
			cases = append(cases, caseT{code: 900 + len(btFaults) + ki + 1, lines: fl.lines, at: fl.at, mark: func(p btPos) { bp.faults[key] = p }})
		}
		r.Shuffle(len(cases), func(i, j int) { cases[i], cases[j] = cases[j], cases[i] })
		for _, cs := range cases {
			emit(f, fmt.Sprintf("\t\tcase %d:", cs.code))
			if r.Intn(4) == 0 {
				emit(f, "\t\t\t// note")
			}
			if r.Intn(4) == 0 && cs.code != 0 {
				emit(f, "\t\t\tacc++")
			}
			for li, l := range cs.lines {
				ln := emit(f, "\t\t\t"+l)
				if li == cs.at && cs.mark != nil {
					cs.mark(btPos{f.name, ln})
				}
			}
		}
		emit(f, "\t\t}\n\t}")
		if fn.results == 1 && r.Intn(2) == 0 {
			emit(f, "\tacc += use(str)")
		}
		emit(f, "\t"+ret+"\n}\n")
	}
	bp.files[fa.name] = fa.b.String()
	bp.order = []string{fa.name}
	if twoFiles {
		bp.files[fb.name] = fb.b.String()
		bp.order = append(bp.order, fb.name)
	}
	return bp
}

type btBehaviour struct {
	Script []struct {
		Op string `json:"op"`
		F  int    `json:"f"`
		S  int    `json:"s"`
	} `json:"script"`
	Status string `json:"status"`
	Depth  int    `json:"depth"`
	Report struct {
		Fn    int `json:"fn"`
		Kind  int `json:"kind"`
		Calls []struct {
			Caller int `json:"caller"`
			Callee int `json:"callee"`
			Shape  int `json:"shape"`
		} `json:"calls"`
	} `json:"report"`
}

func (b *btBehaviour) codes() []int {
	var out []int
	for _, o := range b.Script {
		switch o.Op {
		case "call":
			out = append(out, o.F*100+o.S)
		case "ret":
			out = append(out, 0)
		case "fault":
			out = append(out, 900+o.F)
		}
	}
	return out
}
