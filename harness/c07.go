package main

import (
	"bytes"
	"encoding/json"
	"fmt"
	"math/rand"
	"path/filepath"
	"sort"
	"strings"
	"time"
	"testing/fstest"

	goat "github.com/philhassey/goatlang"
)

// C07 — statements are stack-neutral and call frames are isolated on every path.
//
// M4: the real compiler's output for every corpus program (hook VerifDisasm) is the constant of
//     GoatVMAbs.tla; TLC explores (program, region, pc, depth) with every conditional jump taken both
//     ways and checks I0-I6 on every path; the reachable states are emitted and the harness checks
//     that depth is a function of pc (I4).
// M3: the real VM runs every program with the per-instruction tracer (hook verifStep); every
//     distinct intra-frame transition (opcode, operands, height change, distance to the next
//     instruction) is validated by TLC against the same effect table; statement-only programs must
//     leave no residual values.

func init() { register("C07", checkC07) }

type absIns struct {
	Op string `json:"op"`
	A  int    `json:"a"`
	B  int    `json:"b"`
	C  int    `json:"c"`
	X1 int    `json:"x1"`
	X2 int    `json:"x2"`
}

type absProg struct {
	ID    string   `json:"id"`
	Slots int      `json:"slots"`
	Code  []absIns `json:"code"`
	src   string
	files map[string]string
	lines []int
	funcs []string
}

// keepOperands says which raw operands the abstract machine needs (others may be huge type codes or
// constants that do not fit TLC's integers and are irrelevant to the stack discipline).
func toAbs(i goat.VerifIns) absIns {
	o := absIns{Op: i.Op}
	switch i.Op {
	case "FUNC":
		o.X1, o.X2 = goat.VerifSplit(i.A)
		o.B, o.C = i.B, i.C
	case "ITER":
		o.A = i.A
		o.X1, o.X2 = goat.VerifSplit(i.B)
		o.C = i.C
	case "FASTCALLATTR":
		o.A = i.A
		o.X1, o.X2 = goat.VerifSplit(i.C)
	case "APPEND", "STRUCT", "JUMP", "JUMPFALSE", "JUMPTRUE", "AND", "OR", "RETURN", "LOCALGET", "LOCALSET", "LOCALZERO",
		"FASTGET", "FASTSET", "FASTGETINT", "FASTSETINT", "FASTGETATTR", "FASTSETATTR":
		o.A = i.A
	case "LOCALINCDEC":
		o.A = i.A
	case "LOCALADD", "LOCALSUB", "LOCALMUL", "LOCALDIV":
		o.A, o.B = i.A, i.B
	case "CALL", "CALLVARIADIC":
		o.A, o.B = i.A, i.B
	case "FASTCALL":
		o.B, o.C = i.B, i.C
	case "RANGE":
		o.A, o.B = i.A, i.B
	case "NEWSLICE", "NEWSTRUCT":
		o.B = i.B
	case "NEWMAP":
		o.C = i.C
	}
	return o
}

func disasmProgram(files map[string]string, pkg string, optimize bool) (*absProg, error) {
	vm := goat.New(goat.WithStdout(&bytes.Buffer{}))
	ins, slots, err := vm.VerifDisasm(mapFS(files), pkg, optimize)
	if err != nil {
		return nil, err
	}
	p := &absProg{Slots: slots, files: files}
	for _, i := range ins {
		p.Code = append(p.Code, toAbs(i))
		p.lines = append(p.lines, i.Line)
		p.funcs = append(p.funcs, i.Func)
	}
	return p, nil
}

type stState struct {
	P  int `json:"p"`
	R  int `json:"r"`
	PC int `json:"pc"`
	D  int `json:"d"`
}

// c07Corpus returns single-package programs (package main with func Main) that are valid Go.
func c07Corpus(c *Ctx, r *rand.Rand) []map[string]string {
	var out []map[string]string
	for _, s := range seedPrograms {
		out = append(out, map[string]string{"main/main.go": s})
	}
	// the C04 table package: thousands of small functions over every operator and position
	fns := c04Functions(c, r)
	step := c.pick(5, 1)
	var sub []*c04Fn
	for i := 0; i < len(fns); i += step {
		sub = append(sub, fns[i])
	}
	for i := 0; i < len(sub); i += 400 {
		j := i + 400
		if j > len(sub) {
			j = len(sub)
		}
		out = append(out, map[string]string{"main/main.go": c04Source(sub[i:j]) + "\nfunc Main() {}\n"})
	}
	out = append(out, map[string]string{"main/main.go": c04fSource(c04fFunctions(c, r)) + "\nfunc Main() {}\n"})
	for i := 0; i < c.pick(30, 400); i++ {
		src, _ := c12GenProgram(r, i)
		out = append(out, map[string]string{"main/main.go": src})
	}
	kinds := []mapKinds{{"string", "int"}, {"int", "int"}, {"float", "int"}, {"bool", "int"}, {"string", "string"}}
	for i := 0; i < c.pick(40, 600); i++ {
		mk := kinds[r.Intn(len(kinds))]
		nk := 2 + r.Intn(6)
		if mk.Key == "bool" {
			nk = 2
		}
		out = append(out, map[string]string{"main/main.go": mapOpsToScript(mk, randMapHistory(r, nk, 5+r.Intn(25), 0))})
	}
	out = append(out, map[string]string{"main/main.go": c07MakeProgram})
	for _, g := range extraCorpus {
		out = append(out, g(c, r)...)
	}
	return out
}

// every form of make (with and without size hints, named types), inside functions, loops and as
// package-level initialisers
const c07MakeProgram = `package main

type M map[string]int
type L []int

var cache = make(map[string]int, 16)
var plain = make(map[int]string)
var buf = make([]int, 4)

func build(n int) map[string]int {
	m := make(map[string]int, n)
	for i := 0; i < n; i++ {
		t := make(map[int]int, i+1)
		t[i] = i
		m["k"] += len(t)
	}
	return m
}

func named(n int) int {
	a := make(M, n)
	b := make(L, n)
	a["x"] = n
	if n > 1 {
		c := make([]string, n)
		return len(c) + len(b) + a["x"]
	}
	return len(b)
}

func Main() {
	cache["a"] = 1
	plain[2] = "b"
	buf[1] = 7
	println(len(build(3)), named(1), named(3), len(cache), len(plain), buf[1])
}
`

// extraCorpus lets later generators (control flow, scoping, calls ...) contribute programs.
var extraCorpus []func(c *Ctx, r *rand.Rand) []map[string]string

func checkC07(c *Ctx) {
	c.Rule = "programs = hand-written seed programs, the C04 operator/position table packages (integers and float64), generated struct programs, generated map-history programs and the control-flow / scoping / call generators of C06, C08, C09; each compiled with the optimizer on and off; every region (top level, every function and function literal) explored on all paths; distinct_nontrivial = distinct (program, region) pairs whose code contains a jump or a call"
	c.Assumptions = []string{"GoatVMEffects.tla is the operand-stack effect table read off do.go at the pinned commit; the step traces of real runs re-validate it on every run", "corpus programs are valid Go (every statement is stack-neutral by the language definition)"}
	r := rand.New(rand.NewSource(c.Seed))
	corpus := c07Corpus(c, r)
	var progs []*absProg
	for i, files := range corpus {
		for _, opt := range []bool{true, false} {
			p, err := disasmProgram(files, "main", opt)
			if err != nil {
				c.violate(hashKey(fmt.Sprint(files)), "corpus program does not compile: "+firstLine(err.Error()), map[string]any{"files": files, "error": err.Error()})
				break
			}
			p.ID = fmt.Sprintf("prog%d/opt=%v", i, opt)
			progs = append(progs, p)
		}
	}
	c.Extra["programs"] = len(progs)
	// ---- M4: batches of programs per TLC run
	batch := 60
	type batchRes struct {
		states []stState
		bad    string
		err    any
		st     [2]int64
	}
	nb := (len(progs) + batch - 1) / batch
	results := make([]batchRes, nb)
	sem := make(chan struct{}, 4)
	done := make(chan int, nb)
	for b := 0; b < nb; b++ {
		go func(b int) {
			sem <- struct{}{}
			defer func() {
				if rr := recover(); rr != nil {
					results[b].err = rr
				}
				<-sem
				done <- b
			}()
			lo, hi := b*batch, (b+1)*batch
			if hi > len(progs) {
				hi = len(progs)
			}
			sub := &Ctx{ID: c.ID, Tier: c.Tier, Seed: c.Seed, Work: filepath.Join(c.Work, fmt.Sprintf("b%d", b)), Workers: 4}
			dir := sub.specWorkDir("abs")
			writeJSON(filepath.Join(dir, "progs.json"), progs[lo:hi])
			res := sub.runTLC(dir, TLCOpts{Module: "GoatVMAbs", Cfg: "MC_GoatVMAbs.cfg", Workers: 4, AllowError: true, HeapMB: 3000, ExtraArgs: []string{"-continue"}, Timeout: time.Duration(c.pick(120, 900)) * time.Second, PartialOnTimeout: true})
			for _, s := range res.Records["ST"] {
				var st stState
				if json.Unmarshal([]byte(s), &st) == nil {
					st.P += lo
					results[b].states = append(results[b].states, st)
				}
			}
			// with -continue TLC exits 0 even when invariants were violated
			if res.ExitCode != 0 || strings.Contains(res.Output, "is violated") {
				results[b].bad = res.Output
			}
			results[b].st = [2]int64{sub.States, sub.Transitions}
		}(b)
	}
	for i := 0; i < nb; i++ {
		<-done
	}
	depthAt := map[[3]int]int{}
	nontrivial := 0
	for b, br := range results {
		if br.err != nil {
			panic(br.err)
		}
		c.States += br.st[0]
		c.Transitions += br.st[1]
		if br.bad != "" {
			c07ReportStatic(c, progs, b*batch, br.bad)
		}
		for _, st := range br.states {
			k := [3]int{st.P, st.R, st.PC}
			if d, ok := depthAt[k]; ok && d != st.D {
				p := progs[st.P-1]
				c.violate(hashKey(fmt.Sprintf("I4|%v|%d", p.files, st.PC)), fmt.Sprintf("%s: operand-stack depth at pc %d (region %d, line %d, %s) depends on the path taken: %d and %d", p.ID, st.PC, st.R, p.lineOf(st.PC), p.opOf(st.PC), d, st.D),
					map[string]any{"files": p.files, "program": p.ID, "pc": st.PC, "region": st.R, "depths": []int{d, st.D}, "code": p.listing()})
			} else {
				depthAt[k] = st.D
			}
		}
	}
	seenRegion := map[[2]int]bool{}
	for k := range depthAt {
		rk := [2]int{k[0], k[1]}
		if !seenRegion[rk] {
			seenRegion[rk] = true
			p := progs[k[0]-1]
			if p.regionHasJumpOrCall(k[1]) {
				nontrivial++
			}
		}
	}
	c.DistinctCount = int64(nontrivial)
	c.Extra["regions_explored"] = len(seenRegion)
	c.Evaluations = int64(len(depthAt))
	if len(progs) > 0 {
		p := progs[0]
		c.sample(map[string]any{"program": p.ID, "code_head": p.listing()[:minInt(12, len(p.Code))]})
	}

	// ---- M3: step traces of real runs
	progByID := map[string]*absProg{}
	for _, p := range progs {
		progByID[p.ID] = p
	}
	obs := map[string]map[string]any{}
	obsSrc := map[string]string{}
	for i, files := range corpus {
		for _, opt := range []bool{true, false} {
			pid := fmt.Sprintf("prog%d/opt=%v", i, opt)
			c07Trace(c, files, opt, obs, obsSrc, pid, progByID[pid])
		}
	}
	// statement-only Eval programs leave nothing behind
	var lines []map[string]any
	var lineKeys []string
	for _, src := range seedStatementSnippets {
		vm := goat.New(goat.WithStdout(&bytes.Buffer{}))
		goat.VerifSetBudget(200000)
		rets, err := vm.Eval(fstest.MapFS{}, "s.go", src)
		goat.VerifSetBudget(-1)
		if err != nil {
			c.violate(hashKey(src), "statement-only snippet failed: "+firstLine(err.Error()), map[string]any{"source": src})
			continue
		}
		lines = append(lines, map[string]any{"kind": "residue", "n": len(rets), "op": "", "a": 0, "b": 0, "c": 0, "x1": 0, "x2": 0, "delta": 0, "next": 0, "src": src})
		lineKeys = append(lineKeys, "residue|"+src)
	}
	keys := make([]string, 0, len(obs))
	for k := range obs {
		keys = append(keys, k)
	}
	sort.Strings(keys)
	for _, k := range keys {
		lines = append(lines, obs[k])
		lineKeys = append(lineKeys, k)
	}
	c.Extra["distinct_observed_transitions"] = len(obs)
	if _, ok := obs["fresh|0"]; !ok {
		fatalf("no first store into a fresh local slot was observed: the frame-isolation invariant was not exercised")
	}
	c.Extra["frame_isolation"] = "first stores into local slots of new call frames were observed and found empty slots"
	bad := classifyFlatTrace(c, "Trace_GoatVM", "Trace_GoatVM.cfg", lines)
	for _, idx := range bad {
		l := lines[idx]
		if l["kind"] == "fresh" {
			c.violate(hashKey(lineKeys[idx]), fmt.Sprintf("the first store into a local slot of a new call frame found a left-over value there (type tag %v) instead of an empty slot: frames are not isolated; first seen in %v", l["n"], l["src"]), map[string]any{"observation": l, "program": obsSrc[lineKeys[idx]]})
			continue
		}
		if l["kind"] == "residue" {
			c.violate(hashKey(lineKeys[idx]), fmt.Sprintf("a program made only of statements left %v residual value(s): %v", l["n"], l["src"]), map[string]any{"source": l["src"]})
			continue
		}
		op := l["op"].(string)
		what := fmt.Sprintf("the VM executed %s a=%v b=%v c=%v x1=%v x2=%v with stack height change %v and next instruction at +%v, which GoatVMEffects.tla does not allow (first seen in %s)", op, l["a"], l["b"], l["c"], l["x1"], l["x2"], l["delta"], l["next"], obsSrc[lineKeys[idx]])
		if strings.Contains(op, "CALL") {
			c.violate(hashKey(lineKeys[idx]), "a call did not consume exactly its arguments / leave exactly the requested results: "+what, map[string]any{"observation": l, "program": obsSrc[lineKeys[idx]]})
		} else {
			fatalf("opcode table out of date (not a verdict): %s", what)
		}
	}
	c.TracesVsImpl = int64(len(lines) - len(bad))
	// negative control
	ncl := []map[string]any{{"kind": "step", "op": "ADD", "a": 0, "b": 0, "c": 0, "x1": 0, "x2": 0, "delta": -1, "next": 1, "n": 0}, {"kind": "step", "op": "ADD", "a": 0, "b": 0, "c": 0, "x1": 0, "x2": 0, "delta": 0, "next": 1, "n": 0}}
	nbad := classifyFlatTrace(c, "Trace_GoatVM", "Trace_GoatVM.cfg", ncl)
	if len(nbad) != 1 || nbad[0] != 1 {
		fatalf("negative control (ADD leaving both operands) not flagged: %v", nbad)
	}
	c.Extra["negative_control"] = "a fabricated ADD transition with the wrong height change was flagged by Trace_GoatVM as expected"
}

var seedStatementSnippets = []string{
	"x := 1; x++; x += 2",
	// a call as the init statement of if / else if yields nothing; copy yields its count only when asked for it
	"func tick() int { return 7 }; x := 0; if tick(); x == 0 { x = 1 }",
	"func tick() int { return 7 }; x := 0; if x > 0 { x = 2 } else if tick(); x == 0 { x = 1 }",
	"func none() { }; x := 0; if none(); x == 0 { x = 1 }",
	"a := []int{1, 2, 3}; b := []int{9}; n := copy(a, b); copy(a, b); _ = n",
	"func cp() int { a := []int{1, 2, 3}; n := copy(a, []int{7, 8}); return n + a[0] }; r := cp(); _ = r",
	"func f(_ int, _ int, x int) int { y := x; return y }; r := f(1, 2, 3); _ = r",
	// functions of the package and local function values named like builtins: their calls are ordinary calls
	"func delete(a, b, c int) { }; func g() int { k := 7; delete(1, 2, 3); return k }; x := g(); _ = x",
	"func len(a, b int) int { return a + b }; func g() int { k := 7; k = len(1, 2); return k }; x := g(); _ = x",
	"func g() int { copy := func(n int) int { return n + 1 }; k := 3; k = copy(k); return k }; x := g(); _ = x",
	// clauses with three and more values whose tests have different lengths; a bare call as the condition of a for statement
	"x := 2; y := 5; z := 0; switch x { case 9, 1, y + 10, 7: z = 1; case y + 20, 8, 2: z = 3; case 0, 11, 12, 13: z = 4 }",
	"func pick(x int) int { y := 5; switch x { case 9, 1, y + 10, 7: return 10; case y + 20, 8, 2: return 20 }; return 30 }; a := pick(1); b := pick(2); c := pick(15); d := pick(4); _ = a + b + c + d",
	"func more(n int) bool { return n < 2 }; k := 0; for more(k) { k++ }",
	"func more(n int) bool { return n < 2 }; func run() int { a := 7; k := 0; for more(k) { k++ }; return a + k }; r := run(); _ = r",
	"x := 0; for i := 0; i < 3; i++ { x += i }",
	"func f(a int) int { return a + 1 }; y := f(2); _ = y",
	"func g() (int, int) { return 1, 2 }; a, b := g(); a, b = b, a",
	"m := map[string]int{}; m[\"a\"] = 1; delete(m, \"a\")",
	"s := []int{1, 2}; s = append(s, 3); s[0] = 4",
	"type T struct { X int }; t := &T{}; t.X = 3; t.X++",
	"x := 1; if x > 0 { x = 2 } else { x = 3 }",
	"x := 2; switch x { case 1: x = 0; case 2: x = 5; default: x = 9 }",
	"func h() {}; h(); for i := 0; i < 2; i++ { h() }",
	"var v []int; for _, e := range []int{1, 2} { v = append(v, e) }",
	"func f() int { return 1 }; for f(); false; f() { }",
	"func f() int { return 1 }; func h(a int) {}; h(f())",
	"import \"fmt\"; fmt.Sprint(1)",
	"import \"strings\"; strings.Repeat(\"a\", 2)",
	"func f(a int) bool { return a > 0 }; switch { case f(1): }",
	// every form of make, new, copy, delete, len, cap-less builtins and conversions as statements / initialisers
	"m := make(map[string]int, 8); m[\"a\"] = 1",
	"m := make(map[string]int); n := make(map[int][]int, 2); _ = m; _ = n",
	"s := make([]int, 3); t := make([]string, 0); s[0] = len(t)",
	"type M map[string]int; m := make(M, 4); m[\"k\"] = 2",
	"type L []int; l := make(L, 2); l[1] = 5",
	"a := []int{1, 2, 3}; b := make([]int, 2); copy(b, a); copy(b, a[1:])",
	"x := float64(3); y := int(x); z := uint8(y); s := string(rune(65)); _ = z; _ = s",
	"var f func(int) int; f = func(a int) int { return a }; f(1); g := f; _ = g(2)",
	"for i := 0; ; i++ { if i > 1 { break } }",
	"i := 0; for ; i < 2; i++ { }; for ; i < 4; { i++ }",
	"xs := []int{1, 2}; for i := range xs { xs[i]++ }; for range xs { }",
	"func v(xs ...int) int { return len(xs) }; v(); v(1, 2); v([]int{1}...)",
}

func (p *absProg) lineOf(pc int) int {
	if pc >= 1 && pc <= len(p.lines) {
		return p.lines[pc-1]
	}
	return 0
}
func (p *absProg) opOf(pc int) string {
	if pc >= 1 && pc <= len(p.Code) {
		return p.Code[pc-1].Op
	}
	return "end"
}
func (p *absProg) listing() []string {
	var out []string
	for i, in := range p.Code {
		out = append(out, fmt.Sprintf("%d: %s a=%d b=%d c=%d x=%d/%d  ; line %d %s", i+1, in.Op, in.A, in.B, in.C, in.X1, in.X2, p.lines[i], p.funcs[i]))
	}
	return out
}
func (p *absProg) regionHasJumpOrCall(r int) bool {
	lo, hi := 1, len(p.Code)
	if r != 0 {
		f := p.Code[r-1]
		h := f.X1
		if h < 0 {
			h = -h
		}
		lo, hi = r+1+h+f.X2, r+h+f.X2+f.C
	}
	for pc := lo; pc <= hi && pc <= len(p.Code); pc++ {
		op := p.Code[pc-1].Op
		if strings.Contains(op, "JUMP") || strings.Contains(op, "CALL") || op == "ITER" || op == "AND" || op == "OR" {
			return true
		}
	}
	return false
}

func c07ReportStatic(c *Ctx, progs []*absProg, base int, out string) {
	// TLC -continue prints every invariant violation with the state; collect (invariant, p, r, pc, d)
	var inv string
	seen := map[string]bool{}
	lines := strings.Split(out, "\n")
	for i := 0; i < len(lines); i++ {
		ln := lines[i]
		if strings.HasPrefix(ln, "Error: Invariant ") && strings.Contains(ln, " is violated") {
			inv = strings.TrimSuffix(strings.TrimPrefix(ln, "Error: Invariant "), " is violated.")
			inv = strings.TrimSuffix(inv, " is violated by the initial state:")
			var st stState
			for j := i + 1; j < len(lines); j++ {
				if strings.HasPrefix(lines[j], "Error: Invariant") {
					break
				}
				t := strings.TrimSpace(lines[j])
				fmt.Sscanf(t, "/\\ p = %d", &st.P)
				fmt.Sscanf(t, "/\\ r = %d", &st.R)
				fmt.Sscanf(t, "/\\ pc = %d", &st.PC)
				fmt.Sscanf(t, "/\\ d = %d", &st.D)
			}
			// the LAST state printed in a counterexample is the violating one: rescan bounded block
			if st.P == 0 {
				continue
			}
			p := progs[base+st.P-1]
			key := fmt.Sprintf("%s|%v|%d|%d", inv, p.files, st.R, st.PC)
			if seen[key] {
				continue
			}
			seen[key] = true
			if inv == "L1_NoMissingReturn" {
				// a generator produced a function without final return: a lead about the corpus, not the property
				fatalf("corpus program %s has a function that can fall off its end (region %d): %v", p.ID, st.R, p.files)
			}
			if inv == "I0_KnownOpcode" {
				fatalf("opcode table out of date: %s pc %d has opcode %q unknown to GoatVMEffects.tla", p.ID, st.PC, p.opOf(st.PC))
			}
			c.violate(hashKey(key), fmt.Sprintf("%s violated on a path through %s: region %d, pc %d (%s, line %d), depth %d", inv, p.ID, st.R, st.PC, p.opOf(st.PC), p.lineOf(st.PC), st.D),
				map[string]any{"invariant": inv, "files": p.files, "program": p.ID, "region": st.R, "pc": st.PC, "depth": st.D, "code": p.listing()})
		}
	}
	if len(seen) == 0 && !strings.Contains(out, "is violated") {
		fatalf("TLC failed on GoatVMAbs:\n%s", tlcErrorText(out))
	}
}

// c07Trace runs one program with the tracer and adds its distinct intra-frame transitions to obs.
func c07Trace(c *Ctx, files map[string]string, opt bool, obs map[string]map[string]any, obsSrc map[string]string, id string, prog *absProg) {
	var steps []goat.VerifStepInfo
	goat.VerifSetTracer(func(s goat.VerifStepInfo) {
		if len(steps) < 300000 {
			steps = append(steps, s)
		}
	})
	res := runProgram(files, "main", "main.Main", 0, opt, 150000)
	goat.VerifSetTracer(nil)
	_ = res
	// next executed instruction of the same frame: the first later step whose call depth is <= ours
	// stack of pending steps per call depth
	pending := map[int]int{}
	// frame isolation: the first store into a local slot of a new activation (parameters excepted) must
	// find the slot empty - whatever earlier activations left at that stack position
	capAll := 0
	for _, s := range steps {
		if s.CodeCap > capAll {
			capAll = s.CodeCap
		}
	}
	nargsOf := func(s goat.VerifStepInfo) int {
		if prog == nil {
			return -1
		}
		body0 := capAll - s.CodeCap // index (0-based) of the first instruction of the frame's code
		for f, ins := range prog.Code {
			if ins.Op != "FUNC" {
				continue
			}
			na := ins.X1
			if na < 0 {
				na = -na
			}
			if f+1+na+ins.X2 == body0 && ins.C == s.CodeLen {
				return na
			}
		}
		return -1
	}
	type activation struct {
		nargs   int
		written map[int]bool
	}
	acts := map[int]*activation{}
	for j, s := range steps {
		if j > 0 && steps[j-1].CallDepth < s.CallDepth && s.N == 0 {
			acts[s.CallDepth] = &activation{nargs: nargsOf(s), written: map[int]bool{}}
		}
		if a := acts[s.CallDepth]; a != nil && a.nargs >= 0 {
			switch s.Op {
			case "LOCALSET", "LOCALZERO":
				if s.A >= a.nargs && !a.written[s.A] {
					k := fmt.Sprintf("fresh|%d", s.SlotType)
					if _, ok := obs[k]; !ok {
						obs[k] = map[string]any{"kind": "fresh", "n": s.SlotType, "op": s.Op, "a": s.A, "b": 0, "c": 0, "x1": 0, "x2": 0, "delta": 0, "next": 0, "src": fmt.Sprintf("%s line %d (%s)", id, s.Line, s.Func)}
						obsSrc[k] = id
					}
				}
				a.written[s.A] = true
			case "RANGE", "LOCALINCDEC":
				a.written[s.A] = true
			case "ITER":
				b1, b2 := goat.VerifSplit(s.B)
				a.written[b1], a.written[b2] = true, true
			}
		}
		// every pending step at a depth greater than s.CallDepth has left its frame
		for d := range pending {
			if d > s.CallDepth {
				delete(pending, d)
			}
		}
		if i, ok := pending[s.CallDepth]; ok {
			a := steps[i]
			if a.BaseN == s.BaseN && a.CodeCap == s.CodeCap && a.CodeLen == s.CodeLen {
				ins := toAbs(goat.VerifIns{Op: a.Op, A: a.A, B: a.B, C: a.C})
				o := map[string]any{"kind": "step", "op": ins.Op, "a": ins.A, "b": ins.B, "c": ins.C, "x1": ins.X1, "x2": ins.X2,
					"delta": s.StackLen - a.StackLen, "next": s.N - a.N, "n": 0}
				k := fmt.Sprintf("%s|%d|%d|%d|%d|%d|%d|%d", ins.Op, ins.A, ins.B, ins.C, ins.X1, ins.X2, s.StackLen-a.StackLen, s.N-a.N)
				if _, ok := obs[k]; !ok {
					obs[k] = o
					obsSrc[k] = id
				}
				c.Evaluations++
			}
		}
		pending[s.CallDepth] = j
	}
}
