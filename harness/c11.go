package main

import (
	"fmt"
	"math/rand"
	"strings"

	goat "github.com/philhassey/goatlang"
)

// C11 — slices alias, grow and copy as Go slices do.
//
// M3: histories of make / literal / sub-slice / element write / element read / append /
// append-spread / copy / len / range / assignment over a pool of 4 aliasing slice variables are run
// through generated script source, through the host Value API, and on native Go slices
// (calibration). After every step the contents of every variable are logged; TLC validates the
// traces against GoSlice.tla, where a growing append may allocate ANY admissible capacity (not logged:
// TLC searches for a capacity assignment that explains all observations). Out-of-range operations
// must panic (and end the trace).

func init() { register("C11", checkC11) }

type slOp struct {
	Op    string
	V     int // target variable 1..4
	Src   int
	From  int
	I, J  int
	X     int
	N     int
	Elems []int
}

const c11NV = 4

type slImpl interface {
	apply(op slOp) (panicked bool)
	contents(v int) []int
}

// ---- native Go
type goSl struct{ v [c11NV + 1][]int }

func (g *goSl) contents(v int) []int { return append([]int{}, g.v[v]...) }
func (g *goSl) apply(op slOp) (p bool) {
	defer func() {
		if r := recover(); r != nil {
			p = true
		}
	}()
	switch op.Op {
	case "make":
		g.v[op.V] = make([]int, op.N)
	case "lit":
		g.v[op.V] = append([]int{}, op.Elems...)
		g.v[op.V] = g.v[op.V][:len(op.Elems):len(op.Elems)]
	case "nil":
		g.v[op.V] = nil
	case "assign":
		g.v[op.V] = g.v[op.Src]
	case "sub":
		g.v[op.V] = g.v[op.Src][op.I:op.J]
	case "write":
		g.v[op.V][op.I] = op.X
	case "read":
		_ = g.v[op.V][op.I]
	case "append":
		g.v[op.V] = append(g.v[op.Src], op.Elems...)
	case "appendspread":
		g.v[op.V] = append(g.v[op.Src], g.v[op.From]...)
	case "copy":
		copy(g.v[op.V], g.v[op.Src])
	}
	return false
}

// ---- host Value API
type hostSl struct{ v [c11NV + 1]goat.Value }

func newHostSl() *hostSl {
	h := &hostSl{}
	for i := range h.v {
		h.v[i] = goat.NewSlice(goat.TypeInt32, nil).Slice(0, 0) // placeholder, replaced by "nil" semantics below
		h.v[i] = nilSliceValue()
	}
	return h
}

// a typed nil slice as a script would hold it
func nilSliceValue() goat.Value {
	vm := goat.New()
	rets, err := vm.Eval(nil, "n.go", "var x []int; x")
	if err != nil || len(rets) != 1 {
		fatalf("cannot obtain a nil slice value: %v", err)
	}
	return rets[0]
}

func (h *hostSl) contents(v int) []int {
	s := h.v[v]
	out := []int{}
	for i := 0; i < s.Len(); i++ {
		e, _ := s.Get(goat.Int(i))
		out = append(out, e.Int())
	}
	return out
}
func (h *hostSl) apply(op slOp) (p bool) {
	defer func() {
		if r := recover(); r != nil {
			p = true
		}
	}()
	vals := func(xs []int) []goat.Value {
		o := make([]goat.Value, len(xs))
		for i, x := range xs {
			o[i] = goat.Int(x)
		}
		return o
	}
	switch op.Op {
	case "make":
		h.v[op.V] = goat.NewSlice(goat.TypeInt32, vals(make([]int, op.N)))
	case "lit":
		h.v[op.V] = goat.NewSlice(goat.TypeInt32, vals(op.Elems))
	case "nil":
		h.v[op.V] = nilSliceValue()
	case "assign":
		h.v[op.V] = h.v[op.Src]
	case "sub":
		h.v[op.V] = h.v[op.Src].Slice(op.I, op.J)
	case "write":
		h.v[op.V].Set(goat.Int(op.I), goat.Int(op.X))
	case "read":
		h.v[op.V].Get(goat.Int(op.I))
	case "append":
		h.v[op.V] = h.v[op.Src].Append(vals(op.Elems)...)
	case "appendspread":
		var items []goat.Value
		f := h.v[op.From]
		for i := 0; i < f.Len(); i++ {
			e, _ := f.Get(goat.Int(i))
			items = append(items, e)
		}
		h.v[op.V] = h.v[op.Src].Append(items...)
	case "copy":
		return true // the host API has no copy: not generated for this driver
	}
	return false
}

var c11Names = []string{"", "a", "b", "c", "d"}

func c11Script(ops []slOp) string {
	var b strings.Builder
	b.WriteString("package main\n\nfunc dump(tag string, s []int) {\n\tprint(tag, \" \", len(s))\n\tfor _, e := range s {\n\t\tprint(\" \", e)\n\t}\n\tprintln()\n}\n\nfunc Main() {\n\tvar a []int\n\tvar b []int\n\tvar c []int\n\tvar d []int\n")
	ints := func(xs []int) string {
		var ss []string
		for _, x := range xs {
			ss = append(ss, fmt.Sprint(x))
		}
		return strings.Join(ss, ", ")
	}
	for k, op := range ops {
		fmt.Fprintf(&b, "\tprintln(\"OP\", %d)\n", k)
		n := c11Names
		switch op.Op {
		case "make":
			fmt.Fprintf(&b, "\t%s = make([]int, %d)\n", n[op.V], op.N)
		case "lit":
			fmt.Fprintf(&b, "\t%s = []int{%s}\n", n[op.V], ints(op.Elems))
		case "nil":
			fmt.Fprintf(&b, "\t%s = nil\n", n[op.V])
		case "assign":
			fmt.Fprintf(&b, "\t%s = %s\n", n[op.V], n[op.Src])
		case "sub":
			if op.I < 0 || op.J < 0 {
				fmt.Fprintf(&b, "\tlo%d, hi%d := %d, %d\n\t%s = %s[lo%d:hi%d]\n", k, k, op.I, op.J, n[op.V], n[op.Src], k, k)
			} else {
				fmt.Fprintf(&b, "\t%s = %s[%d:%d]\n", n[op.V], n[op.Src], op.I, op.J)
			}
		case "write":
			fmt.Fprintf(&b, "\t%s[%d] = %d\n", n[op.V], op.I, op.X)
		case "read":
			fmt.Fprintf(&b, "\tprintln(\"R\", %s[%d])\n", n[op.V], op.I)
		case "append":
			fmt.Fprintf(&b, "\t%s = append(%s, %s)\n", n[op.V], n[op.Src], ints(op.Elems))
		case "appendspread":
			fmt.Fprintf(&b, "\t%s = append(%s, %s...)\n", n[op.V], n[op.Src], n[op.From])
		case "copy":
			fmt.Fprintf(&b, "\tcopy(%s, %s)\n", n[op.V], n[op.Src])
		}
		b.WriteString("\tdump(\"a\", a)\n\tdump(\"b\", b)\n\tdump(\"c\", c)\n\tdump(\"d\", d)\n")
	}
	b.WriteString("}\n")
	return b.String()
}

func c11Event(op slOp, panicked bool, obs [][]int, readVal int) map[string]any {
	e := map[string]any{"op": op.Op, "v": op.V, "src": op.Src, "from": op.From, "i": op.I, "j": op.J, "x": op.X, "n": op.N, "elems": op.Elems, "panic": panicked, "dst": op.V, "obs": obs}
	if op.Elems == nil {
		e["elems"] = []int{}
	}
	if op.Op == "read" {
		e["x"] = readVal
	}
	return e
}

func c11RandHistory(r *rand.Rand, n int, allowCopy bool) []slOp {
	var ops []slOp
	lens := [c11NV + 1]int{} // lower bound knowledge is not needed: indexes are drawn from 0..5 and may panic only at the end
	_ = lens
	for k := 0; k < n; k++ {
		v, s := 1+r.Intn(c11NV), 1+r.Intn(c11NV)
		switch x := r.Intn(100); {
		case x < 10:
			ops = append(ops, slOp{Op: "lit", V: v, Elems: randInts(r, 1+r.Intn(5))})
		case x < 16:
			ops = append(ops, slOp{Op: "make", V: v, N: r.Intn(5)})
		case x < 19:
			ops = append(ops, slOp{Op: "nil", V: v})
		case x < 27:
			ops = append(ops, slOp{Op: "assign", V: v, Src: s})
		case x < 45:
			ops = append(ops, slOp{Op: "sub", V: v, Src: s, I: -1}) // bounds filled in by the runner from the current length
		case x < 60:
			ops = append(ops, slOp{Op: "write", V: v, I: -1, X: 10 + r.Intn(80)})
		case x < 66:
			ops = append(ops, slOp{Op: "read", V: v, I: -1})
		case x < 88:
			ops = append(ops, slOp{Op: "append", V: v, Src: s, Elems: randInts(r, 1+r.Intn(3))})
		case x < 94:
			ops = append(ops, slOp{Op: "appendspread", V: v, Src: s, From: 1 + r.Intn(c11NV)})
		default:
			if allowCopy && v != s && r.Intn(2) == 0 {
				// overlapping copy inside one backing array: shift right (insert idiom) or left (delete idiom)
				ops = append(ops, slOp{Op: "lit", V: v, Elems: randInts(r, 4+r.Intn(3))})
				if r.Intn(2) == 0 {
					ops = append(ops, slOp{Op: "sub", V: s, Src: v, I: -1, N: 1}, slOp{Op: "copy", V: s, Src: v})
				} else {
					ops = append(ops, slOp{Op: "sub", V: s, Src: v, I: -1, N: 1}, slOp{Op: "copy", V: v, Src: s})
				}
			} else if allowCopy {
				ops = append(ops, slOp{Op: "copy", V: v, Src: s})
			} else {
				ops = append(ops, slOp{Op: "append", V: v, Src: v, Elems: randInts(r, 1)})
			}
		}
	}
	return ops
}

func randInts(r *rand.Rand, n int) []int {
	out := make([]int, n)
	for i := range out {
		out[i] = 1 + r.Intn(9)
	}
	return out
}

// c11Concretize fixes the index operands against a reference run on native Go slices, so that all
// operations are in range except (optionally) the last one, which is made out of range.
func c11Concretize(r *rand.Rand, ops []slOp, failLast bool) []slOp {
	ref := &goSl{}
	var out []slOp
	// exact[v]: the capacity behind variable v is known exactly (the array came from a literal or make and
	// has not been outgrown), so slicing beyond the length up to that capacity has a certain outcome
	var exact [c11NV + 1]bool
	for k, op := range ops {
		last := failLast && k == len(ops)-1
		switch op.Op {
		case "sub":
			n := len(ref.v[op.Src])
			if last && r.Intn(3) == 0 {
				// a bound that is negative at run time (held in a variable: Go rejects a negative constant when compiling)
				op.I, op.J = 0, -1-r.Intn(2)
				if r.Intn(2) == 0 && n >= 1 {
					op.I, op.J = -1, n
				}
			} else if last {
				op.I, op.J = 0, n+1+r.Intn(2)
				if cap(ref.v[op.Src]) >= op.J { // Go allows slicing up to the capacity: make it really invalid
					op.I, op.J = n+1, n+1
					if cap(ref.v[op.Src]) >= n+1 {
						op.I, op.J = 2, 1
						if n < 2 {
							op = slOp{Op: "read", V: op.V, I: len(ref.v[op.V])}
						}
					}
				}
			} else if op.N == 1 && n >= 2 {
				op.I, op.J = 1, n // the tail: overlaps the source from its second element on
			} else if cp := cap(ref.v[op.Src]); exact[op.Src] && cp > n && r.Intn(3) == 0 {
				// re-slice beyond the length, within the capacity: elements hidden by an earlier s[:k] reappear
				op.I = r.Intn(n + 1)
				op.J = n + 1 + r.Intn(cp-n)
			} else {
				op.I = r.Intn(n + 1)
				op.J = op.I + r.Intn(n-op.I+1)
			}
		case "write", "read":
			n := len(ref.v[op.V])
			if last {
				op.I = n + r.Intn(2)
			} else if n == 0 {
				op = slOp{Op: "append", V: op.V, Src: op.V, Elems: randInts(r, 2)}
			} else {
				op.I = r.Intn(n)
			}
		}
		switch op.Op {
		case "lit", "make":
			exact[op.V] = true
		case "nil":
			exact[op.V] = false
		case "assign", "sub":
			exact[op.V] = exact[op.Src]
		case "append":
			exact[op.V] = exact[op.Src] && len(ref.v[op.Src])+len(op.Elems) <= cap(ref.v[op.Src])
		case "appendspread":
			exact[op.V] = exact[op.Src] && len(ref.v[op.Src])+len(ref.v[op.From]) <= cap(ref.v[op.Src])
		}
		out = append(out, op)
		if ref.apply(op) {
			break
		}
	}
	return out
}

func c11Run(impl slImpl, ops []slOp) []map[string]any {
	var evs []map[string]any
	for _, op := range ops {
		p := impl.apply(op)
		obs := [][]int{}
		for v := 1; v <= c11NV; v++ {
			obs = append(obs, impl.contents(v))
		}
		rv := 0
		if op.Op == "read" && !p {
			c := impl.contents(op.V)
			if op.I < len(c) {
				rv = c[op.I]
			}
		}
		evs = append(evs, c11Event(op, p, obs, rv))
		if p {
			break
		}
	}
	return evs
}

func c11RunScript(ops []slOp) ([]map[string]any, string, error) {
	src := c11Script(ops)
	res := runMain(src, true)
	var evs []map[string]any
	cur := -1
	var obs [][]int
	readVal := map[int]int{}
	flush := func(panicked bool) {
		if cur >= 0 {
			evs = append(evs, c11Event(ops[cur], panicked, obs, readVal[cur]))
		}
	}
	for _, line := range strings.Split(res.Stdout, "\n") {
		f := strings.Fields(line)
		if len(f) == 0 {
			continue
		}
		switch f[0] {
		case "OP":
			if cur >= 0 && len(obs) != c11NV {
				return nil, src, fmt.Errorf("operation %d printed %d dumps", cur, len(obs))
			}
			flush(false)
			fmt.Sscan(f[1], &cur)
			obs = nil
		case "R":
			var x int
			fmt.Sscan(f[1], &x)
			readVal[cur] = x
		case "a", "b", "c", "d":
			var n int
			fmt.Sscan(f[1], &n)
			vals := []int{}
			for _, t := range f[2:] {
				var x int
				if _, err := fmt.Sscan(t, &x); err != nil {
					return nil, src, fmt.Errorf("unparseable element %q in %q", t, line)
				}
				vals = append(vals, x)
			}
			if n != len(vals) {
				return nil, src, fmt.Errorf("len() and range disagree in %q", line)
			}
			obs = append(obs, vals)
		default:
			return nil, src, fmt.Errorf("unexpected output %q", line)
		}
	}
	if res.Failed() {
		// the operation in progress panicked: no dumps after it
		if cur >= 0 && len(obs) == 0 {
			prev := [][]int{{}, {}, {}, {}}
			if len(evs) > 0 {
				prev = evs[len(evs)-1]["obs"].([][]int)
			}
			obs = prev
			flush(true)
		} else {
			return nil, src, fmt.Errorf("script failed outside an operation: %s", firstLine(res.ErrString()))
		}
	} else {
		flush(false)
	}
	return evs, src, nil
}

func checkC11(c *Ctx) {
	c.Rule = "histories = seeded random sequences (8..30 operations) of make / literal / nil / assignment / sub-slice / element write / element read / append / append-spread / copy over 4 aliasing variables, indexes drawn in range from a reference run (a quarter of the histories end with an out-of-range operation), each run through script source, the host Value API and native Go slices; distinct_nontrivial = distinct histories containing an append after an aliasing step"
	c.Assumptions = []string{"slicing beyond the length (up to the capacity) and cap() are outside the drivers: they would expose the growth policy", "native Go slices calibrate GoSlice.tla (their traces must be accepted)", "TLC evaluates GoSlice.tla as written; growth capacity is bounded by 2*needed+8"}
	r := rand.New(rand.NewSource(c.Seed))
	n := c.pick(500, 12000)
	var traces [][]MapEvent
	var ids []string
	var meta []map[string]any
	for i := 0; i < n; i++ {
		ops := c11Concretize(r, c11RandHistory(r, 8+r.Intn(c.pick(14, 24)), true), i%4 == 3)
		aliased, nontrivial := false, false
		for _, op := range ops {
			if op.Op == "sub" || op.Op == "assign" {
				aliased = true
			}
			if aliased && (op.Op == "append" || op.Op == "appendspread") {
				nontrivial = true
			}
		}
		if nontrivial {
			c.distinct(hashKey(fmt.Sprint(ops)))
		}
		// native Go (calibration)
		if i%3 == 0 {
			traces = append(traces, toMapEvents(c11Run(&goSl{}, ops)))
			ids = append(ids, fmt.Sprintf("go/%d", i))
			meta = append(meta, map[string]any{"source": "go", "ops": ops})
		}
		// host API (no copy)
		hops := ops
		for k, op := range ops {
			if op.Op == "copy" {
				hops = ops[:k]
				break
			}
		}
		traces = append(traces, toMapEvents(c11Run(newHostSl(), hops)))
		ids = append(ids, fmt.Sprintf("host/%d", i))
		meta = append(meta, map[string]any{"source": "host", "ops": hops})
		// script
		evs, src, err := c11RunScript(ops)
		if err != nil {
			c.violate(hashKey(src), "slice script: "+err.Error(), map[string]any{"source": src, "ops": ops})
			continue
		}
		traces = append(traces, toMapEvents(evs))
		ids = append(ids, fmt.Sprintf("script/%d", i))
		meta = append(meta, map[string]any{"source": "script", "ops": ops, "script": src})
		c.Evaluations += int64(len(ops) * 3)
	}
	for i := 0; i < 2; i++ {
		c.sample(map[string]any{"id": ids[len(ids)/2+i], "events": traces[len(ids)/2+i]})
	}
	rejected := validateTraceBatchSharded(c, "Trace_GoSlice", "Trace_GoSlice.cfg", traces, ids)
	for idx, evpos := range rejected {
		m := meta[idx]
		if m["source"] == "go" {
			fatalf("calibration failure: GoSlice.tla rejects a native Go trace at event %d: %v", evpos, traces[idx])
		}
		var bad any
		if evpos >= 0 && evpos < len(traces[idx]) {
			bad = traces[idx][evpos]
		}
		c.violate(hashKey(fmt.Sprint(m["source"], m["ops"])), fmt.Sprintf("slice trace %s not explained by GoSlice.tla at event %d: %v", ids[idx], evpos, clip(fmt.Sprint(bad), 300)),
			map[string]any{"trace_id": ids[idx], "ops": m["ops"], "script": m["script"], "events": traces[idx], "first_unexplained_event": evpos})
	}
	c.TracesVsImpl = int64(len(traces) - len(rejected))
	// negative control: an append that changes the length of another variable sharing the header
	nc := []MapEvent{
		{"op": "lit", "v": 1, "src": 0, "from": 0, "i": 0, "j": 0, "x": 0, "n": 0, "elems": []int{1, 2, 3}, "panic": false, "dst": 1, "obs": [][]int{{1, 2, 3}, {}, {}, {}}},
		{"op": "sub", "v": 2, "src": 1, "from": 0, "i": 0, "j": 2, "x": 0, "n": 0, "elems": []int{}, "panic": false, "dst": 2, "obs": [][]int{{1, 2, 3}, {1, 2}, {}, {}}},
		{"op": "append", "v": 3, "src": 2, "from": 0, "i": 0, "j": 0, "x": 0, "n": 0, "elems": []int{7}, "panic": false, "dst": 3, "obs": [][]int{{1, 2, 7}, {1, 2, 7}, {1, 2, 7}, {}}},
	}
	bad := validateTraceBatch(c, "Trace_GoSlice", "Trace_GoSlice.cfg", [][]MapEvent{nc}, []string{"negative-control"})
	if p, ok := bad[0]; !ok || p != 2 {
		fatalf("negative control (append growing another variable) not rejected where expected: %v", bad)
	}
	c.Extra["negative_control"] = "a trace in which an append changed the length of another variable was rejected by Trace_GoSlice as expected"
	c.Extra["traces"] = len(traces)
	c11RangeFamily(c)
}

func toMapEvents(evs []map[string]any) []MapEvent {
	out := make([]MapEvent, len(evs))
	for i, e := range evs {
		out[i] = MapEvent(e)
	}
	return out
}

// c11RangePrograms: range loops whose body changes the slice being ranged over (a later element written directly, through
// an aliasing sub-slice, by copy, by an in-place append through a shorter view; the variable reassigned or grown): Go
// evaluates the range operand once and reads each element when its iteration starts. Meaning from MiniGo.tla, calibrated
// against the Go toolchain.
func c11RangePrograms(r *rand.Rand, n int) []*Prog {
	ts := SliceOf(TInt)
	idx := func(x *E, i *E) *E { return &E{K: "index", Ty: TInt, X: x, I: i} }
	sl := func(x *E, lo, hi *E) *E { return &E{K: "slice", Ty: ts, X: x, Lo: lo, Hi: hi} }
	rng := func(x *E, k, e string, body ...*S) *S { return &S{K: "range", X: x, KName: k, VName: e, Body: body} }
	iff := func(c *E, then ...*S) *S { return &S{K: "if", Cond: c, Then: then} }
	add := func(name string, e *E) *S { return &S{K: "opassign", Lhs: []*E{v(name, TInt)}, Op: "+", E: e} }
	idx2 := func(x *E, i int64) *E { return &E{K: "index", Ty: ts, X: x, I: lit(TInt, i)} }
	slit := func(xs ...int64) *E {
		e := &E{K: "slicelit", Ty: ts}
		for _, x := range xs {
			e.Args = append(e.Args, lit(TInt, x))
		}
		return e
	}
	dump := func(tag string, s string) []*S {
		return []*S{pr(sS(tag), lenOf(v(s, ts))), rng(v(s, ts), "_", "e", pr(sS(" "), v("e", TInt)))}
	}
	var progs []*Prog
	for id := 0; id < n; id++ {
		m := 3 + r.Intn(4)
		vals := make([]int64, m)
		for i := range vals {
			vals[i] = int64(1 + r.Intn(9))
		}
		s, i, e := v("s", ts), v("i", TInt), v("e", TInt)
		var pfuncs []*Func
		body := []*S{dcl("s", slit(vals...)), dcl("acc", lit(TInt, 0))}
		blocks := [][]*S{
			{ // a later element written directly
				rng(s, "i", "e", iff(bin("<", TBool, bin("+", TInt, i, lit(TInt, 1)), lenOf(s)), &S{K: "opassign", Lhs: []*E{idx(s, bin("+", TInt, i, lit(TInt, 1)))}, Op: "+", E: e}))},
			{ // ... through an aliasing sub-slice
				dcl("t", sl(s, lit(TInt, 1), nil)),
				rng(s, "i", "e", iff(bin("<", TBool, i, lenOf(v("t", ts))), asg(idx(v("t", ts), i), bin("*", TInt, e, lit(TInt, 2)))), add("acc", e))},
			{ // ... by copy
				rng(s, "i", "e", iff(bin("==", TBool, i, lit(TInt, 0)), &S{K: "copy", Dst: sl(s, lit(TInt, 1), nil), E: slit(int64(20+r.Intn(9)), int64(30+r.Intn(9)))}), add("acc", e))},
			{ // ... by an append that writes in place through a shorter view
				dcl("u", sl(s, nil, lit(TInt, 1))),
				rng(s, "i", "e", iff(bin("==", TBool, i, lit(TInt, 0)), asg(v("u", ts), &E{K: "append", Ty: ts, X: v("u", ts), Args: []*E{lit(TInt, int64(40+r.Intn(9)))}})), add("acc", e))},
			{ // the variable reassigned / grown inside the loop: the operand was evaluated once
				dcl("w", sl(s, nil, nil)),
				rng(v("w", ts), "_", "e", asg(v("w", ts), &E{K: "append", Ty: ts, X: v("w", ts), Args: []*E{e}}), add("acc", lit(TInt, 1))),
				pr(sS("grown"), lenOf(v("w", ts))),
				rng(v("w", ts), "i", "e", iff(bin("==", TBool, i, lit(TInt, 0)), asg(v("w", ts), &E{K: "zero", Ty: ts})), add("acc", e)),
				pr(sS("niled"), lenOf(v("w", ts)))},
			{ // an earlier or the current element written: the value of this round was already taken
				rng(s, "i", "e", asg(idx(s, i), bin("+", TInt, e, lit(TInt, 100))), iff(bin(">", TBool, i, lit(TInt, 0)), asg(idx(s, bin("-", TInt, i, lit(TInt, 1))), e)), add("acc", e))},
			{ // the iteration variable has the name of the slice ranged over (the operand is evaluated before it is declared)
				dcl("grid", &E{K: "slicelit", Ty: SliceOf(ts), Args: []*E{slit(1, 2), slit(3, 4), slit(5, 6)}}),
				rng(v("grid", SliceOf(ts)), "_", "grid", &S{K: "opassign", Lhs: []*E{idx(v("grid", ts), lit(TInt, 0))}, Op: "+", E: lit(TInt, 10)}, add("acc", idx(v("grid", ts), lit(TInt, 1)))),
				pr(sS("self-named"), idx(idx2(v("grid", SliceOf(ts)), 0), lit(TInt, 0)), idx(idx2(v("grid", SliceOf(ts)), 2), lit(TInt, 0)), lenOf(v("grid", SliceOf(ts)))),
				rng(sl(s, lit(TInt, 1), nil), "s", "", add("acc", bin("*", TInt, v("s", TInt), lit(TInt, 100))))},
			{ // index-only loop reading the live slice
				rng(s, "i", "", add("acc", idx(s, i)), iff(bin("<", TBool, bin("+", TInt, i, lit(TInt, 1)), lenOf(s)), asg(idx(s, bin("+", TInt, i, lit(TInt, 1))), lit(TInt, int64(r.Intn(9))))))},
		}
		// elements take the slice's element type whatever form stored them: a constant stored through a literal index, a
		// variable index, an alias, append or copy wraps like the element type when it is operated on afterwards
		{
			et := []*Ty{TUint8, TInt8, TUint32}[r.Intn(3)]
			tb := SliceOf(et)
			big := map[string]int64{"uint8": 200, "int8": 100, "uint32": 4000000000}[et.K]
			step := map[string]int64{"uint8": 100, "int8": 100, "uint32": 500000000}[et.K]
			bx := func(name string, i *E) *E { return &E{K: "index", Ty: et, X: v(name, tb), I: i} }
			bump := func(name string, i *E) *S { return &S{K: "opassign", Lhs: []*E{bx(name, i)}, Op: "+", E: lit(et, step)} }
			tblocks := [][]*S{
				{dcl("b", &E{K: "make", Ty: tb, X: lit(TInt, 3)}), asg(bx("b", lit(TInt, 1)), lit(et, big)), bump("b", lit(TInt, 1)), pr(sS("lit-index"), bx("b", lit(TInt, 1)))},
				{dcl("b2", &E{K: "make", Ty: tb, X: lit(TInt, 3)}), dcl("j", lit(TInt, 2)), asg(bx("b2", v("j", TInt)), lit(et, big)), bump("b2", v("j", TInt)), pr(sS("var-index"), bx("b2", v("j", TInt)))},
				{dcl("b3", &E{K: "make", Ty: tb, X: lit(TInt, 3)}), dcl("al", &E{K: "slice", Ty: tb, X: v("b3", tb), Lo: lit(TInt, 1)}), asg(bx("al", lit(TInt, 0)), lit(et, big)), bump("b3", lit(TInt, 1)), pr(sS("alias"), bx("b3", lit(TInt, 1)), bx("al", lit(TInt, 0)))},
				{&S{K: "declzero", Names: []string{"b4"}, DeclTy: tb}, asg(v("b4", tb), &E{K: "append", Ty: tb, X: v("b4", tb), Args: []*E{lit(et, big), lit(et, 1)}}), bump("b4", lit(TInt, 0)), pr(sS("append"), bx("b4", lit(TInt, 0)))},
				{dcl("b5", &E{K: "slicelit", Ty: tb, Args: []*E{lit(et, 1), lit(et, big)}}), rng(v("b5", tb), "k", "x", dcl("y", v("x", et)), &S{K: "opassign", Lhs: []*E{v("y", et)}, Op: "+", E: lit(et, step)}, pr(sS("range-value"), v("k", TInt), v("y", et)))},
			}
			// a nil slice re-sliced (the buf = buf[:0] idiom) keeps its element type
			tblocks = append(tblocks, []*S{&S{K: "declzero", Names: []string{"b6"}, DeclTy: tb}, asg(v("b6", tb), &E{K: "slice", Ty: tb, X: v("b6", tb), Hi: lit(TInt, 0)}),
				asg(v("b6", tb), &E{K: "append", Ty: tb, X: v("b6", tb), Args: []*E{lit(et, big)}}), bump("b6", lit(TInt, 0)), pr(sS("nil-resliced"), bx("b6", lit(TInt, 0)), lenOf(v("b6", tb)))})
			for _, k := range r.Perm(len(tblocks))[:2+r.Intn(4)] {
				body = append(body, tblocks[k]...)
			}
		}
		// a slice literal is a new slice every time it is evaluated (in a loop body, in a function called again)
		{
			mk := &Func{Name: "mk", Params: []string{"k"}, PTypes: []*Ty{TInt}, Results: []*Ty{ts}, Body: []*S{
				dcl("l", slit(1, 2, 3)), &S{K: "opassign", Lhs: []*E{idx(v("l", ts), lit(TInt, 0))}, Op: "+", E: v("k", TInt)}, ret(v("l", ts))}}
			if id%2 == 0 {
				mk.Body = []*S{ret(slit(1, 2, 3))}
			}
			pfuncs = append(pfuncs, mk)
			call := func(k int64) *E { return &E{K: "call", Fn: "mk", Ty: ts, NRes: 1, Args: []*E{lit(TInt, k)}} }
			body = append(body,
				dcl("m1", call(10)), asg(idx(v("m1", ts), lit(TInt, 1)), lit(TInt, 77)),
				dcl("m2", call(20)), &S{K: "copy", Dst: v("m2", ts), E: slit(5)},
				dcl("m3", call(30)),
				pr(sS("fresh"), idx(v("m1", ts), lit(TInt, 0)), idx(v("m1", ts), lit(TInt, 1)), idx(v("m2", ts), lit(TInt, 0)), idx(v("m2", ts), lit(TInt, 1)), idx(v("m3", ts), lit(TInt, 0)), idx(v("m3", ts), lit(TInt, 1))),
				&S{K: "for", Init: dcl("q", lit(TInt, 0)), Cond: bin("<", TBool, v("q", TInt), lit(TInt, 3)), Post: &S{K: "incdec", Lhs: []*E{v("q", TInt)}, D: 1}, Body: []*S{
					dcl("lit", slit(int64(1+r.Intn(5)), 2, 3)), &S{K: "opassign", Lhs: []*E{idx(v("lit", ts), v("q", TInt))}, Op: "+", E: lit(TInt, 10)},
					pr(sS("loop-lit"), idx(v("lit", ts), lit(TInt, 0)), idx(v("lit", ts), lit(TInt, 1)), idx(v("lit", ts), lit(TInt, 2)))}})
		}
		for _, k := range r.Perm(len(blocks))[:2+r.Intn(3)] {
			body = append(body, blocks[k]...)
			body = append(body, dump("s", "s")...)
			body = append(body, pr(sS("acc"), v("acc", TInt)))
		}
		p := &Prog{ID: fmt.Sprintf("c11/range-%d", id), Pkg: "main", Main: "Main"}
		p.Funcs = append(p.Funcs, pfuncs...)
		p.Funcs = append(p.Funcs, &Func{Name: "Main", Body: body})
		progs = append(progs, p)
	}
	return progs
}

func c11RangeFamily(c *Ctx) {
	r := rand.New(rand.NewSource(c.Seed + 11))
	progs := c11RangePrograms(r, c.pick(60, 1500))
	b := runMiniGoSpec(c, progs, 0, "c11range")
	for _, p := range progs {
		if len(b.Behs[p.ID]) != 1 {
			fatalf("program %s has %d behaviours in the specification (want 1)", p.ID, len(b.Behs[p.ID]))
		}
	}
	calibrateGo(c, b, "c11range")
	compareBehaviours(c, b, true, "range-over-slice")
	compareBehaviours(c, b, false, "range-over-slice")
	c.Extra["range_mutation_programs"] = len(progs)
}
