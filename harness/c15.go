package main

import (
	"fmt"
	"math/rand"
	"sort"
	"strings"
)

// C15 — packages initialise once each, dependencies first, for any import graph.
//
// M1: MC_Loader — for every digraph on N packages the ordering loop of load.go (LoadImpl, transcribed
//     in LoaderOrder.tla) yields a topological order of the reachable packages, or "error" exactly
//     when a cycle is reachable.
// M3: import graphs (all digraphs on 3 packages; seeded random graphs up to 12 packages with random
//     fan-in/out, file splits and names, vendor/ and shortened placement, _test.go files, build
//     constraints, conflicting package clauses) are materialised as in-memory file trees and loaded
//     by the real loader; the marker lines printed by every file's variable initialiser and init
//     function are the trace, validated by TLC against Loader.tla (any topological order accepted).

func init() { register("C15", checkC15) }

type c15File struct {
	Name    string
	Ignored string // "" | "test" | "constraint"
	Header  string // lines before the package clause
	HasInit bool
	Clause  string // package clause name
	Stmt    bool   // the file has a package-level statement with block-scoped locals (unit kind "stmt")
}

type c15Pkg struct {
	Path    string
	Name    string
	Dir     string
	Imports []string
	Files   []c15File
}

type c15Tree struct {
	Pkgs     []*c15Pkg
	Conflict bool
	Native   []string // imports that are not script packages (fmt, missing ones)
}

func (t *c15Tree) pkg(path string) *c15Pkg {
	for _, p := range t.Pkgs {
		if p.Path == path {
			return p
		}
	}
	return nil
}

func (t *c15Tree) files() map[string]string {
	out := map[string]string{}
	for _, p := range t.Pkgs {
		var scriptImps []string
		for _, im := range p.Imports {
			if t.pkg(im) != nil {
				scriptImps = append(scriptImps, im)
			}
		}
		first := true
		for fi, f := range p.Files {
			var b strings.Builder
			b.WriteString(f.Header)
			fmt.Fprintf(&b, "package %s\n\n", f.Clause)
			// the files of one package have their declarations at different line numbers (the first files longest)
			if f.Ignored == "" && len(p.Files) > 1 {
				for k := 0; k < 3*(len(p.Files)-fi); k++ {
					fmt.Fprintf(&b, "// padding %d\n", k)
				}
				b.WriteString("\n")
			}
			if f.Ignored != "" {
				// poison: must never run; would also break the package if it were included
				fmt.Fprintf(&b, "import \"nonexistent/zz%d\"\n\nfunc poison%d() int {\n\tprintln(\"RUN\", %q, %q, \"var\")\n\treturn 1\n}\n\nvar P%d = poison%d()\n", fi, fi, p.Path, f.Name, fi, fi)
				if (fi+len(p.Path))%2 == 0 {
					// host-only Go that the script language cannot even parse: an excluded file is not read at all
					fmt.Fprintf(&b, "\nfunc worker%d(ch chan int, done chan<- bool) {\n\tgo func() { ch <- 1 }()\n\tselect {\n\tcase v := <-ch:\n\t\t_ = v\n\t}\n}\n\nfunc Map%d[T any](xs []T) []T { return xs }\n", fi, fi)
				}
				out[p.Dir+"/"+f.Name] = b.String()
				continue
			}
			// imports are spread over the files: file i gets every import (Go needs them where used), in one
			// of five spellings; in the last one the first script import is a blank import (initialised, not named)
			style := (fi + len(p.Path)) % 5
			blank := ""
			if style == 4 && len(scriptImps) > 0 {
				blank = scriptImps[0]
			}
			last := func(im string) string { return im[strings.LastIndex(im, "/")+1:] }
			switch style {
			case 0:
				for _, im := range p.Imports {
					fmt.Fprintf(&b, "import %q\n", im)
				}
			case 1:
				for _, im := range p.Imports {
					fmt.Fprintf(&b, "import %s %q\n", last(im), im)
				}
			default:
				if len(p.Imports) > 0 {
					b.WriteString("import (\n")
					for _, im := range p.Imports {
						switch {
						case im == blank:
							fmt.Fprintf(&b, "\t_ %q\n", im)
						case style == 3:
							fmt.Fprintf(&b, "\t%s %q\n", last(im), im)
						default:
							fmt.Fprintf(&b, "\t%q\n", im)
						}
					}
					b.WriteString(")\n")
				}
			}
			b.WriteString("\n")
			args := ""
			for _, im := range scriptImps {
				if im == blank {
					continue
				}
				q := t.pkg(im)
				args += ", " + q.Name + ".V"
			}
			if first {
				b.WriteString("var V = 1\n\n")
				first = false
			}
			fmt.Fprintf(&b, "func m%d() int {\n\tprintln(\"RUN\", %q, %q, \"var\"%s)\n\treturn 1\n}\n\nvar W%d = m%d()\n\n", fi, p.Path, f.Name, args, fi, fi)
			if f.Stmt {
				// a package-level statement with block-scoped locals (the scripting extension): it runs with the
				// initialisers, in source order
				fmt.Fprintf(&b, "for i%d := 0; i%d < 1; i%d++ {\n\tif v := i%d + 1; v > 0 {\n\t\tprintln(\"RUN\", %q, %q, \"stmt\"%s)\n\t}\n}\n\n", fi, fi, fi, fi, p.Path, f.Name, args)
			}
			if f.HasInit {
				fmt.Fprintf(&b, "func init() {\n\tprintln(\"RUN\", %q, %q, \"init\"%s)\n}\n", p.Path, f.Name, args)
				if (fi+len(p.Path))%2 == 0 {
					// a METHOD named init is an ordinary method: nothing calls it
					fmt.Fprintf(&b, "\ntype K%d struct {\n\tn int\n}\n\nfunc (k *K%d) init(d int) int {\n\tprintln(\"RUN\", %q, %q, \"method-init\")\n\treturn d\n}\n", fi, fi, p.Path, f.Name)
				}
			}
			out[p.Dir+"/"+f.Name] = b.String()
		}
	}
	return out
}

func (t *c15Tree) graphLine(id string) map[string]any {
	imp := map[string]any{}
	units := map[string]any{}
	for _, p := range t.Pkgs {
		ims := []string{}
		for _, im := range p.Imports {
			if t.pkg(im) != nil {
				ims = append(ims, im)
			}
		}
		imp[p.Path] = ims
		us := [][]string{}
		for _, f := range p.Files {
			if f.Ignored != "" {
				continue
			}
			us = append(us, []string{f.Name, "var"})
			if f.Stmt {
				us = append(us, []string{f.Name, "stmt"})
			}
			if f.HasInit {
				us = append(us, []string{f.Name, "init"})
			}
		}
		units[p.Path] = us
	}
	return map[string]any{"ev": "graph", "id": id, "imp": imp, "root": "main", "units": units, "conflict": t.Conflict}
}

var c15Headers = []struct {
	text    string
	include bool
}{
	{"//go:build !goat\n\n", false},
	{"//go:build linux\n\n", false},
	{"//go:build ignore\n", false},
	{"// Copyright header.\n//go:build !goat\n\n", false},
	{"// Copyright header.\n\n//go:build !goat\n\n", false},
	{"\n\n//go:build windows && !goat\n\n", false},
	{"//go:build goat\n\n", true},
	{"//go:build goat || linux\n\n", true},
	{"// just a comment\n\n", true},
	{"// Copyright.\n\n//go:build !windows || goat\n\n", true},
}

func c15Build(r *rand.Rand, paths []string, edges map[string][]string, fancy bool) *c15Tree {
	t := &c15Tree{}
	fileNames := []string{"a.go", "b.go", "m.go", "z.go", "impl.go", "x_y.go", "0.go"}
	for _, path := range paths {
		parts := strings.Split(path, "/")
		p := &c15Pkg{Path: path, Name: parts[len(parts)-1], Dir: path, Imports: edges[path]}
		if path == "main" {
			p.Name = "main"
		}
		if fancy && path != "main" {
			switch r.Intn(4) {
			case 0:
				p.Dir = "vendor/" + path
			case 1:
				if len(parts) > 1 {
					p.Dir = strings.Join(parts[1+r.Intn(len(parts)-1):], "/")
				}
			}
		}
		nf := 1
		if fancy {
			nf = 1 + r.Intn(3)
		}
		perm := r.Perm(len(fileNames))
		for i := 0; i < nf; i++ {
			f := c15File{Name: fileNames[perm[i]], HasInit: !fancy || r.Intn(3) > 0, Clause: p.Name, Stmt: fancy && path != "main" && r.Intn(3) == 0}
			if fancy && r.Intn(4) == 0 {
				h := c15Headers[6+r.Intn(4)]
				f.Header = h.text
			}
			p.Files = append(p.Files, f)
		}
		if fancy && r.Intn(3) == 0 {
			p.Files = append(p.Files, c15File{Name: fmt.Sprintf("q%d_test.go", r.Intn(9)), Ignored: "test", Clause: p.Name})
		}
		if fancy && r.Intn(3) == 0 {
			h := c15Headers[r.Intn(6)]
			p.Files = append(p.Files, c15File{Name: fmt.Sprintf("excl%d.go", r.Intn(9)), Ignored: "constraint", Header: h.text, Clause: "other"})
		}
		sort.Slice(p.Files, func(i, j int) bool { return p.Files[i].Name < p.Files[j].Name })
		t.Pkgs = append(t.Pkgs, p)
	}
	return t
}

var c15TreeN int

func c15RunTree(c *Ctx, t *c15Tree, id string) ([]map[string]any, string) {
	files := t.files()
	arg := "main"
	// entry by file: every third tree whose main package is one file with an import is loaded as a script file that lies
	// (excluded by //go:build ignore) in the directory of the first package it imports
	c15TreeN++
	if c15TreeN%3 == 0 && !t.Conflict {
		var mainPkg, dep *c15Pkg
		for _, p := range t.Pkgs {
			if p.Path == "main" {
				mainPkg = p
			}
		}
		if mainPkg != nil && len(mainPkg.Files) == 1 && len(mainPkg.Imports) > 0 && mainPkg.Files[0].Header == "" {
			for _, p := range t.Pkgs {
				if p.Path == mainPkg.Imports[0] && p.Path != "main" {
					dep = p
				}
			}
		}
		if dep != nil {
			old := "main/" + mainPkg.Files[0].Name
			if src, ok := files[old]; ok {
				delete(files, old)
				arg = dep.Dir + "/zz_demo.go"
				files[arg] = "//go:build ignore\n\n" + src
			}
		}
	}
	res := runProgram(files, arg, "", 0, true, 200000)
	lines := []map[string]any{t.graphLine(id)}
	for _, ln := range strings.Split(res.Stdout, "\n") {
		if ln == "" {
			continue
		}
		f := strings.Fields(ln)
		if len(f) < 4 || f[0] != "RUN" {
			lines = append(lines, map[string]any{"ev": "run", "p": "?", "f": ln, "kind": "var", "stale": true})
			continue
		}
		stale := false
		for _, v := range f[4:] {
			if v != "1" {
				stale = true
			}
		}
		lines = append(lines, map[string]any{"ev": "run", "p": f[1], "f": f[2], "kind": f[3], "stale": stale})
	}
	outcome := "ok"
	if res.Failed() {
		outcome = "error"
	}
	if res.Panic != "" {
		outcome = "panic"
	}
	lines = append(lines, map[string]any{"ev": "end", "outcome": outcome, "detail": firstLine(res.ErrString())})
	return lines, res.ErrString()
}

func checkC15(c *Ctx) {
	c.Rule = "graphs = all 512 digraphs (self-imports included) on {main, a, b} in the plain layout + seeded random graphs with 2..12 packages (acyclic with random fan-in/out, and with a planted cycle or conflicting package clauses in a fraction), random file splits/names, vendor/ and shortened placement, _test.go files, //go:build lines in 10 header shapes (excluded files partly contain Go the script language cannot parse), imports spelled in five ways (separate, aliased, grouped, grouped with aliases, grouped with a blank import); distinct_nontrivial = distinct (graph, layout) trees with at least 2 script packages"
	c.Assumptions = []string{"every marker line is printed by the package's own code at initialisation time (stdout order = execution order, single-threaded VM)", "TLC evaluates Loader.tla as written"}
	r := rand.New(rand.NewSource(c.Seed))

	// M1
	dir := c.specWorkDir("mc")
	if !c.quick() {
		// N = 4 is 65536 graphs (11 s); the quick tier uses N = 3
	} else {
		must(writeFileReplace(dir+"/MC_Loader.cfg", "N = 4", "N = 3"))
	}
	c.runTLC(dir, TLCOpts{Module: "MC_Loader", Cfg: "MC_Loader.cfg"})

	var lines []map[string]any
	var starts []int
	var trees []*c15Tree
	add := func(t *c15Tree, id string) {
		tl, _ := c15RunTree(c, t, id)
		starts = append(starts, len(lines))
		lines = append(lines, tl...)
		trees = append(trees, t)
		if len(t.Pkgs) >= 2 {
			c.distinct(hashKey(fmt.Sprint(t.files())))
		}
	}
	// all digraphs on 3 packages
	names := []string{"main", "a", "b"}
	for mask := 0; mask < 512; mask++ {
		edges := map[string][]string{}
		for i := 0; i < 3; i++ {
			for j := 0; j < 3; j++ {
				if mask&(1<<(i*3+j)) != 0 {
					edges[names[i]] = append(edges[names[i]], names[j])
				}
			}
		}
		add(c15Build(r, names, edges, false), fmt.Sprintf("all3/%d", mask))
	}
	// random graphs
	nrand := c.pick(300, 8000)
	for i := 0; i < nrand; i++ {
		n := 2 + r.Intn(11)
		paths := []string{"main"}
		for k := 1; k < n; k++ {
			switch r.Intn(3) {
			case 0:
				paths = append(paths, fmt.Sprintf("p%d", k))
			case 1:
				paths = append(paths, fmt.Sprintf("lib/p%d", k))
			default:
				paths = append(paths, fmt.Sprintf("x/y/p%d", k))
			}
		}
		// alphabetical order of paths is unrelated to dependency direction: shuffle the topological rank
		rank := r.Perm(n)
		rank[0], rank[indexOf(rank, 0)] = rank[indexOf(rank, 0)], rank[0] // main has rank 0 (imports only)
		edges := map[string][]string{}
		dens := 1 + r.Intn(4)
		for a := 0; a < n; a++ {
			for b := 0; b < n; b++ {
				if a != b && rank[a] < rank[b] && r.Intn(5) < dens {
					edges[paths[a]] = append(edges[paths[a]], paths[b])
				}
			}
			if r.Intn(4) == 0 {
				edges[paths[a]] = append(edges[paths[a]], []string{"fmt", "math", "missing/pkg"}[r.Intn(3)])
			}
		}
		t := c15Build(r, paths, edges, true)
		switch r.Intn(10) {
		case 0: // plant a cycle somewhere (may be unreachable from main)
			a, b := 1+r.Intn(n-1), 1+r.Intn(n-1)
			pa, pb := t.pkg(paths[a]), t.pkg(paths[b])
			pa.Imports = append(pa.Imports, pb.Path)
			pb.Imports = append(pb.Imports, pa.Path)
		case 1: // conflicting package clauses in one (reachable or not) package
			k := r.Intn(n)
			p := t.pkg(paths[k])
			// the file with the other clause is the last, the first or a middle one of the directory
			cf := c15File{Name: "zz_conflict.go", Clause: "conflict", HasInit: false}
			switch r.Intn(3) {
			case 0:
				p.Files = append(p.Files, cf)
			case 1:
				cf.Name = "0_conflict.go"
				p.Files = append([]c15File{cf}, p.Files...)
			default:
				cf.Name = "b0_conflict.go"
				p.Files = append(p.Files, cf)
				sort.Slice(p.Files, func(i, j int) bool { return p.Files[i].Name < p.Files[j].Name })
			}
		}
		c15Finalize(t)
		add(t, fmt.Sprintf("rand/%d", i))
	}
	c.Evaluations = int64(len(lines))
	c.sample(map[string]any{"trace": lines[starts[len(starts)-1]:minInt(len(lines), starts[len(starts)-1]+8)]})
	c.sample(map[string]any{"files": trees[len(trees)-1].files()})

	bad := c12ClassifyTraces(c, "Trace_Loader", "Trace_Loader.cfg", lines, starts)
	for _, idx := range bad {
		tr := 0
		for i, s := range starts {
			if s <= idx {
				tr = i
			}
		}
		t := trees[tr]
		c.violate(hashKey(fmt.Sprint(t.files())), fmt.Sprintf("load of tree %v: event %v not allowed by Loader.tla", lines[starts[tr]]["id"], clip(fmt.Sprint(lines[idx]), 200)),
			map[string]any{"files": t.files(), "graph": lines[starts[tr]], "trace": lines[starts[tr]+1 : endOf(starts, tr, len(lines))]})
	}
	c.TracesVsImpl = int64(len(starts) - len(bad))

	// negative control: a dependency initialised after its importer
	nc := []map[string]any{
		{"ev": "graph", "id": "nc", "imp": map[string]any{"main": []string{"a"}, "a": []string{}}, "root": "main",
			"units": map[string]any{"main": [][]string{{"m.go", "var"}}, "a": [][]string{{"a.go", "var"}}}, "conflict": false},
		{"ev": "run", "p": "main", "f": "m.go", "kind": "var", "stale": false},
		{"ev": "run", "p": "a", "f": "a.go", "kind": "var", "stale": false},
		{"ev": "end", "outcome": "ok", "detail": ""},
	}
	nb := classifyFlatTrace(c, "Trace_Loader", "Trace_Loader.cfg", nc)
	if len(nb) == 0 || nb[0] != 1 {
		fatalf("negative control (importer initialised first) not flagged: %v", nb)
	}
	c.Extra["negative_control"] = "a trace initialising the importer before its dependency was flagged by Trace_Loader as expected"
	c.Extra["trees"] = len(trees)
}

func endOf(starts []int, tr, n int) int {
	if tr+1 < len(starts) {
		return starts[tr+1]
	}
	return n
}

func indexOf(xs []int, v int) int {
	for i, x := range xs {
		if x == v {
			return i
		}
	}
	return -1
}

// c15Finalize recomputes the conflict flag: a package whose non-ignored files disagree on the clause
// is a conflict only if the loader reaches it (Loader.tla's conflict = some REACHABLE package).
func c15Finalize(t *c15Tree) {
	reach := map[string]bool{"main": true}
	work := []string{"main"}
	for len(work) > 0 {
		p := t.pkg(work[len(work)-1])
		work = work[:len(work)-1]
		if p == nil {
			continue
		}
		for _, im := range p.Imports {
			if !reach[im] && t.pkg(im) != nil {
				reach[im] = true
				work = append(work, im)
			}
		}
	}
	t.Conflict = false
	for _, p := range t.Pkgs {
		if !reach[p.Path] {
			continue
		}
		names := map[string]bool{}
		for _, f := range p.Files {
			if f.Ignored == "" {
				names[f.Clause] = true
			}
		}
		if len(names) > 1 {
			t.Conflict = true
		}
	}
}
