package main

import (
	"fmt"
	"math/rand"
	"strings"
)

// C01 — programs in the supported subset run exactly as the Go toolchain runs them.
//
// Generated typed programs (MiniGo subset) are interpreted by MiniGo.tla under TLC (every choice
// path), run by goatlang (Load + Call with the same choice vector) and - as calibration of the
// specification - compiled and run by the Go toolchain. Violation: spec = Go toolchain != goatlang.

func init() { register("C01", checkC01) }

func c01Profiles() []GenOpts {
	return []GenOpts{
		{MaxStmts: 30, MaxDepth: 2, Funcs: 2},
		{MaxStmts: 40, MaxDepth: 3, Funcs: 3, Strings: true, SmallInts: true, Lib: true},
		{MaxStmts: 40, MaxDepth: 3, Funcs: 3, Strings: true, Containers: true},
		{MaxStmts: 50, MaxDepth: 3, Funcs: 4, Strings: true, Containers: true, Structs: true, SmallInts: true, FuncLits: true, Ifaces: true, NamedTypes: true, Lib: true},
		{MaxStmts: 40, MaxDepth: 3, Funcs: 3, Choice: true, Strings: true, Structs: true, FuncLits: true, Containers: true},
		{MaxStmts: 50, MaxDepth: 3, Funcs: 4, Strings: true, Containers: true, Structs: true, Panics: true, Ifaces: true, NamedTypes: true},
		{MaxStmts: 40, MaxDepth: 3, Funcs: 5, Strings: true, Containers: true, Structs: true, FuncLits: true, Ifaces: true, NamedTypes: true, Packages: true, Lib: true},
	}
}

// compareBehaviours replays every behaviour of the batch on goatlang and reports mismatches.
func compareBehaviours(c *Ctx, b *mgBatch, optimize bool, what string) {
	for _, p := range b.Progs {
		src := b.Sources[p.ID]
		for _, bh := range b.Behs[p.ID] {
			res := goatRun(p, src, bh.Ch, optimize)
			c.Evaluations++
			want := bh.Render()
			bad := ""
			switch {
			case res.Panic != "":
				bad = "Go panic escaped: " + res.Panic
			case res.Budget:
				bad = "did not finish within 400000 VM instructions (the specification's run of the same program ends after a few thousand steps)"
			case res.LoadErr:
				bad = "program does not load: " + firstLine(res.ErrString())
			case res.Stdout != want:
				bad = fmt.Sprintf("output differs from Go: got %q want %q", clip(res.Stdout, 300), clip(want, 300))
			case bh.Status == "panic" && !res.Failed():
				bad = "Go dies with a run-time panic (" + bh.Kind + "), goatlang returned no error"
			case bh.Status != "panic" && res.Failed():
				bad = "unexpected error: " + firstLine(res.ErrString())
			}
			if bad != "" {
				c.violate(hashKey(src+fmt.Sprint(bh.Ch)), fmt.Sprintf("%s program %s choices %v (optimizer %v): %s", what, p.ID, bh.Ch, optimize, bad),
					map[string]any{"source": src, "choices": bh.Ch, "expected_output": want, "expected_status": bh.Status, "observed_output": res.Stdout, "observed_error": res.ErrString()})
				break
			}
			c.TracesVsImpl++
		}
	}
}

func checkC01(c *Ctx) {
	c.Level = "model_checking"
	c.Rule = "programs = seeded random well-typed programs of the MiniGo grammar in 7 profiles (integers; + strings, narrow integer types and calls of the bundled string library (strings.Contains/Repeat/TrimSuffix/TrimSpace/TrimRight/Replace/ReplaceAll/Split/Join, strconv.Itoa); + slices and maps; + struct references, methods, function literals, interface values and named types; + choice()-driven control flow explored on every path; + statements that may panic at run time; + multi-package layouts: a closed set of declarations moved into an imported package); distinct_nontrivial = distinct program sources with at least one loop, switch or call"
	c.Assumptions = []string{"MiniGo.tla is calibrated against the Go toolchain on every behaviour of every generated program in this run", "float64 and library calls are outside the generated grammar in this version (DESIGN.md section 7)", "map iteration order and append growth are kept unobservable by the generator"}
	r := rand.New(rand.NewSource(c.Seed))
	n := c.pick(1500, 20000)
	var progs []*Prog
	profs := c01Profiles()
	for i := 0; i < n; i++ {
		g := NewGen(r, profs[i%len(profs)])
		g.shadowBias = i%5 == 4 // every fifth program redeclares visible names at every opportunity (nested shadowing)
		p := g.Program(fmt.Sprintf("c01-%d", i))
		progs = append(progs, p)
	}
	for i := 0; i < c.pick(12, 200); i++ {
		progs = append(progs, pkgVarProgram(r, fmt.Sprintf("c01-pkgvar-%d", i)))
	}
	// range loops that change the ranged slice, literals evaluated repeatedly (families of C11), and functions whose locals
	// land in the stack cells an earlier call used for values of other types
	progs = append(progs, c11RangePrograms(r, c.pick(30, 400))...)
	for i := 0; i < c.pick(10, 100); i++ {
		progs = append(progs, staleSlotProgram(r, fmt.Sprintf("c01-slots-%d", i)))
	}
	for _, n := range bigFrameSizes {
		progs = append(progs, bigFrameProgram(n))
	}
	b := runMiniGoSpec(c, progs, 8, "c01")
	nb := 0
	for _, p := range progs {
		nb += len(b.Behs[p.ID])
		src := b.Sources[p.ID]
		if strings.Contains(src, "for ") || strings.Contains(src, "switch ") || strings.Contains(src, "f0(") {
			c.distinct(hashKey(src))
		}
	}
	c.Extra["programs"] = len(progs)
	c.Extra["behaviours"] = nb
	calibrateGo(c, b, "c01")
	compareBehaviours(c, b, true, "generated")
	probeProgram(c, "semicolon-insertion", probeSemicolon, "m 1\nend\n")
	probeProgram(c, "nil-receiver", probeNilReceiver, "called true\nend\n")
	if len(progs) > 0 {
		p := progs[len(progs)/2]
		c.sample(map[string]any{"program": p.ID, "source": clip(b.Sources[p.ID], 1500), "behaviours": len(b.Behs[p.ID])})
	}
}

// probeProgram re-runs the specific input of a recorded finding: if it still fails, the violation is
// reported under the finding's key (and printed as KNOWN-FINDING by finish()).
func probeProgram(c *Ctx, key, src, want string) {
	res := runMain(src, true)
	if res.Stdout != want || res.Failed() {
		c.violate(key, fmt.Sprintf("recorded input still fails: got %q (%s) want %q", clip(res.Stdout, 120), firstLine(res.ErrString()), want), map[string]any{"source": src, "expected_output": want})
	}
}

const probeNilReceiver = `package main

type T struct {
	X int
}

func (t *T) M() {
	println("called", t == nil)
}

func Main() {
	var p *T
	p.M()
	println("end")
}
`

const probeSemicolon = `package main

type T struct {
	X int
}

func (t *T) M() {
	println("m", t.X)
}

func Main() {
	x := 1
	(&T{X: x}).M()
	println("end")
}
`
