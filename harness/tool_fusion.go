package main

import "fmt"

func init() {
	register("fusion", func(c *Ctx) {
		ps := fusionPrograms()
		for i, s := range ps {
			for _, opt := range []bool{false, true} {
				r := runMain(s, opt)
				if r.Failed() || r.Panic != "" {
					fmt.Printf("program %d optimize=%v: %s %s\n", i, opt, firstLine(r.ErrString()), r.Panic)
				}
			}
		}
		fmt.Println(len(ps), "programs")
	})
}
