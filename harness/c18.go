package main

import (
	"bytes"
	"encoding/hex"
	"encoding/json"
	"fmt"
	"math/rand"
	"path/filepath"
	"sort"
	"strings"
	"testing/fstest"

	goat "github.com/philhassey/goatlang"
)

// C18 — incremental evaluation equals whole-program evaluation.
//
// Generated programs are sequences of top-level statements (declarations, assignments, control
// statements with scoped locals, calls, function / type / method definitions, an import, a final
// expression). For every prefix the whole-program evaluation (ONE Eval call on a fresh VM) gives the
// observation Obs[i] = (output, package-level variables, returned values). Repl.tla explores every
// way of cutting the program into consecutive chunks (2^(n-1) chunkings) and emits, per chunking, the
// observation required after every chunk (= Obs at that prefix length); each chunking is replayed as
// successive Eval calls on one VM sharing one import map, as the command-line REPL does.
// MiniGo.tla's meaning of every prefix is compared with the whole-program run as a cross-check.

func init() { register("C18", checkC18) }

type topItem struct {
	kind string // stmt func type method import
	s    *S
	fn   *Func
	sd   *StructDef
	text string
}

type c18Obs struct {
	Out   string            // cumulative stdout (hex)
	Glob  map[string]string // name -> type:text of scalar package-level variables
	Rets  []string
	Error string
}

func (o c18Obs) id() string {
	b, _ := json.Marshal(o)
	return hashKey(string(b))
}

func c18Generate(r *rand.Rand, id string) ([]topItem, *Prog) {
	g := NewGen(r, GenOpts{MaxStmts: 40, MaxDepth: 2, Strings: true, Structs: true, Containers: true, OneStruct: true, SmallInts: true})
	g.shadowBias = true
	g.prog = &Prog{ID: id, Pkg: "main", Main: "Nop"}
	g.shared = map[string]bool{}
	g.scopes = [][]gvar{nil}
	g.results = nil
	g.budget = 100
	var items []topItem
	pr := func(f func(q *printer)) string {
		q := &printer{line: 1, prog: g.prog}
		f(q)
		return strings.TrimRight(q.b.String(), "\n")
	}
	usesFmt := r.Intn(2) == 0
	if usesFmt {
		items = append(items, topItem{kind: "import", text: "import \"fmt\""})
	}
	// a struct type with a method
	if r.Intn(2) == 0 {
		sd := &StructDef{Name: "T0", Fields: []string{"F0", "F1"}, FTypes: []*Ty{TInt, TString}}
		g.prog.Structs = append(g.prog.Structs, sd)
		items = append(items, topItem{kind: "type", sd: sd, text: pr(func(q *printer) { q.typeDecls(&Prog{Structs: []*StructDef{sd}}) })})
	} else {
		g.o.Structs = false
	}
	n := 4 + r.Intn(5)
	for len(items) < n {
		switch x := r.Intn(10); {
		case x < 2 && len(g.funcs) < 3:
			g.callable = len(g.funcs)
			saved := g.scopes
			g.function(len(g.funcs))
			g.scopes = saved
			g.results = nil
			g.callable = len(g.funcs)
			fn := g.prog.Funcs[len(g.prog.Funcs)-1]
			kind := "func"
			items = append(items, topItem{kind: kind, fn: fn, text: pr(func(q *printer) { q.funcDecl(fn) })})
		default:
			g.budget = 12
			ss := g.stmt(2)
			for _, s := range ss {
				if s.K == "decl" || s.K == "declzero" {
					s.TopLevel = true
				}
				if s.K == "print" && usesFmt && r.Intn(2) == 0 {
					s.Fmt = true
				}
				s := s
				items = append(items, topItem{kind: "stmt", s: s, text: pr(func(q *printer) { q.stmt(s) })})
			}
		}
	}
	// a final expression whose value Eval returns
	var cands []gvar
	for _, v := range g.scopes[0] {
		if v.ty.IsInt() || v.ty.K == "string" || v.ty.K == "bool" {
			cands = append(cands, v)
		}
	}
	if len(cands) > 0 {
		cv := cands[r.Intn(len(cands))]
		var e *E
		switch {
		case cv.ty.IsInt():
			e = &E{K: "bin", Ty: cv.ty, Op: "+", L: v(cv.name, cv.ty), R: lit(cv.ty, 1)}
		case cv.ty.K == "string":
			e = &E{K: "bin", Ty: TString, Op: "+", L: v(cv.name, TString), R: &E{K: "str", Ty: TString, S: "!"}}
		default:
			e = &E{K: "not", Ty: TBool, X: v(cv.name, TBool)}
		}
		s := &S{K: "yield", E: e}
		items = append(items, topItem{kind: "stmt", s: s, text: pr(func(q *printer) { q.stmt(s) })})
	}
	return items, g.prog
}

// prefixProg builds the MiniGo program for the first i items.
func c18PrefixProg(base *Prog, items []topItem, i int, id string) *Prog {
	p := &Prog{ID: id, Pkg: "main", Main: "Nop", Structs: base.Structs}
	for _, it := range items[:i] {
		switch it.kind {
		case "stmt":
			p.Globals = append(p.Globals, it.s)
		case "func":
			p.Funcs = append(p.Funcs, it.fn)
		}
	}
	p.Funcs = append(p.Funcs, &Func{Name: "Nop"})
	return p
}

// c18Source joins the statements of a chunk; chunks that start at an odd statement index carry no
// final newline (the end of the input then ends the last statement)
func c18Source(items []topItem, lo, hi int) string {
	var ss []string
	for _, it := range items[lo:hi] {
		ss = append(ss, it.text)
	}
	if lo%2 == 1 {
		return strings.Join(ss, "\n")
	}
	return strings.Join(ss, "\n") + "\n"
}

func c18Observe(vm *goat.VM, out *bytes.Buffer, rets []goat.Value, err error) c18Obs {
	o := c18Obs{Out: hex.EncodeToString(out.Bytes()), Glob: map[string]string{}, Rets: []string{}}
	if err != nil {
		o.Error = firstLine(err.Error())
	}
	for _, v := range rets {
		o.Rets = append(o.Rets, vm.VerifTypeOf(v)+":"+v.String())
	}
	for _, name := range vm.VerifGlobalNames() {
		if !strings.HasPrefix(name, "main.") || strings.Contains(name[5:], ".") {
			continue
		}
		v := vm.Get(name)
		switch v.Type() {
		case goat.TypeInt32, goat.TypeUint8, goat.TypeInt8, goat.TypeUint32, goat.TypeBool, goat.TypeString, goat.TypeFloat64, goat.Type(1):
			o.Glob[name[5:]] = vm.VerifTypeOf(v) + ":" + v.String()
		case goat.TypeSlice, goat.TypeMap:
			o.Glob[name[5:]] = fmt.Sprintf("%s:len=%d", vm.VerifTypeOf(v), v.Len())
		}
	}
	return o
}

func c18Whole(items []topItem, i int) c18Obs {
	var out bytes.Buffer
	vm := goat.New(goat.WithStdout(&out))
	goat.VerifSetBudget(400000)
	rets, err := vm.Eval(c18FS, "repl.go", c18Source(items, 0, i), goat.WithEvalImports(map[string]string{}))
	goat.VerifSetBudget(-1)
	return c18Observe(vm, &out, rets, err)
}

// c18Pool: hand-written top-level statements (features outside MiniGo.tla's subset: float64, closures,
// stdlib imports, methods on pointers, statement headers declaring locals) sampled into sequences in
// which every statement's needs are declared earlier.
type poolStmt struct {
	text     string
	needs    []string
	provides []string
}

var c18PoolStmts = []poolStmt{
	{"total := 0", nil, []string{"total"}},
	{"scale := 2.5", nil, []string{"scale"}},
	{"name := \"x\"", nil, []string{"name"}},
	{"var b uint8 = 200", nil, []string{"b"}},
	{"var i8 int8 = 100", nil, []string{"i8"}},
	{"ok := true", nil, []string{"ok"}},
	{"for i := 1; i < 5; i++ {\n\ttotal += 10 / i\n\tprintln(10 / i)\n}", []string{"total"}, nil},
	{"if x := 300; x > 0 {\n\tprintln(x, x*2)\n}", nil, nil},
	{"if true {\n\ty := 2.5\n\tprintln(y * 2)\n}", nil, nil},
	{"if true {\n\tvar u uint8 = 250\n\tu += 10\n\tprintln(u)\n}", nil, nil},
	{"if true {\n\tvar w int8 = 100\n\tw += 100\n\tprintln(w)\n}", nil, nil},
	{"if true {\n\ts := \"local\"\n\tprintln(s + s)\n}", nil, nil},
	{"if z := 70000; z > 5 {\n\tprintln(z * z)\n}", nil, nil},
	{"for _, r := range []int{1, 2, 3} {\n\tprintln(r, 7/r)\n}", nil, nil},
	{"for i := 0; i < 3; i++ {\n\tfor j := 0; j < 2; j++ {\n\t\ttotal += i * j\n\t}\n}", []string{"total"}, nil},
	{"for total := 0; total < 2; total++ {\n\tprintln(\"inner\", total)\n}", []string{"total"}, nil},
	{"if name := 5; name > 2 {\n\tprintln(name + 1)\n}", []string{"name"}, nil},
	{"scale = scale * 2", []string{"scale"}, nil},
	{"println(scale)", []string{"scale"}, nil},
	{"total += int(scale)", []string{"scale", "total"}, nil},
	{"total++", []string{"total"}, nil},
	{"total = total*3 + 1", []string{"total"}, nil},
	{"b += 100", []string{"b"}, nil},
	{"println(b, i8)", []string{"b", "i8"}, nil},
	{"i8 += 100", []string{"i8"}, nil},
	{"name += \"y\"", []string{"name"}, nil},
	{"println(name, len(name), total)", []string{"name", "total"}, nil},
	{"ok = !ok && total > 0", []string{"ok", "total"}, nil},
	{"if ok {\n\tprintln(\"ok\")\n} else {\n\tprintln(\"not ok\")\n}", []string{"ok"}, nil},
	{"func add(a, b int) int {\n\treturn a + b\n}", nil, []string{"add"}},
	{"func bump() int {\n\ttotal += 2\n\treturn total\n}", []string{"total"}, []string{"bump"}},
	{"println(add(total, 3))", []string{"add", "total"}, nil},
	{"println(bump(), bump())", []string{"bump"}, nil},
	{"total = add(bump(), 1)", []string{"add", "bump"}, nil},
	{"import \"strings\"", nil, []string{"strings"}},
	{"import \"fmt\"", nil, []string{"fmt"}},
	{"println(strings.Repeat(name, 2), strings.Contains(name, \"x\"))", []string{"strings", "name"}, nil},
	{"fmt.Println(total, name, scale)", []string{"fmt", "total", "name", "scale"}, nil},
	{"fmt.Printf(\"%d|%s\\n\", total, name)", []string{"fmt", "total", "name"}, nil},
	{"inc := func() int {\n\ttotal++\n\treturn total\n}", []string{"total"}, []string{"inc"}},
	{"println(inc(), inc())", []string{"inc"}, nil},
	{"dec := func() int {\n\ttotal -= 3\n\treturn total\n}", []string{"total"}, []string{"dec"}},
	{"println(dec(), inc(), dec())", []string{"inc", "dec"}, nil},
	{"dbl := func(x int) int {\n\treturn x * 2\n}", nil, []string{"dbl"}},
	{"neg := func(x int) int {\n\treturn 0 - x\n}", nil, []string{"neg"}},
	{"println(dbl(total), neg(total), dbl(neg(3)))", []string{"dbl", "neg", "total"}, nil},
	{"import (\n\tsl \"golang.org/x/exp/slices\"\n)", nil, []string{"sl"}},
	{"println(sl.Contains([]int{1, 2, 3}, 2), sl.Contains([]string{\"a\"}, name))", []string{"sl", "name"}, nil},
	{"import \"golang.org/x/exp/maps\"", nil, []string{"maps"}},
	{"println(len(maps.Keys(map[string]int{\"a\": 1, \"b\": 2})))", []string{"maps"}, nil},
	{"type P struct {\n\tX, Y int\n}", nil, []string{"P"}},
	{"func (p *P) Sum() int {\n\treturn p.X + p.Y\n}", []string{"P"}, []string{"Sum"}},
	{"p := &P{1, 2}", []string{"P"}, []string{"p"}},
	{"p.X += 5", []string{"p"}, nil},
	{"println(p.X, p.Y)", []string{"p"}, nil},
	{"println(p.Sum())", []string{"p", "Sum"}, nil},
	{"m := map[string]int{}", nil, []string{"m"}},
	{"m[name] = total", []string{"m", "name", "total"}, nil},
	{"println(len(m), m[\"x\"])", []string{"m"}, nil},
	{"xs := []int{1}", nil, []string{"xs"}},
	{"xs = append(xs, total)", []string{"xs", "total"}, nil},
	{"println(len(xs), xs[len(xs)-1])", []string{"xs"}, nil},
	{"for i, x := range xs {\n\tprintln(i, x)\n}", []string{"xs"}, nil},
	{"const k = 7", nil, []string{"k"}},
	{"total += k", []string{"k", "total"}, nil},
	{"var late int", nil, []string{"late"}},
	{"var cb func(int) int", nil, []string{"cb"}},
	{"var cbv func(int)", nil, []string{"cbv"}},
	{"println(cb == nil, cbv == nil)", []string{"cb", "cbv"}, nil},
	{"cb = add1", []string{"cb", "add1"}, []string{"cbset"}},
	{"func add1(a int) int {\n\treturn a + 1\n}", nil, []string{"add1"}},
	{"println(cb(41))", []string{"cb", "add1", "cbset"}, nil},
	{"var names []string", nil, []string{"names"}},
	{"names = append(names, name)", []string{"names", "name"}, nil},
	{"var byName map[string]int", nil, []string{"byName"}},
	{"println(len(names), len(byName), byName[\"q\"])", []string{"names", "byName"}, nil},
	{"import str \"strings\"", nil, []string{"str"}},
	{"println(str.Repeat(name, 2))", []string{"str", "name"}, nil},
	{"for i := 0; ; i++ {\n\tif i > 2 {\n\t\tbreak\n\t}\n\ttotal += i\n}", []string{"total"}, nil},
	{"for ; total < 40; total += 7 {\n}", []string{"total"}, nil},
	{"late = late + total", []string{"late", "total"}, nil},
}

// c18FS: script packages the statements may import: one with package-level state and an init function
var c18FS = fstest.MapFS{
	"counter/counter.go": &fstest.MapFile{Data: []byte("package counter\n\nvar n = 0\n\nvar Loads int\n\nfunc init() {\n\tLoads++\n}\n\nfunc Next() int {\n\tn++\n\treturn n\n}\n\nfunc Seen() int {\n\treturn n*10 + Loads\n}\n")},
}

var c18PoolFinals = []poolStmt{
	{"total", []string{"total"}, nil}, {"scale", []string{"scale"}, nil}, {"name + \"!\"", []string{"name"}, nil},
	{"add(1, 2)", []string{"add"}, nil}, {"b", []string{"b"}, nil}, {"total + 1", []string{"total"}, nil}, {"late", []string{"late"}, nil},
	{"len(xs)", []string{"xs"}, nil}, {"ok", []string{"ok"}, nil},
}

// fixed statement sequences about interactions ACROSS calls: function literals that start different
// chunks at the same position, imports used in a later chunk under an alias / a nested path, typed
// values left behind and integer loops after them, instances created before the methods of their type
var c18Scenarios = [][]string{
	{"total := 10", "inc := func() int {\n\ttotal++\n\treturn total\n}", "dec := func() int {\n\ttotal -= 3\n\treturn total\n}", "println(inc(), dec(), inc())", "dbl := func(x int) int {\n\treturn x * 2\n}", "neg := func(x int) int {\n\treturn 0 - x\n}", "println(dbl(total), neg(total), dbl(neg(3)))", "total"},
	{"name := \"x\"", "import (\n\tsl \"golang.org/x/exp/slices\"\n)", "import str \"strings\"", "println(sl.Contains([]string{\"x\"}, name))", "import \"golang.org/x/exp/maps\"", "println(str.Repeat(name, 3), len(maps.Keys(map[string]int{\"a\": 1})))", "name + \"!\""},
	{"total := 0", "scale := 2.5", "if true {\n\tvar u uint8 = 250\n\tu += 10\n\tprintln(u)\n}", "for i := 1; i < 5; i++ {\n\ttotal += 10 / i\n\tprintln(10 / i)\n}", "if x := 300; x > 0 {\n\tprintln(x, x*2)\n}", "println(scale * 2)", "total"},
	{"type P struct {\n\tX, Y int\n}", "p := &P{1, 2}", "func (p *P) Sum() int {\n\treturn p.X + p.Y\n}", "println(p.Sum())", "func (p *P) Scale(k int) {\n\tp.X *= k\n\tp.Y *= k\n}", "p.Scale(3)", "println(p.Sum(), p.X)", "p.Y"},
	{"var hits int = 0", "func hit() int {\n\thits += 2\n\treturn hits\n}", "switch hit() {\ncase 2:\n\tprintln(\"two\")\n}", "bonus := 10", "func score() int {\n\treturn hits*100 + bonus\n}", "println(score())", "var late int", "late = score()", "late"},
	{"xs := []int{3, 1, 2}", "import \"golang.org/x/exp/slices\"", "slices.SortFunc(xs, func(a, b int) bool {\n\treturn a < b\n})", "println(xs[0], xs[1], xs[2])", "slices.SortFunc(xs, func(a, b int) bool {\n\treturn a > b\n})", "println(xs[0], xs[1], xs[2])", "len(xs)"},
	{"import \"fmt\"", "func println(s string) {\n\tfmt.Print(\"<\" + s + \">\")\n}", "println(\"hi\")", "func emit() {\n\tprintln(\"in\")\n}", "emit()", "func print(s string) int {\n\tfmt.Print(\"[\" + s + \"]\")\n\treturn len(s)\n}", "n := print(\"abc\")", "println(\"bye\")", "n"},
	{"package main\nimport \"strings\"", "x := strings.Repeat(\"ab\", 3)", "println(strings.Contains(x, \"ba\"), x)", "import str2 \"strings\"", "y := str2.TrimSpace(\" q \") + x", "y"},
	c18ManyLoops(),
	{"import \"counter\"", "a := counter.Next()", "b := counter.Next()", "println(a, b, counter.Next(), counter.Seen())", "c := counter.Next() + a", "println(counter.Seen())", "a + b + c"},
	{"func area(w, h int) int {\n\treturn w * h\n}", "println(area(2, 3))", "func area(w, h, d int) int {\n\treturn w * h * d\n}", "println(area(2, 3, 4))", "func total(xs ...int) int {\n\treturn len(xs)\n}", "println(total(), total(1, 2))", "area(1, 1, 1)"},
}

func c18PoolProgram(r *rand.Rand) []topItem {
	have := map[string]bool{}
	used := map[int]bool{}
	var items []topItem
	n := 5 + r.Intn(6)
	sat := func(ps poolStmt) bool {
		for _, nd := range ps.needs {
			if !have[nd] {
				return false
			}
		}
		for _, pv := range ps.provides {
			if have[pv] {
				return false
			}
		}
		return true
	}
	for tries := 0; len(items) < n && tries < 400; tries++ {
		i := r.Intn(len(c18PoolStmts))
		ps := c18PoolStmts[i]
		if !sat(ps) || (used[i] && r.Intn(3) > 0) {
			continue
		}
		// prefer statements that use something over bare declarations once a few names exist
		if len(ps.needs) == 0 && len(ps.provides) > 0 && len(have) >= 4 && r.Intn(3) > 0 {
			continue
		}
		used[i] = true
		for _, pv := range ps.provides {
			have[pv] = true
		}
		items = append(items, topItem{kind: "raw", text: ps.text})
	}
	var fin []poolStmt
	for _, f := range c18PoolFinals {
		if sat(f) {
			fin = append(fin, f)
		}
	}
	if len(fin) > 0 && r.Intn(4) > 0 {
		items = append(items, topItem{kind: "raw", text: fin[r.Intn(len(fin))].text})
	}
	return items
}

func checkC18(c *Ctx) {
	c.Rule = "programs = (a) seeded random sequences of 4..9 generated top-level statements, (b) sequences of 5..11 statements sampled from a hand-written pool (float64 / int8 / uint8 / string locals declared in statement headers, closures, stdlib imports, methods, maps, slices, constants), each using only names declared earlier; statement kinds: (declarations, assignments, op-assignments, control statements with scoped locals that shadow package-level names, calls, function / struct type definitions, an import with fmt.Println, a final expression); chunkings = ALL 2^(n-1) ways of cutting each program into consecutive Eval calls, enumerated by TLC from Repl.tla; distinct_nontrivial = (program, chunking) pairs with at least two chunks"
	c.Assumptions = []string{"the whole-program evaluation (one Eval call on a fresh VM) of every prefix is the oracle, as the property defines it; MiniGo.tla's meaning of the same prefixes is compared as a cross-check (reported, not a verdict)", "the harness repeats the REPL's call pattern (successive Eval calls sharing one import map); cli.go's readline loop itself is not driven"}
	r := rand.New(rand.NewSource(c.Seed))
	np := c.pick(150, 3000)
	type prog struct {
		id    string
		items []topItem
		obs   []c18Obs
	}
	var progs []prog
	var specProgs []*Prog
	var obsFile []map[string]any
	obsByID := map[string]c18Obs{}
	npool := c.pick(80, 1200)
	var failing []string
	for i := 0; i < np+npool; i++ {
		id := fmt.Sprintf("c18-%d", i)
		var items []topItem
		var base *Prog
		if i < np {
			items, base = c18Generate(r, id)
		} else if i-np < len(c18Scenarios) {
			id = fmt.Sprintf("c18-pool-scn%d", i-np)
			for _, t := range c18Scenarios[i-np] {
				items = append(items, topItem{kind: "raw", text: t})
			}
		} else {
			id = fmt.Sprintf("c18-pool-%d", i-np)
			items = c18PoolProgram(r)
		}
		whole := c18Whole(items, len(items))
		if whole.Error != "" {
			// fed one statement per call instead: when that succeeds, the two ways of feeding differ
			var out bytes.Buffer
			vm := goat.New(goat.WithStdout(&out))
			imports := map[string]string{}
			var ierr error
			for k := 0; k < len(items) && ierr == nil; k++ {
				goat.VerifSetBudget(400000)
				_, ierr = vm.Eval(c18FS, "repl.go", c18Source(items, k, k+1), goat.WithEvalImports(imports))
				goat.VerifSetBudget(-1)
			}
			if ierr == nil && !strings.Contains(whole.Error, goat.VerifBudgetMsg) {
				c.violate(hashKey(id+"|whole-fails"), fmt.Sprintf("program %s evaluated as a whole fails (%s) but succeeds when fed one statement per call (output %q)", id, firstLine(whole.Error), clip(out.String(), 200)),
					map[string]any{"statements": c18Texts(items), "whole_program_error": whole.Error, "incremental_output": out.String()})
			}
			// otherwise the generator produced something goatlang rejects either way: not a chunking question
			failing = append(failing, id+": "+whole.Error)
			continue
		}
		pg := prog{id: id, items: items}
		var ids []string
		for k := 0; k <= len(items); k++ {
			o := c18Whole(items, k)
			pg.obs = append(pg.obs, o)
			obsByID[o.id()] = o
			ids = append(ids, o.id())
			if base != nil {
				specProgs = append(specProgs, c18PrefixProg(base, items, k, fmt.Sprintf("%s#%d", id, k)))
			}
		}
		obsFile = append(obsFile, map[string]any{"id": id, "n": len(items), "obs": ids})
		progs = append(progs, pg)
	}
	c.Extra["programs"] = len(progs)
	c.Extra["programs_failing_as_a_whole"] = len(failing)
	if len(failing) > 0 {
		c.Extra["programs_failing_as_a_whole_first"] = failing[:minInt(5, len(failing))]
	}
	if len(failing)*5 > np+npool {
		fatalf("%d of %d generated programs fail as a whole: %v", len(failing), np+npool, failing[:3])
	}
	// TLC: all chunkings
	dir := c.specWorkDir("repl")
	writeJSON(filepath.Join(dir, "obs.json"), obsFile)
	res := c.runTLC(dir, TLCOpts{Module: "Repl", Cfg: "MC_Repl.cfg", Workers: 8, HeapMB: 6000})
	byID := map[string]prog{}
	for _, p := range progs {
		byID[p.id] = p
	}
	nchunk := 0
	for _, s := range res.Records["BEH"] {
		var rec struct {
			Prog string   `json:"prog"`
			Cuts []int    `json:"cuts"`
			Seen []string `json:"seen"`
		}
		if err := json.Unmarshal([]byte(s), &rec); err != nil {
			fatalf("bad Repl record: %v", err)
		}
		pg := byID[rec.Prog]
		nchunk++
		if len(rec.Cuts) >= 2 {
			c.DistinctCount++
		}
		// replay: successive Eval calls on one VM
		var out bytes.Buffer
		vm := goat.New(goat.WithStdout(&out))
		imports := map[string]string{}
		pos := 0
		for ci, k := range rec.Cuts {
			goat.VerifSetBudget(400000)
			rets, err := vm.Eval(c18FS, "repl.go", c18Source(pg.items, pos, pos+k), goat.WithEvalImports(imports))
			goat.VerifSetBudget(-1)
			pos += k
			c.Evaluations++
			got := c18Observe(vm, &out, rets, err)
			want := obsByID[rec.Seen[ci+1]]
			if ci < len(rec.Cuts)-1 {
				got.Rets = []string{} // only the last call's returned value is claimed
				want.Rets = []string{}
			}
			if got.id() != want.id() {
				diff := c18Diff(got, want)
				c.violate(hashKey(rec.Prog+fmt.Sprint(rec.Cuts)), fmt.Sprintf("program %s cut as %v: after chunk %d (statements %d..%d) %s", rec.Prog, rec.Cuts, ci+1, pos-k+1, pos, diff),
					map[string]any{"statements": c18Texts(pg.items), "cuts": rec.Cuts, "chunk": ci + 1, "observed": got, "whole_program": want})
				break
			}
		}
		c.TracesVsImpl++
	}
	c.Extra["chunkings"] = nchunk
	if len(progs) > 0 {
		c.sample(map[string]any{"program": progs[0].id, "statements": c18Texts(progs[0].items)})
		c.sample(map[string]any{"program": progs[len(progs)-1].id, "statements": c18Texts(progs[len(progs)-1].items)})
	}
	// cross-check with MiniGo.tla (informational)
	b := runMiniGoSpec(c, specProgs, 0, "c18")
	agree, disagree := 0, 0
	var leads []string
	k := 0
	for _, pg := range progs {
		if strings.HasPrefix(pg.id, "c18-pool-") {
			continue
		}
		for i := range pg.obs {
			sp := specProgs[k]
			k++
			behs := b.Behs[sp.ID]
			if len(behs) != 1 {
				continue
			}
			if hex.EncodeToString([]byte(behs[0].Render())) == pg.obs[i].Out {
				agree++
			} else {
				disagree++
				if len(leads) < 5 {
					leads = append(leads, sp.ID)
				}
			}
		}
	}
	c.Extra["minigo_crosscheck_agree"] = agree
	c.Extra["minigo_crosscheck_disagree"] = disagree
	if len(leads) > 0 {
		c.Extra["minigo_crosscheck_leads"] = leads
	}
}

func c18Texts(items []topItem) []string {
	var out []string
	for _, it := range items {
		out = append(out, it.text)
	}
	return out
}

func c18Diff(got, want c18Obs) string {
	switch {
	case got.Error != want.Error:
		return fmt.Sprintf("error %q, whole-program evaluation: %q", got.Error, want.Error)
	case got.Out != want.Out:
		a, _ := hex.DecodeString(got.Out)
		b, _ := hex.DecodeString(want.Out)
		return fmt.Sprintf("output so far %q, whole-program evaluation of the same prefix: %q", clip(string(a), 200), clip(string(b), 200))
	case fmt.Sprint(got.Rets) != fmt.Sprint(want.Rets):
		return fmt.Sprintf("returned %v, whole-program evaluation returns %v", got.Rets, want.Rets)
	}
	var ks []string
	for k := range want.Glob {
		ks = append(ks, k)
	}
	for k := range got.Glob {
		if _, ok := want.Glob[k]; !ok {
			ks = append(ks, k)
		}
	}
	sort.Strings(ks)
	for _, k := range ks {
		if got.Glob[k] != want.Glob[k] {
			return fmt.Sprintf("package-level variable %s = %q, whole-program evaluation: %q", k, got.Glob[k], want.Glob[k])
		}
	}
	return "observations differ"
}

// c18ManyLoops: five statements, each a block of nine range loops with their own key and value variables: evaluated as a
// whole the program has far more than a hundred block-scoped variables, fed statement by statement each call has few
func c18ManyLoops() []string {
	items := []string{"xs := []int{1, 2, 3}\ntotal := 0"}
	for b := 0; b < 5; b++ {
		var sb strings.Builder
		sb.WriteString("if true {\n")
		for k := 0; k < 9; k++ {
			fmt.Fprintf(&sb, "\tfor i%d, v%d := range xs {\n\t\tw%d := i%d + v%d\n\t\ttotal += w%d\n\t}\n", k, k, k, k, k, k)
		}
		sb.WriteString("}")
		items = append(items, sb.String())
	}
	items = append(items, "println(total)", "total")
	return items
}
