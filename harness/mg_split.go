package main

import (
	"math/rand"
	"strings"
	"sync"
	"unicode"
)

// Multi-package layouts (C01): a set of functions, struct types (with all their methods), interfaces
// and named types that is closed under "mentions" and touches no package-level variable is moved
// into an imported package "lib"; the rest stays in package main and refers to the moved
// declarations by qualified, exported names. The meaning of the program is unchanged, so MiniGo.tla's
// behaviours of the single-package form are what every layout must produce; the Go toolchain
// compiles the split form too (calibration).

type pkgSplit struct {
	lib  map[string]bool // names of moved functions ("f0", "T0.M1"), struct types, interfaces, named types
	vars map[string]bool // package-level variables that moved (they are mentioned by moved functions only)
	path string          // import path of the new package ("lib", "app/lib", "x/y/lib"); its name is the last element
	cur  string          // package being printed
}

var splitMu sync.Mutex
var curSplit *pkgSplit

func exportName(n string) string {
	r := []rune(n)
	r[0] = unicode.ToUpper(r[0])
	return string(r)
}

// qualName renders a type or function name for the package being printed.
func qualName(n string) string {
	if curSplit == nil || !curSplit.lib[n] {
		return n
	}
	if curSplit.cur == "lib" {
		return exportName(n)
	}
	return "lib." + exportName(n)
}

func declName(n string) string {
	if curSplit == nil || !curSplit.lib[n] {
		return n
	}
	return exportName(n)
}

// ---- generic walkers

func walkExpr(e *E, fs func(*S), fe func(*E)) {
	if e == nil {
		return
	}
	fe(e)
	for _, x := range []*E{e.L, e.R, e.X, e.I, e.Lo, e.Hi} {
		walkExpr(x, fs, fe)
	}
	for _, x := range e.Args {
		walkExpr(x, fs, fe)
	}
	for _, x := range e.Keys {
		walkExpr(x, fs, fe)
	}
	if e.Lit != nil {
		walkStmts(e.Lit.Body, fs, fe)
		for _, t := range e.Lit.PTypes {
			fe(&E{K: "type", Ty: t})
		}
		for _, t := range e.Lit.Results {
			fe(&E{K: "type", Ty: t})
		}
	}
}

func walkStmts(ss []*S, fs func(*S), fe func(*E)) {
	for _, s := range ss {
		if s == nil {
			continue
		}
		fs(s)
		for _, x := range s.Exprs {
			walkExpr(x, fs, fe)
		}
		for _, x := range s.Lhs {
			walkExpr(x, fs, fe)
		}
		for _, x := range []*E{s.E, s.Cond, s.X, s.Tag, s.M, s.Key, s.Dst} {
			walkExpr(x, fs, fe)
		}
		if s.DeclTy != nil {
			fe(&E{K: "type", Ty: s.DeclTy})
		}
		if s.Init != nil {
			walkStmts([]*S{s.Init}, fs, fe)
		}
		if s.Post != nil {
			walkStmts([]*S{s.Post}, fs, fe)
		}
		walkStmts(s.Then, fs, fe)
		walkStmts(s.Else, fs, fe)
		walkStmts(s.Body, fs, fe)
		walkStmts(s.Def, fs, fe)
		for _, c := range s.Cases {
			for _, x := range c.Vals {
				walkExpr(x, fs, fe)
			}
			walkStmts(c.Body, fs, fe)
		}
	}
}

// typeNames lists the declared type names a type mentions.
func typeNames(t *Ty, out map[string]bool) {
	if t == nil {
		return
	}
	if t.Alias != "" {
		out[strings.TrimPrefix(t.Alias, "*")] = true
	}
	switch t.K {
	case "ptr", "iface":
		out[t.Name] = true
	case "slice":
		typeNames(t.Elem, out)
	case "map":
		typeNames(t.Key, out)
		typeNames(t.Elem, out)
	case "func":
		if t.Sig != nil {
			for _, x := range t.Sig.Params {
				typeNames(x, out)
			}
			for _, x := range t.Sig.Results {
				typeNames(x, out)
			}
		}
	}
}

// funcMentions: names of functions, types and variables a function mentions (variables by name only:
// a local of the same name as a package-level variable counts, which errs on the safe side).
func funcMentions(f *Func) (fns, types, vars map[string]bool) {
	fns, types, vars = map[string]bool{}, map[string]bool{}, map[string]bool{}
	for _, t := range f.PTypes {
		typeNames(t, types)
	}
	for _, t := range f.Results {
		typeNames(t, types)
	}
	if f.RecvTy != "" {
		types[f.RecvTy] = true
	}
	walkStmts(f.Body, func(s *S) {
		if s.K == "print" && s.Fmt {
			vars["fmt"] = true
		}
	}, func(e *E) {
		typeNames(e.Ty, types)
		switch e.K {
		case "call", "fnval":
			fns[e.Fn] = true
		case "var":
			if e.Global {
				vars[e.Name] = true
			}
		case "new":
			types[e.Sty] = true
		case "choice":
			fns["choice"] = true
		}
	})
	return
}

// chooseSplit picks a movable set; nil when the program offers none.
func (p *Prog) chooseSplit(r *rand.Rand) *pkgSplit {
	if p.NeedChoice || len(p.Inits) > 0 {
		return nil
	}
	resolveGlobals(p)
	globals := map[string]*S{}
	for _, g := range p.Globals {
		for _, n := range g.Names {
			globals[n] = g
		}
	}
	// which functions mention which package-level variable (by name)
	mentionedBy := map[string][]string{}
	for _, f := range p.Funcs {
		_, _, vs := funcMentions(f)
		for v := range vs {
			if globals[v] != nil {
				mentionedBy[v] = append(mentionedBy[v], f.Name)
			}
		}
	}
	libVars := map[string]bool{}
	byName := map[string]*Func{}
	methodsOf := map[string][]*Func{}
	for _, f := range p.Funcs {
		byName[f.Name] = f
		if f.RecvTy != "" {
			methodsOf[f.RecvTy] = append(methodsOf[f.RecvTy], f)
		}
	}
	structs := map[string]*StructDef{}
	for _, s := range p.Structs {
		structs[s.Name] = s
	}
	ifaces := map[string]*Iface{}
	for _, it := range p.Ifaces {
		ifaces[it.Name] = it
	}
	tdefs := map[string]*TypeDef{}
	for _, td := range p.TypeDefs {
		tdefs[td.Name] = td
	}
	// candidates: plain functions other than Main, in random order; grow a closed set from a few seeds
	var cands []*Func
	for _, f := range p.Funcs {
		if f.Name != p.Main && f.RecvTy == "" {
			cands = append(cands, f)
		}
	}
	if len(cands) == 0 {
		return nil
	}
	r.Shuffle(len(cands), func(i, j int) { cands[i], cands[j] = cands[j], cands[i] })
	if r.Intn(3) > 0 {
		// prefer functions that mention package-level variables (those then move with them)
		var with, without []*Func
		for _, f := range cands {
			if _, _, vs := funcMentions(f); len(vs) > 0 {
				with = append(with, f)
			} else {
				without = append(without, f)
			}
		}
		cands = append(with, without...)
	}
	lib := map[string]bool{}
	ok := true
	var addFn func(name string)
	var addType func(name string)
	addType = func(name string) {
		if lib[name] || !ok {
			return
		}
		switch {
		case structs[name] != nil:
			lib[name] = true
			for _, t := range structs[name].FTypes {
				ns := map[string]bool{}
				typeNames(t, ns)
				for n := range ns {
					addType(n)
				}
			}
			for _, m := range methodsOf[name] {
				addFn(m.Name)
			}
		case ifaces[name] != nil:
			lib[name] = true
			for _, sg := range ifaces[name].Sigs {
				ns := map[string]bool{}
				typeNames(FuncTy(sg), ns)
				for n := range ns {
					addType(n)
				}
			}
		case tdefs[name] != nil:
			lib[name] = true
			td := tdefs[name]
			if td.IsAlias {
				addType(td.Struct)
			} else {
				ns := map[string]bool{}
				typeNames(td.Under, ns)
				for n := range ns {
					addType(n)
				}
			}
		default:
			ok = false
		}
	}
	addFn = func(name string) {
		if lib[name] || !ok {
			return
		}
		f := byName[name]
		if f == nil || name == p.Main {
			ok = false // a literal's lifted name, choice, Main ...
			return
		}
		lib[name] = true
		fns, types, vars := funcMentions(f)
		for v := range vars {
			if v == "fmt" {
				ok = false
				return
			}
			if g := globals[v]; g != nil && !libVars[v] {
				// the variable moves too, and with it every function that mentions it
				if g.Const {
					ok = false
					return
				}
				for _, n := range g.Names {
					libVars[n] = true
				}
				walkStmts([]*S{g}, func(*S) {}, func(e *E) {
					ns := map[string]bool{}
					typeNames(e.Ty, ns)
					for n := range ns {
						addType(n)
					}
					switch e.K {
					case "call", "fnval":
						addFn(e.Fn)
					case "new":
						addType(e.Sty)
					case "var":
						if globals[e.Name] != nil && !libVars[e.Name] {
							ok = false // an initialiser that reads another package-level variable: left alone
						}
					}
				})
			}
		}
		for t := range types {
			addType(t)
		}
		for g := range fns {
			addFn(g)
		}
	}
	nSeeds := 1 + r.Intn(3)
	for _, f := range cands {
		if nSeeds == 0 {
			break
		}
		saved, savedV := map[string]bool{}, map[string]bool{}
		for k := range lib {
			saved[k] = true
		}
		for k := range libVars {
			savedV[k] = true
		}
		ok = true
		addFn(f.Name)
		if !ok {
			lib, libVars = saved, savedV
			continue
		}
		nSeeds--
	}
	if len(lib) == 0 {
		return nil
	}
	// an interface moved to lib is satisfied by types that may stay in main (their methods are exported
	// names already); a struct that stays in main keeps its methods there: nothing else to check
	used := false
	for _, f := range p.Funcs {
		if lib[f.Name] {
			continue
		}
		fns, types, _ := funcMentions(f)
		for n := range fns {
			if lib[n] {
				used = true
			}
		}
		for n := range types {
			if lib[n] {
				used = true
			}
		}
	}
	if !used {
		return nil
	}
	paths := []string{"lib", "app/lib", "x/y/lib", "a/lib"}
	return &pkgSplit{lib: lib, vars: libVars, path: paths[r.Intn(len(paths))]}
}

// resolveGlobals marks every variable reference that denotes a package-level variable (E.Global),
// following Go's scoping: parameters and receivers, declarations from their statement on, the
// implicit scopes of if / for / switch / range statements, function literals.
func resolveGlobals(p *Prog) {
	globals := map[string]bool{}
	for _, g := range p.Globals {
		for _, n := range g.Names {
			globals[n] = true
		}
	}
	type scope map[string]bool
	var scopes []scope
	push := func() { scopes = append(scopes, scope{}) }
	pop := func() { scopes = scopes[:len(scopes)-1] }
	declare := func(n string) {
		if n != "" && n != "_" {
			scopes[len(scopes)-1][n] = true
		}
	}
	local := func(n string) bool {
		for i := len(scopes) - 1; i >= 0; i-- {
			if scopes[i][n] {
				return true
			}
		}
		return false
	}
	var stmts func(ss []*S)
	var expr func(e *E)
	fn := func(f *Func) {
		push()
		declare(f.Recv)
		for _, n := range f.Params {
			declare(n)
		}
		stmts(f.Body)
		pop()
	}
	expr = func(e *E) {
		if e == nil {
			return
		}
		if e.K == "var" {
			e.Global = globals[e.Name] && !local(e.Name)
		}
		for _, x := range []*E{e.L, e.R, e.X, e.I, e.Lo, e.Hi} {
			expr(x)
		}
		for _, x := range e.Args {
			expr(x)
		}
		for _, x := range e.Keys {
			expr(x)
		}
		if e.Lit != nil {
			fn(e.Lit)
		}
	}
	block := func(ss []*S) {
		push()
		stmts(ss)
		pop()
	}
	var stmt func(s *S)
	stmt = func(s *S) {
		if s == nil {
			return
		}
		switch s.K {
		case "decl", "declzero":
			for _, x := range s.Exprs {
				expr(x)
			}
			for _, n := range s.Names {
				declare(n)
			}
			return
		case "if":
			push()
			stmt(s.Init)
			expr(s.Cond)
			block(s.Then)
			if s.HasElse {
				block(s.Else)
			}
			pop()
			return
		case "for":
			push()
			stmt(s.Init)
			expr(s.Cond)
			stmt(s.Post)
			block(s.Body)
			pop()
			return
		case "range":
			expr(s.X)
			push()
			declare(s.KName)
			declare(s.VName)
			block(s.Body)
			pop()
			return
		case "switch":
			push()
			stmt(s.Init)
			expr(s.Tag)
			for _, c := range s.Cases {
				for _, x := range c.Vals {
					expr(x)
				}
				block(c.Body)
			}
			if s.HasDef {
				block(s.Def)
			}
			pop()
			return
		case "block":
			block(s.Body)
			return
		}
		for _, x := range s.Exprs {
			expr(x)
		}
		for _, x := range s.Lhs {
			expr(x)
		}
		for _, x := range []*E{s.E, s.Cond, s.X, s.Tag, s.M, s.Key, s.Dst} {
			expr(x)
		}
	}
	stmts = func(ss []*S) {
		for _, s := range ss {
			stmt(s)
		}
	}
	for _, f := range p.Funcs {
		fn(f)
	}
	// initialisers of package-level variables see package scope only
	push()
	for _, g := range p.Globals {
		for _, x := range g.Exprs {
			expr(x)
		}
	}
	pop()
}
