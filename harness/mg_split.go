package main

import (
	"math/rand"
	"strings"
	"sync"
	"unicode"
)

// Multi-package layouts (C01): a set of functions, struct types (with all their methods), interfaces
// and named types that is closed under "mentions" and touches no package-level variable is moved
// into an imported package "lib"; the rest stays in package main and refers to the moved
// declarations by qualified, exported names. The meaning of the program is unchanged, so MiniGo.tla's
// behaviours of the single-package form are what every layout must produce; the Go toolchain
// compiles the split form too (calibration).

type pkgSplit struct {
	lib map[string]bool // names of moved functions ("f0", "T0.M1"), struct types, interfaces, named types
	cur string          // package being printed
}

var splitMu sync.Mutex
var curSplit *pkgSplit

func exportName(n string) string {
	r := []rune(n)
	r[0] = unicode.ToUpper(r[0])
	return string(r)
}

// qualName renders a type or function name for the package being printed.
func qualName(n string) string {
	if curSplit == nil || !curSplit.lib[n] {
		return n
	}
	if curSplit.cur == "lib" {
		return exportName(n)
	}
	return "lib." + exportName(n)
}

func declName(n string) string {
	if curSplit == nil || !curSplit.lib[n] {
		return n
	}
	return exportName(n)
}

// ---- generic walkers

func walkExpr(e *E, fs func(*S), fe func(*E)) {
	if e == nil {
		return
	}
	fe(e)
	for _, x := range []*E{e.L, e.R, e.X, e.I, e.Lo, e.Hi} {
		walkExpr(x, fs, fe)
	}
	for _, x := range e.Args {
		walkExpr(x, fs, fe)
	}
	for _, x := range e.Keys {
		walkExpr(x, fs, fe)
	}
	if e.Lit != nil {
		walkStmts(e.Lit.Body, fs, fe)
		for _, t := range e.Lit.PTypes {
			fe(&E{K: "type", Ty: t})
		}
		for _, t := range e.Lit.Results {
			fe(&E{K: "type", Ty: t})
		}
	}
}

func walkStmts(ss []*S, fs func(*S), fe func(*E)) {
	for _, s := range ss {
		if s == nil {
			continue
		}
		fs(s)
		for _, x := range s.Exprs {
			walkExpr(x, fs, fe)
		}
		for _, x := range s.Lhs {
			walkExpr(x, fs, fe)
		}
		for _, x := range []*E{s.E, s.Cond, s.X, s.Tag, s.M, s.Key, s.Dst} {
			walkExpr(x, fs, fe)
		}
		if s.DeclTy != nil {
			fe(&E{K: "type", Ty: s.DeclTy})
		}
		if s.Init != nil {
			walkStmts([]*S{s.Init}, fs, fe)
		}
		if s.Post != nil {
			walkStmts([]*S{s.Post}, fs, fe)
		}
		walkStmts(s.Then, fs, fe)
		walkStmts(s.Else, fs, fe)
		walkStmts(s.Body, fs, fe)
		walkStmts(s.Def, fs, fe)
		for _, c := range s.Cases {
			for _, x := range c.Vals {
				walkExpr(x, fs, fe)
			}
			walkStmts(c.Body, fs, fe)
		}
	}
}

// typeNames lists the declared type names a type mentions.
func typeNames(t *Ty, out map[string]bool) {
	if t == nil {
		return
	}
	if t.Alias != "" {
		out[strings.TrimPrefix(t.Alias, "*")] = true
	}
	switch t.K {
	case "ptr", "iface":
		out[t.Name] = true
	case "slice":
		typeNames(t.Elem, out)
	case "map":
		typeNames(t.Key, out)
		typeNames(t.Elem, out)
	case "func":
		if t.Sig != nil {
			for _, x := range t.Sig.Params {
				typeNames(x, out)
			}
			for _, x := range t.Sig.Results {
				typeNames(x, out)
			}
		}
	}
}

// funcMentions: names of functions, types and variables a function mentions (variables by name only:
// a local of the same name as a package-level variable counts, which errs on the safe side).
func funcMentions(f *Func) (fns, types, vars map[string]bool) {
	fns, types, vars = map[string]bool{}, map[string]bool{}, map[string]bool{}
	for _, t := range f.PTypes {
		typeNames(t, types)
	}
	for _, t := range f.Results {
		typeNames(t, types)
	}
	if f.RecvTy != "" {
		types[f.RecvTy] = true
	}
	walkStmts(f.Body, func(s *S) {
		if s.K == "print" && s.Fmt {
			vars["fmt"] = true
		}
	}, func(e *E) {
		typeNames(e.Ty, types)
		switch e.K {
		case "call", "fnval":
			fns[e.Fn] = true
		case "var":
			vars[e.Name] = true
		case "new":
			types[e.Sty] = true
		case "choice":
			fns["choice"] = true
		}
	})
	return
}

// chooseSplit picks a movable set; nil when the program offers none.
func (p *Prog) chooseSplit(r *rand.Rand) *pkgSplit {
	if p.NeedChoice || len(p.Inits) > 0 {
		return nil
	}
	globals := map[string]bool{}
	for _, g := range p.Globals {
		for _, n := range g.Names {
			globals[n] = true
		}
	}
	byName := map[string]*Func{}
	methodsOf := map[string][]*Func{}
	for _, f := range p.Funcs {
		byName[f.Name] = f
		if f.RecvTy != "" {
			methodsOf[f.RecvTy] = append(methodsOf[f.RecvTy], f)
		}
	}
	structs := map[string]*StructDef{}
	for _, s := range p.Structs {
		structs[s.Name] = s
	}
	ifaces := map[string]*Iface{}
	for _, it := range p.Ifaces {
		ifaces[it.Name] = it
	}
	tdefs := map[string]*TypeDef{}
	for _, td := range p.TypeDefs {
		tdefs[td.Name] = td
	}
	// candidates: plain functions other than Main, in random order; grow a closed set from a few seeds
	var cands []*Func
	for _, f := range p.Funcs {
		if f.Name != p.Main && f.RecvTy == "" {
			cands = append(cands, f)
		}
	}
	if len(cands) == 0 {
		return nil
	}
	r.Shuffle(len(cands), func(i, j int) { cands[i], cands[j] = cands[j], cands[i] })
	lib := map[string]bool{}
	ok := true
	var addFn func(name string)
	var addType func(name string)
	addType = func(name string) {
		if lib[name] || !ok {
			return
		}
		switch {
		case structs[name] != nil:
			lib[name] = true
			for _, t := range structs[name].FTypes {
				ns := map[string]bool{}
				typeNames(t, ns)
				for n := range ns {
					addType(n)
				}
			}
			for _, m := range methodsOf[name] {
				addFn(m.Name)
			}
		case ifaces[name] != nil:
			lib[name] = true
			for _, sg := range ifaces[name].Sigs {
				ns := map[string]bool{}
				typeNames(FuncTy(sg), ns)
				for n := range ns {
					addType(n)
				}
			}
		case tdefs[name] != nil:
			lib[name] = true
			td := tdefs[name]
			if td.IsAlias {
				addType(td.Struct)
			} else {
				ns := map[string]bool{}
				typeNames(td.Under, ns)
				for n := range ns {
					addType(n)
				}
			}
		default:
			ok = false
		}
	}
	addFn = func(name string) {
		if lib[name] || !ok {
			return
		}
		f := byName[name]
		if f == nil || name == p.Main {
			ok = false // a literal's lifted name, choice, Main ...
			return
		}
		lib[name] = true
		fns, types, vars := funcMentions(f)
		for v := range vars {
			if globals[v] || v == "fmt" {
				ok = false
				return
			}
		}
		for t := range types {
			addType(t)
		}
		for g := range fns {
			addFn(g)
		}
	}
	nSeeds := 1 + r.Intn(3)
	for _, f := range cands {
		if nSeeds == 0 {
			break
		}
		saved := map[string]bool{}
		for k := range lib {
			saved[k] = true
		}
		ok = true
		addFn(f.Name)
		if !ok {
			lib = saved
			continue
		}
		nSeeds--
	}
	if len(lib) == 0 {
		return nil
	}
	// an interface moved to lib is satisfied by types that may stay in main (their methods are exported
	// names already); a struct that stays in main keeps its methods there: nothing else to check
	used := false
	for _, f := range p.Funcs {
		if lib[f.Name] {
			continue
		}
		fns, types, _ := funcMentions(f)
		for n := range fns {
			if lib[n] {
				used = true
			}
		}
		for n := range types {
			if lib[n] {
				used = true
			}
		}
	}
	if !used {
		return nil
	}
	return &pkgSplit{lib: lib}
}
