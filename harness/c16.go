package main

import (
	"encoding/json"
	"fmt"
	"math/rand"
	"os"
	"path/filepath"
	"sort"
	"strings"
)

// C16 — declaration order and file layout inside a package do not matter.
//
// DeclOrder.tla is a shuffle machine over the top-level declarations of a package: hoistable ones
// (functions, methods, struct types) move freely within and across files, fixed items (constants,
// variable initialisers) keep their relative source order; TLC checks that every step preserves the
// canonical form and its reachable state set is the set of admissible layouts (exhaustive for
// packages with <= 7 declarations, simulated for larger ones). Every layout is materialised as a
// file tree, loaded by the real loader and run; its output must equal what MiniGo.tla gives for the
// canonical form (and therefore equal every other layout's).

func init() { register("C16", checkC16) }

type c16Decl struct {
	kind string // hoist | fixed
	text string
}

// c16Package generates a package and returns it with its declarations (canonical order: types,
// functions and methods, then the fixed items in source order).
func c16Package(r *rand.Rand, id string, size int) (*Prog, []c16Decl) {
	big := size == 2
	o := GenOpts{MaxStmts: 25, MaxDepth: 2, Funcs: 3, Strings: true, Structs: true, Containers: true, Lib: true}
	if big {
		o.Funcs = 8
	}
	if size == 0 { // small: 7 declarations, every admissible layout is enumerated
		o.Funcs, o.OneStruct, o.NoGlobals = 1, true, true
	}
	g := NewGen(r, o)
	g.shadowBias = true
	p := g.Program(id)
	// order-sensitive fixed items: constants built from earlier constants, initialisers with visible side effects
	mark := &Func{Name: "mark", Params: []string{"s"}, PTypes: []*Ty{TString}, Results: []*Ty{TInt},
		Body: []*S{{K: "print", Ln: true, Exprs: []*E{{K: "str", Ty: TString, S: "init"}, v("s", TString)}}, {K: "return", NRes: 1, Exprs: []*E{lenOf(v("s", TString))}}}}
	p.Funcs = append([]*Func{mark}, p.Funcs...)
	// a package function that has the name of a builtin: it is in scope in the whole package wherever
	// it is declared (Go: a package-level declaration shadows the universe scope)
	// two struct types that refer to each other (in whatever order they end up, one reference is forward)
	if size != 0 {
		ta, tb := PtrTo("NodeA"), PtrTo("NodeB")
		p.Structs = append(p.Structs, &StructDef{Name: "NodeA", Fields: []string{"B", "V"}, FTypes: []*Ty{tb, TInt}},
			&StructDef{Name: "NodeB", Fields: []string{"A", "W"}, FTypes: []*Ty{ta, TInt}})
		link := &Func{Name: "link", Results: []*Ty{TInt}, Body: []*S{
			dcl("a", newS("NodeA", "V", lit(TInt, 1))),
			dcl("b", newS("NodeB", "A", v("a", ta), "W", lit(TInt, 2))),
			asg(fld(v("a", ta), "B", tb), v("b", tb)),
			ret(bin("+", TInt, fld(fld(v("a", ta), "B", tb), "W", TInt), fld(fld(v("b", tb), "A", ta), "V", TInt)))}}
		p.Funcs = append([]*Func{link}, p.Funcs...)
		mainFn := p.Funcs[len(p.Funcs)-1]
		mainFn.Body = append([]*S{pr(sS("link"), &E{K: "call", Fn: "link", Ty: TInt, NRes: 1})}, mainFn.Body...)
	}
	// struct types that share field names in different orders, rendered as a whole
	if size != 0 {
		g.prog = p
		call := g.addShowDemo()
		mainFn := p.Funcs[len(p.Funcs)-1]
		mainFn.Body = append([]*S{call}, mainFn.Body...)
	}
	customPrint := false
	if size != 0 && r.Intn(2) == 0 {
		customPrint = true
		name := []string{"print", "println"}[r.Intn(2)]
		custom := &Func{Name: name, Params: []string{"s"}, PTypes: []*Ty{TString},
			Body: []*S{{K: "print", Ln: true, Fmt: true, Exprs: []*E{{K: "str", Ty: TString, S: "custom"}, v("s", TString)}}}}
		p.Funcs = append(p.Funcs[:len(p.Funcs)-1], custom, p.Funcs[len(p.Funcs)-1])
		call := func(arg string) *S {
			return &S{K: "expr", NRes: 0, E: &E{K: "call", Fn: name, NRes: 0, Args: []*E{{K: "str", Ty: TString, S: arg}}}}
		}
		mark.Body = append([]*S{call("in mark")}, mark.Body...)
		mainFn := p.Funcs[len(p.Funcs)-1]
		mainFn.Body = append([]*S{call("in main")}, mainFn.Body...)
		// the generated code must not print through the builtin of that name
		for _, f := range p.Funcs {
			if f == custom {
				continue
			}
			walkStmts(f.Body, func(s *S) {
				if s.K == "print" {
					s.Fmt = true
				}
			}, func(*E) {})
		}
		walkStmts(p.Globals, func(s *S) {}, func(*E) {})
	}
	nfix := 2 + r.Intn(2)
	if big {
		nfix = 4
	}
	if size == 0 {
		nfix = 1
	}
	var fixed []*S
	fixed = append(fixed, &S{K: "decl", Names: []string{"base"}, Const: true, Exprs: []*E{lit(TInt, int64(2+r.Intn(5)))}})
	fixed = append(fixed, &S{K: "decl", Names: []string{"scaled"}, Const: true, Exprs: []*E{{K: "bin", Ty: TInt, Op: "*", L: v("base", TInt), R: lit(TInt, 7)}}})
	for i := 0; i < nfix; i++ {
		n := fmt.Sprintf("iv%d", i)
		fixed = append(fixed, &S{K: "decl", Names: []string{n}, VarForm: true, Exprs: []*E{{K: "call", Fn: "mark", Ty: TInt, NRes: 1, Args: []*E{{K: "str", Ty: TString, S: fmt.Sprintf("v%d", i)}}}}})
	}
	p.Globals = append(p.Globals, fixed...)
	// Main shows the fixed items too
	main := p.Funcs[len(p.Funcs)-1]
	show := &S{K: "print", Ln: true, Fmt: customPrint, Exprs: []*E{{K: "str", Ty: TString, S: "fixed"}, v("base", TInt), v("scaled", TInt), v("iv0", TInt)}}
	main.Body = append([]*S{show}, main.Body...)

	var decls []c16Decl
	pr := func(f func(p *printer)) string {
		q := &printer{line: 1, prog: p}
		f(q)
		return strings.TrimRight(q.b.String(), "\n") + "\n"
	}
	for _, st := range p.Structs {
		st := st
		decls = append(decls, c16Decl{"hoist", pr(func(q *printer) { q.typeDecls(&Prog{Structs: []*StructDef{st}}) })})
	}
	for _, fn := range p.Funcs {
		fn := fn
		decls = append(decls, c16Decl{"hoist", pr(func(q *printer) { q.funcDecl(fn) })})
	}
	if size != 0 {
		// declarations outside the generated program (their one line of output comes first, from the first initialiser): a
		// method whose LOCAL struct type has the name of a package-level type that other methods and functions build
		decls = append(decls,
			c16Decl{"hoist", "type RawItem struct {\n\tid   int\n\tname string\n}\n"},
			c16Decl{"hoist", "type RawStore struct {\n\tn int\n}\n"},
			c16Decl{"hoist", "func (s *RawStore) Summary() int {\n\ttype RawItem struct {\n\t\tlo, hi int\n\t}\n\tit := &RawItem{lo: 1, hi: 2}\n\treturn it.lo + it.hi + s.n\n}\n"},
			c16Decl{"hoist", "func (s *RawStore) NewItem() *RawItem {\n\treturn &RawItem{id: 5, name: \"x\"}\n}\n"},
			c16Decl{"hoist", "func rawMk() *RawItem {\n\treturn &RawItem{id: 6, name: \"y\"}\n}\n"},
			c16Decl{"hoist", "func rawCheck() int {\n\ts := &RawStore{}\n\tit := s.NewItem()\n\tfmt.Println(\"raw\", s.Summary(), it.id, it.name, rawMk().id, rawMk().name)\n\treturn 0\n}\n"},
			c16Decl{"fixed", "var rawChecked = rawCheck()\n"})
	}
	for _, gs := range p.Globals {
		gs := gs
		gs.Global = true
		decls = append(decls, c16Decl{"fixed", pr(func(q *printer) { q.stmt(gs) })})
	}
	return p, decls
}

func c16Layouts(c *Ctx, kinds []string, limit int) [][][]int {
	dir := c.specWorkDir(fmt.Sprintf("declorder-%d-%d", len(kinds), limit))
	var ks []string
	for _, k := range kinds {
		ks = append(ks, fmt.Sprintf("%q", k))
	}
	must(os.WriteFile(filepath.Join(dir, "MC_DeclOrder.tla"), []byte("---- MODULE MC_DeclOrder ----\nEXTENDS DeclOrder\nKindsC == <<"+strings.Join(ks, ", ")+">>\n====\n"), 0o644))
	must(os.WriteFile(filepath.Join(dir, "MC_DeclOrder.cfg"), []byte("SPECIFICATION DSpec\nCONSTANTS\n  Kinds <- KindsC\n  MaxFiles = 3\nINVARIANTS CanonPreserved EachDeclOnce Emit\nCHECK_DEADLOCK FALSE\n"), 0o644))
	opts := TLCOpts{Module: "MC_DeclOrder", Cfg: "MC_DeclOrder.cfg", Workers: 8, HeapMB: 6000}
	if len(kinds) > 7 {
		opts.Simulate = fmt.Sprintf("num=%d", limit/50)
		opts.Depth = 50
		opts.Workers = 1
	}
	res := c.runTLC(dir, opts)
	seen := map[string]bool{}
	var out [][][]int
	for _, s := range res.Records["LAY"] {
		if seen[s] {
			continue
		}
		seen[s] = true
		var rec struct {
			Files [][]int `json:"files"`
		}
		if err := json.Unmarshal([]byte(s), &rec); err != nil {
			fatalf("bad LAY record %q", s)
		}
		out = append(out, rec.Files)
	}
	return out
}

func checkC16(c *Ctx) {
	c.Rule = "packages = seeded random packages (struct types incl. two that refer to each other, functions, methods, constants built from earlier constants, variable initialisers with visible side effects, a package function named like a builtin (print / println), locals and parameters shadowing package-level names); layouts = for packages with <= 7 declarations EVERY state reachable in DeclOrder.tla (all permutations of hoistable declarations x all splits into <= 3 files with the fixed items in order; a deterministic sample of them is loaded in the quick tier), for larger packages layouts sampled by TLC simulation; each layout is loaded as the top-level package or as a package imported by it (alternating); distinct_nontrivial = distinct (package, layout) pairs loaded"
	c.Assumptions = []string{"MiniGo.tla gives the meaning of the canonical form and is calibrated against the Go toolchain on it", "file names are chosen so that their sorted order is the layout's file order"}
	r := rand.New(rand.NewSource(c.Seed))
	type pkg struct {
		p     *Prog
		decls []c16Decl
		big   bool
	}
	var pkgs []pkg
	var progs []*Prog
	for i := 0; i < c.pick(30, 60); i++ {
		p, d := c16Package(r, fmt.Sprintf("c16-%d", i), i%3)
		pkgs = append(pkgs, pkg{p, d, i%3 == 2})
		progs = append(progs, p)
	}
	b := runMiniGoSpec(c, progs, 0, "c16")
	calibrateGo(c, b, "c16")
	layoutCache := map[string][][][]int{}
	nameSets := [][]string{{"a.go", "b.go", "c.go"}, {"decl.go", "main.go", "z_last.go"}, {"0.go", "m.go", "x_y.go"}, {"impl.go", "types.go", "util.go"}}
	perPkg := c.pick(250, 1000)
	for pi, pk := range pkgs {
		behs := b.Behs[pk.p.ID]
		if len(behs) != 1 {
			fatalf("package %s has %d behaviours", pk.p.ID, len(behs))
		}
		want := behs[0].Render()
		for _, d := range pk.decls {
			if strings.HasPrefix(d.text, "var rawChecked") {
				want = "raw 3 5 x 6 y\n" + want
			}
		}
		var kinds []string
		for _, d := range pk.decls {
			kinds = append(kinds, d.kind)
		}
		key := strings.Join(kinds, ",")
		if _, ok := layoutCache[key]; !ok {
			layoutCache[key] = c16Layouts(c, kinds, c.pick(3000, 20000))
		}
		lays := layoutCache[key]
		if len(lays) == 0 {
			fatalf("DeclOrder.tla produced no layouts for %v", kinds)
		}
		// deterministic sample: a stride through the reachable set, different per package
		idxs := r.Perm(len(lays))
		if len(idxs) > perPkg {
			idxs = idxs[:perPkg]
		}
		sort.Ints(idxs)
		for _, li := range idxs {
			lay := lays[li]
			names := nameSets[(pi+li)%len(nameSets)]
			files := map[string]string{}
			fi := 0
			for _, f := range lay {
				if len(f) == 0 {
					continue
				}
				var sb strings.Builder
				for _, d := range f {
					sb.WriteString(pk.decls[d-1].text)
					sb.WriteString("\n")
				}
				hdr := "package main\n\n"
				// each file imports what it uses: one import as a single declaration, several as a group (so the
				// files of one package have declarations that begin alike and differ further down)
				var need []string
				for _, pk := range []string{"fmt", "strconv", "strings"} {
					if strings.Contains(sb.String(), pk+".") {
						need = append(need, pk)
					}
				}
				if len(need) == 1 {
					hdr += "import \"" + need[0] + "\"\n\n"
				} else if len(need) > 1 {
					hdr += "import (\n"
					for _, pk := range need {
						hdr += "\t\"" + pk + "\"\n"
					}
					hdr += ")\n\n"
				}
				files["main/"+names[fi]] = hdr + sb.String()
				fi++
			}
			// every second layout is loaded as an IMPORTED package: the same files under p/ with the
			// package clause p, reached from a main package that only calls p.Main
			entry := "top-level package"
			if li%2 == 1 {
				// (every other time under an import path of two elements)
				path := "p"
				if li%4 == 3 {
					path = "lib/p"
				}
				entry = "imported package " + path
				imp := map[string]string{"main/main.go": "package main\n\nimport \"" + path + "\"\n\nfunc Main() {\n\tp.Main()\n}\n"}
				for name, src := range files {
					imp[path+"/"+strings.TrimPrefix(name, "main/")] = strings.Replace(src, "package main\n", "package p\n", 1)
				}
				files = imp
			}
			arg := "main"
			if li%2 == 0 && len(files) == 1 {
				// a layout with all declarations in one file is also addressed by that file's name
				for name := range files {
					if li%4 == 2 {
						arg = name
						entry = "file " + name
					}
				}
			}
			res := runProgram(files, arg, "main.Main", 0, true, 400000)
			c.Evaluations++
			bad := ""
			switch {
			case res.Panic != "":
				bad = "Go panic escaped: " + res.Panic
			case res.Failed() && behs[0].Status != "panic":
				bad = "error: " + firstLine(res.ErrString())
			case res.Stdout != want:
				bad = fmt.Sprintf("output differs from the canonical form's: got %q want %q", clip(res.Stdout, 200), clip(want, 200))
			}
			if bad != "" {
				c.violate(hashKey(fmt.Sprint(files)), fmt.Sprintf("package %s layout %v (loaded as %s): %s", pk.p.ID, lay, entry, bad), map[string]any{"files": files, "layout": lay, "expected_output": want, "observed_output": res.Stdout, "observed_error": res.ErrString()})
				break
			}
			c.TracesVsImpl++
			c.DistinctCount++
		}
		if pi == 1 {
			c.sample(map[string]any{"package": pk.p.ID, "declarations": len(pk.decls), "layouts_reachable": len(lays), "layouts_loaded": len(idxs), "canonical_source": clip(b.Sources[pk.p.ID], 1200)})
		}
	}
	c.Extra["packages"] = len(pkgs)
	c.Extra["layout_signatures"] = len(layoutCache)
}
