package main

import (
	"bytes"
	"context"
	"encoding/json"
	"fmt"
	"math"
	"math/rand"
	"os"
	"os/exec"
	"path/filepath"
	"strconv"
	"strings"
	"testing/fstest"
	"time"

	goat "github.com/philhassey/goatlang"
)

// C14 — printed values look as Go prints them, and printing always terminates.
//
// M2: typed value descriptions (booleans, integers at the boundaries of every width, float64 values
// given by their shortest decimal digits and exponent incl. NaN/+-Inf/+-0, strings, slices and
// single-entry maps nested to depth 3 (quick) / 5 (thorough), struct references) are handed to TLC,
// which emits the text GoFmt.tla prescribes; the harness builds each value in a script (literal) and
// prints it through println, fmt.Println (several operands), fmt.Print, fmt.Sprint, and reads it back
// through the host (Value.String). fmt.Sprint on the same native Go values calibrates GoFmt.tla.
// Termination: cyclic object graphs are rendered in a child process; Trace_Render accepts a line
// iff the call returned.

func init() {
	register("C14", checkC14)
	register("c14child", c14Child)
}

type fmtVal struct {
	T       string    `json:"t"`
	Ty      string    `json:"ty"`
	V       int64     `json:"v"`
	B       bool      `json:"b"`
	S       []int     `json:"s"`
	Neg     bool      `json:"neg"`
	Digits  []int     `json:"digits"`
	Dp      int       `json:"dp"`
	Special string    `json:"special"`
	Elems   []*fmtVal `json:"elems"`
	K       *fmtVal   `json:"k"`
	Val     *fmtVal   `json:"v2"`
	Names   [][]int   `json:"names"`
	Vals    []*fmtVal `json:"vals"`
	goTy    string    // Go/goat type text
	lit     string    // source literal (goat and Go)
	native  bool      // can be calibrated with native Go fmt
}

// JSON for TLC: map values use fields k and v; ints use v: so encode by hand
func (v *fmtVal) toJSON() map[string]any {
	switch v.T {
	case "bool":
		return map[string]any{"t": "bool", "b": v.B}
	case "int":
		return map[string]any{"t": "int", "ty": v.Ty, "v": v.V}
	case "flt":
		d := v.Digits
		if d == nil {
			d = []int{}
		}
		return map[string]any{"t": "flt", "neg": v.Neg, "digits": d, "dp": v.Dp, "special": v.Special}
	case "str":
		s := v.S
		if s == nil {
			s = []int{}
		}
		return map[string]any{"t": "str", "s": s}
	case "slice", "println":
		es := []any{}
		for _, e := range v.Elems {
			es = append(es, e.toJSON())
		}
		return map[string]any{"t": v.T, "elems": es}
	case "map":
		return map[string]any{"t": "map", "k": v.K.toJSON(), "v": v.Val.toJSON()}
	case "mmap":
		ks, vs := []any{}, []any{}
		for i := range v.Elems {
			ks = append(ks, v.Elems[i].toJSON())
			vs = append(vs, v.Vals[i].toJSON())
		}
		return map[string]any{"t": "mmap", "ks": ks, "vs": vs}
	case "emptymap":
		return map[string]any{"t": "emptymap"}
	case "struct":
		vs := []any{}
		for _, e := range v.Vals {
			vs = append(vs, e.toJSON())
		}
		return map[string]any{"t": "struct", "names": v.Names, "vals": vs}
	}
	panic("toJSON " + v.T)
}

type fmtGen struct {
	r       *rand.Rand
	structs []string // struct type declarations
	ns      int
}

func (g *fmtGen) scalar(kind string) *fmtVal {
	r := g.r
	switch kind {
	case "bool":
		b := r.Intn(2) == 0
		return &fmtVal{T: "bool", B: b, goTy: "bool", lit: fmt.Sprint(b), native: true}
	case "int", "int8", "uint8", "uint32":
		lo, hi := litRange(&Ty{K: kind})
		cands := []int64{lo, hi, 0, 1, lo + 1, hi - 1, 10, 100, 99999, 1000000, 2147483648, 4294967295}
		x := cands[r.Intn(len(cands))]
		if r.Intn(3) == 0 {
			x = lo + r.Int63n(hi-lo+1)
		}
		if x < lo || x > hi {
			x = hi
		}
		ty := kind
		if kind == "int" {
			ty = "int32"
		}
		return &fmtVal{T: "int", Ty: ty, V: pattern(ty, x), goTy: kind, lit: fmt.Sprint(x), native: true}
	case "string":
		strs := []string{"", " ", "a", "a b", "héllo", "x\ty", "[1 2]", "map[a:1]", "  lead", "ünï", "\xff", "100%", "%d", "5%x %s", "%!v(MISSING)", "\"q\""}
		s := strs[r.Intn(len(strs))]
		return &fmtVal{T: "str", S: bytesOf(s), goTy: "string", lit: goStringLit(s, false), native: true}
	case "float64":
		return g.float()
	}
	panic("scalar " + kind)
}

// float: shortest decimal description with <= 15 significant digits (always round-trips)
func (g *fmtGen) float() *fmtVal {
	r := g.r
	switch r.Intn(12) {
	case 0:
		return &fmtVal{T: "flt", Special: "0", goTy: "float64", lit: "0.0", native: true}
	case 1:
		nd := 1 + r.Intn(3)
		ds := make([]int, nd)
		for i := range ds {
			ds[i] = r.Intn(10)
		}
		ds[0] = 1 + r.Intn(9)
		for ds[len(ds)-1] == 0 {
			ds[len(ds)-1] = 1 + r.Intn(9)
		}
		return g.mkFloat(r.Intn(2) == 0, ds, len(ds)) // an integer-valued float
	}
	nd := 1 + r.Intn(15)
	ds := make([]int, nd)
	for i := range ds {
		ds[i] = r.Intn(10)
	}
	ds[0] = 1 + r.Intn(9)
	if ds[nd-1] == 0 {
		ds[nd-1] = 1 + r.Intn(9)
	}
	dps := []int{-8, -5, -4, -3, -1, 0, 1, 2, 5, 6, 7, 8, 15, 16, 20, 21, 22, 25, 100, -100, 300}
	return g.mkFloat(r.Intn(3) == 0, ds, dps[r.Intn(len(dps))])
}

func (g *fmtGen) mkFloat(neg bool, ds []int, dp int) *fmtVal {
	// literal d.ddd e(dp-1)
	var b strings.Builder
	if neg {
		b.WriteByte('-')
	}
	b.WriteString(strconv.Itoa(ds[0]))
	if len(ds) > 1 {
		b.WriteByte('.')
		for _, d := range ds[1:] {
			b.WriteString(strconv.Itoa(d))
		}
	} else {
		b.WriteString(".0")
	}
	fmt.Fprintf(&b, "e%d", dp-1)
	return &fmtVal{T: "flt", Neg: neg, Digits: ds, Dp: dp, goTy: "float64", lit: b.String(), native: true}
}

var fmtScalarKinds = []string{"bool", "int", "int8", "uint8", "uint32", "string", "float64"}

func (g *fmtGen) value(depth int) *fmtVal {
	if depth == 0 || g.r.Intn(4) == 0 {
		return g.scalar(fmtScalarKinds[g.r.Intn(len(fmtScalarKinds))])
	}
	return g.container(depth, "")
}

// typed generation: a value of the given Go type text is needed for homogeneous slices
func (g *fmtGen) ofType(ty string, depth int) *fmtVal {
	switch {
	case strings.HasPrefix(ty, "[]"):
		n := g.r.Intn(4)
		v := &fmtVal{T: "slice", goTy: ty, native: true}
		var lits []string
		for i := 0; i < n; i++ {
			e := g.ofType(ty[2:], depth-1)
			v.Elems = append(v.Elems, e)
			lits = append(lits, e.lit)
			v.native = v.native && e.native
		}
		v.lit = ty + "{" + strings.Join(lits, ", ") + "}"
		return v
	case strings.HasPrefix(ty, "map["):
		end := strings.Index(ty, "]")
		kt, vt := ty[4:end], ty[end+1:]
		if g.r.Intn(5) == 0 {
			return &fmtVal{T: "emptymap", goTy: ty, lit: ty + "{}", native: true}
		}
		if kt != "float64" && g.r.Intn(2) == 0 {
			// several entries, written in any order: they print in ascending key order
			want := 2 + g.r.Intn(3)
			if kt == "bool" {
				want = 2
			}
			mv := &fmtVal{T: "mmap", goTy: ty, native: true}
			seen := map[string]bool{}
			var lits []string
			for tries := 0; len(mv.Elems) < want && tries < 40; tries++ {
				k := g.ofType(kt, 0)
				if seen[k.lit] {
					continue
				}
				seen[k.lit] = true
				e := g.ofType(vt, depth-1)
				mv.Elems = append(mv.Elems, k)
				mv.Vals = append(mv.Vals, e)
				lits = append(lits, k.lit+": "+e.lit)
				mv.native = mv.native && k.native && e.native
			}
			if len(mv.Elems) >= 2 {
				mv.lit = ty + "{" + strings.Join(lits, ", ") + "}"
				return mv
			}
		}
		k, e := g.ofType(kt, 0), g.ofType(vt, depth-1)
		return &fmtVal{T: "map", K: k, Val: e, goTy: ty, lit: ty + "{" + k.lit + ": " + e.lit + "}", native: k.native && e.native}
	case strings.HasPrefix(ty, "*S"):
		return g.structOf(ty)
	}
	return g.scalar(ty)
}

var fmtStructFields = map[string][][2]string{}

func (g *fmtGen) structOf(ty string) *fmtVal {
	name := ty[1:]
	fields := fmtStructFields[name]
	v := &fmtVal{T: "struct", goTy: ty, native: false}
	var lits []string
	for _, f := range fields {
		e := g.ofType(f[1], 1)
		v.Names = append(v.Names, bytesOf(f[0]))
		v.Vals = append(v.Vals, e)
		lits = append(lits, f[0]+": "+e.lit)
	}
	v.lit = "&" + name + "{" + strings.Join(lits, ", ") + "}"
	return v
}

// randType: struct references appear only at the top or directly inside one container (deeper ones are
// elided by goatlang's own format, which the repository's tests pin and the property does not define)
func (g *fmtGen) randType(depth int) string {
	if depth == 0 || g.r.Intn(3) == 0 {
		return fmtScalarKinds[g.r.Intn(len(fmtScalarKinds))]
	}
	switch g.r.Intn(4) {
	case 0, 1, 2:
		return "[]" + g.randType(depth-1)
	default:
		kt := []string{"string", "int", "uint8", "bool", "float64"}[g.r.Intn(5)]
		return "map[" + kt + "]" + g.randType(depth-1)
	}
}

func (g *fmtGen) container(depth int, _ string) *fmtVal {
	ty := g.randType(depth)
	return g.ofType(ty, depth)
}

func init() {
	fmtStructFields["S1"] = [][2]string{{"A", "int"}, {"Name", "string"}, {"Ok", "bool"}, {"F", "float64"}, {"B", "uint8"}}
	fmtStructFields["S2"] = [][2]string{{"X", "int8"}, {"In", "*S1"}}
	fmtStructFields["S3"] = [][2]string{{"B", "uint8"}, {"Name", "string"}, {"Z", "int"}, {"A", "int"}, {"X", "int8"}}
}

const fmtStructDecls = "type S1 struct {\n\tA    int\n\tName string\n\tOk   bool\n\tF    float64\n\tB    uint8\n}\n\ntype S2 struct {\n\tX  int8\n\tIn *S1\n}\n\n// the field names of S1 again, in another order, next to a new one: fields print in the order of THIS declaration\ntype S3 struct {\n\tB    uint8\n\tName string\n\tZ    int\n\tA    int\n\tX    int8\n}\n\n"

func checkC14(c *Ctx) {
	c.Rule = "values = seeded random typed value trees: booleans, integers of every width at their boundaries, float64 from <=15 shortest digits x 21 decimal exponents (+ integer-valued, 0, and computed NaN/+-Inf/-0), strings (empty, spaces, non-ASCII, invalid UTF-8, bracket look-alikes, percent signs and format verbs, quotes), homogeneous slices and single-entry/empty maps nested to depth D, struct references with scalar fields (alone, nested one level, inside slices); each printed through println, fmt.Println with two operands, fmt.Print, fmt.Sprint and Value.String; cyclic graphs (slice, map, struct, mixed, nested in other containers) rendered in a child process; distinct_nontrivial = distinct values that are containers or floats"
	c.Assumptions = []string{"GoFmt.tla is calibrated against fmt.Sprint on the native Go value for every value without struct references (struct references are the property's own format)", "floats are limited to <=15 significant digits (always the shortest representation); 16-17 digit values are not covered"}
	r := rand.New(rand.NewSource(c.Seed))
	g := &fmtGen{r: r}
	depth := c.pick(3, 5)
	n := c.pick(1500, 40000)
	var vals []*fmtVal
	for i := 0; i < n; i++ {
		var v *fmtVal
		switch i % 6 {
		case 0, 1:
			v = g.scalar(fmtScalarKinds[r.Intn(len(fmtScalarKinds))])
		case 2:
			v = g.ofType("*S1", 1)
		case 3:
			v = g.ofType([]string{"*S2", "[]*S1", "map[string]*S1", "*S3", "[]*S3"}[r.Intn(5)], 2)
		default:
			v = g.container(1+r.Intn(depth), "")
		}
		vals = append(vals, v)
		if v.T != "int" && v.T != "bool" && v.T != "str" {
			c.distinct(hashKey(v.lit))
		}
	}
	// expected text from TLC: each value alone, and pairs as Println operands
	var descs []any
	for _, v := range vals {
		descs = append(descs, v.toJSON())
	}
	npairs := len(vals) / 2
	for i := 0; i < npairs; i++ {
		descs = append(descs, (&fmtVal{T: "println", Elems: []*fmtVal{vals[2*i], vals[2*i+1]}}).toJSON())
	}
	texts := c14SpecTexts(c, descs)
	// calibration with native Go
	c14Calibrate(c, vals, texts)

	// replay on goatlang: batches of values per program
	batch := 50
	for lo := 0; lo < len(vals); lo += batch {
		hi := lo + batch
		if hi > len(vals) {
			hi = len(vals)
		}
		var b strings.Builder
		b.WriteString("package main\n\nimport \"fmt\"\n\n" + fmtStructDecls)
		for i := lo; i < hi; i++ {
			fmt.Fprintf(&b, "var V%d %s = %s\n", i, vals[i].goTy, vals[i].lit)
		}
		b.WriteString("\nfunc Main() {\n")
		// history before printing: a key that is not in the map is inserted and deleted again (every second map), which
		// must leave no trace in the text
		for i := lo; i < hi; i++ {
			if k := c14FreshKey(vals[i]); k != "" && i%2 == 0 {
				fmt.Fprintf(&b, "\tV%d[%s] = V%d[%s]\n\tdelete(V%d, %s)\n", i, k, i, k, i, k)
			}
		}
		for i := lo; i < hi; i++ {
			fmt.Fprintf(&b, "\tprintln(V%d)\n\tfmt.Print(V%d)\n\tfmt.Println()\n\tprintln(fmt.Sprint(V%d))\n", i, i, i)
			fmt.Fprintf(&b, "\tprintln(fmt.Sprintf(\"%%v\", V%d))\n", i)
			if c14UntypedOK(vals[i]) {
				fmt.Fprintf(&b, "\tprintln(fmt.Sprintf(\"%%v\", %s))\n", vals[i].lit)
			}
			if i%2 == 0 && i+1 < hi {
				fmt.Fprintf(&b, "\tfmt.Println(V%d, V%d)\n", i, i+1)
			}
		}
		b.WriteString("}\n")
		src := b.String()
		res := runMain(src, true)
		if res.Failed() {
			c.violate(hashKey(src), "print program failed: "+firstLine(res.ErrString()), map[string]any{"source": src, "error": res.ErrString()})
			continue
		}
		var want bytes.Buffer
		for i := lo; i < hi; i++ {
			t := texts[i]
			want.Write(t)
			want.WriteByte('\n')
			want.Write(t)
			want.WriteByte('\n')
			want.Write(t)
			want.WriteByte('\n')
			want.Write(t)
			want.WriteByte('\n')
			if c14UntypedOK(vals[i]) {
				want.Write(t)
				want.WriteByte('\n')
			}
			if i%2 == 0 && i+1 < hi {
				want.Write(texts[len(vals)+i/2])
			}
		}
		c.Evaluations += int64(5 * (hi - lo))
		if res.Stdout != want.String() {
			// locate the first differing value
			gl, wl := strings.Split(res.Stdout, "\n"), strings.Split(want.String(), "\n")
			k := 0
			for k < len(gl) && k < len(wl) && gl[k] == wl[k] {
				k++
			}
			g1, w1 := "", ""
			if k < len(gl) {
				g1 = gl[k]
			}
			if k < len(wl) {
				w1 = wl[k]
			}
			c.violate(hashKey(src), fmt.Sprintf("printed text differs from Go's at output line %d: got %q want %q", k+1, clip(g1, 200), clip(w1, 200)),
				map[string]any{"source": src, "observed": res.Stdout, "expected": want.String()})
			continue
		}
		// host side: an instance made by the host from the type value, then Value.String of the package-level variables
		// (whatever the host builds does not change how existing references are shown)
		if st := res.VM.Get("main.S1"); !st.IsNil() {
			func() {
				defer func() {
					if r := recover(); r != nil {
						c.violate(hashKey("host-newstruct-panic"), fmt.Sprintf("NewStruct on the struct type S1 panicked: %v", r), map[string]any{})
					}
				}()
				hs := goat.NewStruct(st, []goat.Value{goat.String("Name"), goat.String("h"), goat.String("A"), goat.Int(3)})
				if got, want := hs.String(), "&{A:3 Name:h Ok:false F:0 B:0}"; got != want {
					c.violate(hashKey("host-newstruct"), fmt.Sprintf("a struct made by NewStruct shows as %q, want %q", got, want), map[string]any{})
				}
			}()
		}
		for i := lo; i < hi; i++ {
			hv := res.VM.Get(fmt.Sprintf("main.V%d", i))
			if hv.String() != string(texts[i]) {
				c.violate(hashKey("host|"+vals[i].lit), fmt.Sprintf("Value.String of %s = %q, Go prints %q", clip(vals[i].lit, 120), clip(hv.String(), 200), clip(string(texts[i]), 200)), map[string]any{"literal": vals[i].lit, "type": vals[i].goTy})
			}
			c.Evaluations++
		}
		c.TracesVsImpl += int64(hi - lo)
	}
	// computed specials: NaN, +-Inf, -0 (script arithmetic and host constructors)
	{
		spec := c14SpecTexts(c, []any{(&fmtVal{T: "println", Elems: []*fmtVal{{T: "flt", Special: "-0"}, {T: "flt", Special: "+inf"}, {T: "flt", Special: "-inf"}, {T: "flt", Special: "nan"},
			{T: "slice", Elems: []*fmtVal{{T: "flt", Special: "-0"}, {T: "flt", Special: "nan"}}}}}).toJSON()})
		src := "package main\n\nfunc Main() {\n\tvar z float64\n\tnz := -z\n\tpinf := 1 / z\n\tninf := -1 / z\n\tnan := z / z\n\tprintln(nz, pinf, ninf, nan, []float64{nz, nan})\n}\n"
		res := runMain(src, true)
		if res.Stdout != string(spec[0]) {
			c.violate(hashKey(src), fmt.Sprintf("special float values print as %q, Go prints %q", res.Stdout, string(spec[0])), map[string]any{"source": src})
		}
		host := goat.Float64(math.Copysign(0, -1)).String() + " " + goat.Float64(math.Inf(1)).String() + " " + goat.Float64(math.Inf(-1)).String() + " " + goat.Float64(math.NaN()).String()
		if !strings.HasPrefix(string(spec[0]), host+" ") {
			c.violate(hashKey("host-specials"), fmt.Sprintf("host Value.String of -0/+Inf/-Inf/NaN = %q, Go prints %q", host, string(spec[0])), map[string]any{})
		}
		c.Evaluations += 2
	}
	if len(vals) > 10 {
		for _, i := range []int{4, 5, 10} {
			c.sample(map[string]any{"type": vals[i].goTy, "literal": clip(vals[i].lit, 200), "expected_text": clip(string(texts[i]), 200)})
		}
	}
	c14Cyclic(c)
}

func c14SpecTexts(c *Ctx, descs []any) [][]byte {
	dir := c.specWorkDir(fmt.Sprintf("gofmt%d", len(descs)))
	writeJSON(filepath.Join(dir, "values.json"), descs)
	res := c.runTLC(dir, TLCOpts{Module: "MC_GoFmt", Cfg: "MC_GoFmt.cfg", Workers: 8, HeapMB: 6000})
	texts := make([][]byte, len(descs))
	seen := 0
	for _, s := range res.Records["BEH"] {
		var rec struct {
			I    int   `json:"i"`
			Text []int `json:"text"`
		}
		if err := json.Unmarshal([]byte(s), &rec); err != nil {
			fatalf("bad GoFmt record: %v", err)
		}
		b := make([]byte, len(rec.Text))
		for i, x := range rec.Text {
			b[i] = byte(x)
		}
		if texts[rec.I-1] == nil {
			seen++
		}
		texts[rec.I-1] = b
		if b == nil {
			texts[rec.I-1] = []byte{}
		}
	}
	if seen != len(descs) {
		fatalf("GoFmt.tla emitted %d texts for %d values", seen, len(descs))
	}
	return texts
}

func c14Calibrate(c *Ctx, vals []*fmtVal, texts [][]byte) {
	var b strings.Builder
	b.WriteString("package main\n\nimport \"fmt\"\n\n" + fmtStructDecls + "var _ *S2\n\nfunc main() {\n")
	var idx []int
	for i, v := range vals {
		if !v.native {
			continue
		}
		lit := v.lit
		if v.goTy == "int" {
			lit = "int32(" + lit + ")"
		}
		ty := strings.ReplaceAll(strings.ReplaceAll(v.goTy, "int", "int32"), "uint32328", "uint8")
		_ = ty
		fmt.Fprintf(&b, "\tfmt.Printf(\"%%d|%%v\\n\", %d, %s)\n", i, c14GoLit(v))
		idx = append(idx, i)
	}
	b.WriteString("}\n")
	out, errOut, ok := c.goRun("c14", b.String())
	if !ok {
		fatalf("C14 calibration program does not build/run: %s", clip(errOut, 2000))
	}
	lines := strings.Split(out, "\n")
	k := 0
	for _, i := range idx {
		// values may contain newlines? no: strings used contain none (tab only)
		prefix := fmt.Sprintf("%d|", i)
		if k >= len(lines) || !strings.HasPrefix(lines[k], prefix) {
			fatalf("calibration output out of step at value %d", i)
		}
		got := strings.TrimPrefix(lines[k], prefix)
		if got != string(texts[i]) {
			fatalf("calibration failure: GoFmt.tla renders %s as %q, fmt prints %q", clip(vals[i].lit, 150), clip(string(texts[i]), 200), clip(got, 200))
		}
		k++
	}
	c.Extra["calibrated_values"] = len(idx)
}

// c14GoLit: the literal with Go's int spelled int32 (goatlang's int is 32 bits)
func c14GoLit(v *fmtVal) string {
	ty := c14GoType(v.goTy)
	switch v.T {
	case "int", "flt":
		return ty + "(" + v.lit + ")"
	case "slice":
		var ls []string
		for _, e := range v.Elems {
			ls = append(ls, c14GoLit(e))
		}
		return ty + "{" + strings.Join(ls, ", ") + "}"
	case "map":
		return ty + "{" + c14GoLit(v.K) + ": " + c14GoLit(v.Val) + "}"
	case "mmap":
		var ls []string
		for i := range v.Elems {
			ls = append(ls, c14GoLit(v.Elems[i])+": "+c14GoLit(v.Vals[i]))
		}
		return ty + "{" + strings.Join(ls, ", ") + "}"
	case "emptymap":
		return ty + "{}"
	}
	return v.lit
}

func c14GoType(t string) string {
	// replace the word int (not int8 / uint32 ...) by int32
	var b strings.Builder
	for i := 0; i < len(t); {
		if strings.HasPrefix(t[i:], "int") && (i == 0 || !isWordByte(t[i-1])) && (i+3 == len(t) || !isWordByte(t[i+3])) {
			b.WriteString("int32")
			i += 3
		} else {
			b.WriteByte(t[i])
			i++
		}
	}
	return b.String()
}

// ---- termination on cyclic object graphs -------------------------------------------------------

var c14CyclicScripts = []string{
	"x := []any{1, 2}\nx[0] = x\nprintln(x)",
	"x := []any{1}\ny := x[0:1]\nx[0] = y\nprintln(x)\nprintln(y)",
	"m := map[string]any{}\nm[\"self\"] = m\nprintln(m)",
	"m := map[int]any{}\nm[1] = m\nprintln(m)",
	"m := map[int]any{}\nm[1] = m\ns := []any{m}\nprintln(s)",
	"a := map[int]any{}\nb := map[int]any{}\na[1] = b\nb[2] = a\nh := map[string]any{\"k\": a}\nprintln(h)",
	"type T struct {\n\tName string\n\tKids []*T\n\tUp *T\n\tM map[string]any\n}\nt := &T{Name: \"root\"}\nt.Kids = append(t.Kids, &T{Name: \"kid\", Up: t})\nt.M = map[string]any{\"t\": t}\nprintln(t)\nprintln(t.Kids)\nprintln(t.M)",
	"type N struct {\n\tNext *N\n\tV []any\n}\nn := &N{}\nn.Next = n\nn.V = []any{n, []any{n}}\nprintln(n)\nprintln(n.V)",
	"import \"fmt\"\nx := []any{0}\nx[0] = []any{x, map[string]any{\"x\": x}}\ns := fmt.Sprint(x)\nprintln(len(s) > 0)",
	"m := map[float64]any{}\nm[1.5] = []any{m}\nprintln([]any{m, m})",
}

func c14Child(c *Ctx) {
	// usage: vcheck c14child <index>: renders one cyclic case and prints OK <length>
	var i int
	fmt.Sscan(os.Args[len(os.Args)-1], &i)
	var out bytes.Buffer
	vm := goat.New(goat.WithStdout(&out))
	goat.VerifSetBudget(1000000)
	_, err := vm.Eval(fstest.MapFS{}, "cyc.go", c14CyclicScripts[i])
	if err != nil {
		fmt.Println("ERR", firstLine(err.Error()))
		c.cleanup()
		os.Exit(3)
	}
	// host side too: String() of every global the script left behind
	for _, name := range []string{"main.x", "main.m", "main.t", "main.n", "main.a", "main.h", "main.s"} {
		v := vm.Get(name)
		_ = v.String()
	}
	fmt.Println("OK", out.Len())
	c.cleanup()
	os.Exit(0)
}

// c14Shared: slices that hold a PREFIX of themselves (or hold it through a map) are finite values: nothing is cut. The
// expected text is fmt.Sprint of the same construction on native Go values.
func c14Shared(c *Ctx) {
	type cs struct{ script, want string }
	var cases []cs
	{
		s := []any{1, nil}
		s[1] = s[:1]
		cases = append(cases, cs{"s := []any{1, nil}\ns[1] = s[:1]\n", fmt.Sprint(s)})
	}
	{
		s := []any{1, nil, nil}
		s[1] = s[:1]
		s[2] = s[:2]
		cases = append(cases, cs{"s := []any{1, nil, nil}\ns[1] = s[:1]\ns[2] = s[:2]\n", fmt.Sprint(s)})
	}
	{
		s := []any{1, 2}
		s = append(s, 3)
		s = append(s, s)
		cases = append(cases, cs{"s := []any{1, 2}\ns = append(s, 3)\ns = append(s, s)\n", fmt.Sprint(s)})
	}
	{
		m := map[string]any{}
		s := []any{7, nil}
		m["k"] = s[:1]
		s[1] = m
		cases = append(cases, cs{"m := map[string]any{}\ns := []any{7, nil}\nm[\"k\"] = s[:1]\ns[1] = m\n", fmt.Sprint(s)})
	}
	{
		s := []any{5, 6, nil}
		s[2] = []any{s[:2], s[:1]}
		cases = append(cases, cs{"s := []any{5, 6, nil}\ns[2] = []any{s[:2], s[:1]}\n", fmt.Sprint(s)})
	}
	for _, k := range cases {
		for _, how := range []string{"println(s)", "fmt.Println(s)", "fmt.Print(s)\nfmt.Println()", "println(fmt.Sprint(s))", "println(fmt.Sprintf(\"%v\", s))"} {
			src := "import \"fmt\"\n" + k.script + how + "\ns"
			var out bytes.Buffer
			vm := goat.New(goat.WithStdout(&out))
			goat.VerifSetBudget(200000)
			rets, err := vm.Eval(fstest.MapFS{}, "sh.go", src)
			goat.VerifSetBudget(-1)
			c.Evaluations++
			host := ""
			if err == nil && len(rets) == 1 {
				host = rets[0].String()
			}
			if err != nil || out.String() != k.want+"\n" || host != k.want {
				c.violate(hashKey(src), fmt.Sprintf("a slice that holds a prefix of itself prints as %q (host String %q), Go prints %q", strings.TrimSpace(out.String()), host, k.want), map[string]any{"source": src, "expected": k.want})
			}
		}
	}
}

// c14LocalTypes: a struct type declared inside a function that runs several times (its declaration is executed again each
// time) shows every instance with its fields once, in declaration order.
func c14LocalTypes(c *Ctx) {
	src := "import \"fmt\"\ntype R struct {\n\tV int\n}\nfunc mk(i int) string {\n\ttype T struct {\n\t\tKey string\n\t\tN   int\n\t\tOk  bool\n\t}\n\tt := &T{Key: \"k\", N: i}\n\tts := []*T{t, &T{N: -i}}\n\treturn fmt.Sprint(t) + \"|\" + fmt.Sprint(ts)\n}\nfunc (r *R) show(i int) string {\n\ttype T struct {\n\t\tA, B int\n\t}\n\treturn fmt.Sprint(&T{A: i, B: r.V})\n}\nr := &R{V: 9}\nfor i := 1; i <= 3; i++ {\n\tprintln(mk(i), r.show(i))\n}\n"
	want := ""
	for i := 1; i <= 3; i++ {
		want += fmt.Sprintf("&{Key:k N:%d Ok:false}|[&{Key:k N:%d Ok:false} &{Key: N:%d Ok:false}] &{A:%d B:9}\n", i, i, -i, i)
	}
	for round := 0; round < 2; round++ {
		var out bytes.Buffer
		vm := goat.New(goat.WithStdout(&out))
		var err error
		for k := 0; k <= round; k++ { // the second round evaluates the same source twice on one VM
			out.Reset()
			goat.VerifSetBudget(200000)
			_, err = vm.Eval(fstest.MapFS{}, "lt.go", src)
			goat.VerifSetBudget(-1)
		}
		c.Evaluations++
		if err != nil || out.String() != want {
			c.violate(hashKey(fmt.Sprint("localtypes", round)), fmt.Sprintf("instances of a function-local struct type print as %q (%v), want %q", clip(out.String(), 300), err, clip(want, 300)), map[string]any{"source": src, "evaluations_of_the_source": round + 1})
		}
	}
}

func c14Cyclic(c *Ctx) {
	c14Shared(c)
	c14LocalTypes(c)
	self, err := os.Executable()
	must(err)
	var lines []map[string]any
	for i := range c14CyclicScripts {
		ctx, cancel := context.WithTimeout(context.Background(), 20*time.Second)
		cmd := exec.CommandContext(ctx, self, "c14child", "quick", strconv.Itoa(i))
		var so, se bytes.Buffer
		cmd.Stdout, cmd.Stderr = &so, &se
		err := cmd.Run()
		cancel()
		finished := err == nil && strings.HasPrefix(so.String(), "OK")
		length := 0
		if finished {
			fmt.Sscanf(so.String(), "OK %d", &length)
		}
		detail := firstLine(so.String())
		if !finished && se.Len() > 0 {
			detail += " | " + firstLine(se.String())
		}
		lines = append(lines, map[string]any{"case": i, "finished": finished, "length": length, "detail": detail})
		c.Evaluations++
	}
	bad := classifyFlatTrace(c, "Trace_Render", "Trace_Render.cfg", lines)
	for _, idx := range bad {
		c.violate(hashKey(c14CyclicScripts[idx]), fmt.Sprintf("rendering a self-referential structure did not return (%v): %s", lines[idx]["detail"], strings.ReplaceAll(c14CyclicScripts[idx], "\n", "; ")),
			map[string]any{"script": c14CyclicScripts[idx], "detail": lines[idx]["detail"]})
	}
	c.TracesVsImpl += int64(len(lines) - len(bad))
	c.Extra["cyclic_cases"] = len(lines)
	nb := classifyFlatTrace(c, "Trace_Render", "Trace_Render.cfg", []map[string]any{{"case": 0, "finished": true, "length": 3, "detail": ""}, {"case": 1, "finished": false, "length": 0, "detail": "killed"}})
	if len(nb) != 1 || nb[0] != 1 {
		fatalf("negative control (rendering that did not return) not flagged: %v", nb)
	}
	c.Extra["negative_control"] = "a fabricated non-terminating rendering was flagged by Trace_Render as expected"
}

// c14UntypedOK: the literal of a scalar of default type may be written directly as an operand of fmt.Sprintf (an
// untyped constant takes its default type there, so the text is the same as for the typed variable).
func c14UntypedOK(v *fmtVal) bool {
	switch v.goTy {
	case "int", "float64", "string", "bool":
		return (v.T == "int" || v.T == "flt" || v.T == "str" || v.T == "bool") && !strings.Contains(v.lit, "(")
	}
	return false
}

// c14FreshKey: for a top-level map value, the source text of a key the map does not hold ("" for other values)
func c14FreshKey(v *fmtVal) string {
	if !strings.HasPrefix(v.goTy, "map[") || v.T == "mmap" {
		return ""
	}
	kt := v.goTy[4:strings.Index(v.goTy, "]")]
	switch kt {
	case "string":
		return "\"\\x01fresh\""
	case "int":
		if v.K != nil && v.K.V == 7777 {
			return "7778"
		}
		return "7777"
	case "uint8":
		if v.K != nil {
			return fmt.Sprint((v.K.V + 1) % 256)
		}
		return "9"
	case "bool":
		if v.K != nil {
			return fmt.Sprint(!v.K.B)
		}
		return "true"
	case "float64":
		if v.K != nil && v.K.lit == "12345.5" {
			return ""
		}
		return "12345.5"
	}
	return ""
}
