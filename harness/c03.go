package main

import (
	"bytes"
	"context"
	"fmt"
	"io/fs"
	"math/rand"
	"os"
	"os/exec"
	"path/filepath"
	"sort"
	"strconv"
	"strings"
	"testing/fstest"
	"time"

	goat "github.com/philhassey/goatlang"
)

// C03 — no input can take the embedding host down.
//
// M1: Pipeline.tla model-checked (safety: only "returned" terminal states with a legal stage
//     prefix; liveness: every call returns).
// M3: every real call (Eval / Load / Call / Func, every option subset) is observed as
//     (entry, options, outcome, prefix) with outcome in {ok, err, panic, hung}; the distinct observed
//     classes are validated by TLC against Trace_Pipeline. "panic" and "hung" match no action.

func init() { register("C03", checkC03) }

type c03Obs struct {
	Entry   string
	Opts    []string
	Outcome string // ok err panic hung
	Prefix  string
	Input   map[string]any
	Detail  string
}

var evalPrefixes = []string{"error in tokenize", "error in parse", "error in loadImports", "error in compile (imports)", "error in run (imports)", "error in compile", "error in run"}
var loadPrefixes = []string{"error in load", "error in compile", "error in run", "unexpected returns"}

func classifyErr(entry string, err error) string {
	if err == nil {
		return ""
	}
	msg := err.Error()
	var ps []string
	switch entry {
	case "Eval":
		ps = evalPrefixes
	case "Load":
		ps = loadPrefixes
	default:
		return ""
	}
	best := ""
	for _, p := range ps {
		if strings.HasPrefix(msg, p+":") && len(p) > len(best) {
			best = p
		}
	}
	if best == "" {
		return "<none>"
	}
	return best
}

type c03State struct {
	c       *Ctx
	hung    int
	classes map[string]*c03Obs
	counts  map[string]int
	calls   int64
}

func (s *c03State) observe(entry string, opts []string, input map[string]any, f func() error) {
	if s.hung >= 3 {
		return
	}
	s.calls++
	var err error
	goat.VerifSetBudget(30000)
	finished, p := runWithWatchdog(8*time.Second, func() { err = f() })
	goat.VerifSetBudget(-1)
	o := &c03Obs{Entry: entry, Opts: opts, Input: input}
	switch {
	case !finished:
		o.Outcome = "hung"
		s.hung++
	case p != nil:
		o.Outcome = "panic"
		o.Detail = fmt.Sprint(p)
	case err != nil:
		o.Outcome = "err"
		o.Prefix = classifyErr(entry, err)
		o.Detail = err.Error()
	default:
		o.Outcome = "ok"
	}
	key := fmt.Sprintf("%s|%v|%s|%s", o.Entry, o.Opts, o.Outcome, o.Prefix)
	s.counts[key]++
	if o.Outcome == "panic" || o.Outcome == "hung" || o.Prefix == "<none>" {
		// every bad observation is kept individually (each is a distinct failing input)
		b, _ := jsonMarshal(input)
		key += "|" + hashKey(string(b))
		s.counts[key]++
	}
	if _, ok := s.classes[key]; !ok {
		s.classes[key] = o
	}
}

func optSubsets() [][]string {
	all := []string{"TreeDump", "CodeDump", "EvalImports"}
	var res [][]string
	for m := 0; m < 8; m++ {
		var s []string
		for i, o := range all {
			if m&(1<<i) != 0 {
				s = append(s, o)
			}
		}
		res = append(res, s)
	}
	return res
}

func runOptions(opts []string) []goat.RunOption {
	var ro []goat.RunOption
	for _, o := range opts {
		switch o {
		case "TreeDump":
			ro = append(ro, goat.WithTreeDump(&bytes.Buffer{}))
		case "CodeDump":
			ro = append(ro, goat.WithCodeDump(&bytes.Buffer{}))
		case "EvalImports":
			ro = append(ro, goat.WithEvalImports(map[string]string{"fmt": "fmt", "m": "math"}))
		}
	}
	return ro
}

var c03Tokens = []string{"x", "y", "f", "1", "2.5", `"s"`, "'c'", "(", ")", "{", "}", "[", "]", ";", ",", ":=", "=", "+", "-", "*", "/", ".", ":",
	"func", "if", "else", "for", "return", "switch", "case", "default", "var", "const", "type", "struct", "interface", "range", "import", "package",
	"map", "[]", "...", "&", "!", "++", "+=", "==", "&&", "break", "continue", "nil", "int", "make", "\n", "$", "^", "<-", "iota", "%", "<<"}

func (s *c03State) evalOnce(src string, opts []string, fsys fs.FS) {
	s.observe("Eval", opts, map[string]any{"entry": "Eval", "source": src, "opts": opts}, func() error {
		vm := goat.New(goat.WithStdout(&bytes.Buffer{}))
		_, err := vm.Eval(fsys, "fuzz.go", src, runOptions(opts)...)
		return err
	})
}

func (s *c03State) loadOnce(files map[string]string, arg string, opts []string) {
	s.observe("Load", opts, map[string]any{"entry": "Load", "files": files, "arg": arg, "opts": opts}, func() error {
		vm := goat.New(goat.WithStdout(&bytes.Buffer{}))
		return vm.Load(mapFS(files), arg, runOptions(opts)...)
	})
}

// simple tokenization of source text for mutation (keeps string literals together)
func roughTokens(src string) []string {
	var toks []string
	i := 0
	for i < len(src) {
		ch := src[i]
		switch {
		case ch == ' ' || ch == '\t':
			i++
		case ch == '\n':
			toks = append(toks, "\n")
			i++
		case ch == '"' || ch == '`' || ch == '\'':
			j := i + 1
			for j < len(src) && src[j] != ch {
				if src[j] == '\\' && ch != '`' {
					j++
				}
				j++
			}
			if j >= len(src) {
				j = len(src) - 1
			}
			toks = append(toks, src[i:j+1])
			i = j + 1
		case isWordByte(ch):
			j := i
			for j < len(src) && isWordByte(src[j]) {
				j++
			}
			toks = append(toks, src[i:j])
			i = j
		default:
			j := i + 1
			for j < len(src) && j < i+3 && strings.ContainsRune("=+-<>&|.:", rune(src[j])) && strings.ContainsRune("=+-<>&|.:!", rune(ch)) {
				j++
			}
			toks = append(toks, src[i:j])
			i = j
		}
	}
	return toks
}

func isWordByte(b byte) bool {
	return b == '_' || (b >= '0' && b <= '9') || (b >= 'a' && b <= 'z') || (b >= 'A' && b <= 'Z') || b >= 0x80
}

func joinTokens(t []string) string { return strings.Join(t, " ") }

func checkC03(c *Ctx) {
	c.Level = "exploration"
	c.Rule = "inputs = (a) all token strings of length<=L over a 60-token alphabet, (b) single/double token mutations and every truncation of the repository's test inputs and of hand-written programs, 39 odd literal spellings (escapes the scanner accepts but the conversion rejects, extreme magnitudes, malformed numbers) in 46 literal-bearing positions (import paths with and without alias, declarations, operands, indexes of locals, keys, shifts, conversions ...), integer literals of valid programs replaced by large / negative values, (c) raw byte strings (invalid UTF-8, NUL, unterminated literals, deep nesting), (d) in-memory file trees for Load incl. cyclic import graphs, empty/odd files, conflicting package clauses, (e) Call/Func with wrong names, arities and result counts; x all subsets of {TreeDump, CodeDump, EvalImports}; distinct_nontrivial = distinct inputs that got past tokenize (reached parse or later)"
	c.Assumptions = []string{"a call that does not return within 3 s is counted as hung (typical call < 1 ms)", "scripts that loop forever are cut by the verif instruction budget and must then surface as a run error", "Go stack exhaustion by unbounded script recursion is resource exhaustion (excepted by the property) and is prevented by the budget"}

	// M1
	dir := c.specWorkDir("mc")
	c.runTLC(dir, TLCOpts{Module: "Pipeline", Cfg: "MC_Pipeline.cfg", Workers: 2})

	s := &c03State{c: c, classes: map[string]*c03Obs{}, counts: map[string]int{}}
	r := rand.New(rand.NewSource(c.Seed))
	emptyFS := fstest.MapFS{}
	opts := optSubsets()
	pastTokenize := map[string]struct{}{}
	note := func(src string) {
		if len(pastTokenize) < 2_000_000 {
			pastTokenize[hashKey(src)] = struct{}{}
		}
	}

	// (a) bounded-exhaustive token strings
	L := c.pick(3, 4)
	var rec func(prefix []string, depth int)
	n := 0
	rec = func(prefix []string, depth int) {
		if len(prefix) > 0 {
			src := joinTokens(prefix)
			n++
			s.evalOnce(src, opts[n%len(opts)], emptyFS)
			note(src)
		}
		if depth == L {
			return
		}
		for _, t := range c03Tokens {
			if depth == 3 && n%7 != 0 { // length-4 strings are sub-sampled deterministically (1/7) in the thorough tier
				n++
				continue
			}
			rec(append(prefix, t), depth+1)
		}
	}
	rec(nil, 0)
	c.Extra["token_strings"] = n

	// (b) mutations of valid inputs
	corpus := append([]string{}, repoTestInputs()...)
	corpus = append(corpus, seedSnippets...)
	c.Extra["corpus_inputs"] = len(corpus)
	if len(corpus) < 100 {
		fatalf("test-table corpus extraction found only %d inputs", len(corpus))
	}
	for ci, src := range corpus {
		toks := roughTokens(src)
		s.evalOnce(src, opts[ci%len(opts)], emptyFS)
		// every truncation
		for i := 1; i < len(toks); i++ {
			t := joinTokens(toks[:i])
			s.evalOnce(t, opts[(ci+i)%len(opts)], emptyFS)
			note(t)
		}
		// single-token deletions / duplications / replacements
		for i := range toks {
			del := append(append([]string{}, toks[:i]...), toks[i+1:]...)
			s.evalOnce(joinTokens(del), opts[(ci+i)%len(opts)], emptyFS)
			note(joinTokens(del))
			if c.quick() && i%3 != 0 {
				continue
			}
			dup := append(append(append([]string{}, toks[:i]...), toks[i]), toks[i:]...)
			s.evalOnce(joinTokens(dup), nil, emptyFS)
			rep := append([]string{}, toks...)
			rep[i] = c03Tokens[r.Intn(len(c03Tokens))]
			s.evalOnce(joinTokens(rep), opts[r.Intn(len(opts))], emptyFS)
			note(joinTokens(rep))
			if i+1 < len(toks) {
				sw := append([]string{}, toks...)
				sw[i], sw[i+1] = sw[i+1], sw[i]
				s.evalOnce(joinTokens(sw), nil, emptyFS)
			}
		}
	}
	// seed programs as packages: truncations and token mutations through Load
	for pi, prog := range seedPrograms {
		toks := roughTokens(prog)
		step := c.pick(7, 1)
		for i := 1; i < len(toks); i += step {
			files := map[string]string{"main/main.go": joinTokensNL(toks[:i])}
			s.loadOnce(files, "main", opts[(pi+i)%len(opts)])
			del := append(append([]string{}, toks[:i]...), toks[i+1:]...)
			s.loadOnce(map[string]string{"main/main.go": joinTokensNL(del)}, "main", nil)
			rep := append([]string{}, toks...)
			rep[i] = c03Tokens[r.Intn(len(c03Tokens))]
			s.loadOnce(map[string]string{"main/main.go": joinTokensNL(rep)}, "main", nil)
		}
	}

	// (b2) odd literals in every literal-bearing position: spellings the scanner accepts but the
	// conversion may reject, extreme magnitudes, and constants that index tables of the VM
	oddLits := []string{`"\400"`, `'\400'`, `"\xff"`, `'\''`, `"\u00e9"`, `'\u00e9'`, `"\U0010ffff"`, `'\U00110000'`, `"\z"`, "`raw\nline`", `''`, `'ab'`, `""`,
		"1e999", "1.5e-999", "99999999999999999999", "2147483648", "-2147483649", "4294967296", "0x", "0xFFFFFFFFFF", "08", "0o17", "0b102", "0b11", "1_000", "1__0", ".5", "5.", "1e", "1e+", "0x1p4", "1i",
		"404", "255", "99", "70000", "-1", "-404"}
	litPositions := []string{
		"import ( x LIT )", "import ( LIT )", "import LIT", "import x LIT", "import ( x LIT; \"fmt\" )",
		"x := LIT", "var x = LIT", "var x int = LIT", "var x string = LIT", "var x float64 = LIT", "var x uint8 = LIT", "const k = LIT", "const ( a = LIT; b = a )",
		"x := 1 + LIT", "x := LIT + LIT", "x := -LIT", "x := []int{1, 2}[LIT]", "x := \"abc\"[LIT]", "x := map[string]int{LIT: 1}", "x := []int{LIT: 1}",
		"func f() int { xs := []int{1, 2}; return xs[LIT] }; f()", "func f() { xs := []int{1, 2}; xs[LIT] = 3 }; f()", "func f() int { m := map[int]int{}; return m[LIT] }; f()",
		"func f() string { s := \"abc\"; return s[LIT:] }; f()", "func f(a ...int) int { return len(a) }; f(LIT, LIT)", "switch LIT { case LIT: }", "for i := 0; i < LIT; i++ { break }",
		"type T struct { X int }; t := &T{X: LIT}; t.X", "x := 1 << LIT", "x := 1 / LIT", "x := 1 % LIT", "x := make([]int, LIT)", "x := LIT; x++", "println(LIT)", "x := float64(LIT)", "x := int8(LIT)", "x := string(LIT)",
		"if LIT == LIT { }", "x := LIT.f", "LIT()", "x := f(LIT)", "return LIT", "go LIT", "x := []string{LIT}", "x := [LIT]int{}", "var x [LIT]int",
	}
	nlit := 0
	for pi, pos := range litPositions {
		for li, lit := range oddLits {
			if strings.Contains(pos, "make(") || strings.Contains(pos, "[LIT]int") {
				// allocating gigabytes is resource exhaustion, which the property excepts
				if v, err := strconv.ParseFloat(strings.ReplaceAll(lit, "_", ""), 64); err == nil && v > 100000 {
					continue
				}
				if v, err := strconv.ParseInt(strings.ReplaceAll(lit, "_", ""), 0, 64); err == nil && v > 100000 {
					continue
				}
			}
			src := strings.ReplaceAll(pos, "LIT", lit)
			s.evalOnce(src, opts[(pi+li)%len(opts)], emptyFS)
			s.evalOnce(src, []string{"TreeDump", "CodeDump"}, emptyFS)
			note(src)
			nlit++
			if strings.HasPrefix(pos, "import") || strings.HasPrefix(pos, "func") || strings.HasPrefix(pos, "type") || strings.HasPrefix(pos, "const") || strings.HasPrefix(pos, "var") {
				body := strings.ReplaceAll(strings.ReplaceAll(src, "; f()", ""), "; t.X", "")
				s.loadOnce(map[string]string{"main/main.go": "package main\n" + body + "\nfunc Main() {}\n"}, "main", opts[(pi+li)%len(opts)])
				s.loadOnce(map[string]string{"main/main.go": "package main\n" + body + "\nfunc Main() {}\n"}, "main", []string{"TreeDump", "CodeDump"})
			}
		}
	}
	c.Extra["odd_literal_inputs"] = nlit
	// (b3) integer literals of valid programs replaced by magnitudes that are table indexes elsewhere in the
	// VM, compiled and dumped with every option
	bigInts := []string{"99", "255", "404", "70000", "2147483647", "-1", "-404"}
	nbig := 0
	for pi, prog := range seedPrograms {
		toks := roughTokens(prog)
		for i, t := range toks {
			if len(t) == 0 || t[0] < '0' || t[0] > '9' {
				continue
			}
			if c.quick() && (i+pi)%2 != 0 {
				continue
			}
			rep := append([]string{}, toks...)
			rep[i] = bigInts[(i+pi)%len(bigInts)]
			files := map[string]string{"main/main.go": joinTokensNL(rep)}
			s.loadOnce(files, "main", []string{"TreeDump", "CodeDump"})
			s.loadOnce(files, "main", opts[(pi+i)%len(opts)])
			nbig++
		}
	}
	for ci, src := range corpus {
		toks := roughTokens(src)
		for i, t := range toks {
			if len(t) == 0 || t[0] < '0' || t[0] > '9' || (c.quick() && (i+ci)%3 != 0) {
				continue
			}
			rep := append([]string{}, toks...)
			rep[i] = bigInts[(i+ci)%len(bigInts)]
			s.evalOnce(joinTokens(rep), []string{"TreeDump", "CodeDump"}, emptyFS)
			nbig++
		}
	}
	c.Extra["integer_literal_mutations"] = nbig

	// (c) raw byte strings
	nraw := c.pick(3000, 100000)
	alphabet := []byte("xf1 (){}[];,:=+-*/.\"'`\\\n\t\x00\xff\xc3\xa9\xe2\x82")
	for i := 0; i < nraw; i++ {
		l := 1 + r.Intn(24)
		b := make([]byte, l)
		for j := range b {
			if r.Intn(4) == 0 {
				b[j] = byte(r.Intn(256))
			} else {
				b[j] = alphabet[r.Intn(len(alphabet))]
			}
		}
		s.evalOnce(string(b), opts[i%len(opts)], emptyFS)
	}
	for _, deep := range []string{strings.Repeat("(", 20000), strings.Repeat("[", 20000), strings.Repeat("{", 5000), strings.Repeat("-", 20000) + "1",
		strings.Repeat("f(", 5000) + strings.Repeat(")", 5000), "x := " + strings.Repeat("[]", 3000) + "int{}", strings.Repeat("if x {", 3000), `"unterminated`, "`raw", "'", "/* open comment", "0x", "1e", "08", "0b2", "1_000", "'ab'", "\"\\q\"", "x := 99999999999999999999", "1.5e999", "import \"\"", "import (", "package", "$", "$ 1", "$ 99", "$ -1"} {
		s.evalOnce(deep, nil, emptyFS)
		s.evalOnce(deep, []string{"TreeDump", "CodeDump"}, emptyFS)
	}
	// sources without any statement, with every option subset
	for _, src := range []string{"", " ", "\n", "\t\n  ", ";", ";;", "// only a comment", "// c\n", "/* block */", "/* a */ // b\n;", "package main", "package main\n", "import \"fmt\"", "package main; import \"fmt\""} {
		for _, o := range opts {
			s.evalOnce(src, o, emptyFS)
			s.loadOnce(map[string]string{"main/main.go": src}, "main", o)
			s.loadOnce(map[string]string{"main/main.go": "package main\n" + src}, "main", o)
		}
	}
	// scripts that fail or loop at run time
	for _, src := range []string{"for { }", "func f() { f() }; f()", "x := []int{}; x[3]", "var m map[string]int; m[\"a\"] = 1", "type T struct { X int }; var t *T; t.X",
		"1 / 0", "x := 0; 1 % x", "panic(\"boom\")", "func f() int { }; f()", "func f() (int, int) { return 1 }; a, b := f()", "f := 3; f()", "var f func(); f()",
		"x := 1; x.y", "x := 1; x[0]", "s := \"abc\"; s[10]", "s := []int{1}; s[1:5]", "make([]int, -1)", "append(1, 2)", "len(5)", "delete(1, 2)", "copy(1, 2)",
		"import \"fmt\"; fmt.Sprintf(\"%d\")", "import \"strings\"; strings.Repeat(\"x\", -1)", "import \"strconv\"; strconv.Itoa()", "import \"math\"; math.Sqrt()", "import \"math\"; math.Nope(1)",
		"import \"golang.org/x/exp/slices\"; slices.SortFunc([]int{2,1}, func(a, b int) bool { panic(\"x\") })", "import \"golang.org/x/exp/slices\"; slices.Sort(3)",
		"x, y := 1", "a, b := 1, 2, 3", "var x int = \"s\"; x + 1", "\"a\" + 1", "\"a\" - \"b\"", "-\"a\"", "!5", "^\"s\"", "x := []int{1}; x.f()", "type T struct{}; t := &T{}; t.nope()", "type T struct{}; t := &T{Z: 1}",
		"for i := range 5 { }", "for k, v := range 5 { }", "switch { case 1: }", "break", "continue", "return 5", "func() { break }()", "x := nil; x.y", "nil()", "int(\"s\")", "string(1.5)", "[]byte(5)", "__type()", "println(println)",
		"var x [3]int", "go f()", "x <- 1", "goto L", "defer f()", "select {}", "chan int", "fallthrough", "a.b.c.d", "$ 0 0", "type T T", "type T struct { T }", "type A []A; var a A", "const x = x", "const ( a = iota; b; c ) ; c", "func f(a ...int, b int) {}", "func (t *Nope) M() {}", "func (t T) M() {}; type T struct{}"} {
		for _, o := range opts {
			s.evalOnce(src, o, emptyFS)
		}
		note(src)
	}

	// (d) file trees for Load
	c03FileTrees(s, r, opts, c.pick(400, 6000))
	// scripts whose failure mode would be an unrecoverable crash of the host (unbounded recursion while rendering a value
	// that contains itself) run in a child process each: the child must come back
	{
		self, err := os.Executable()
		must(err)
		for i, script := range c14CyclicScripts {
			ctx, cancel := context.WithTimeout(context.Background(), 20*time.Second)
			cmd := exec.CommandContext(ctx, self, "c14child", "quick", strconv.Itoa(i))
			var so, se bytes.Buffer
			cmd.Stdout, cmd.Stderr = &so, &se
			err := cmd.Run()
			cancel()
			c.Evaluations++
			if err != nil || !strings.HasPrefix(so.String(), "OK") {
				c.violate(hashKey("child|"+script), fmt.Sprintf("a host process evaluating this script did not come back (%v; %s): %s", err, firstLine(se.String()), strings.ReplaceAll(script, "\n", "; ")), map[string]any{"source": script, "stderr": clip(se.String(), 600)})
			}
		}
	}
	// every short token string as the WHOLE text of a package file, reached by Load (package form, file form) and as an
	// imported package; Eval with no file system at all (nil) and an import
	{
		heads := []string{"*", "&", "-", "!", "^", "(", "[", "func", "type", "var", "import", "package", "return", "x", "1", "\"s\"", "{", "}", ";", ".", ",", ":="}
		tails := []string{"package", "import", "func", "type", "var", "x", "main", "1", "(", ")", "{", "}", ";", "\"a\"", ""}
		for _, h := range heads {
			for _, t := range tails {
				for _, pre := range []string{"", "package main\n"} {
					src := pre + h + t
					if h != "x" && t != "" {
						src = pre + h + " " + t
					}
					s.loadOnce(map[string]string{"main/main.go": src}, "main", nil)
					s.loadOnce(map[string]string{"main/main.go": src}, "main/main.go", nil)
					s.observe("Eval", nil, map[string]any{"entry": "Eval", "source": "import \"ext\"", "files": map[string]string{"ext/ext.go": "package ext\n" + h + " " + t}}, func() error {
						vm := goat.New(goat.WithStdout(&bytes.Buffer{}))
						_, err := vm.Eval(mapFS(map[string]string{"ext/ext.go": "package ext\n" + h + " " + t}), "fuzz.go", "import \"ext\"")
						return err
					})
				}
			}
		}
		// files that begin with comments, closed or not, before or instead of a package clause
		for _, raw := range []string{"var (", "var (\n\tx = 1", "var (\n\tx int\n", "const (", "const (\n\ta = iota", "const (\n\ta = iota\n\tb\n", "import (", "import (\n\t\"fmt\"", "type (", "type T struct {", "type T struct {\n\tA int", "var x = [", "var x = map[string]int{", "func f(", "func f() (", "func (t *T", "x := []int{1,", "switch x {\ncase 1,", "for i := 0; i <", "if x := 1;", "return", "package", "var", "const", "type", "import", "func",
			"/* never closed", "/*", "/* a */", "/* a */ package main", "// c\n/* open", "//go:build goat\n\n/* open", "/* open\n//go:build goat\n", "/**/", "/* x */ /* y", "\n\n/* late open",
			"//", "//go:build", "//go:build !goat", "// +build ignore", "/* a */\n//go:build ignore\npackage main", "package main /* open", "package main\n/* open"} {
			raw := raw
			s.loadOnce(map[string]string{"main/main.go": raw}, "main", nil)
			s.loadOnce(map[string]string{"main/main.go": raw}, "main/main.go", nil)
			s.loadOnce(map[string]string{"main/main.go": "package main\nimport \"ext\"\n", "ext/ext.go": raw}, "main", nil)
			s.loadOnce(map[string]string{"main/main.go": "package main\nimport \"ext\"\n", "ext/a.go": "package ext\nvar A = 1\n", "ext/b.go": raw}, "main", nil)
			s.observe("Eval", nil, map[string]any{"entry": "Eval", "source": "import \"ext\"", "files": map[string]string{"ext/ext.go": raw}}, func() error {
				vm := goat.New(goat.WithStdout(&bytes.Buffer{}))
				_, err := vm.Eval(mapFS(map[string]string{"ext/ext.go": raw}), "fuzz.go", "import \"ext\"")
				return err
			})
			s.evalOnce(raw, nil, fstest.MapFS{})
		}
		for _, src := range []string{"import \"fmt\"", "import \"nosuch\"", "import (\n\t\"strings\"\n\tx \"a/b\"\n)", "x := 1"} {
			src := src
			for _, o := range opts {
				o := o
				s.observe("Eval", o, map[string]any{"entry": "Eval", "source": src, "fs": "nil", "opts": o}, func() error {
					vm := goat.New(goat.WithStdout(&bytes.Buffer{}))
					_, err := vm.Eval(nil, "fuzz.go", src, runOptions(o)...)
					return err
				})
				s.observe("Load", o, map[string]any{"entry": "Load", "arg": "main", "fs": "nil", "opts": o}, func() error {
					vm := goat.New(goat.WithStdout(&bytes.Buffer{}))
					return vm.Load(nil, "main", runOptions(o)...)
				})
			}
		}
	}

	// (e) Call / Func with wrong names, arities, result counts, non-function values
	c03CallFunc(s, opts)

	// ---- validate the observed classes with TLC ----
	keys := make([]string, 0, len(s.classes))
	for k := range s.classes {
		keys = append(keys, k)
	}
	sort.Strings(keys)
	var lines []map[string]any
	for _, k := range keys {
		o := s.classes[k]
		op := o.Opts
		if op == nil {
			op = []string{}
		}
		lines = append(lines, map[string]any{"entry": o.Entry, "opts": op, "outcome": o.Outcome, "prefix": o.Prefix, "n": s.counts[k]})
	}
	rejected := classifyFlatTrace(c, "Trace_Pipeline", "Trace_Pipeline.cfg", lines)
	for _, idx := range rejected {
		o := s.classes[keys[idx]]
		b, _ := jsonMarshal(o.Input)
		c.violate(hashKey(string(b)), fmt.Sprintf("%s %v -> %s %q (%s) input=%s", o.Entry, o.Opts, o.Outcome, o.Prefix, firstLine(o.Detail), clip(string(b), 200)),
			map[string]any{"input": o.Input, "outcome": o.Outcome, "prefix": o.Prefix, "detail": o.Detail})
	}
	// negative control: a fabricated "panic" observation must be rejected
	nc := classifyFlatTrace(c, "Trace_Pipeline", "Trace_Pipeline.cfg", []map[string]any{
		{"entry": "Eval", "opts": []string{}, "outcome": "ok", "prefix": "", "n": 1},
		{"entry": "Eval", "opts": []string{}, "outcome": "panic", "prefix": "", "n": 1}})
	if len(nc) != 1 || nc[0] != 1 {
		fatalf("negative control (fabricated panic observation) not rejected: %v", nc)
	}
	c.Extra["negative_control"] = "fabricated panic observation rejected by Trace_Pipeline as expected"
	c.Evaluations = s.calls
	c.DistinctCount = int64(len(pastTokenize))
	c.TracesVsImpl = int64(len(lines) - len(rejected))
	c.Extra["observed_classes"] = len(lines)
	var cls []string
	for _, k := range keys {
		if len(cls) < 40 {
			cls = append(cls, fmt.Sprintf("%s x%d", k, s.counts[k]))
		}
	}
	c.Extra["classes"] = cls
	c.sample(map[string]any{"entry": "Eval", "source": "x /;", "opts": []string{"TreeDump"}})
	c.sample(map[string]any{"entry": "Load", "files": map[string]string{"a/a.go": "package a; import \"b\"", "b/b.go": "package b; import \"a\""}, "arg": "a"})
	if s.hung > 0 {
		c.Extra["hung_calls"] = s.hung
	}
}

func joinTokensNL(t []string) string {
	var b strings.Builder
	for _, x := range t {
		if x == "\n" {
			b.WriteString("\n")
		} else {
			b.WriteString(x)
			b.WriteString(" ")
		}
	}
	return b.String()
}

func firstLine(s string) string {
	if i := strings.IndexByte(s, '\n'); i >= 0 {
		return s[:i]
	}
	return s
}

func clip(s string, n int) string {
	if len(s) > n {
		return s[:n] + "…"
	}
	return s
}

func c03FileTrees(s *c03State, r *rand.Rand, opts [][]string, nrand int) {
	names := []string{"a", "b", "c", "d"}
	// all import graphs on <=3 packages including cyclic ones and self imports
	for n := 1; n <= 3; n++ {
		for mask := 0; mask < 1<<(n*n); mask++ {
			files := map[string]string{}
			for i := 0; i < n; i++ {
				src := "package " + names[i] + "\n"
				for j := 0; j < n; j++ {
					if mask&(1<<(i*n+j)) != 0 {
						src += "import \"" + names[j] + "\"\n"
					}
				}
				src += "var V" + names[i] + " = 1\nfunc init() { println(\"" + names[i] + "\") }\n"
				files[names[i]+"/"+names[i]+".go"] = src
			}
			s.loadOnce(files, "a", opts[mask%len(opts)])
		}
	}
	odd := []map[string]string{
		{},
		{"a/a.go": ""},
		{"a/a.go": "\n\n"},
		{"a/a.go": "// only a comment"},
		{"a/a.go": "x := 1"},
		{"a/a.go": "package"},
		{"a/a.go": "package a", "a/b.go": "package b"},
		{"a/a.go": "package a", "a/b.go": ""},
		{"a/a.go": "package a; import \"nope\"; var x = nope.X"},
		{"a/a.go": "package a; import \"b\"; var x = b.X", "b/b.go": "package b; var X = "},
		{"a/a.go": "package a; import \"b\"", "b/b.go": "package b; func init() { panic(\"in init\") }"},
		{"a/a.go": "package a; import \"b\"", "b/b.go": "package b; x := []int{}; x[1] = 2"},
		{"a/a.go": "package a\nfunc init() { for { } }"},
		{"a/a.go": "//go:build ((\npackage a"},
		{"a/a.go": "//go:build !goat\npackage a\nthis is not go"},
		{"a/a.go": "//go:build goat\npackage a"},
		{"a/a_test.go": "package a; garbage ((("},
		{"a/a_test.go": "package a"},
		{"vendor/a/a.go": "package a; func init() { println(1) }"},
		{"x/y/a/a.go": "package a"},
		{"a/a.go": "package a; 42"},
		{"a/a.go": "package a; func f() int { return 1 }; f()"},
		{"a/a.go": "package a; import \"a\""},
		{"a/a.go": "package a; import \"a/b\"", "a/b/b.go": "package b; import \"a\""},
		{"a/a.go": "package main"},
		{"a/a.go": "package a; package b"},
		{"a/a.go": "package a\nimport (\n\"b\"\n\"b\"\n)", "b/b.go": "package b"},
		{"a/a.go": "package a; import x \"b\"; import y \"b\"; var z = x.V + y.V", "b/b.go": "package b; var V = 1"},
		{"a/a.go/x.go": "package a"},
		{"a/[.go": "package a"},
	}
	for i, files := range odd {
		for _, arg := range []string{"a", "a/a.go", "", ".", "..", "/", "a/", "./a", "nope", "a/../a", "[", "a/b"} {
			s.loadOnce(files, arg, opts[(i)%len(opts)])
		}
	}
	// random trees
	frag := []string{"package a", "package b", "package main", "import \"a\"", "import \"b\"", "import \"c\"", "import \"fmt\"", "var X = 1", "func F() int { return 1 }",
		"func init() { println(1) }", "//go:build goat", "//go:build !goat", "//go:build linux", "", "x := b.X", "type T struct { X int }", "func (t *T) M() {}", "}", "(", "var Y = a.X"}
	dirs := []string{"a", "b", "c", "vendor/a", "vendor/b", "x/a", "a/sub"}
	fnames := []string{"a.go", "b.go", "z.go", "a_test.go", "x.txt", "_.go", ".go"}
	for i := 0; i < nrand; i++ {
		files := map[string]string{}
		nf := 1 + r.Intn(5)
		for j := 0; j < nf; j++ {
			var src []string
			nl := 1 + r.Intn(5)
			for k := 0; k < nl; k++ {
				src = append(src, frag[r.Intn(len(frag))])
			}
			files[dirs[r.Intn(len(dirs))]+"/"+fnames[r.Intn(len(fnames))]] = strings.Join(src, "\n")
		}
		s.loadOnce(files, []string{"a", "b", "c", "a/a.go", "x/a"}[r.Intn(5)], opts[i%len(opts)])
	}
	_ = filepath.Join
}

func c03CallFunc(s *c03State, opts [][]string) {
	src := `package main
var G = 5
func Zero() {}
func One(a int) int { return a + 1 }
func Two(a, b int) (int, int) { return b, a }
func Var(xs ...int) int { return len(xs) }
func Fail() int { x := []int{}; return x[2] }
func Loop() { for { } }
func Rec(n int) int { return Rec(n + 1) }
func NoRet() int { }
func Deep(n int) int { if n == 0 { x := []int{}; return x[1] }; return Deep(n - 1) }
type T struct { X int }
func (t *T) M(a int) int { return t.X + a }
func Mk() *T { return &T{X: 1} }
func CallIt(f func(int) int) int { return f(1) }
`
	mk := func() *goat.VM {
		vm := goat.New(goat.WithStdout(&bytes.Buffer{}))
		if err := vm.Load(mapFS(map[string]string{"main/main.go": src}), "main"); err != nil {
			fatalf("C03 call fixture does not load: %v", err)
		}
		return vm
	}
	names := []string{"main.Zero", "main.One", "main.Two", "main.Var", "main.Fail", "main.Loop", "main.Rec", "main.NoRet", "main.Deep", "main.G", "main.T", "main.Mk", "main.CallIt", "main.Nope", "", "nil", "true", "fmt.Println", "math.Sqrt", "strings.Join", "builtin.println", "builtin.__type", "golang.org/x/exp/slices.SortFunc", "golang.org/x/exp/maps.Keys", "strconv.Itoa", "errors.New", "time.Now", "os.Args", "math.Pi"}
	argSets := [][]goat.Value{nil, {goat.Int(1)}, {goat.Int(1), goat.Int(2)}, {goat.Int(1), goat.Int(2), goat.Int(3)}, {goat.String("s")}, {goat.Nil()}, {goat.Float64(1.5), goat.Bool(true)},
		{goat.NewSlice(goat.TypeInt32, []goat.Value{goat.Int(1)})}, {goat.NewMap(goat.TypeString, goat.TypeInt32, nil)}, {goat.Value{}}}
	for _, name := range names {
		for _, args := range argSets {
			for x := 0; x <= 3; x++ {
				name, args, x := name, args, x
				s.observe("Call", nil, map[string]any{"entry": "Call", "name": name, "nargs": len(args), "xRets": x, "args": fmt.Sprint(args)}, func() error {
					vm := mk()
					_, err := vm.Call(name, x, append([]goat.Value{}, args...)...)
					return err
				})
			}
		}
	}
	vals := map[string]goat.Value{"nil": goat.Nil(), "int": goat.Int(3), "string": goat.String("f"), "zero": {}, "slice": goat.NewSlice(goat.TypeInt32, nil),
		"native0": goat.NewFunc(0, 0, func(vm *goat.VM) {}), "native1": goat.NewFunc(1, 1, func(vm *goat.VM, a []goat.Value) goat.Value { return a[0] }),
		"nativePanic": goat.NewFunc(0, 1, func(vm *goat.VM) goat.Value { panic("native boom") }),
		"nativeShort": goat.NewFunc(1, 2, func(vm *goat.VM, a []goat.Value) []goat.Value { return nil }),
		"nativeVar": goat.NewFunc(1, 1, func(vm *goat.VM, a []goat.Value, va ...goat.Value) []goat.Value {
			return []goat.Value{goat.Int(len(va))}
		})}
	for _, vn := range sortedKeys(vals) {
		for _, args := range argSets[:5] {
			for x := 0; x <= 2; x++ {
				v, args, x, vn := vals[vn], args, x, vn
				s.observe("Func", nil, map[string]any{"entry": "Func", "value": vn, "nargs": len(args), "xRets": x}, func() error {
					vm := mk()
					_, err := vm.Func(v, x, append([]goat.Value{}, args...)...)
					return err
				})
			}
		}
	}
	// function values obtained from the script and methods of instances
	for _, expr := range []string{"main.Mk"} {
		s.observe("Func", nil, map[string]any{"entry": "Func", "value": "method M of " + expr}, func() error {
			vm := mk()
			rets, err := vm.Call(expr, 1)
			if err != nil {
				return err
			}
			m := rets[0].GetAttr("M")
			_, err = vm.Func(m, 1, goat.Int(2))
			if err != nil {
				return err
			}
			_, err = vm.Func(m, 1)
			return err
		})
	}
	_ = strconv.Itoa
	_ = opts
}
