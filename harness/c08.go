package main

import (
	"fmt"
	"math/rand"
	"strings"
)

// C08 — names resolve by Go's lexical block scoping.
//
// Every well-formed sequence (length <= L) of scoping operations on one name is generated as a
// program: declare (x := k), var x int, assign (x = x + k / x += k), print x, open a block of every
// kind (if, if with init declaration, else, for (two iterations), range (two iterations), switch
// case, switch default) and close it - to nesting depth 3. The name is, in turn, a package-level
// variable, a parameter, and an imported package name (fmt) shadowed by a local. MiniGo.tla (scope
// chain per frame, Declare into the innermost scope, assignment to the nearest enclosing binding,
// scopes dropped at block end, fresh body scope per iteration) gives the expected prints under TLC;
// every program is replayed on goatlang in both optimizer modes; the Go toolchain calibrates.

func init() {
	register("C08", checkC08)
	extraCorpus = append(extraCorpus, func(c *Ctx, r *rand.Rand) []map[string]string {
		var out []map[string]string
		for i, p := range c08Programs(4, "x") {
			if i%c.pick(9, 2) == 0 {
				out = append(out, map[string]string{"main/main.go": p.Source(false, nil)})
			}
		}
		return out
	})
}

// operations: D declare, V var (zero), A add-assign, P print, C close, and block openers
var c08Ops = []string{"D", "V", "A", "P", "C", "oIf", "oIfInit", "oElse", "oFor", "oRange", "oCase", "oDefault"}

// a second alphabet: the openers whose HEADER declares the name (for name := ..., for name := range,
// for _, name := range, if name := ...); enumerated one step shorter
var c08OpsHeader = []string{"D", "V", "A", "P", "C", "oIfInit", "oIfInitElse", "oForInit", "oRangeKey", "oRangeVal"}

func c08Sequences(maxLen int) [][]string { return c08SequencesOver(c08Ops, maxLen) }

func c08SequencesOver(ops []string, maxLen int) [][]string {
	var out [][]string
	var rec func(prefix []string, depth int, declsInBlock []int, hasInnerDecl bool)
	rec = func(prefix []string, depth int, declared []int, hasInnerDecl bool) {
		if len(prefix) > 0 && depth == 0 && hasInnerDecl && prefix[len(prefix)-1] == "P" {
			out = append(out, append([]string{}, prefix...))
		}
		if len(prefix) == maxLen {
			return
		}
		remaining := maxLen - len(prefix)
		for _, op := range ops {
			switch op {
			case "D", "V":
				// a name can be declared once per scope (Go rejects redeclaration in the same block)
				if declared[len(declared)-1] > 0 {
					continue
				}
				d2 := append(append([]int{}, declared...))
				d2[len(d2)-1]++
				rec(append(prefix, op), depth, d2, hasInnerDecl || depth > 0)
			case "A", "P":
				if op == "P" && len(prefix) > 0 && prefix[len(prefix)-1] == "P" {
					continue
				}
				rec(append(prefix, op), depth, declared, hasInnerDecl)
			case "C":
				if depth == 0 {
					continue
				}
				if last := prefix[len(prefix)-1]; strings.HasPrefix(last, "o") && last != "oIfInit" && last != "oIfInitElse" && last != "oForInit" && last != "oRangeKey" && last != "oRangeVal" {
					continue // an empty block tells nothing
				}
				rec(append(prefix, op), depth-1, declared[:len(declared)-1], hasInnerDecl)
			default:
				if depth >= 3 || remaining < depth+3 {
					continue
				}
				d2 := append(append([]int{}, declared...), 0)
				inner := hasInnerDecl
				if op == "oIfInit" || op == "oIfInitElse" || op == "oForInit" || op == "oRangeKey" || op == "oRangeVal" {
					inner = true
				}
				rec(append(prefix, op), depth+1, d2, inner)
			}
		}
	}
	rec(nil, 0, []int{0}, false)
	return out
}

// c08Build turns an operation sequence into a program; name is "x" (package-level variable),
// "p" (parameter) or "fmt" (imported package name shadowed by a local).
// c08DeclForm selects how the operation D (and the if-header declaration) declares the name: 0 name := v; 1 in a
// declaration of two names (name, aux := v, 0; aux, name := 0, v) where aux is new; 2 from a call with two results;
// 3 from a comma-ok map lookup. In every form the declaration sits in a block that has not declared the name yet, so
// it introduces a new variable there (Go redeclares only names of the SAME block).
var c08DeclForm = 0

func c08Build(seq []string, name string, id string) *Prog {
	p := &Prog{ID: id, Pkg: "main", Main: "Main"}
	naux := 0
	declStmt := func(n string, val *E) *S {
		naux++
		aux := fmt.Sprintf("aux%d", naux)
		switch c08DeclForm {
		case 1:
			if naux%2 == 0 {
				return &S{K: "decl", Names: []string{aux, n}, Exprs: []*E{lit(TInt, 0), val}}
			}
			return &S{K: "decl", Names: []string{n, aux}, Exprs: []*E{val, lit(TInt, 0)}}
		case 2:
			return &S{K: "decl", Names: []string{n, aux}, Exprs: []*E{{K: "call", Fn: "two", NRes: 2, Args: []*E{val}}}}
		case 3:
			return &S{K: "decl", Names: []string{n, aux}, Exprs: []*E{{K: "mapget", Ty: TInt, Ok: true, X: &E{K: "maplit", Ty: MapOf(TInt, TInt), Keys: []*E{lit(TInt, 1)}, Args: []*E{val}}, I: lit(TInt, 1)}}}
		}
		return &S{K: "decl", Names: []string{n}, Exprs: []*E{val}}
	}
	if c08DeclForm == 2 {
		p.Funcs = append(p.Funcs, &Func{Name: "two", Params: []string{"a"}, PTypes: []*Ty{TInt}, Results: []*Ty{TInt, TInt}, Body: []*S{ret(v("a", TInt), lit(TInt, 0))}})
	}
	k := int64(0)
	next := func() *E { k += 7; return lit(TInt, k) }
	nv := 0
	type frame struct {
		stmts []*S
		wrap  func(body []*S) *S
	}
	stack := []*frame{{}}
	top := func() *frame { return stack[len(stack)-1] }
	x := func() *E { return v(name, TInt) }
	declName := name
	if name == "fmtS" {
		// the name fmt holds a struct reference: reads and (compound) assignments go to its field
		declName = "fmt"
		x = func() *E { return &E{K: "field", Ty: TInt, X: v("fmt", PtrTo("T")), F: "N"} }
	}
	hdrPrint := func(tag string) *S { return &S{K: "print", Ln: true, Exprs: []*E{{K: "str", Ty: TString, S: tag}, x()}} }
	for _, op := range seq {
		switch op {
		case "oForInit":
			stack = append(stack, &frame{wrap: func(b []*S) *S {
				return &S{K: "for", Init: &S{K: "decl", Names: []string{name}, Exprs: []*E{lit(TInt, 0)}}, Cond: cmp("<", v(name, TInt), lit(TInt, 2)), Post: &S{K: "incdec", Lhs: []*E{v(name, TInt)}, D: 1}, Body: append([]*S{hdrPrint("f")}, b...)}
			}})
			continue
		case "oRangeKey":
			stack = append(stack, &frame{wrap: func(b []*S) *S {
				return &S{K: "range", X: &E{K: "slicelit", Ty: SliceOf(TInt), Args: []*E{lit(TInt, 40), lit(TInt, 50)}}, KName: name, VName: "_", Body: append([]*S{hdrPrint("rk")}, b...)}
			}})
			continue
		case "oRangeVal":
			stack = append(stack, &frame{wrap: func(b []*S) *S {
				return &S{K: "range", X: &E{K: "slicelit", Ty: SliceOf(TInt), Args: []*E{lit(TInt, 60), lit(TInt, 70)}}, KName: "_", VName: name, Body: append([]*S{hdrPrint("rv")}, b...)}
			}})
			continue
		}
		switch op {
		case "D":
			if name == "fmtS" {
				top().stmts = append(top().stmts, &S{K: "decl", Names: []string{"fmt"}, Exprs: []*E{newS("T", "N", next())}})
				break
			}
			top().stmts = append(top().stmts, declStmt(name, next()))
		case "V":
			top().stmts = append(top().stmts, &S{K: "declzero", Names: []string{name}, DeclTy: TInt})
		case "A":
			if k%2 == 0 {
				top().stmts = append(top().stmts, &S{K: "assign", Lhs: []*E{x()}, Exprs: []*E{{K: "bin", Ty: TInt, Op: "+", L: x(), R: next()}}})
			} else {
				top().stmts = append(top().stmts, &S{K: "opassign", Lhs: []*E{x()}, Op: "+", E: next()})
			}
		case "P":
			top().stmts = append(top().stmts, &S{K: "print", Ln: true, Exprs: []*E{{K: "str", Ty: TString, S: "p"}, x()}})
		case "C":
			f := top()
			stack = stack[:len(stack)-1]
			top().stmts = append(top().stmts, f.wrap(f.stmts))
		case "oIf":
			stack = append(stack, &frame{wrap: func(b []*S) *S { return &S{K: "if", Cond: &E{K: "bool", Ty: TBool, B: true}, Then: b} }})
		case "oIfInit":
			init := declStmt(declName, next())
			if name == "fmtS" {
				init = &S{K: "decl", Names: []string{"fmt"}, Exprs: []*E{newS("T", "N", next())}}
			}
			var use []*S
			if len(init.Names) == 2 { // Go wants every declared name used
				for _, n := range init.Names {
					if n != declName {
						use = append(use, &S{K: "assign", Lhs: []*E{{K: "blank", Ty: TInt}}, Exprs: []*E{v(n, TInt)}})
					}
				}
			}
			stack = append(stack, &frame{wrap: func(b []*S) *S {
				return &S{K: "if", Init: init, Cond: cmp(">", x(), lit(TInt, 0)), Then: append(append([]*S{{K: "print", Ln: true, Exprs: []*E{{K: "str", Ty: TString, S: "i"}, x()}}}, use...), b...)}
			}})
		case "oIfInitElse":
			// the variable of the init statement is in scope in the else-if condition and in the else parts, where the body goes
			init := declStmt(declName, next())
			var use []*S
			if len(init.Names) == 2 {
				for _, n := range init.Names {
					if n != declName {
						use = append(use, &S{K: "assign", Lhs: []*E{{K: "blank", Ty: TInt}}, Exprs: []*E{v(n, TInt)}})
					}
				}
			}
			if name == "fmtS" {
				init = &S{K: "decl", Names: []string{"fmt"}, Exprs: []*E{newS("T", "N", next())}}
			}
			stack = append(stack, &frame{wrap: func(b []*S) *S {
				never := []*S{{K: "print", Ln: true, Exprs: []*E{{K: "str", Ty: TString, S: "never"}, x()}}}
				inner := &S{K: "if", Cond: cmp(">", x(), lit(TInt, 1000000)), Then: never, HasElse: true,
					Else: append(append([]*S{{K: "print", Ln: true, Exprs: []*E{{K: "str", Ty: TString, S: "ie"}, x()}}}, use...), b...)}
				return &S{K: "if", Init: init, Cond: cmp("<", x(), lit(TInt, 0)), Then: never, HasElse: true, Else: []*S{inner}}
			}})
		case "oElse":
			stack = append(stack, &frame{wrap: func(b []*S) *S {
				return &S{K: "if", Cond: &E{K: "bool", Ty: TBool, B: false}, Then: []*S{{K: "print", Ln: true, Exprs: []*E{{K: "str", Ty: TString, S: "never"}}}}, HasElse: true, Else: b}
			}})
		case "oFor":
			nv++
			i := fmt.Sprintf("i%d", nv)
			stack = append(stack, &frame{wrap: func(b []*S) *S {
				return &S{K: "for", Init: &S{K: "decl", Names: []string{i}, Exprs: []*E{lit(TInt, 0)}}, Cond: cmp("<", v(i, TInt), lit(TInt, 2)), Post: &S{K: "incdec", Lhs: []*E{v(i, TInt)}, D: 1}, Body: b}
			}})
		case "oRange":
			nv++
			e := fmt.Sprintf("e%d", nv)
			stack = append(stack, &frame{wrap: func(b []*S) *S {
				return &S{K: "range", X: &E{K: "slicelit", Ty: SliceOf(TInt), Args: []*E{lit(TInt, 1), lit(TInt, 2)}}, KName: "_", VName: e, Body: b}
			}})
		case "oCase":
			stack = append(stack, &frame{wrap: func(b []*S) *S {
				return &S{K: "switch", Tag: &E{K: "conv", Ty: TInt, X: lit(TInt, 1)}, Cases: []*Case{{Vals: []*E{lit(TInt, 0)}, Body: []*S{{K: "print", Ln: true, Exprs: []*E{{K: "str", Ty: TString, S: "never"}}}}}, {Vals: []*E{lit(TInt, 1)}, Body: b}}}
			}})
		case "oDefault":
			stack = append(stack, &frame{wrap: func(b []*S) *S {
				return &S{K: "switch", Tag: &E{K: "conv", Ty: TInt, X: lit(TInt, 9)}, Cases: []*Case{{Vals: []*E{lit(TInt, 0)}, Body: []*S{{K: "print", Ln: true, Exprs: []*E{{K: "str", Ty: TString, S: "never"}}}}}}, HasDef: true, DefPos: 0, Def: b}
			}})
		}
	}
	body := stack[0].stmts
	switch name {
	case "x":
		p.Globals = []*S{{K: "decl", Names: []string{"x"}, DeclTy: TInt, VarForm: true, Exprs: []*E{lit(TInt, 1000)}}}
		body = append(body, &S{K: "expr", E: &E{K: "call", Fn: "show"}, NRes: 0})
		p.Funcs = append(p.Funcs, &Func{Name: "show", Body: []*S{{K: "print", Ln: true, Exprs: []*E{{K: "str", Ty: TString, S: "global"}, v("x", TInt)}}}})
		p.Funcs = append(p.Funcs, &Func{Name: "Main", Body: body})
	case "p":
		p.Funcs = append(p.Funcs, &Func{Name: "F", Params: []string{"p"}, PTypes: []*Ty{TInt}, Body: body})
		p.Globals = []*S{{K: "decl", Names: []string{"p"}, DeclTy: TInt, VarForm: true, Exprs: []*E{lit(TInt, 1000)}}}
		p.Funcs = append(p.Funcs, &Func{Name: "Main", Body: []*S{{K: "expr", E: &E{K: "call", Fn: "F", Args: []*E{lit(TInt, 2000)}}, NRes: 0}, {K: "print", Ln: true, Exprs: []*E{{K: "str", Ty: TString, S: "global"}, v("p", TInt)}}}})
	case "fmt", "fmtS":
		// the local named fmt shadows the imported package inside Main; another function still uses the package
		pre := []*S{{K: "decl", Names: []string{"fmt"}, Exprs: []*E{lit(TInt, 3000)}}}
		if name == "fmtS" {
			p.Structs = []*StructDef{{Name: "T", Fields: []string{"N"}, FTypes: []*Ty{TInt}}}
			pre = []*S{{K: "decl", Names: []string{"fmt"}, Exprs: []*E{newS("T", "N", lit(TInt, 3000))}}}
		}
		p.Funcs = append(p.Funcs, &Func{Name: "Main", Body: append(append(pre, body...), &S{K: "expr", E: &E{K: "call", Fn: "viaPkg"}, NRes: 0})})
		p.Funcs = append(p.Funcs, &Func{Name: "viaPkg", Body: []*S{{K: "print", Ln: true, Fmt: true, Exprs: []*E{{K: "str", Ty: TString, S: "pkg"}}}}})
	}
	return p
}

func c08Programs(maxLen int, name string) []*Prog { return c08ProgramsOver(c08Ops, "", maxLen, name) }

func c08ProgramsOver(ops []string, tag string, maxLen int, name string) []*Prog {
	var progs []*Prog
	for i, seq := range c08SequencesOver(ops, maxLen) {
		if name == "fmtS" {
			hasV := false
			for _, op := range seq {
				if op == "V" || op == "oForInit" || op == "oRangeKey" || op == "oRangeVal" {
					hasV = true // a nil reference / an int loop variable has no field
				}
			}
			if hasV {
				continue
			}
		}
		if name == "fmt" || name == "p" || name == "fmtS" {
			// the function scope already declares the name (fmt := 3000 / the parameter p)
			depth, clash := 0, false
			for _, op := range seq {
				switch {
				case op == "C":
					depth--
				case strings.HasPrefix(op, "o"):
					depth++
				case (op == "D" || op == "V") && depth == 0:
					clash = true
				}
			}
			if clash {
				continue
			}
		}
		progs = append(progs, c08Build(seq, name, fmt.Sprintf("c08/%s%s/%d/%s", name, tag, i, strings.Join(seq, "."))))
	}
	return progs
}

// c08Nested: declaration chains to depth d: at every level a block kind and whether/how the name is
// declared there, with reads and writes before the nested block, inside it and after it closes
func c08Nested(d int, kinds []string) [][]string {
	var out [][]string
	var rec func(level int, prefixOpen []string, seq []string)
	decls := []string{"", "D", "V"}
	rec = func(level int, prefixOpen []string, seq []string) {
		if level == d {
			s := append([]string{}, seq...)
			s = append(s, "A", "P")
			for i := 0; i < d; i++ {
				s = append(s, "C", "P", "A", "P")
			}
			out = append(out, s)
			return
		}
		for _, k := range kinds {
			for _, dc := range decls {
				s := append([]string{}, seq...)
				if dc != "" && level > 0 || dc != "" && level == 0 {
					s = append(s, dc)
				}
				s = append(s, "P", k)
				rec(level+1, nil, s)
			}
		}
	}
	rec(0, nil, nil)
	return out
}

func checkC08(c *Ctx) {
	c.Rule = "programs = every well-formed sequence of <= L scoping operations (declare, var, assign, print, open/close of 7 block kinds, nesting <= 3; a second alphabet with the openers whose header declares the name itself: for name := ..., for name := range, for _, name := range, if name := ...; ending in a print after the last block closed and containing a declaration inside a block) on one name that is a package-level variable (L), a parameter (L-1) or the imported package name fmt (L-1; also holding a struct reference whose field is read and compound-assigned, L-1); plus seeded random programs with shadowing; distinct_nontrivial = distinct programs"
	c.Assumptions = []string{"MiniGo.tla is calibrated against the Go toolchain on a deterministic sample of the programs", "loop bodies run twice so that per-iteration freshness is visible"}
	L := c.pick(6, 7)
	progs := c08Programs(L, "x")
	progs = append(progs, c08Programs(L-1, "p")...)
	progs = append(progs, c08Programs(L-1, "fmt")...)
	progs = append(progs, c08Programs(L-1, "fmtS")...)
	// headers that declare the name itself (for name := ...; for name := range; for _, name := range)
	progs = append(progs, c08ProgramsOver(c08OpsHeader, "/hdr", L-1, "x")...)
	progs = append(progs, c08ProgramsOver(c08OpsHeader, "/hdr", L-2, "p")...)
	// the same, with the declarations written as declarations of several names
	for form := 1; form <= 3; form++ {
		c08DeclForm = form
		progs = append(progs, c08ProgramsOver(c08Ops, fmt.Sprintf("/form%d", form), L-1, "x")...)
		progs = append(progs, c08ProgramsOver(c08Ops, fmt.Sprintf("/form%d", form), L-2, "p")...)
	}
	c08DeclForm = 0
	for i, seq := range c08Nested(3, []string{"oIf", "oFor", "oCase", "oIfInit", "oElse"}) {
		progs = append(progs, c08Build(seq, "x", fmt.Sprintf("c08/nested3/%d/%s", i, strings.Join(seq, "."))))
	}
	if !c.quick() {
		for i, seq := range c08Nested(4, []string{"oIf", "oFor", "oCase", "oIfInit"}) {
			progs = append(progs, c08Build(seq, "x", fmt.Sprintf("c08/nested4/%d/%s", i, strings.Join(seq, "."))))
		}
	}
	progs = append(progs, c08Extra()...)
	c.Extra["enumerated_programs"] = len(progs)
	r := rand.New(rand.NewSource(c.Seed))
	nr := c.pick(200, 4000)
	for i := 0; i < nr; i++ {
		g := NewGen(r, GenOpts{MaxStmts: 40, MaxDepth: 4, Funcs: 2, Strings: true, FuncLits: i%2 == 1})
		g.shadowBias = true
		progs = append(progs, g.Program(fmt.Sprintf("c08-rand-%d", i)))
	}
	b := runMiniGoSpec(c, progs, 0, "c08")
	for _, p := range progs {
		c.distinct(hashKey(b.Sources[p.ID]))
	}
	var cal []*Prog
	for i, p := range progs {
		if i%11 == 0 || i >= len(progs)-nr {
			cal = append(cal, p)
		}
	}
	calibrateGo(c, &mgBatch{Progs: cal, Sources: b.Sources, Behs: b.Behs}, "c08")
	compareBehaviours(c, b, true, "scoping")
	compareBehaviours(c, b, false, "scoping")
	p := progs[len(progs)/5]
	c.sample(map[string]any{"program": p.ID, "source": b.Sources[p.ID], "expected": b.Behs[p.ID][0].Render()})
}

// c08Extra: hand-built scoping programs. (1) function literals nested one, two and three deep inside a function whose
// own parameters and locals (some with the literals' parameter names) are read and written after the outermost literal;
// (2) range statements whose iteration variables have the names of variables that occur in the range operand
// (for _, xs := range xs; for i := range s[i:]; for _, n := range n.Kids).
func c08Extra() []*Prog {
	var progs []*Prog
	fi := FuncTy(&FuncSig{Params: []*Ty{TInt}, Results: []*Ty{TInt}})
	for depth := 1; depth <= 3; depth++ {
		for variant := 0; variant < 3; variant++ {
			p := &Prog{ID: fmt.Sprintf("c08/lits/depth%d/v%d", depth, variant), Pkg: "main", Main: "Main"}
			// innermost literal first
			var mk func(d int) *E
			mk = func(d int) *E {
				name := fmt.Sprintf("c08lit%d_%d_%d", depth, variant, d)
				param := []string{"x", "a", "y"}[(d+variant)%3]
				pv := v(param, TInt)
				var body []*S
				if d < depth {
					inner := mk(d + 1)
					ln := "a" // a local of the literal named like a local of the enclosing function
					if param == "a" {
						ln = "y"
					}
					in := "x" // and one in a nested block
					if param == "x" {
						in = "q"
					}
					body = []*S{dcl("k", inner), dcl(ln, bin("+", TInt, pv, lit(TInt, int64(d)))),
						{K: "if", Cond: bin(">", TBool, v(ln, TInt), lit(TInt, -1000)), Then: []*S{dcl(in, bin("*", TInt, v(ln, TInt), lit(TInt, 2))), asg(v(ln, TInt), v(in, TInt))}},
						ret(bin("+", TInt, &E{K: "callv", Ty: TInt, NRes: 1, X: v("k", fi), Args: []*E{v(ln, TInt)}}, lit(TInt, 1)))}
				} else {
					body = []*S{ret(bin("*", TInt, pv, lit(TInt, 3)))}
				}
				fn := &Func{Name: name, Params: []string{param}, PTypes: []*Ty{TInt}, Results: []*Ty{TInt}, Body: body}
				p.Lits = append(p.Lits, fn)
				return &E{K: "funclit", Ty: fi, Fn: name, Lit: fn}
			}
			body := []*S{dcl("a", bin("+", TInt, v("x", TInt), lit(TInt, 1))), dcl("y", lit(TInt, 7))}
			lit1 := mk(1)
			switch variant {
			case 0:
				body = append(body, dcl("h", lit1))
			case 1: // the literal is declared inside a nested block of the function
				body = append(body, &S{K: "declzero", Names: []string{"h"}, DeclTy: fi}, &S{K: "if", Cond: bin(">", TBool, v("a", TInt), lit(TInt, -5)), Then: []*S{dcl("inner", lit(TInt, 1)), asg(v("h", fi), lit1), asg(v("y", TInt), bin("+", TInt, v("y", TInt), v("inner", TInt)))}})
			default: // inside a loop body
				body = append(body, &S{K: "declzero", Names: []string{"h"}, DeclTy: fi}, &S{K: "for", Init: dcl("i", lit(TInt, 0)), Cond: bin("<", TBool, v("i", TInt), lit(TInt, 2)), Post: &S{K: "incdec", Lhs: []*E{v("i", TInt)}, D: 1}, Body: []*S{asg(v("h", fi), lit1), asg(v("y", TInt), bin("+", TInt, v("y", TInt), v("i", TInt)))}})
			}
			body = append(body,
				dcl("b", &E{K: "callv", Ty: TInt, NRes: 1, X: v("h", fi), Args: []*E{v("a", TInt)}}),
				asg(v("a", TInt), bin("+", TInt, v("a", TInt), v("b", TInt))),
				asg(v("x", TInt), bin("+", TInt, v("x", TInt), lit(TInt, 1))),
				pr(sS("after"), v("a", TInt), v("b", TInt), v("x", TInt), v("y", TInt)),
				ret(bin("+", TInt, bin("*", TInt, v("a", TInt), lit(TInt, 100)), v("x", TInt))))
			p.Globals = []*S{{K: "decl", Names: []string{"a"}, DeclTy: TInt, VarForm: true, Exprs: []*E{lit(TInt, 5000)}, Global: true}}
			p.Funcs = append(p.Funcs, &Func{Name: "F", Params: []string{"x"}, PTypes: []*Ty{TInt}, Results: []*Ty{TInt}, Body: body},
				&Func{Name: "Main", Body: []*S{pr(sS("F"), &E{K: "call", Fn: "F", Ty: TInt, NRes: 1, Args: []*E{lit(TInt, 3)}}), pr(sS("global"), &E{K: "var", Ty: TInt, Name: "a", Global: true})}})
			progs = append(progs, p)
		}
	}
	// range statements whose variables are named like what the operand mentions
	{
		ts := SliceOf(TInt)
		pn := PtrTo("Nd")
		p := &Prog{ID: "c08/range-self", Pkg: "main", Main: "Main"}
		p.Structs = []*StructDef{{Name: "Nd", Fields: []string{"V", "Kids"}, FTypes: []*Ty{TInt, SliceOf(pn)}}}
		p.Globals = []*S{{K: "decl", Names: []string{"gs"}, DeclTy: ts, VarForm: true, Exprs: []*E{{K: "slicelit", Ty: ts, Args: []*E{lit(TInt, 100), lit(TInt, 200)}}}, Global: true}}
		add := func(name string, e *E) *S { return &S{K: "opassign", Lhs: []*E{v(name, TInt)}, Op: "+", E: e} }
		kids := &E{K: "slicelit", Ty: SliceOf(pn), Args: []*E{newS("Nd", "V", lit(TInt, 5)), newS("Nd", "V", lit(TInt, 6))}}
		walk := &Func{Name: "walk", Params: []string{"xs", "n"}, PTypes: []*Ty{ts, pn}, Results: []*Ty{TInt}, Body: []*S{
			dcl("t", lit(TInt, 0)),
			{K: "range", X: v("xs", ts), KName: "_", VName: "xs", Body: []*S{add("t", v("xs", TInt))}},
			pr(sS("r1"), v("t", TInt), lenOf(v("xs", ts))),
			dcl("i", lit(TInt, 1)),
			{K: "range", X: &E{K: "slice", Ty: ts, X: v("xs", ts), Lo: v("i", TInt)}, KName: "i", VName: "e", Body: []*S{add("t", bin("+", TInt, bin("*", TInt, v("i", TInt), lit(TInt, 10)), v("e", TInt)))}},
			pr(sS("r2"), v("t", TInt), v("i", TInt)),
			{K: "range", X: fld(v("n", pn), "Kids", SliceOf(pn)), KName: "_", VName: "n", Body: []*S{add("t", fld(v("n", pn), "V", TInt))}},
			pr(sS("r3"), v("t", TInt), fld(v("n", pn), "V", TInt)),
			{K: "range", X: &E{K: "var", Ty: ts, Name: "gs", Global: true}, KName: "gs", VName: "", Body: []*S{add("t", v("gs", TInt))}},
			pr(sS("r4"), v("t", TInt), lenOf(&E{K: "var", Ty: ts, Name: "gs", Global: true})),
			ret(v("t", TInt))}}
		p.Funcs = append(p.Funcs, walk, &Func{Name: "Main", Body: []*S{
			pr(sS("walk"), &E{K: "call", Fn: "walk", Ty: TInt, NRes: 1, Args: []*E{{K: "slicelit", Ty: ts, Args: []*E{lit(TInt, 1), lit(TInt, 2), lit(TInt, 3)}}, newS("Nd", "V", lit(TInt, 9), "Kids", kids)}})}})
		progs = append(progs, p)
	}
	return progs
}
