#!/usr/bin/env python3
# Rewrites section 12 of DESIGN.md (between the SEEDED-TABLE markers) from seeded/*/meta.json.
import json, glob, os, re
rows = []
for d in sorted(glob.glob('/verif/seeded/*/meta.json')):
    m = json.load(open(d))
    first = m['needs_to_manifest'].strip().split('\n')[0].lstrip('# ').strip()
    first = re.sub(r'^Mutant [AB]\s*[-—:]*\s*', '', first)
    det = []
    for x in m.get('detected_by', []):
        det.append('%s %s (%d)' % (x['check'], 'detects' if x['detected'] else 'MISSES', x.get('violations', 0)))
    rows.append('| %s | %s | %s |' % (m['id'], first[:170].replace('|', '/'), '; '.join(det) or 'not run'))
table = '| seeded change | what was changed | result of the checks (violations reported) |\n|---|---|---|\n' + '\n'.join(rows) + '\n'
p = '/verif/DESIGN.md'
s = open(p).read()
a, b = '<!-- SEEDED-TABLE-BEGIN -->', '<!-- SEEDED-TABLE-END -->'
if a in s:
    s = s[:s.index(a) + len(a)] + '\n' + table + s[s.index(b):]
    open(p, 'w').write(s)
else:
    print(table)
