#!/usr/bin/env python3
"""Regenerates /verif/MANIFEST.json from the table below (single source of truth for the interface)."""
import json, subprocess
ALL = ["C%02d" % i for i in range(1, 21)]
CHECKS = {
 "C10": dict(cat="model_checking", tech="TLA+ GoMap.tla: TLC bounded model check + TLC trace validation of recorded script/host/native-Go map histories",
   text="GoMap.tla (incarnation-based range bookkeeping) is model-checked exhaustively for 3 keys; every history run through goatlang script syntax and the host Value API is recorded as an event trace and accepted or rejected by TLC against the same actions; native Go maps calibrate the spec.",
   note="trusts TLC and the finite key/value index mapping; histories are exhaustive only for <=3-4 symbols on 2 keys, sampled beyond; NaN keys excluded by the property", ref="6/C10"),
 "C03": dict(cat="exploration", tech="TLA+ Pipeline.tla: TLC model check (safety+liveness) + TLC classification of observed call outcomes from bounded-exhaustive token strings, mutation and raw fuzzing",
   text="Pipeline.tla states the outcome protocol (every call returns; errors carry the failing stage's prefix; no panic/hang state). Every real Eval/Load/Call/Func call over bounded-exhaustive token strings (len<=3 quick, <=4 thorough, 60-token alphabet), token mutations/truncations of the repository's test inputs and seed programs, raw bytes, file trees incl. all import graphs on <=3 packages, and wrong-arity calls is observed with recover+watchdog and its (entry, options, outcome, prefix) class validated by TLC.",
   note="'all byte strings' is small-scope enumerated and sampled, not proved; hangs are detected by a 3 s watchdog; non-terminating scripts are cut by the verif instruction budget", ref="6/C03"),
 "C04": dict(cat="model_checking", tech="TLA+ FixedWidth.tla: TLC-checked lemmas + TLC validation of table-shaped traces of real VM results (8-bit exhaustive, 32-bit boundary/random) per operator x syntactic position",
   text="FixedWidth.tla defines Go's int8/uint8/int32/uint32 operators on limbs (TLC ints trap); its lemmas (range, division law, embedding of plain arithmetic, algebraic laws, fast = reference unsigned division) are checked exhaustively by TLC. One script function per (type, operator, syntactic position, constant) is compiled by the real compiler and called for all 8-bit operand pairs / 32-bit boundary and random values; the observed results and dynamic result types are validated line by line by TLC against the spec; native Go integer types calibrate it.",
   note="float64 arithmetic is not yet in the table (DESIGN.md section 7); shift counts are non-negative values of the operand type; constant<<variable excluded; trusts TLC", ref="6/C04"),
 "C05": dict(cat="model_checking", tech="TLA+ GoExpr.tla: TLC enumerates all expression trees (<=3 operators, unary prefixes), checks Parse(Unparse(t))=t, emits expected values; each replayed on the real parser+VM; random larger expressions validated by TLC (Eval(Parse(tokens)))",
   text="GoExpr.tla defines Go's grouping twice (Unparse with minimal parentheses and a reference precedence-climbing Parse) and TLC proves them inverse on every enumerated tree. Every well-typed tree with <=3 binary operators (and every placement of one or two unary prefixes, quick: <=2 operators) is emitted with its values under 4 environments (int32 wrap-around, short-circuit, run-time errors) and evaluated by the real parser and VM; 4-6 operator random expressions with nested prefixes and redundant parentheses are evaluated by the real code and validated by TLC.",
   note="&^ is not tokenized by goatlang and is excluded; operand values are fixed environments; calibration against the Go toolchain on a random sample of the enumerated expressions", ref="6/C05"),
 "C12": dict(cat="model_checking", tech="TLA+ IntMapSpec.tla/StructSpec.tla: TLC validation of operation traces of the real robin-hood table (with bucket-layout invariants on dumps) and of generated struct programs",
   text="IntMapSpec.tla is the abstract finite function plus the robin-hood layout invariants on bucket dumps; every operation on the real table (hook VerifIntMap) over collision-heavy key sets crossing every growth/shrink threshold is validated by TLC, including dumps. StructSpec.tla states field independence, zero values, reference semantics and method presence; generated struct programs (0..200 fields, methods, filler names that shift interned field indices, aliases, an instance of a type defined from the struct type) are run and every printed observation validated by TLC.",
   note="type adoption by Assign is covered through C04's field positions, not at table level; the table hook forwards to the unexported table unchanged", ref="6/C12"),
 "C15": dict(cat="model_checking", tech="TLA+ Loader.tla/LoaderOrder.tla: TLC checks the ordering loop of load.go against the spec on every digraph (N<=4); TLC validates marker traces of real loads of materialised import graphs",
   text="LoaderOrder.tla transcribes load.go's ordering loop and TLC checks, for every digraph on 3 (quick) / 4 (thorough, 65536 graphs) packages, that it yields a topological order or reports a cycle exactly when one is reachable. Loader.tla states the property on execution units (per-file variable initialisers and init functions); all 512 digraphs on 3 packages and seeded random trees up to 12 packages with file splits, vendor/shortened placement, _test.go files, 10 build-constraint header shapes, planted cycles and conflicting clauses are loaded by the real loader and the printed marker order validated by TLC (any topological order accepted; nothing of an ignored file may run; error iff cycle or conflict reachable).",
   note="tie-breaking between independent packages is not part of the property and is not constrained; stdout order is execution order (single-threaded VM)", ref="6/C15"),
 "C19": dict(cat="model_checking", tech="TLA+ Embed.tla: TLC exhaustive model check of the native call protocol, every completed case replayed on the real package in every expressible context; constructor/accessor tables validated by TLC (FixedWidth.Conv, Trace_Values)",
   text="Embed.tla models the call protocol on an abstract operand stack (arguments pushed in order, native sees exactly them, results appended, first req kept, error when more requested than produced or when the native raises, operands below untouched); TLC explores all 7800 cases and checks the protocol invariants; each case is replayed through 7 script contexts and host-side Func/Call with natives that record what they saw. Scalar round trips (boundaries + random) are table lines validated by TLC.",
   note="natives of the raw func(vm) forms cannot touch the stack from outside the package, so they are exercised with arity 0 only; wrong-arity calls of natives are covered with script functions in C09", ref="6/C19"),
 "C07": dict(cat="model_checking", tech="TLA+ GoatVMAbs.tla: TLC model-checks the stack discipline on the real compiler's exported code (all paths, both branch outcomes); TLC validates every distinct observed VM transition against the same effect table",
   text="The instruction lists produced by the real compiler (optimizer on and off) for every corpus program are the constant of GoatVMAbs.tla; TLC explores (program, region, pc, depth) taking every conditional jump both ways and checks: no read below the frame's operand base, jumps stay inside the function and outside nested function bodies, only own slots, RETURN depth = declared results, fall-off depth 0, and (from the emitted states) depth is a function of pc. The real VM then runs every program under the instruction tracer and every distinct intra-frame transition is validated by TLC against the effect table; statement-only programs must return no residual values.",
   note="the effect table is transcribed from do.go; a non-call opcode whose observed effect differs from the table is reported as exit 2 (table out of date), a call-family mismatch as a violation; corpus programs are valid Go", ref="6/C07"),
}
NOT_YET = {}
def main():
    hooks = subprocess.run(["git","-C","/repo","log","--format=%H %s"],capture_output=True,text=True).stdout.splitlines()
    src = [l.split()[0] for l in hooks if l.split(" ",1)[1].startswith("verif:")]
    m = {"version":1,
      "setup_cmd":"bin/setup",
      "hooks":{"guard":"verif","enable":"go build -tags verif (bin/check builds the harness with the tag; /repo is used through a go.mod replace directive)",
               "baseline_off_cmd":"cd /repo && go test -mod=mod -vet=off -count=1 ./...","source_commits":src,"add_only":True},
      "engines":[{"name":"vcheck","path":"/verif/harness","serves_properties":sorted(CHECKS),"kind_free_text":"Go harness driving goatlang and TLC (TLA+ specs in /verif/spec)"}],
      "checks":[], "not_applicable":[],
      "notes":"All checks: bin/check <id> quick|thorough; exit 0 held, 1 VIOLATION, 2 machinery failure. See DESIGN.md."}
    for pid in ALL:
        if pid in CHECKS:
            c = CHECKS[pid]
            m["checks"].append({"property_id":pid,"quick_cmd":"bin/check %s quick"%pid,"thorough_cmd":"bin/check %s thorough"%pid,
              "evidence_file":"/verif/evidence/%s.json"%pid,"replay_cmd_template":"bin/check %s --replay {path}"%pid,"engine":"vcheck",
              "level_claimed":{"category":c["cat"],"text":c["text"],"design_ref":c["ref"]},"level_note":c["note"],"technique":c["tech"]})
        else:
            m["not_applicable"].append({"property_id":pid,"reason":NOT_YET.get(pid,"check not built yet in this round (planned in DESIGN.md section 6); nothing is claimed for it")})
    json.dump(m, open("/verif/MANIFEST.json","w"), indent=1)
main()
