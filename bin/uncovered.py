#!/usr/bin/env python3
# usage: uncovered.py cover.txt <repo dir>  -> prints, per file, the source lines inside blocks with count 0
import sys, collections, os
prof, repo = sys.argv[1], sys.argv[2]
cov = collections.defaultdict(dict)
for l in open(prof):
    if l.startswith('mode:'): continue
    loc, nst, cnt = l.rsplit(' ', 2)
    f, rng = loc.split(':')
    if 'philhassey/goatlang/' not in f: continue
    f = os.path.basename(f)
    a, b = rng.split(',')
    sl = int(a.split('.')[0]); el = int(b.split('.')[0])
    key = (sl, int(a.split('.')[1]), el, int(b.split('.')[1]))
    cov[f][key] = max(cov[f].get(key, 0), int(cnt))
tot = unc = 0
for f in sorted(cov):
    if f.startswith('verif_'): continue
    src = open(os.path.join(repo, f)).read().split('\n')
    lines = {}
    for (sl, sc, el, ec), c in cov[f].items():
        tot += 1
        if c == 0: unc += 1
        for n in range(sl, el + 1):
            if n == el and ec <= 1: continue
            lines[n] = max(lines.get(n, 0), 1 if c else 0) if c else lines.get(n, 0)
            if c: lines[n] = 1
            else: lines.setdefault(n, 0)
    for n in sorted(lines):
        if lines[n] == 0 and src[n-1].strip() not in ('', '}', '{'):
            print(f"{f}:{n}: {src[n-1].rstrip()}")
print(f"blocks total={tot} uncovered={unc}")
