#!/usr/bin/env python3
# Rewrites the third column of the table in DESIGN.md section 0.3 from evidence/<id>.json (wall time, states, evaluations
# of the last run of each check).
import json, re
p = '/verif/DESIGN.md'
s = open(p).read()
def fmt(n):
    n = int(n)
    if n >= 10**6: return '%.1f·10^6' % (n / 1e6)
    if n >= 10**4: return '%.0f·10^3' % (n / 1e3)
    return str(n)
out = []
for line in s.split('\n'):
    m = re.match(r'^\| (C\d\d) \| (.*) \| ([^|]*) \|$', line)
    if m and 'decided by' not in line:
        try:
            e = json.load(open('/verif/evidence/%s.json' % m.group(1)))
            cov = e['coverage']
            third = '%d s (%s tier), %s evaluations, %s TLC states' % (round(e['wall_s']), e['tier'], fmt(cov.get('evaluations', 0)), fmt(cov.get('states', 0)))
            line = '| %s | %s | %s |' % (m.group(1), m.group(2), third)
        except Exception as ex:
            pass
    out.append(line)
open(p, 'w').write('\n'.join(out))
